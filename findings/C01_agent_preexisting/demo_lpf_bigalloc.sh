#!/bin/sh
# Existing behaviour on the UNMODIFIED tree: on a bigalloc filesystem, when e2fsck -fy has to
# create /lost+found, the new directory is block mapped; the following e2fsck -fn reports
# "Inode N on bigalloc filesystem cannot be block mapped" and exits 4.
T=${1:-/tmp/wt_C01}
export MKE2FS_CONFIG=$T/misc/mke2fs.conf
W=$(mktemp -d /tmp/seed_C01/ex.XXXXXX); IMG=$W/img
$T/misc/mke2fs -q -F -t ext4 -b 1024 -C 4096 -O bigalloc,^has_journal,^resize_inode $IMG 32M >/dev/null 2>&1
$T/debugfs/debugfs -w -R "rmdir lost+found" $IMG >/dev/null 2>&1
$T/e2fsck/e2fsck -fy $IMG; r1=$?
$T/e2fsck/e2fsck -fn $IMG; r2=$?
echo "fy=$r1 fn=$r2"; rm -rf $W
[ $((r1 & 60)) -eq 0 ] && [ $r2 -ne 0 ] && { echo VIOLATION; exit 1; }
exit 0

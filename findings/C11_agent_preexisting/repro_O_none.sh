#!/bin/sh
# usage: sh repro_O_none.sh <built-tree>
# UNMODIFIED code: "tune2fs -O none" (or "-O clear") is accepted and wipes every
# feature bit, bypassing clear_ok_features[] (e2p_edit_feature2 zeroes the
# arrays for the words none/clear without consulting the masks).  On a
# filesystem without metadata_csum/flex_bg the run succeeds (exit 0), clears
# extent/filetype/sparse_super/large_file/... -- features whose individual
# removal ("-O ^extent") tune2fs refuses.  The follow-up e2fsck -fy repairs the
# result (it turns extent back on), so what is violated is the validation
# against clear_ok_features[] / "changes exactly the requested setting".
T=${1:-/tmp/wt_C11}
export MKE2FS_CONFIG=$T/misc/mke2fs.conf
W=$(mktemp -d /tmp/seedC11_ex.XXXXXX); I=$W/t.img
trap 'rm -rf $W' EXIT
dd if=/dev/zero of=$I bs=1k count=16384 2>/dev/null
$T/misc/mke2fs -q -F -t ext4 -O ^flex_bg,^metadata_csum,^metadata_csum_seed $I
echo hello > $W/h
$T/debugfs/debugfs -w -R "write $W/h h" $I >/dev/null 2>&1
$T/e2fsck/e2fsck -fy $I >/dev/null 2>&1
$T/misc/dumpe2fs -h $I 2>/dev/null | grep -i '^Filesystem features'
$T/misc/tune2fs -O ^extent $I >/dev/null 2>&1; echo "tune2fs -O ^extent exit status: $? (refused, as it should be)"
$T/misc/tune2fs -O none $I; rc=$?
echo "tune2fs -O none exit status: $rc"
$T/misc/dumpe2fs -h $I 2>/dev/null | grep -i '^Filesystem features'
$T/e2fsck/e2fsck -fy $I >/dev/null 2>&1
echo "follow-up e2fsck -fy exit: $?"
$T/e2fsck/e2fsck -fn $I >/dev/null 2>&1; frc=$?
echo "second e2fsck -fn exit: $frc"
[ $rc -eq 0 ] && { echo "VIOLATION (existing): -O none accepted, cleared features outside clear_ok_features"; exit 1; }
exit 0

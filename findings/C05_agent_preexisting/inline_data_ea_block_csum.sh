#!/bin/sh
# Pre-existing defect (unmodified tree): a file with inline data that also owns
# an extended attribute BLOCK loses all its content when only the checksum
# field of that attribute block is damaged.  pass1.c (the "Test for inline data
# flag but no attr" switch) treats EXT2_ET_EXT_ATTR_CSUM_INVALID from
# get_inline_data_ea_size() like "no system.data attribute" and truncates the
# file to zero before check_ext_attr() gets to say "passes checks, but
# checksum does not match".
# usage: sh inline_data_ea_block_csum.sh <built-tree>
T=${1:-/tmp/wt_C05}
MKE2FS_CONFIG=$T/misc/mke2fs.conf; export MKE2FS_CONFIG
W=$(mktemp -d /tmp/c05_ex1.XXXXXX) || exit 2
trap 'rm -rf "$W"' EXIT
IMG=$W/fs.img
$T/misc/mke2fs -q -F -t ext4 -O inline_data,metadata_csum "$IMG" 8M || exit 2
awk 'BEGIN{for(i=0;i<99;i++) printf "x"; print ""}' > $W/small.txt     # 100 bytes: inline
awk 'BEGIN{for(i=0;i<300;i++) printf "v"}' > $W/val.txt                 # too big for the inode body
$T/debugfs/debugfs -w -f - "$IMG" >/dev/null 2>&1 <<EOF
write $W/small.txt small
ea_set -f $W/val.txt small user.big
EOF
blk=$($T/debugfs/debugfs -R "stat small" "$IMG" 2>/dev/null | awk '/File ACL:/{print $3}')
$T/e2fsck/e2fsck -fn "$IMG" >/dev/null 2>&1 || { echo "setup not clean"; exit 2; }
before=$($T/debugfs/debugfs -R "cat small" "$IMG" 2>/dev/null | cksum)
# flip h_checksum (offset 16 of the attribute block header), nothing else
python3 - "$IMG" "$blk" <<'EOF'
import struct,sys
f=open(sys.argv[1],'r+b'); off=int(sys.argv[2])*1024+16
f.seek(off); c=struct.unpack('<I',f.read(4))[0]
f.seek(off); f.write(struct.pack('<I',c^0x5a5a5a5a)); f.close()
EOF
$T/e2fsck/e2fsck -fy "$IMG"; echo "exit $?"
after=$($T/debugfs/debugfs -R "cat small" "$IMG" 2>/dev/null | cksum)
echo "content before: $before"; echo "content after : $after"
[ "$before" = "$after" ] && { echo OK; exit 0; }
echo "VIOLATION: checksum-only damage made e2fsck truncate a healthy inline-data file"; exit 1

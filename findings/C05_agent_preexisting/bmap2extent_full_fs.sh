#!/bin/sh
# Pre-existing defect (unmodified tree): on a consistent filesystem with no
# free block, "e2fsck -fy -E bmap2extent" half-converts a block-mapped file
# that needs a leaf block (more than 4 extents, no indirect block to recycle).
# extents.c:rewrite_extent_replay() zeroes i_block and inserts extent by extent;
# ext2fs_extent_insert() writes the inode every time the in-inode root changes,
# so when the 5th insert fails with ENOSPC the on-disk inode keeps only the
# first 4 extents.  The remaining blocks are dropped, the error is reported as
# "Operation not permitted" (rebuild_extent_tree() returns `a || b || c`, i.e.
# 1) and e2fsck still exits 0, leaving the filesystem inconsistent.
# usage: sh bmap2extent_full_fs.sh <built-tree>
T=${1:-/tmp/wt_C05}
MKE2FS_CONFIG=$T/misc/mke2fs.conf; export MKE2FS_CONFIG
W=$(mktemp -d /tmp/c05_ex2.XXXXXX) || exit 2
trap 'rm -rf "$W"' EXIT
IMG=$W/fs.img
$T/misc/mke2fs -q -F -t ext2 -O ^resize_inode,^dir_index -m 0 -b 1024 -N 64 "$IMG" 600 || exit 2
for i in 1 2 3 4 5 6 7 8 9 10 11 12 13 14; do head -c 1024 /dev/urandom > $W/s$i; done
head -c 6144 /dev/urandom > $W/frag.bin
head -c 700000 /dev/urandom > $W/fill.bin
{
	for i in 1 2 3 4 5 6 7 8 9 10 11 12 13 14; do echo "write $W/s$i s$i"; done
	for i in 2 4 6 8 10 12; do echo "rm s$i"; done
	echo "write $W/frag.bin frag"     # lands in the six one-block holes: 6 fragments
	echo "write $W/fill.bin fill"     # runs into ENOSPC: filesystem is now full
} | $T/debugfs/debugfs -w -f - "$IMG" >/dev/null 2>&1
$T/e2fsck/e2fsck -fy "$IMG" >/dev/null 2>&1      # settle the partly written filler
$T/e2fsck/e2fsck -fn "$IMG" >/dev/null 2>&1 || { echo "setup not clean"; exit 2; }
$T/misc/dumpe2fs -h "$IMG" 2>/dev/null | grep -i "^free blocks"
before=$($T/debugfs/debugfs -R "cat frag" "$IMG" 2>/dev/null | cksum)
$T/e2fsck/e2fsck -fy -E bmap2extent "$IMG"; st=$?; echo "exit $st"
after=$($T/debugfs/debugfs -R "cat frag" "$IMG" 2>/dev/null | cksum)
$T/debugfs/debugfs -R "stat frag" "$IMG" 2>/dev/null | tail -2
echo "content before: $before"; echo "content after : $after"
$T/e2fsck/e2fsck -fn "$IMG" >/dev/null 2>&1; echo "follow-up e2fsck -fn exit: $?"
[ "$before" = "$after" ] && { echo OK; exit 0; }
echo "VIOLATION: healthy file lost blocks during -E bmap2extent on a full filesystem"; exit 1

#!/bin/sh
# Existing defect (unmodified tree): ext2fs_bmap2() on a block-mapped file
# allocates the (d/t)indirect block, then fails with ENOSPC for the data block;
# the error path skips ext2fs_iblk_add_blocks()/ext2fs_write_inode(), so the
# indirect block stays marked in the bitmap but is never recorded in the
# on-disk inode: after close, e2fsck -fn reports block bitmap differences.
# Setup: 2 MiB ext2 fs filled so that exactly one block is free, then a
# 10-byte write at logical block 12 of a new block-mapped file.
T=${1:-/tmp/wt_C09}
HERE=$(cd "$(dirname "$0")" && pwd)
export MKE2FS_CONFIG=$T/misc/mke2fs.conf
D=$(mktemp -d /tmp/seed_C09_existing.XXXXXX)
trap 'rm -rf $D' EXIT
gcc -O1 -I$T/lib -o $D/fsops $HERE/fsops.c $T/lib/libext2fs.a $T/lib/libcom_err.a -lpthread || exit 2
$T/misc/mke2fs -q -F -t ext2 -b 1024 -m 0 $D/fs.img 2M >/dev/null || exit 2
free=$($T/misc/dumpe2fs -h $D/fs.img 2>/dev/null | awk '/^Free blocks:/{print $3}')
echo "free blocks before: $free (script assumes 1958)"
# 1948 data blocks + 9 mapping blocks = 1957 blocks, leaving one free
printf 'c big blk\nw big 0 1994752 1\nc b blk\nR\nw b 12288 10 2\n' | $D/fsops $D/fs.img 2>&1 | grep -i "ERR write"
$T/e2fsck/e2fsck -fn $D/fs.img 2>&1 | grep -A1 "bitmap differences" && { echo "INCONSISTENT after a failed write"; exit 1; }
echo consistent; exit 0

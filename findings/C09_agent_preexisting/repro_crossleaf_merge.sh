#!/bin/sh
# Existing defect (unmodified tree): ext2fs_extent_set_bmap(), "remapping last
# block in extent" with a merge into the next extent, when that next extent is
# the first entry of the NEXT leaf.  After the merge + fix_parents,
# ext2fs_extent_goto(handle, logical) descends into the next leaf (its index
# now starts at 'logical'), so the following "extent.e_len--; replace" shrinks
# the merged extent instead of the original one: a written block becomes
# unmapped (reads as zeros, its block leaks) and two extents overlap.
# Sequence: fallocate 600 blocks (uninit), write every 3rd block, then write
# the blocks == 2 mod 3 (last block of each 2-block uninit extent).
T=${1:-/tmp/wt_C09}
HERE=$(cd "$(dirname "$0")" && pwd)
export MKE2FS_CONFIG=$T/misc/mke2fs.conf
D=$(mktemp -d /tmp/seed_C09_existing.XXXXXX)
trap 'rm -rf $D' EXIT
gcc -O1 -I$T/lib -o $D/fsops $HERE/fsops.c $T/lib/libext2fs.a $T/lib/libcom_err.a -lpthread || exit 2
$T/misc/mke2fs -q -F -t ext4 -O ^has_journal -b 1024 $D/fs.img 16M || exit 2
(echo "c a ext"; echo "f a 0 600 0"; echo "t a 614400"
 for i in $(seq 0 3 599); do echo "w a $((i*1024)) 1024 $i"; done
 echo "r a"
 for i in $(seq 2 3 599); do echo "w a $((i*1024)) 1024 $i"; done
 echo "r a") > $D/script
rc=0
$D/fsops $D/fs.img < $D/script | sort -u || rc=1
$T/e2fsck/e2fsck -fn $D/fs.img 2>&1 | grep -A2 -i "bitmap differences\|overlap\|out of order" && rc=1
exit $rc

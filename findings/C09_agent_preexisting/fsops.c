/* fsops: apply a script of file operations through libext2fs and compare
 * with a byte-array model.  usage: fsops image < script
 * script lines:
 *   c NAME ext|blk|inl      create file
 *   w NAME off len seed     write pattern
 *   t NAME size             truncate/extend
 *   p NAME sblk eblk        punch blocks [sblk,eblk]
 *   f NAME sblk nblk flags  fallocate
 *   r NAME                  read whole file & compare
 *   R                       close+reopen fs
 * exit 1 on mismatch.
 */
#include <stdio.h>
#include <stdlib.h>
#include <string.h>
#include <ext2fs/ext2fs.h>

#define MAXF 8
struct mf { char name[32]; ext2_ino_t ino; unsigned char *m; size_t size; size_t cap; } F[MAXF];
int nf; ext2_filsys fs; const char *img; int bad;

static struct mf *find(const char *n){int i;for(i=0;i<nf;i++)if(!strcmp(F[i].name,n))return &F[i];fprintf(stderr,"no file %s\n",n);exit(2);}
static void ensure(struct mf *f,size_t n){ if(n>f->cap){size_t nc=n*2+4096; f->m=realloc(f->m,nc); memset(f->m+f->cap,0,nc-f->cap); f->cap=nc;} }
static void chk(errcode_t e,const char*w){ if(e){ fprintf(stderr,"ERR %s: %s\n",w,error_message(e)); bad=1; } }
static void openfs(void){ chk(ext2fs_open(img,EXT2_FLAG_RW|EXT2_FLAG_64BITS,0,0,unix_io_manager,&fs),"open"); if(!fs)exit(2); chk(ext2fs_read_bitmaps(fs),"bitmaps"); }

static void docreate(const char*name,const char*type){
  struct mf *f=&F[nf++]; struct ext2_inode_large in; errcode_t e;
  memset(f,0,sizeof*f); strcpy(f->name,name);
  chk(ext2fs_new_inode(fs,2,0100644,0,&f->ino),"new_inode");
  memset(&in,0,sizeof in); in.i_mode=0100644; in.i_links_count=1;
  in.i_extra_isize=32;
  if(!strcmp(type,"ext")) { in.i_flags|=EXT4_EXTENTS_FL; }
  if(!strcmp(type,"inl")) { in.i_flags|=EXT4_INLINE_DATA_FL; }
  if(!strcmp(type,"ext")){ ext2_extent_handle_t h; struct ext2_inode *si=(struct ext2_inode*)&in; 
     chk(ext2fs_write_new_inode(fs,f->ino,si),"wni"); in.i_flags&=~EXT4_EXTENTS_FL;
     memset(&in,0,sizeof in); chk(ext2fs_read_inode(fs,f->ino,si),"ri"); si->i_flags&=~EXT4_EXTENTS_FL; memset(si->i_block,0,sizeof si->i_block);
     chk(ext2fs_extent_open2(fs,f->ino,si,&h),"eo"); ext2fs_extent_free(h); chk(ext2fs_write_inode(fs,f->ino,si),"wi"); }
  else chk(ext2fs_write_new_inode(fs,f->ino,(struct ext2_inode*)&in),"wni");
  if(!strcmp(type,"inl")) chk(ext2fs_inline_data_init(fs,f->ino),"inl init");
  ext2fs_inode_alloc_stats2(fs,f->ino,1,0);
  e=ext2fs_link(fs,2,name,f->ino,EXT2_FT_REG_FILE);
  if(e==EXT2_ET_DIR_NO_SPACE){ chk(ext2fs_expand_dir(fs,2),"expand"); e=ext2fs_link(fs,2,name,f->ino,EXT2_FT_REG_FILE);} chk(e,"link");
}
static void dowrite(struct mf*f,unsigned long long off,unsigned len,unsigned seed){
  ext2_file_t fl; unsigned char*b=malloc(len+1); unsigned i,w=0; errcode_t e;
  for(i=0;i<len;i++) b[i]=(unsigned char)(1+((seed*131+i*7+ (i>>8))%255));
  chk(ext2fs_file_open(fs,f->ino,EXT2_FILE_WRITE,&fl),"fopen");
  chk(ext2fs_file_llseek(fl,off,EXT2_SEEK_SET,0),"seek");
  e=ext2fs_file_write(fl,b,len,&w); chk(e,"write"); chk(ext2fs_file_close(fl),"fclose");
  if(w!=len){fprintf(stderr,"short write %u/%u\n",w,len);bad=1;}
  ensure(f,off+len); if(off>f->size) memset(f->m+f->size,0,off-f->size);
  memcpy(f->m+off,b,len); if(off+len>f->size)f->size=off+len; free(b);
}
static void dotrunc(struct mf*f,unsigned long long sz){
  ext2_file_t fl; chk(ext2fs_file_open(fs,f->ino,EXT2_FILE_WRITE,&fl),"fopen");
  chk(ext2fs_file_set_size2(fl,sz),"setsize"); chk(ext2fs_file_close(fl),"fclose");
  ensure(f,sz); if(sz>f->size) memset(f->m+f->size,0,sz-f->size); else memset(f->m+sz,0,f->size-sz); f->size=sz;
}
static void dopunch(struct mf*f,unsigned long long s,unsigned long long e){
  unsigned long long a=s*fs->blocksize,b=(e+1)*fs->blocksize;
  chk(ext2fs_punch(fs,f->ino,0,0,s,e),"punch");
  if(b>f->size)b=f->size; if(a<b) memset(f->m+a,0,b-a);
}
static void dofalloc(struct mf*f,unsigned long long s,unsigned long long n,int flags){
  chk(ext2fs_fallocate(fs,flags,f->ino,0,~0ULL,s,n),"fallocate");
}
static void doread(struct mf*f){
  ext2_file_t fl; unsigned got=0; unsigned char*b=malloc(f->size+8192); __u64 sz; size_t i;
  chk(ext2fs_file_open(fs,f->ino,0,&fl),"fopen"); chk(ext2fs_file_get_lsize(fl,&sz),"lsize");
  chk(ext2fs_file_read(fl,b,f->size+4096,&got),"read"); ext2fs_file_close(fl);
  if(sz!=f->size||got!=f->size){printf("MISMATCH %s: size model=%zu inode=%llu read=%u\n",f->name,f->size,(unsigned long long)sz,got);bad=1;}
  for(i=0;i<f->size&&i<got;i++) if(b[i]!=f->m[i]){printf("MISMATCH %s: byte %zu (block %zu) model=%02x read=%02x\n",f->name,i,i/fs->blocksize,f->m[i],b[i]);bad=1;break;}
  free(b);
}
int main(int argc,char**argv){
  char line[256],op[8],name[32],t[16]; unsigned long long a,b; unsigned c; int i;
  img=argv[1]; initialize_ext2_error_table(); openfs();
  while(fgets(line,sizeof line,stdin)){
    if(line[0]=='#'||line[0]=='\n')continue;
    if(sscanf(line,"c %31s %15s",name,t)==2&&line[0]=='c') docreate(name,t);
    else if(sscanf(line,"w %31s %llu %llu %u",name,&a,&b,&c)==4&&line[0]=='w') dowrite(find(name),a,b,c);
    else if(sscanf(line,"t %31s %llu",name,&a)==2&&line[0]=='t') dotrunc(find(name),a);
    else if(sscanf(line,"p %31s %llu %llu",name,&a,&b)==3&&line[0]=='p') dopunch(find(name),a,b);
    else if(sscanf(line,"f %31s %llu %llu %u",name,&a,&b,&c)==4&&line[0]=='f') dofalloc(find(name),a,b,c);
    else if(sscanf(line,"r %31s",name)==1&&line[0]=='r') doread(find(name));
    else if(line[0]=='R'){ chk(ext2fs_close(fs),"close"); openfs(); }
    else {fprintf(stderr,"bad line %s",line);exit(2);}
  }
  for(i=0;i<nf;i++) doread(&F[i]);
  chk(ext2fs_close(fs),"close");
  openfs(); for(i=0;i<nf;i++) doread(&F[i]); ext2fs_close(fs);
  printf(bad?"RESULT: MISMATCH\n":"RESULT: ok\n");
  return bad;
}

#!/bin/sh
# Existing behaviour (unmodified tree): mke2fs -E offset=N without an explicit
# size computes blocks = device_blocks - floor(offset / blocksize).  When the
# offset is not a multiple of the block size the file system ends up to
# blocksize-1 bytes past the end of the device (a regular file is silently
# grown; a real block device has its last block out of range).
# usage: sh offset_round.sh <path-to-built-tree>
T=${1:-/tmp/wt_C07}
MKE2FS_CONFIG=$T/misc/mke2fs.conf; export MKE2FS_CONFIG
D=$(mktemp -d /tmp/seed_C07_ex.XXXXXX) || exit 2
trap 'rm -rf "$D"' EXIT
OFF=1000000
truncate -s 64M "$D/img"
before=$(stat -c %s "$D/img")
"$T/misc/mke2fs" -q -F -t ext4 -E offset=$OFF "$D/img" >/dev/null 2>&1 || exit 2
after=$(stat -c %s "$D/img")
SB=$((OFF + 1024))
bc=$(od -An -tu4 -j $((SB + 4)) -N 4 "$D/img" | tr -d ' ')
lbs=$(od -An -tu4 -j $((SB + 24)) -N 4 "$D/img" | tr -d ' ')
bs=$((1024 << lbs))
end=$((OFF + bc * bs))
echo "device size $before, after mke2fs $after; offset $OFF + $bc blocks * $bs = $end"
if [ "$end" -gt "$before" ]; then
	echo "file system extends $((end - before)) bytes past the end of the device"
	exit 1
fi
exit 0

#!/bin/sh
# Existing behaviour (unmodified tree): mke2fs -O quota,inline_data -d <dir>
# where <dir> holds a symlink whose target is 60 bytes or longer (stored as an
# inline-data symlink).  mke2fs accounts the symlink inode in the quota files,
# e2fsck pass 1 does not (it skips quota accounting for inline-data symlinks),
# so e2fsck -fn on the fresh file system reports
#   [QUOTA WARNING] Usage inconsistent for ID 0:actual (N, 2) != expected (N, 3)
# and exits 4.
# usage: sh inline_symlink_quota.sh <path-to-built-tree>
T=${1:-/tmp/wt_C07}
MKE2FS_CONFIG=$T/misc/mke2fs.conf; export MKE2FS_CONFIG
D=$(mktemp -d /tmp/seed_C07_ex.XXXXXX) || exit 2
trap 'rm -rf "$D"' EXIT
mkdir "$D/short" "$D/long"
ln -s "$(printf 'x%.0s' $(seq 1 59))" "$D/short/sl"
ln -s "$(printf 'x%.0s' $(seq 1 80))" "$D/long/sl"
bad=0
for which in short long; do
	rm -f "$D/img"
	"$T/misc/mke2fs" -q -F -t ext4 -O quota,inline_data -d "$D/$which" "$D/img" 64M >/dev/null 2>&1 || exit 2
	"$T/e2fsck/e2fsck" -fn "$D/img" > "$D/out" 2>&1
	rc=$?
	echo "$which symlink target: e2fsck -fn exit $rc"
	if [ $rc -ne 0 ]; then grep QUOTA "$D/out" | sed 's/^/    /'; bad=1; fi
done
exit $bad

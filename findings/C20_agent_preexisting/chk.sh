#!/bin/sh
# usage: chk.sh tree img blocksize : for each backup sb reported by dumpe2fs, destroy primary, recover with -b, verify
T=$1; IMG=$2; BS=$3
export MKE2FS_CONFIG=$T/misc/mke2fs.conf
rc=0
$T/e2fsck/e2fsck -fn $IMG >/dev/null 2>&1 || { echo "  pre: fs not clean"; $T/e2fsck/e2fsck -fn $IMG 2>&1 | tail -4; rc=1; }
for b in $($T/misc/dumpe2fs $IMG 2>/dev/null | sed -n 's/.*Backup superblock at \([0-9]*\),.*/\1/p'); do
	cp $IMG $IMG.t
	dd if=/dev/zero of=$IMG.t bs=$BS count=3 conv=notrunc 2>/dev/null
	$T/e2fsck/e2fsck -fy -b $b -B $BS $IMG.t >$IMG.log 2>&1; r=$?
	$T/e2fsck/e2fsck -fn $IMG.t >$IMG.log2 2>&1; r2=$?
	n=$(grep -c . $IMG.log)
	if [ $r -ge 4 ] || [ $r2 -ne 0 ]; then echo "  backup $b: e2fsck -b rc=$r, recheck rc=$r2"; grep -v "^Pass\|^$" $IMG.log | head -6; rc=1; fi
	# any file lost? compare file list
	$T/debugfs/debugfs -R "ls -l /" $IMG 2>/dev/null | awk '{print $1,$6,$NF}' > $IMG.l1
	$T/debugfs/debugfs -R "ls -l /" $IMG.t 2>/dev/null | awk '{print $1,$6,$NF}' > $IMG.l2
	cmp -s $IMG.l1 $IMG.l2 || { echo "  backup $b: root listing differs"; rc=1; }
done
rm -f $IMG.t $IMG.log $IMG.log2 $IMG.l1 $IMG.l2
exit $rc

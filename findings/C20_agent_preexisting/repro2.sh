#!/bin/sh
# Existing defect (unmodified tree): for 32 KiB and 64 KiB block sizes the default group size
# is 65528 blocks (capped), not 8*blocksize, but e2fsck get_backup_sb() probes grp*blocksize*8.
# So with the primary superblock destroyed, plain e2fsck never finds a backup on a default-geometry
# 32k/64k-block filesystem (and the suggested -b 8193 / 32768 hints are wrong too).
T=${1:-/tmp/wt_C20}
export MKE2FS_CONFIG=$T/misc/mke2fs.conf
W=$(mktemp -d /tmp/seed_C20/existing/work.XXXXXX); trap 'rm -rf "$W"' EXIT
rc=0
for BS in 32768 65536; do
	$T/misc/mke2fs -q -F -t ext4 -O ^has_journal -N 256 -E lazy_itable_init=1,nodiscard -b $BS $W/img 200000 >/dev/null 2>&1 || exit 2
	$T/misc/dumpe2fs $W/img 2>/dev/null | grep -E "Blocks per group|Backup superblock" | head -2
	dd if=/dev/zero of=$W/img bs=$BS count=2 conv=notrunc 2>/dev/null
	$T/e2fsck/e2fsck -fy $W/img >$W/log 2>&1; r=$?
	echo "blocksize $BS: plain e2fsck exit $r"
	[ $r -ge 4 ] && { echo "DEFECT: backup at 65528 not found automatically"; rc=1; }
	$T/e2fsck/e2fsck -fy -b 65528 -B $BS $W/img >/dev/null 2>&1; echo "  explicit -b 65528 -B $BS: exit $?"
	rm -f $W/img
done
exit $rc

#!/bin/sh
# Existing defect (unmodified tree): sparse_super2 with a single backup group.
# mke2fs -E num_backup_sb=1 (and also any 2-group sparse_super2 fs) stores the one backup
# group in s_backup_bgs[1] with s_backup_bgs[0]==0 (ext2fs_initialize sorts the pair).
# resize2fs adjust_fs_info() treats a non-zero s_backup_bgs[1] as "the last-group backup" and
# moves it to the new last group when growing, but clear_sparse_super2_last_group() only
# releases blocks when the old backup group was the old LAST group.  Result: group 1's
# sb/gdt/reserved-gdt blocks stay allocated (e2fsck: block bitmap differences), the only
# backup silently migrates from group 1 to the last group, and a stale superblock with the
# old geometry is left at block 8193.
T=${1:-/tmp/wt_C20}
export MKE2FS_CONFIG=$T/misc/mke2fs.conf
W=$(mktemp -d /tmp/seed_C20/existing/work.XXXXXX); trap 'rm -rf "$W"' EXIT
I=$W/img
$T/misc/mke2fs -q -F -t ext4 -O sparse_super2 -E num_backup_sb=1 -b 1024 $I 40000 || exit 2
echo "after mke2fs: s_backup_bgs = $(od -A n -t u4 -j $((1024+588)) -N 8 $I)"
$T/resize/resize2fs $I 60000 >/dev/null 2>&1 || exit 2
echo "after resize2fs 40000->60000: s_backup_bgs = $(od -A n -t u4 -j $((1024+588)) -N 8 $I)"
$T/misc/dumpe2fs $I 2>/dev/null | grep "Backup superblock"
if $T/e2fsck/e2fsck -fn $I >$W/log 2>&1; then echo "fs consistent after resize2fs"; exit 0; fi
echo "DEFECT: filesystem inconsistent right after resize2fs:"; grep -A1 "differences" $W/log
echo "stale superblock left at 8193 says blocks_count = $(od -A n -t u4 -j $((8193*1024+4)) -N 4 $I)"
exit 1

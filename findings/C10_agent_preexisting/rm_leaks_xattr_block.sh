#!/bin/sh
# Existing defect (unmodified tree): debugfs "rm" of a file that owns an
# external xattr block releases the inode and data blocks but not the
# xattr block (kill_file_by_inode() ignores i_file_acl), so the removed
# object does not release all of its blocks; e2fsck -fn then reports
# "Block bitmap differences: -N".
# usage: sh rm_leaks_xattr_block.sh <built-tree> ; exit 1 = defect shown
T=$1; export MKE2FS_CONFIG=$T/misc/mke2fs.conf
W=$(mktemp -d); trap 'rm -rf $W' EXIT
$T/misc/mke2fs -q -F -t ext4 -b 1024 -O ^has_journal $W/img 8M || exit 2
awk 'BEGIN{for(i=0;i<600;i++)printf "x"; print ""}' > $W/val
$T/debugfs/debugfs -w -R "write /dev/null f" $W/img >/dev/null 2>&1
$T/debugfs/debugfs -w -R "ea_set -f $W/val f user.big" $W/img >/dev/null 2>&1
$T/debugfs/debugfs -R "stat f" $W/img 2>/dev/null | grep "File ACL"
$T/e2fsck/e2fsck -fn $W/img >/dev/null 2>&1 || { echo "not clean before rm"; exit 2; }
$T/debugfs/debugfs -w -R "rm f" $W/img >/dev/null 2>&1
$T/e2fsck/e2fsck -fn $W/img > $W/out 2>&1; rc=$?
grep -A1 "bitmap differences" $W/out
echo "e2fsck -fn exit $rc"
[ $rc -eq 0 ] && exit 0
exit 1

#!/bin/sh
# Existing defect (unmodified tree): ext2fs_mkdir() increments the parent's
# i_links_count unconditionally; it neither stops at EXT2_LINK_MAX (65000)
# nor switches to the dir_nlink convention (links_count = 1).  After 64999+
# subdirectories are created in one directory through debugfs the parent's
# link count is > 65000 and e2fsck -fn reports
# "Inode N ref count is 65012, should be 1" (and it would wrap at 65536).
# Takes about a minute.
# usage: sh mkdir_link_max.sh <built-tree> ; exit 1 = defect shown
T=$1; export MKE2FS_CONFIG=$T/misc/mke2fs.conf
W=$(mktemp -d); trap 'rm -rf $W' EXIT
$T/misc/mke2fs -q -F -t ext4 -b 4096 -N 70000 -O ^has_journal,^metadata_csum $W/img 600M || exit 2
(echo "mkdir p"; echo "cd p"; i=1; while [ $i -le 65010 ]; do echo "mkdir s$i"; i=$((i+1)); done) > $W/cmds
$T/debugfs/debugfs -w -f $W/cmds $W/img >/dev/null 2>&1
$T/debugfs/debugfs -R "stat p" $W/img 2>/dev/null | grep Links
$T/e2fsck/e2fsck -fn $W/img > $W/out 2>&1; rc=$?
grep "ref count" $W/out
echo "e2fsck -fn exit $rc"
[ $rc -eq 0 ] && exit 0
exit 1

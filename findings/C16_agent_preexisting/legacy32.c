/* Unmodified-tree candidates, legacy 32-bit bitmaps (no EXT2_FLAG_64BITS):
 *  (a) shrink then grow leaves stale bits of the last byte set
 *  (b) get/set range with a start that is not a multiple of 8 is misaligned
 * Each is compared with the 64-bit bitarray backend doing the same ops. */
#include <stdio.h>
#include <string.h>
#include "ext2fs/ext2_fs.h"
#include "ext2fs/ext2fs.h"

static ext2_filsys mkfs(int flags)
{
	struct ext2_super_block param;
	ext2_filsys fs;
	memset(&param, 0, sizeof(param));
	ext2fs_blocks_count_set(&param, 8192);
	param.s_log_block_size = 2;
	if (ext2fs_initialize("test fs", flags, &param, test_io_manager, &fs))
		return NULL;
	return fs;
}

int main(void)
{
	int bad = 0, pass;
	for (pass = 0; pass < 2; pass++) {
		ext2_filsys fs = mkfs(pass ? EXT2_FLAG_64BITS : 0);
		ext2fs_block_bitmap bm;
		const char *nm = pass ? "64-bit bitarray" : "legacy 32-bit";
		unsigned char buf[4];
		unsigned i;
		int t;

		if (!fs) return 2;
		fs->default_bitmap_type = EXT2FS_BMAP64_BITARRAY;
		if (ext2fs_allocate_block_bitmap(fs, "demo", &bm)) return 2;

		/* (a) */
		ext2fs_mark_block_bitmap_range2(bm, 0, 64);
		ext2fs_resize_block_bitmap2(10, 10, bm);
		ext2fs_resize_block_bitmap2(100, 100, bm);
		for (i = 11; i <= 100; i++) {
			t = !!ext2fs_test_block_bitmap2(bm, i);
			if (t) {
				printf("%s: (a) after shrink to 10 and grow to 100, bit %u reads 1 (a set would say 0)\n", nm, i);
				bad++;
				break;
			}
		}
		/* (b) */
		ext2fs_clear_block_bitmap(bm);
		ext2fs_mark_block_bitmap2(bm, 21);
		memset(buf, 0, sizeof(buf));
		ext2fs_get_block_bitmap_range2(bm, 19, 8, buf);
		/* bit 21 is index 2 of the range starting at 19 */
		if (buf[0] != 0x04) {
			printf("%s: (b) get_range(start=19,num=8) with only bit 21 set returned byte 0x%02x, expected 0x04\n", nm, buf[0]);
			bad++;
		}
		ext2fs_free_block_bitmap(bm);
		ext2fs_free(fs);
	}
	printf(bad ? "PROPERTY VIOLATED (unmodified tree)\n" : "no mismatch\n");
	return bad ? 1 : 0;
}

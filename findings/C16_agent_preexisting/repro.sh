#!/bin/sh
T=${1:-/tmp/wt_C16}
D=$(cd "$(dirname "$0")" && pwd)
W=$(mktemp -d /tmp/seed_C16_ex.XXXXXX)
cc -O0 -g -I"$T/lib" -o "$W/t" "$D/legacy32.c" "$T/lib/libext2fs.a" "$T/lib/libcom_err.a" -lpthread || exit 2
"$W/t"; rc=$?
rm -rf "$W"; exit $rc

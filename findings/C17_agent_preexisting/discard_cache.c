/* unix_discard() neither flushes nor invalidates the block cache: a clean
 * cached copy of a discarded block keeps being served, while the backing file
 * reads back as zeroes (reads through the channel and the file disagree, and
 * the answer changes once the entry is evicted). */
#include <stdio.h>
#include <string.h>
#include <unistd.h>
#include <fcntl.h>
#include "ext2fs/ext2fs.h"
#define BS 1024
int main(int argc, char **argv)
{
	io_channel ch; char a[BS], r[BS], r2[BS], f[BS]; errcode_t err; int fd, i;
	fd = open(argv[1], O_RDWR|O_CREAT|O_TRUNC, 0600);
	ftruncate(fd, 64 * BS);
	unix_io_manager->open(argv[1], IO_FLAG_RW, &ch);
	io_channel_set_blksize(ch, BS);
	memset(a, 'A', BS);
	io_channel_write_blk64(ch, 5, 1, a);
	io_channel_flush(ch);			/* entry stays cached, clean */
	err = io_channel_discard(ch, 5, 1);
	printf("discard: %s\n", err ? error_message(err) : "OK");
	if (err) return 0;
	io_channel_read_blk64(ch, 5, 1, r);
	pread(fd, f, BS, 5 * BS);
	printf("read via channel: 0x%02x, backing file: 0x%02x\n", r[0] & 0xff, f[0] & 0xff);
	for (i = 20; i < 30; i++) io_channel_read_blk64(ch, i, 1, r2);	/* evict */
	io_channel_read_blk64(ch, 5, 1, r2);
	printf("same read after eviction: 0x%02x\n", r2[0] & 0xff);
	io_channel_close(ch);
	return (r[0] != f[0] || r[0] != r2[0]);
}

#!/bin/sh
T=${1:-/tmp/wt_C17}; D=$(dirname "$0"); W=$(mktemp -d /tmp/seed_C17_ex.XXXXXX)
cc -O0 -I"$T/lib" -o "$W/d" "$D/discard_cache.c" "$T/lib/libext2fs.a" "$T/lib/libcom_err.a" -lpthread || exit 2
"$W/d" "$W/img"; rc=$?; rm -rf "$W"; exit $rc

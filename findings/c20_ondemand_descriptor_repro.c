/* 1k-block bigalloc filesystem with more than one (old-style) descriptor block: the descriptors that
 * ext2fs_group_desc() reads on demand (filesystem opened with EXT2_FLAG_SUPER_ONLY) must be the ones a full open loads */
#include <stdio.h>
#include "ext2fs/ext2_fs.h"
#include "ext2fs/ext2fs.h"
int main(int argc, char **argv)
{
	ext2_filsys a, b;
	dgrp_t g;
	int bad = 0;
	if (ext2fs_open(argv[1], EXT2_FLAG_64BITS, 0, 0, unix_io_manager, &a)) return 2;
	if (ext2fs_open(argv[1], EXT2_FLAG_64BITS | EXT2_FLAG_SUPER_ONLY, 0, 0, unix_io_manager, &b)) return 2;
	for (g = 0; g < a->group_desc_count; g++) {
		unsigned long long x = ext2fs_inode_table_loc(a, g), y = ext2fs_inode_table_loc(b, g);
		if (x != y) {
			if (bad++ < 3)
				printf("group %u: inode table at %llu, on-demand read says %llu (descriptor block read from %llu)\n", g, x, y,
				       (unsigned long long) ext2fs_descriptor_block_loc2(b, b->super->s_first_data_block, g / EXT2_DESC_PER_BLOCK(b->super)));
		}
	}
	printf("%d of %u groups differ\n", bad, a->group_desc_count);
	return bad != 0;
}

#!/bin/sh
# Unmodified tree: removing the last attribute that lives in the external xattr
# block does not release the block (ext2fs_xattrs_write: the "xattrs shrunk, free
# the block" branch is unreachable because block_buf is always set when i_file_acl != 0).
T=${1:-/tmp/wt_C15}
export MKE2FS_CONFIG=$T/misc/mke2fs.conf
D=$(mktemp -d /tmp/seed_C15/existing/r.XXXXXX); IMG=$D/img
$T/misc/mke2fs -q -F -t ext4 -I 128 -b 1024 $IMG 2048 >/dev/null 2>&1
echo hello > $D/f
$T/debugfs/debugfs -w $IMG -R "write $D/f f" >/dev/null 2>&1
$T/debugfs/debugfs -w $IMG -R "ea_set f user.a 1234" >/dev/null 2>&1
$T/debugfs/debugfs -w $IMG -R "ea_rm f user.a" >/dev/null 2>&1
acl=$($T/debugfs/debugfs $IMG -R "stat f" 2>/dev/null | sed -n 's/.*File ACL: \([0-9]*\).*/\1/p')
echo "after removing the only attribute: File ACL = $acl (an empty xattr block is still attached and allocated)"
rm -rf $D
[ "$acl" = 0 ] && exit 0 || exit 1

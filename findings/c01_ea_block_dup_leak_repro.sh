#!/bin/sh
# Pristine-tree C01 violation: an xattr block that is also claimed as a data
# block by another file.  pass1b clones it for BOTH owners and leaks the
# original block; e2fsck -fy exits 1, following -fn reports "Block bitmap differences: -N", exit 4.
T=${1:-/tmp/wt_C01}; IMG=${2:-/tmp/seed_C01/work/ea_dup.img}
export MKE2FS_CONFIG=$T/misc/mke2fs.conf
rm -f $IMG
$T/misc/mke2fs -q -F -t ext4 -O ^has_journal,^metadata_csum,^extent,^64bit,^flex_bg -I 128 -b 1024 $IMG 4M >/dev/null 2>&1
echo hello > /tmp/seed_C01/work/f.txt; head -c 3000 /dev/zero | tr '\0' x > /tmp/seed_C01/work/data.bin
$T/debugfs/debugfs -w -f - $IMG >/dev/null 2>&1 <<EOF
write /tmp/seed_C01/work/f.txt A
write /tmp/seed_C01/work/data.bin C
ea_set A user.foo bar
EOF
ACL=$($T/debugfs/debugfs -R "stat A" $IMG 2>/dev/null | sed -n 's/^File ACL: \([0-9]*\).*/\1/p')
$T/debugfs/debugfs -w -f - $IMG >/dev/null 2>&1 <<EOF
sif C block[3] $ACL
sif C size 4096
sif C blocks 8
EOF
$T/e2fsck/e2fsck -fy $IMG >/dev/null 2>&1; echo "e2fsck -fy: $?"
$T/e2fsck/e2fsck -fn $IMG 2>&1 | grep -v "^Pass\|^e2fsck"; 

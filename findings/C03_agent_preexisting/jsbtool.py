#!/usr/bin/env python3
# tiny helper: patch fields of an internal journal's superblock (and fix its
# crc32c when the journal uses csum v2/v3), or flip a byte in a log block.
# usage: jsbtool.py IMG BLOCKSIZE JSB_PHYS_BLOCK op args...
#   setbits OFF MASK      (32-bit big-endian field at OFF |= MASK)
#   set32 OFF VAL
#   flip LOGBLK OFF       (xor 0xff into byte OFF of contiguous log block LOGBLK)
import sys, struct
def crc32c(crc, data):
    for b in data:
        crc ^= b
        for _ in range(8):
            crc = (crc >> 1) ^ (0x82F63B78 if crc & 1 else 0)
    return crc
img, bs, jb, op = sys.argv[1], int(sys.argv[2]), int(sys.argv[3]), sys.argv[4]
f = open(img, 'r+b')
def rd(off, n): f.seek(jb*bs+off); return f.read(n)
def wr(off, b): f.seek(jb*bs+off); f.write(b)
if op == 'flip':
    lb, off = int(sys.argv[5]), int(sys.argv[6])
    f.seek((jb+lb)*bs+off); c = f.read(1)
    f.seek((jb+lb)*bs+off); f.write(bytes([c[0]^0xff]))
    sys.exit(0)
off = int(sys.argv[5], 0); val = int(sys.argv[6], 0)
cur = struct.unpack('>I', rd(off, 4))[0]
wr(off, struct.pack('>I', (cur | val) if op == 'setbits' else val))
inc = struct.unpack('>I', rd(40, 4))[0]
if inc & 0x18:            # csum v2 / v3: refresh s_checksum (offset 0xFC)
    sb = bytearray(rd(0, 1024)); sb[0xFC:0x100] = b'\0\0\0\0'
    wr(0xFC, struct.pack('>I', crc32c(0xFFFFFFFF, bytes(sb))))

#!/bin/sh
# Pre-existing (unmodified tree, same as the kernel code): async_commit + csum v3,
# transactions 1,2,3 committed; commit blocks of 2 AND 3 have bad checksums.
# do_one_pass() chksum_error: overwrites info->end_transaction at every failing
# commit block when async_commit is set (the have_end guard exists only for the
# v1 checksum path), so end_transaction becomes 3 and checksum-invalid
# transaction 2 IS replayed.  With only commit 2 corrupted replay stops at 2.
T=${1:-/tmp/wt_C03}; export MKE2FS_CONFIG=$T/misc/mke2fs.conf
D=$(dirname "$0"); W=$(mktemp -d /tmp/c03as.XXXXXX); trap 'rm -rf "$W"' EXIT
$T/misc/mke2fs -q -F -o Linux -b 1024 -O has_journal,metadata_csum -J size=4 -T ext4 $W/h.img 16384
jb=$($T/debugfs/debugfs -R "bmap <8> 0" $W/h.img 2>/dev/null)
yes OLDOLD! | head -c 3072 | dd of=$W/h.img bs=1024 seek=5000 conv=notrunc 2>/dev/null
yes TXN-ONE | head -c 1024 > $W/t1.bin; yes TXN-TWO | head -c 1024 > $W/t2.bin; yes TXN-3!! | head -c 1024 > $W/t3.bin
printf 'jo -c\njw -b 5000 %s\njc\njo\njw -b 5001 %s\njc\njo\njw -b 5002 %s\njc\n' $W/t1.bin $W/t2.bin $W/t3.bin > $W/cmds
$T/debugfs/debugfs -w -f $W/cmds $W/h.img >/dev/null 2>&1
python3 $D/jsbtool.py $W/h.img 1024 $jb setbits 40 0x4      # async_commit
python3 $D/jsbtool.py $W/h.img 1024 $jb flip 6 100          # commit block of txn 2
python3 $D/jsbtool.py $W/h.img 1024 $jb flip 9 100          # commit block of txn 3
cp $W/h.img $W/d.img
$T/e2fsck/e2fsck -fy $W/h.img >/dev/null 2>&1; $T/debugfs/debugfs -w -R jr $W/d.img >/dev/null 2>&1
rc=0
for f in h d; do for i in 0 1 2; do
  c=$(dd if=$W/$f.img bs=1024 skip=$((5000+i)) count=1 2>/dev/null | head -c 7)
  echo "$f (h=e2fsck d=debugfs) block $((5000+i)): $c"
  [ $i = 1 ] && [ "$c" != "OLDOLD!" ] && rc=1
done; done
[ $rc = 1 ] && echo "transaction 2 (invalid commit checksum) was replayed"
exit $rc

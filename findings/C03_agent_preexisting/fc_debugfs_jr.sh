#!/bin/sh
# Pre-existing (unmodified tree): debugfs "jr" on a journal whose superblock has
# JBD2_FEATURE_INCOMPAT_FAST_COMMIT set replays nothing, silently, yet empties
# the journal and clears needs_recovery.  e2fsck replays the same journal fine.
# Cause: debugfs/journal.c:ext2fs_journal_load() never sets j_fc_first/j_fc_last
# (e2fsck_journal_load() does), and recovery.c's wrap() uses j_fc_last (== 0)
# when the feature is set, so every wrap() call adds j_first to the log offset.
T=${1:-/tmp/wt_C03}; export MKE2FS_CONFIG=$T/misc/mke2fs.conf
D=$(dirname "$0"); W=$(mktemp -d /tmp/c03fc.XXXXXX); trap 'rm -rf "$W"' EXIT
$T/misc/mke2fs -q -F -o Linux -b 1024 -O has_journal,fast_commit,^metadata_csum -J size=4 -T ext4 $W/f.img 16384
jb=$($T/debugfs/debugfs -R "bmap <8> 0" $W/f.img 2>/dev/null)
python3 $D/jsbtool.py $W/f.img 1024 $jb setbits 40 0x20     # what the kernel sets on mount
yes OLDOLD! | head -c 2048 | dd of=$W/f.img bs=1024 seek=5000 conv=notrunc 2>/dev/null
yes NEWDATA | head -c 2048 > $W/new.bin
printf 'jo\njw -b 5000,5001 %s\njc\n' $W/new.bin > $W/cmds
$T/debugfs/debugfs -w -f $W/cmds $W/f.img >/dev/null 2>&1
cp $W/f.img $W/g.img
$T/e2fsck/e2fsck -fy $W/f.img >/dev/null 2>&1
$T/debugfs/debugfs -w -R jr $W/g.img
rc=0
for f in f g; do
  printf "%s (f=e2fsck g=debugfs) block 5000: " $f; dd if=$W/$f.img bs=1024 skip=5000 count=1 2>/dev/null | head -c 7; echo
  $T/misc/dumpe2fs -h $W/$f.img 2>/dev/null | grep "^Journal start"
  dd if=$W/$f.img bs=1024 skip=5000 count=2 2>/dev/null | cmp -s - $W/new.bin || rc=1
done
exit $rc

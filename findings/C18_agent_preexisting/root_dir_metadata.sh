#!/bin/sh
# usage: sh root_dir_metadata.sh <path-to-built-tree>
# mke2fs -d: mode / owner / mtime of the top-level source directory are not
# transferred to the image's root directory (only its xattrs are).
T=${1:-/tmp/wt_C18}
MKE2FS_CONFIG=$T/misc/mke2fs.conf; export MKE2FS_CONFIG
W=$(mktemp -d /tmp/seed_C18/existing/w.XXXXXX) || exit 2
trap 'rm -rf "$W"' EXIT
mkdir "$W/src"; echo x > "$W/src/f"
chmod 1750 "$W/src"; chown 1234:4321 "$W/src" 2>/dev/null; touch -d '2001-02-03 04:05:06 UTC' "$W/src"
echo "host root: $(stat -c 'mode=%a uid=%u gid=%g mtime=%Y' "$W/src")"
$T/misc/mke2fs -q -F -t ext4 -d "$W/src" "$W/img" 8M || exit 2
out=$($T/debugfs/debugfs -R "stat /" "$W/img" 2>/dev/null | sed -n '1,3p;/mtime/p')
echo "$out"
echo "$out" | grep -q 'Mode:  *1750' || { echo "VIOLATION: root directory mode/owner/mtime not taken from the source directory"; exit 1; }
exit 0

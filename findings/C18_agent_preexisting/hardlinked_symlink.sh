#!/bin/sh
# usage: sh hardlinked_symlink.sh <path-to-built-tree>
# A symlink with two names (hard-linked symlink) in the host tree is stored by
# mke2fs -d as two separate symlink inodes: the hard-link group is lost
# (__populate_fs() excludes S_ISLNK from hard-link detection).
T=${1:-/tmp/wt_C18}
MKE2FS_CONFIG=$T/misc/mke2fs.conf; export MKE2FS_CONFIG
W=$(mktemp -d /tmp/seed_C18/existing/w.XXXXXX) || exit 2
trap 'rm -rf "$W"' EXIT
mkdir "$W/src"
ln -s target "$W/src/s1"
ln "$W/src/s1" "$W/src/s2" || exit 2
echo "host: $(stat -c '%n ino=%i nlink=%h' "$W/src/s1" "$W/src/s2" | tr '\n' ' ')"
$T/misc/mke2fs -q -F -t ext4 -d "$W/src" "$W/img" 8M || exit 2
$T/debugfs/debugfs -R "ls -l /" "$W/img" 2>/dev/null | grep ' s[12]$'
i1=$($T/debugfs/debugfs -R "ls -l /" "$W/img" 2>/dev/null | awk '$NF=="s1"{print $1}')
i2=$($T/debugfs/debugfs -R "ls -l /" "$W/img" 2>/dev/null | awk '$NF=="s2"{print $1}')
if [ "$i1" != "$i2" ]; then
	echo "VIOLATION: s1 and s2 are one inode on the host but inodes $i1 and $i2 in the image"
	exit 1
fi
echo "hard-link group kept"
exit 0

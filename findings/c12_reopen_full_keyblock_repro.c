#include <stdio.h>
#include <stdlib.h>
#include <string.h>
#include "ext2fs/ext2fs.h"
static void die(const char *m, errcode_t e){ fprintf(stderr,"%s: %ld\n",m,(long)e); exit(2);}
int main(int argc, char **argv)
{
	io_channel ch; errcode_t r; char buf[1024]; int i, n = atoi(argv[3]);
	int start = atoi(argv[4]);
	set_undo_io_backing_manager(unix_io_manager);
	set_undo_io_backup_file(argv[2]);
	r = undo_io_manager->open(argv[1], IO_FLAG_RW, &ch); if (r) die("open", r);
	io_channel_set_blksize(ch, 1024);
	memset(buf, 0x5a, sizeof buf);
	for (i = 0; i < n; i++) {
		r = io_channel_write_blk64(ch, start + 2*i, 1, buf); if (r) die("write", r);
	}
	r = io_channel_close(ch); if (r) die("close", r);
	return 0;
}

# C11 - tune2fs conversions preserve data and consistency
import json, os, re, struct, subprocess, hashlib, shutil, concurrent.futures, importlib.util
import e2v, extfmt, mkimg
from extfmt import *
from props import c02

WORK = os.path.join(e2v.SCRATCH, "c11")
BASES = [
    ("ext4_1k", ["-t", "ext4", "-b", "1024"], "12M"),
    ("ext4_4k", ["-t", "ext4", "-b", "4096"], "32M"),
    ("ext3_1k", ["-t", "ext3", "-b", "1024"], "12M"),
    ("ext2_2k", ["-t", "ext2", "-b", "2048"], "12M"),
    ("ext4_nocsum", ["-t", "ext4", "-b", "1024", "-O", "^metadata_csum,uninit_bg,^64bit"], "12M"),
    ("ext4_128", ["-t", "ext4", "-b", "1024", "-I", "128", "-O", "^metadata_csum,^64bit"], "12M"),
    ("ext4_bigalloc_1k", ["-t", "ext4", "-b", "1024", "-O", "bigalloc", "-C", "4096"], "24M"),      # judged by e2fsck and the file tree (the reader's invariants skip bigalloc)
]
# feature bits that may change although not named (update_feature_set's documented side effects)
IMPLIED = {
    ("+", "metadata_csum"): [(2, 0x10)],                 # gdt_csum goes away
    ("-", "metadata_csum"): [(2, 0x10), (1, 0x2000)],    # gdt_csum comes back, csum_seed dropped
    ("-", "has_journal"): [(1, 0x4), (0, 0x1000), (0, 0x400)],  # needs_recovery, orphan_file, fast_commit
    ("+", "has_journal"): [],
    ("-", "orphan_file"): [(2, 0x10000)],                # orphan_present
    ("+", "64bit"): [], ("-", "64bit"): [],
    ("+", "quota"): [], ("+", "project"): [(2, 0x100)], ("-", "quota"): [(2, 0x2000)],
    ("+", "huge_file"): [], ("+", "extent"): [], ("+", "flex_bg"): [],
    ("-", "uninit_bg"): [], ("+", "uninit_bg"): [],
}
SB_ALWAYS = [(0x30, 0x34), (0x178, 0x180), (0x3FC, 0x400)]
SETTERS = [
    (["-c", "17"], [(0x36, 0x38)]), (["-C", "5"], [(0x34, 0x36)]), (["-e", "remount-ro"], [(0x3C, 0x3E)]), (["-e", "panic"], [(0x3C, 0x3E)]),
    (["-i", "3d"], [(0x44, 0x48)]), (["-L", "newlabel"], [(0x78, 0x88)]), (["-M", "/mnt/somewhere"], [(0x88, 0xC8)]),
    (["-m", "2"], [(0x8, 0xC), (0x154, 0x158)]), (["-r", "333"], [(0x8, 0xC), (0x154, 0x158)]), (["-u", "1234"], [(0x50, 0x52)]), (["-g", "4321"], [(0x52, 0x54)]),
    (["-E", "mount_opts=journal_checksum"], [(0x200, 0x240)]), (["-E", "stride=8"], [(0x164, 0x166)]), (["-E", "stripe_width=32"], [(0x170, 0x174)]),
    (["-o", "acl"], [(0x100, 0x104)]), (["-o", "^acl"], [(0x100, 0x104)]), (["-T", "20200101"], [(0x40, 0x44)]),
    (["-E", "hash_alg=tea"], [(0xFC, 0xFD)]), (["-E", "force_fsck"], [(0x3A, 0x3C)]), (["-E", "clear_mmp"], []),
]


def setup(src):
    e2v.build_driver("tune", ["theories/Tune/FeatureEdit.vo"], ["tune_model"])


def gen_masks(src):
    spec = importlib.util.spec_from_file_location("gfm", os.path.join(e2v.VERIF, "gen", "gen_feature_masks.py"))
    g = importlib.util.module_from_spec(spec)
    spec.loader.exec_module(g)
    return g.main(src, os.path.join(e2v.COQ, "theories", "Gen", "FeatureMasks.v"))


def feats(path):
    fs = Fs(path)
    return [fs.compat, fs.incompat, fs.ro_compat]


def tree_of(path):
    try:
        return tree(Fs(path))
    except FormatError as ex:
        return {"<error>": str(ex)}


def sb_diff(a, b, allowed):
    """offsets inside the primary superblock that differ outside the allowed ranges"""
    sa, sb = a[1024:2048], b[1024:2048]
    bad = []
    for i in range(1024):
        if sa[i] != sb[i] and not any(lo <= i < hi for lo, hi in allowed + SB_ALWAYS):
            bad.append(i)
    return bad


def ask(mexe, lines):
    p = subprocess.run([mexe], input=("\n".join(lines) + "\n").encode(), stdout=subprocess.PIPE, timeout=120)
    return p.stdout.decode().split("\n")


def after_step(src, img, t0, out, label, problems, allow_tree_change=False):
    """a tune2fs run that exits 0 must leave files untouched and the filesystem consistent
    (after the e2fsck run it asks for, if it asks for one)"""
    env = e2v.tool_env(src)
    if re.search(r"(run e2fsck|e2fsck -f|needs? (to be )?checked)", out, re.I) and False:
        pass
    rc, o = e2v.sh([os.path.join(src, "e2fsck/e2fsck"), "-fn", img], env=env, timeout=300)
    if rc != 0:
        asked = bool(re.search(r"Please run e2fsck|run e2fsck -f|recommend", out))
        rcy, oy = e2v.sh([os.path.join(src, "e2fsck/e2fsck"), "-fy", img], env=env, timeout=300)
        rc2, o2 = e2v.sh([os.path.join(src, "e2fsck/e2fsck"), "-fn", img], env=env, timeout=300)
        if not asked:
            problems.append("%s: e2fsck -fn exits %d afterwards and tune2fs did not ask for a check: %s" % (label, rc, o[-200:].replace("\n", " | ")))
        elif rc2 != 0:
            problems.append("%s: not clean even after the e2fsck -fy run tune2fs asked for" % label)
    cons = c02.judge_consistency(img)
    if cons:
        problems.append("%s: independent reader: %s" % (label, cons[:3]))
    t1 = tree_of(img)
    if t1 != t0:
        problems.append("%s: files changed: %s" % (label, sorted(p for p in set(t0) | set(t1) if t0.get(p) != t1.get(p))[:4]))


def feature_case(src, mexe, masks, base, word, mask, name, neg):
    """one -O item on one image: model verdict vs tool"""
    img = os.path.join(WORK, "f_%s_%s%s.img" % (os.path.basename(base)[5:-4], "no_" if neg else "", name))
    shutil.copy(base, img)
    before = open(img, "rb").read()
    cur = feats(img)
    t0 = tree_of(img)
    env = e2v.tool_env(src)
    rc, out = e2v.sh([os.path.join(src, "misc/tune2fs"), "-O", ("^" if neg else "") + name, img], env=env, timeout=300, input=b"\n")
    after = open(img, "rb").read()
    ans = ask(mexe, ["E %d %d %d | %s%d:%d" % (cur[0], cur[1], cur[2], "-" if neg else "+", word, mask)])[0]
    recipe = {"base": os.path.basename(base), "option": "-O " + ("^" if neg else "") + name, "model": ans, "rc": rc}
    problems = []
    if ans == "REFUSED":
        if rc == 0 and feats(img) != cur:
            problems.append("tune2fs accepted an edit outside the masks of the model")
        if after != before:
            problems.append("refused edit modified the filesystem")
    elif rc != 0:
        recipe["declined"] = out.strip().split("\n")[-1][:100]
        if after != before and tree_of(img) != t0:
            problems.append("tune2fs failed (%s) and files changed" % recipe["declined"])
    else:
        new = feats(img)
        want = [int(x) for x in ans.split()[1:]]
        already = bool(cur[word] & mask) != neg
        imp = IMPLIED.get(("-" if neg else "+", name), [])
        for w in range(3):
            diff = new[w] ^ cur[w]
            ok = (mask if w == word else 0)
            for iw, im in imp:
                if iw == w:
                    ok |= im
            ok |= {2: 0x2, 1: 0, 0: 0}[w]          # large_file is set on demand by the library
            if diff & ~ok:
                problems.append("feature word %d changed in bits 0x%x that were neither requested nor a documented side effect" % (w, diff & ~ok))
        # uninit_bg is redundant under metadata_csum: update_feature_set drops it again without a message
        redundant = ((word, mask) == (2, 0x10) and not neg and cur[2] & 0x400) or \
            (name == "64bit" and "resize2fs" in out)      # the 64bit conversion is handed over to resize2fs -b / -s
        if bool(new[word] & mask) == neg and not redundant and not re.search(r"(not|cannot|can't|must|requires|only|unsupported)", out, re.I):
            problems.append("tune2fs exit 0 but the requested bit was not %s" % ("cleared" if neg else "set"))
        recipe["new"] = new
        after_step(src, img, t0, out, recipe["option"], problems)
    os.unlink(img)
    return recipe, problems


def none_case(src, mexe, base, word_):
    """-O none / -O clear: every feature the filesystem has is to be cleared - the model reads it as one clear edit per set bit"""
    img = os.path.join(WORK, "f_%s_%s.img" % (os.path.basename(base)[5:-4], word_))
    shutil.copy(base, img)
    before = open(img, "rb").read()
    cur = feats(img)
    env = e2v.tool_env(src)
    edits = " ".join("-%d:%d" % (w, 1 << b) for w in range(3) for b in range(32) if cur[w] >> b & 1)
    ans = ask(mexe, ["E %d %d %d | %s" % (cur[0], cur[1], cur[2], edits)])[0]
    rc, out = e2v.sh([os.path.join(src, "misc/tune2fs"), "-O", word_, img], env=env, timeout=300, input=b"\n")
    after = open(img, "rb").read()
    recipe = {"base": os.path.basename(base), "option": "-O " + word_, "model": ans, "rc": rc}
    problems = []
    if ans == "REFUSED":
        if rc == 0 and feats(img) != cur:
            problems.append("tune2fs -O %s cleared features whose removal its own masks do not allow: %s -> %s" % (word_, cur, feats(img)))
        elif after != before:
            problems.append("refused edit modified the filesystem")
    os.unlink(img)
    return recipe, problems


def sequence_case(src, idx, seed, tier):
    r = e2v.rng(seed, "c11seq", idx)
    name, opts, size = BASES[idx % len(BASES)]
    base = mkimg.cached_fs(src, WORK, name, opts, size, 1, fill=0.3, nfiles=160, index=True)
    img = os.path.join(WORK, "s_%d.img" % idx)
    shutil.copy(base, img)
    env = e2v.tool_env(src)
    t0 = tree_of(img)
    steps, problems = [], []
    FEAT_STEPS = [["-O", "^metadata_csum"], ["-O", "metadata_csum"], ["-O", "^has_journal"], ["-O", "has_journal"], ["-O", "^uninit_bg"], ["-O", "uninit_bg"],
                  ["-O", "quota"], ["-O", "^quota"], ["-O", "project"], ["-Q", "usrquota,grpquota"], ["-Q", "^usrquota"], ["-O", "extent"], ["-O", "huge_file,dir_nlink,extra_isize"],
                  ["-O", "^flex_bg"], ["-O", "flex_bg"], ["-O", "^dir_index"], ["-O", "dir_index"], ["-O", "large_dir"], ["-O", "ea_inode"], ["-O", "metadata_csum_seed"],
                  ["-O", "^metadata_csum_seed"], ["-U", "01234567-89ab-cdef-0123-456789abcdef"], ["-U", "clear"], ["-U", "time"], ["-I", "256"], ["-O", "^orphan_file"],
                  ["-O", "orphan_file"], ["-J", "size=4"], ["-O", "mmp"], ["-O", "^mmp"], ["-O", "stable_inodes"], ["-O", "^64bit"], ["-O", "64bit"], ["-E", "mount_opts=nodelalloc"],
                  ["-O", "^filetype"], ["-O", "^huge_file"], ["-O", "^large_file"], ["-O", "encrypt"], ["-O", "casefold"], ["-O", "^resize_inode"], ["-r", "100"], ["-O", "^extra_isize"]]
    n = r.randint(2, 5)
    for k in range(n):
        if r.random() < 0.3 and not ("bigalloc" in name and k == 0):
            args, allowed = r.choice(SETTERS)
            before = open(img, "rb").read()
            rc, out = e2v.sh([os.path.join(src, "misc/tune2fs")] + args + [img], env=env, timeout=600, input=b"\n")
            steps.append({"args": args, "rc": rc})
            if rc == 0:
                after = open(img, "rb").read()
                bad = sb_diff(before, after, allowed)
                if bad:
                    problems.append("tune2fs %s changed superblock bytes %s outside its field" % (" ".join(args), [hex(b) for b in bad[:6]]))
                if after[:1024] != before[:1024] or (after[2048:] != before[2048:] and tree_of(img) != t0):
                    problems.append("tune2fs %s changed files" % " ".join(args))
        else:
            args = r.choice(FEAT_STEPS)
            if "bigalloc" in name and k == 0:
                args = r.choice([["-O", "^has_journal"], ["-O", "^has_journal"], ["-J", "size=4"], ["-O", "quota"]])      # cluster-granular accounting
            if args[0] == "-I" and Fs(img).inode_size >= 256:
                args = ["-O", "^has_journal"]
            rc, out = e2v.sh([os.path.join(src, "misc/tune2fs")] + args + [img], env=env, timeout=900, input=b"\n")
            steps.append({"args": args, "rc": rc})
            if rc != 0 and "-I" in args:
                pass
        if rc == 0:
            if args[0] == "-O" and args[1] in ("encrypt", "casefold", "^64bit", "64bit"):
                # encrypt/casefold leave the reader's scope; 64bit conversion is done by resize2fs
                pass
            after_step(src, img, t0, out, "step %d (%s)" % (k, " ".join(args)), problems)
            try:
                if Fs(img).incompat & (0x10000 | 0x20000):
                    break
            except FormatError:
                break
        elif rc == -9:
            problems.append("tune2fs %s timed out" % " ".join(args))
        else:
            # a refused / failed run: files and consistency still intact
            t1 = tree_of(img)
            if t1 != t0:
                problems.append("tune2fs %s failed (exit %d) and files changed" % (" ".join(args), rc))
        if problems:
            break
    recipe = {"base": name, "mke2fs": opts, "steps": steps, "case_index": idx}
    os.unlink(img)
    return recipe, problems


def mntopt_table(src):
    """name -> mask of lib/e2p/mntopts.c, read from the tree's sources on every run"""
    defs = {}
    for m in re.finditer(r"#define\s+(EXT[234]_DEFM_\w+)\s+(0x[0-9a-fA-F]+)", open(os.path.join(src, "lib/ext2fs/ext2_fs.h")).read()):
        defs[m.group(1)] = int(m.group(2), 16)
    txt = open(os.path.join(src, "lib/e2p/mntopts.c")).read()
    body = txt[txt.index("mntopt_list[]"):]
    body = body[:body.index("};")]
    return {m.group(2): defs[m.group(1)] for m in re.finditer(r"\{\s*(EXT[234]_DEFM_\w+),\s*\"(\w+)\"", body) if m.group(1) in defs}


def mntopt_case(src, mexe, table, idx, seed):
    """sequences of tune2fs -o items: s_default_mount_opts after every run vs the extracted mnt_step"""
    r = e2v.rng(seed, "c11mnt", idx)
    name, opts, size = BASES[idx % len(BASES)]
    base = mkimg.cached_fs(src, WORK, name, opts, size, 1, fill=0.3, nfiles=160, index=True)
    img = os.path.join(WORK, "m_%d.img" % idx)
    shutil.copy(base, img)
    env = e2v.tool_env(src)
    steps, problems = [], []
    names = sorted(table)
    jm = [n for n in names if table[n] & 0x60]
    seqs = [[("", "journal_data"), ("", "journal_data_ordered")], [("", "journal_data_writeback"), ("", "journal_data")], [("", "journal_data_ordered"), ("^", "journal_data_ordered"), ("", "journal_data_writeback")],
            # the negation of one journalling mode while another (or the two-bit one) is in effect clears the whole field
            [("", "journal_data_writeback"), ("^", "journal_data_ordered")], [("", "journal_data_writeback"), ("^", "journal_data")],
            [("", "journal_data"), ("^", "journal_data_writeback")], [("", "journal_data_ordered"), ("^", "journal_data")]]
    seq = seqs[idx] if idx < len(seqs) else [(r.choice(["", "", "^"]), r.choice(names + jm)) for _ in range(r.randint(2, 6))]
    for neg, nm in seq:
        cur = struct.unpack_from("<I", open(img, "rb").read(), 1024 + 0x100)[0]
        before = open(img, "rb").read()
        rc, out = e2v.sh([os.path.join(src, "misc/tune2fs"), "-o", neg + nm, img], env=env, timeout=300)
        after = open(img, "rb").read()
        new = struct.unpack_from("<I", after, 1024 + 0x100)[0]
        mo = subprocess.run([mexe], input=("M %d %d %d\n" % (cur, 1 if neg else 0, table[nm])).encode(), stdout=subprocess.PIPE, timeout=30).stdout.decode().strip()
        steps.append({"args": ["-o", neg + nm], "rc": rc, "before": cur, "after": new, "model": mo})
        if rc == 0 and mo != str(new):
            problems.append("tune2fs -o %s%s: s_default_mount_opts 0x%x -> 0x%x, the model (mask 0x%x) says %s" % (neg, nm, cur, new, table[nm], mo))
        if rc == 0 and sb_diff(before, after, [(0x100, 0x104)]):
            problems.append("tune2fs -o %s%s changed superblock bytes outside its field" % (neg, nm))
        if rc != 0 and after != before:
            problems.append("tune2fs -o %s%s failed and wrote" % (neg, nm))
        if problems:
            break
    os.unlink(img)
    return {"base": name, "steps": steps, "case_index": idx, "kind": "mount options"}, problems


def lazy_itable_case(src, k):
    """inode tables that were never written (lazy_itable_init, no discard) on a device that does not read back as zeroes;
    turning off uninit_bg / metadata_csum removes the flag that told everyone to ignore them"""
    T = lambda p_: os.path.join(src, p_)
    env = e2v.tool_env(src)
    img = os.path.join(WORK, "lazy_%d.img" % k)
    feats, step = [("^metadata_csum,uninit_bg,^64bit", ["-O", "^uninit_bg"]), ("metadata_csum", ["-O", "^metadata_csum"]),
                   ("^metadata_csum,uninit_bg", ["-O", "^uninit_bg", "-L", "x"])][k % 3]
    rr = e2v.rng(1, "c11lazy", k)
    open(img, "wb").write(bytes(rr.getrandbits(8) | 1 for _ in range(4096)) * (4 * 1024))
    recipe = {"directed": "lazy_itable", "mke2fs": ["-t", "ext4", "-b", "1024", "-O", feats, "-E", "lazy_itable_init=1,nodiscard"], "device": "16M of non-zero bytes", "steps": [{"args": step}]}
    rc, out = e2v.sh([T("misc/mke2fs"), "-q", "-F", "-t", "ext4", "-b", "1024", "-O", feats, "-E", "lazy_itable_init=1,nodiscard", img], env=env, timeout=120)
    e2v.sh([T("debugfs/debugfs"), "-w", "-f", "-", img], input=b"mkdir a\nwrite /etc/services a/s\nwrite /etc/hostname h\n", env=env, timeout=60)
    if rc != 0 or e2v.sh([T("e2fsck/e2fsck"), "-fn", img], env=env, timeout=120)[0] != 0:
        os.unlink(img)
        return recipe, []
    t0 = tree_of(img)
    rc, out = e2v.sh([T("misc/tune2fs")] + step + [img], env=env, timeout=300)
    recipe["steps"][0]["rc"] = rc
    problems = []
    if rc == 0:
        rc2, out2 = e2v.sh([T("e2fsck/e2fsck"), "-fn", img], env=env, timeout=300)
        if rc2 != 0:
            problems.append("e2fsck -fn exits %d after tune2fs %s: %s" % (rc2, " ".join(step), " | ".join(l for l in out2.split("\n") if "?" in l)[:300]))
        if tree_of(img) != t0:
            problems.append("files changed")
    os.unlink(img)
    return recipe, problems


def run(res, replay=None):
    tier, seed = res.tier, res.seed
    os.makedirs(WORK, exist_ok=True)
    src = e2v.ensure_build()
    masks = gen_masks(src)
    res.cov["generated_tables"]["Gen/FeatureMasks.v"] = hashlib.sha256(open(os.path.join(e2v.COQ, "theories", "Gen", "FeatureMasks.v"), "rb").read()).hexdigest()[:16]
    pr = e2v.coq_property("C11")
    res.add_proof(pr)
    mexe = e2v.build_driver("tune", ["theories/Tune/FeatureEdit.vo"], ["tune_model"])
    res.cov["trusted_base"] = e2v.TRUSTED_COMMON + [
        "gen/gen_feature_masks.py (translator of the tune2fs.c masks, the e2p feature list and the ext2_fs.h macro values into Gen/FeatureMasks.v)",
        "lib/extfmt.py tree() and consistency(); lib/mkimg.py population",
        "props/c11.py IMPLIED: the documented side effects of a feature change (read off update_feature_set)",
    ]
    res.cov["partial"] = ["proved: the feature edit (which bits an accepted -O list may change, which lists are refused); the conversions themselves (checksum rewrite, inode resize, journal/quota/orphan-file creation and removal) are validated per run by the tree comparison, the independent reader and e2fsck, not modelled",
                          "mounted-filesystem restrictions cannot be exercised in the sandbox; encrypt/casefold results leave the independent reader's scope"]
    # ---- A. every feature name x {set, clear} x bases
    bases = [mkimg.cached_fs(src, WORK, n, o, s, 1, fill=0.3, nfiles=160, index=True) for n, o, s in (BASES[:2] + BASES[3:5] if tier == "quick" else BASES)]
    jobs = []
    for bi, b in enumerate(bases):
        for (w, m, name) in masks["features"]:
            for neg in (False, True):
                if tier == "quick" and (hash((name, neg)) + bi) % len(bases) != 0 and name not in ("metadata_csum", "has_journal", "uninit_bg"):
                    continue
                jobs.append((b, w, m, name, neg))
    with concurrent.futures.ThreadPoolExecutor(12) as ex:
        fouts = list(ex.map(lambda j: feature_case(src, mexe, masks, *j), jobs))
    bad = []
    fdist = {"refused_by_model": 0, "accepted": 0, "declined_by_tool": 0}
    for recipe, problems in fouts:
        res.case(json.dumps(recipe), recipe["model"] != "REFUSED" and recipe["rc"] == 0)
        fdist["refused_by_model" if recipe["model"] == "REFUSED" else ("accepted" if recipe["rc"] == 0 else "declined_by_tool")] += 1
        if problems:
            bad.append((recipe, problems))
    res.sample(fouts[0][0])
    # ---- B. sequences
    n = 18 if tier == "quick" else 1200
    idxs = [json.load(open(replay))["recipe"]["case_index"]] if replay and "case_index" in json.load(open(replay)).get("recipe", {}) else list(range(n))
    with concurrent.futures.ThreadPoolExecutor(12) as ex:
        souts = list(ex.map(lambda i: sequence_case(src, i, seed, tier), idxs))
    for recipe, problems in souts:
        res.case(json.dumps(recipe), any(s["rc"] == 0 for s in recipe["steps"]))
        if len(res.cov["samples"]) < 3:
            res.sample(recipe)
        if problems:
            bad.append((recipe, problems))
    for rcp, p in [none_case(src, mexe, b, w_) for b in bases for w_ in ("none", "clear")]:
        res.case(json.dumps(rcp), True)
        if p:
            bad.append((rcp, p))
    for rcp, p in [lazy_itable_case(src, k) for k in range(3)]:
        res.case(json.dumps(rcp), True)
        if p:
            bad.append((rcp, p))
    table = mntopt_table(src)
    nm_ = 12 if tier == "quick" else 300
    with concurrent.futures.ThreadPoolExecutor(12) as ex:
        mouts = list(ex.map(lambda i: mntopt_case(src, mexe, table, i, seed), range(nm_)))
    mbad = [(rcp, p) for rcp, p in mouts if p]
    for rcp, p in mouts:
        res.case(json.dumps(rcp), True)
    bad += mbad
    res.cov["correspondence"] = {"mount_option_steps": sum(len(rcp["steps"]) for rcp, p in mouts), "mount_option_mismatches": len(mbad), "mount_option_table": table,
                                 "mount_option_compared": "s_default_mount_opts after every tune2fs -o item of generated sequences vs the extracted mnt_step, the name->mask table read from lib/e2p/mntopts.c and ext2_fs.h on every run",
                                 "feature_edits": len(fouts), "distribution": fdist, "mismatches": sum(1 for rcp, p in bad if "model" in rcp and any("mask" in x or "bits" in x for x in p)),
                                 "compared": "for every feature name of lib/e2p x {set, clear}: refused by the extracted tune2fs_edit <=> tune2fs refuses without writing; accepted: resulting feature words differ only in the requested bit and documented side effects"}
    res.cov["oracle"] = {"evaluations": len(fouts) + len(souts), "failures": len(bad), "sequences": len(souts),
                         "statement": "after every tune2fs run that exits 0 (and the e2fsck run it asks for): identical tree, independent reader consistent, e2fsck -fn exit 0; scalar setters change only their superblock field; failed or refused runs change no file"}
    res.cov["rule"] = "6 populated base filesystems; A: all feature names x set/clear; B: sequences of 2-5 of 42 conversions (csum on/off, journal, quota, UUID, inode size, flex_bg, orphan file, mmp ...) and 20 scalar setters; non-trivial = at least one accepted step"
    res.add_obligation("mount-option model agrees with tune2fs -o on every step", not mbad)
    res.add_obligation("feature-edit model agrees with tune2fs on every single edit", not any("model" in rcp and any("mask" in x for x in p) for rcp, p in bad))
    for recipe, problems in bad[:3]:
        res.violation("oracle", {"recipe": recipe, "problems": problems[:5]}, signature="c11:" + hashlib.sha256(json.dumps(recipe, sort_keys=True).encode()).hexdigest()[:12])
    if not pr["ok"] and not bad:
        res.violation("proof", {"theorem_file": "coq/theories/Properties_C11.v", "failed_at": pr["failed_at"],
                                "forbidden": pr["forbidden"], "log_tail": pr["log_tail"][-1500:]}, has_input=False)

# C20 - backup superblocks and descriptors are always usable
import json, os, re, struct, shutil, subprocess, hashlib, concurrent.futures
import e2v, extfmt
from extfmt import *

WORK = os.path.join(e2v.SCRATCH, "c20")


def setup(src):
    e2v.build_harness("h_layout", src)
    e2v.build_driver("layout", ["theories/Layout/Layout.vo", "theories/Layout/BackupBgs.vo"], ["layout_model"])


def run_lines(exe, text):
    p = subprocess.run([exe], input=text.encode(), stdout=subprocess.PIPE, stderr=subprocess.DEVNULL, timeout=900)
    return p.stdout.decode().split("\n")


def model_groups(mexe, fs):
    """backup locations of an image according to the Coq model: list of (g, super_blk, old_desc, new_desc)"""
    line = "S %d %d %d %d %d %d %d %d %d %d %d %d %d" % (
        1 if fs.ro_compat & RO_SPARSE_SUPER else 0, 1 if fs.compat & COMPAT_SPARSE_SUPER2 else 0,
        fs.backup_bgs[0], fs.backup_bgs[1], 1 if fs.incompat & INCOMPAT_META_BG else 0, fs.first_meta_bg,
        fs.desc_size, fs.desc_blocks, fs.reserved_gdt, fs.first_data_block, fs.blocks_per_group, fs.bs, fs.groups_count)
    out = []
    for l in run_lines(mexe, line + "\n"):
        t = l.split()
        if len(t) == 6:
            out.append(tuple(int(x) for x in t))
    return out


IGN_INCOMPAT = INCOMPAT_EXTENTS | INCOMPAT_RECOVER
IGN_RO = RO_HUGE_FILE | RO_DIR_NLINK


def check_backups(fs, groups, crc32c):
    """every prescribed backup must be valid and current; returns list of problems"""
    bad = []
    prim = fs.sb_raw
    P = lambda o, f="<I": struct.unpack_from(f, prim, o)[0]
    for (g, hs, sblk, old, new, used) in groups:
        if g == 0:
            continue
        if hs:
            b = fs.d[fs.off + sblk * fs.bs: fs.off + sblk * fs.bs + 1024]
            B = lambda o, f="<I": struct.unpack_from(f, b, o)[0]
            if B(0x38, "<H") != 0xEF53:
                bad.append("group %d: no superblock magic at block %d" % (g, sblk))
                continue
            if B(0x5A, "<H") != g & 0xFFFF:
                bad.append("group %d: backup s_block_group_nr is %d" % (g, B(0x5A, "<H")))
            for name, o, f in [("blocks_count", 4, "<I"), ("inodes_count", 0, "<I"), ("blocks_count_hi", 0x150, "<I"), ("log_block_size", 0x18, "<I"),
                               ("blocks_per_group", 0x20, "<I"), ("inodes_per_group", 0x28, "<I"), ("first_data_block", 0x14, "<I"),
                               ("feature_compat", 0x5C, "<I"), ("reserved_gdt", 0xCE, "<H"), ("desc_size", 0xFE, "<H"), ("inode_size", 0x58, "<H"),
                               ("first_meta_bg", 0x104, "<I")]:
                if B(o, f) != P(o, f):
                    bad.append("group %d: backup %s = %d, primary %d" % (g, name, B(o, f), P(o, f)))
            if (B(0x60) & ~IGN_INCOMPAT) != (P(0x60) & ~IGN_INCOMPAT):
                bad.append("group %d: backup incompat features differ" % g)
            if (B(0x64) & ~IGN_RO) != (P(0x64) & ~IGN_RO):
                bad.append("group %d: backup ro_compat features differ" % g)
            if b[0x68:0x78] != prim[0x68:0x78]:
                bad.append("group %d: backup uuid differs" % g)
            if fs.has_csum and B(0x3FC) != crc32c(0xFFFFFFFF, b[:0x3FC]):
                bad.append("group %d: backup superblock checksum invalid" % g)
        def cmp_desc_block(blk, i):
            cp = fs.block(blk)
            pr = fs.block(fs.desc_block_loc(i))
            for k in range(fs.desc_per_block):
                gg = i * fs.desc_per_block + k
                if gg >= fs.groups_count:
                    break
                a, b2 = cp[k * fs.desc_size:(k + 1) * fs.desc_size], pr[k * fs.desc_size:(k + 1) * fs.desc_size]
                # locations of bitmaps and inode table must be current
                if a[:12] != b2[:12] or (fs.desc_size >= 64 and a[32:44] != b2[32:44]):
                    return "group %d: backup descriptor of group %d (block %d) is stale" % (g, gg, blk)
            return None
        if old:
            nblk = fs.first_meta_bg if fs.incompat & INCOMPAT_META_BG else fs.desc_blocks
            for i in range(nblk):
                r = cmp_desc_block(old + i, i)
                if r:
                    bad.append(r)
                    break
        if new and g % fs.desc_per_block != 0:
            r = cmp_desc_block(new, g // fs.desc_per_block)
            if r:
                bad.append(r)
    return bad


CONFIGS = [
    (["-t", "ext4", "-b", "1024", "-g", "256", "-N", "256"], "13M"),
    (["-t", "ext4", "-b", "1024", "-g", "512", "-O", "sparse_super2", "-E", "num_backup_sb=2"], "10M"),
    (["-t", "ext4", "-b", "1024", "-g", "256", "-O", "^resize_inode,meta_bg,^64bit", "-N", "256"], "13M"),
    (["-t", "ext2", "-b", "1024", "-g", "256", "-O", "^sparse_super,^resize_inode", "-N", "128"], "4M"),
    (["-t", "ext4", "-b", "4096"], "520M"),
    (["-t", "ext4", "-b", "2048", "-g", "1024", "-O", "64bit,^metadata_csum", "-N", "512"], "20M"),
    (["-t", "ext3", "-b", "1024"], "20M"),
    (["-t", "ext4", "-b", "1024", "-g", "256", "-O", "meta_bg,^resize_inode,64bit", "-N", "256"], "13M"),
    # 1k blocks + bigalloc + meta_bg: block 0 is outside group 0, the backup descriptors of the first meta group sit in group 1
    (["-t", "ext4", "-b", "1024", "-O", "bigalloc,meta_bg,^resize_inode", "-C", "4096", "-g", "8192"], "80M"),
    # sparse_super2 without a resize inode, many groups, files everywhere: a shrink makes another group the last-group backup location
    (["-t", "ext4", "-b", "1024", "-g", "1024", "-O", "sparse_super2,^resize_inode,^has_journal", "-N", "512"], "20M"),
    # ... and with 32-byte descriptors: the shrink keeps the number of descriptor blocks (resize2fs's short way through blocks_to_move)
    (["-t", "ext4", "-b", "1024", "-g", "1024", "-O", "sparse_super2,^resize_inode,^has_journal,^64bit", "-N", "512"], "20M"),
    # sparse_super2 with a single backup, stored as s_backup_bgs = {0, 1}: growing must not take group 1's backup for the "last group" one
    (["-t", "ext4", "-b", "1024", "-O", "sparse_super2", "-E", "num_backup_sb=1"], "40M"),
    # no ext_attr at first: the feature arrives in the primary superblock only (as the kernel sets it on the first setxattr)
    (["-t", "ext4", "-b", "1024", "-O", "^ext_attr", "-I", "128"], "33M"),
]


def py_crc32c():
    import jbd2enc
    return jbd2enc.crc32c


def tool_case(src, mexe, idx, seed, tier):
    r = e2v.rng(seed, "c20", idx)
    opts, size = CONFIGS[idx % len(CONFIGS)]
    os.makedirs(WORK, exist_ok=True)
    img = os.path.join(WORK, "c%d.img" % idx)
    if os.path.exists(img):
        os.unlink(img)
    env = e2v.tool_env(src)
    T = lambda p: os.path.join(src, p)
    steps = []

    after_resize = []

    def step(cmd, inp=None):
        rc, out = e2v.sh(cmd, env=env, timeout=300, input=inp)
        steps.append({"cmd": " ".join(os.path.basename(c) if c.startswith("/") and c != img else c for c in cmd).replace(img, "IMG"), "rc": rc})
        if cmd[0].endswith("resize2fs") and rc == 0:
            rcf, outf = e2v.sh([T("e2fsck/e2fsck"), "-fn", img], env=env, timeout=300)
            if rcf != 0:
                after_resize.append("e2fsck -fn right after a successful '%s' exits %d: %s" % (steps[-1]["cmd"], rcf, " | ".join(l for l in outf.split("\n") if "?" in l or "differences" in l)[:200]))
        # a repairing e2fsck right after a successful resize2fs has nothing to repair
        if len(steps) >= 2 and rc not in (0,) and cmd[0].endswith("e2fsck") and steps[-2]["cmd"].startswith("resize2fs") and steps[-2]["rc"] == 0:
            after_resize.append("e2fsck %s right after a successful '%s' exits %d: %s" % (cmd[1], steps[-2]["cmd"], rc, " | ".join(l for l in out.split("\n") if "?" in l or "differences" in l)[:200]))
        return rc, out
    rc, out = step([T("misc/mke2fs"), "-q", "-F"] + opts + [img, size])
    if rc != 0:
        return {"opts": opts, "steps": steps}, ["mke2fs failed: " + out[-200:]], 0
    datafile = os.path.join(WORK, "data%d" % idx)
    open(datafile, "wb").write(bytes(r.getrandbits(8) for _ in range(30000)))
    cmds = ["mkdir d", "write %s d/f1" % datafile, "write %s f2" % datafile, "symlink sl /d/f1", "mkdir d/e"] + \
           ["write /dev/null d/e/n%d" % i for i in range(r.randint(3, 30))]
    wide = "sparse_super2,^resize_inode" in " ".join(opts)
    if wide:
        # one file per group start: whatever block a new backup needs there already belongs to somebody
        big = os.path.join(WORK, "big%d" % idx)
        open(big, "wb").write(bytes(r.getrandbits(8) for _ in range(4096)) * 60)
        cmds += ["write %s w%02d" % (big, i) for i in range(72)] + ["rm w%02d" % i for i in range(72) if i % 4 != 1]
    step([T("debugfs/debugfs"), "-w", "-f", "-", img], inp=("\n".join(cmds) + "\n").encode())
    try:
        tree_start = tree(Fs(img))
    except FormatError as ex:
        return {"opts": opts, "steps": steps}, ["independent reader rejects the populated image: %s" % ex], 0
    menu = [
        [T("misc/tune2fs"), "-U", "01234567-89ab-cdef-0123-456789abcdef", img],
        [T("misc/tune2fs"), "-O", "^has_journal", img],
        [T("misc/tune2fs"), "-L", "lab%d" % idx, "-c", "30", img],
        [T("e2fsck/e2fsck"), "-fy", img],
        [T("e2fsck/e2fsck"), "-fyD", img],
    ]
    fs0 = Fs(img)
    if not (fs0.incompat & INCOMPAT_META_BG) or True:
        menu.append("grow")
        menu.append("shrink")
        menu.append("nudge")
    menu.append("primary_only")
    if fs0.compat & COMPAT_HAS_JOURNAL and not fs0.ro_compat & RO_BIGALLOC:
        menu.append("dirty_journal_tune")
        menu.append("dirty_journal_tune")
    plan = [r.choice(menu) for _ in range(r.randint(0, 3))]
    if idx % 3 == 1:
        plan.append("nudge")
    if "^ext_attr" in " ".join(opts):
        # nothing after it that rewrites every backup by itself (tune2fs, resize2fs): the repairing e2fsck alone has to do it
        plan = ["primary_only"] + ([[T("e2fsck/e2fsck"), "-fyD", img]] if (idx // len(CONFIGS)) % 2 else [])
    if wide:
        plan = ["shrink"] + plan[:1]
    if "num_backup_sb=1" in opts:
        plan = ["grow"] + plan[:1]
    for m in plan:
        if m == "dirty_journal_tune":
            # a committed transaction waits in the journal: tune2fs replays it first (the journal code reopens the filesystem)
            # and what it changes afterwards still has to reach every backup
            fsn = Fs(img)
            blk_ = fsn.blocks_count - 3
            step([T("debugfs/debugfs"), "-w", "-f", "-", img], inp=("jo\njw -b %d /dev/zero\njc\n" % blk_).encode())
            step(r.choice([[T("misc/tune2fs"), "-U", "89abcdef-0123-4567-89ab-cdef01234567", img],
                           [T("misc/tune2fs"), "-L", "dj%d" % idx, "-O", "^dir_index", img]]))
        elif m == "primary_only":
            # a compat feature set in the primary superblock only (debugfs writes the master copy, like the kernel's on-the-fly
            # flags); the repairing e2fsck that follows has to bring every backup up to date
            fsn = Fs(img)
            # ... also when the primary superblock says "errors detected" at that moment (e2fsck sets the state to valid and
            # has to look at the backups after that)
            st_ = b"ssv state 2\n" if r.random() < 0.5 else b""
            if fsn.compat & 0x8:
                step([T("debugfs/debugfs"), "-w", "-f", "-", img], inp=b"feature stable_inodes\n" + st_)
            else:
                step([T("debugfs/debugfs"), "-w", "-f", "-", img], inp=b"feature ext_attr\nea_set f2 user.k1 value_one\nea_set d user.k2 v2\n" + st_)
            step([T("e2fsck/e2fsck"), "-fy", img])
            try:
                tree_start = tree(Fs(img))
            except FormatError as ex:
                return {"opts": opts, "steps": steps}, ["independent reader rejects the image after the primary-only feature step: %s" % ex], 0
        elif m == "nudge":
            # a resize that keeps the number of groups: the backups must still be brought up to date
            fsn = Fs(img)
            last = (fsn.blocks_count - fsn.first_data_block) % fsn.blocks_per_group or fsn.blocks_per_group
            room = last - (2 + fsn.itb_per_group + 1 + fsn.desc_blocks + fsn.reserved_gdt + 60)
            if room > 4:
                step([T("e2fsck/e2fsck"), "-fy", img])
                step([T("resize/resize2fs"), img, str(fsn.blocks_count - r.randint(1, min(room, 40)))])
        elif m == "grow":
            newk = int(size[:-1]) * 1024 + r.choice([3000, 8192, 20000])
            with open(img, "r+b") as f:
                f.truncate(newk * 1024)
            step([T("e2fsck/e2fsck"), "-fy", img])
            fsb = Fs(img)
            rcg, _ = step([T("resize/resize2fs"), img, "%dK" % newk])
            fsa = Fs(img)
            if rcg == 0 and fsb.compat & COMPAT_SPARSE_SUPER2 and fsa.groups_count > fsb.groups_count:
                # the second sparse_super2 backup group after the grow vs the extracted grow_b1_new
                want = [l for l in run_lines(mexe, "BG %d %d %d\n" % (fsb.groups_count, fsa.groups_count, fsb.backup_bgs[1])) if l and l != "END"]
                if want and int(want[0]) != fsa.backup_bgs[1]:
                    after_resize.append("model: s_backup_bgs[1] after growing %d -> %d groups from %s is %s, resize2fs left %s" % (
                        fsb.groups_count, fsa.groups_count, list(fsb.backup_bgs), want[0], list(fsa.backup_bgs)))
        elif m == "shrink":
            newk = int(size[:-1]) * 1024 * 3 // 4
            if wide:
                fsn = Fs(img)
                rcp, outp = e2v.sh([T("resize/resize2fs"), "-P", img], env=env, timeout=120)
                mp = re.search(r"minimum size of the filesystem: (\d+)", outp)
                gmin = max(6, -(-int(mp.group(1)) // fsn.blocks_per_group) + 1) if mp else 6
                newk = r.randint(min(gmin, fsn.groups_count - 2), fsn.groups_count - 2) * fsn.blocks_per_group + r.choice([1, 1, 300, 700])
            step([T("e2fsck/e2fsck"), "-fy", img])
            step([T("resize/resize2fs"), img, "%dK" % newk])
        else:
            step(m)
    recipe = {"mke2fs": opts, "size": size, "steps": steps}
    problems = list(after_resize)
    try:
        fs = Fs(img)
        groups = model_groups(mexe, fs)
        tree0 = tree(fs)
    except FormatError as ex:
        return recipe, ["independent reader rejects the image: %s" % ex], 0
    problems += check_backups(fs, groups, py_crc32c())
    # the steps themselves must leave a clean filesystem with the same files (a backup written over somebody's block shows here)
    rcn, outn = e2v.sh([T("e2fsck/e2fsck"), "-fn", img], env=env, timeout=300)
    if rcn != 0:
        problems.append("e2fsck -fn exits %d after the steps: %s" % (rcn, " | ".join(l for l in outn.split("\n") if "?" in l or "differences" in l or "claimed" in l)[:300]))
    if tree0 != tree_start:
        diff = sorted(p for p in set(tree0) | set(tree_start) if tree0.get(p) != tree_start.get(p))
        problems.append("files differ from those present before the steps: %s" % diff[:4])
    # destroy the primary superblock and descriptors, restore from each backup
    locs = [(g, sblk) for (g, hs, sblk, old, new, used) in groups if g > 0 and hs]
    tries = 0
    picks = locs if tier == "thorough" else (locs[:1] + locs[-1:] + ([r.choice(locs)] if len(locs) > 2 else []))
    for (g, sblk) in picks:
        tmp = img + ".rest"
        shutil.copy(img, tmp)
        with open(tmp, "r+b") as f:
            f.seek(1024)
            f.write(b"\0" * 1024)
            for i in range(fs.desc_blocks):        # every primary descriptor block, meta_bg ones included
                f.seek(fs.desc_block_loc(i) * fs.bs)
                f.write(b"\0" * fs.bs)
        rc, out = e2v.sh([T("e2fsck/e2fsck"), "-fy", "-b", str(sblk), "-B", str(fs.bs), tmp], env=env, timeout=300)
        tries += 1
        if rc & ~3 or rc == -9:
            problems.append("e2fsck -b %d -B %d: exit %d: %s" % (sblk, fs.bs, rc, out[-160:].replace("\n", " | ")))
        else:
            rc2, out2 = e2v.sh([T("e2fsck/e2fsck"), "-fn", tmp], env=env, timeout=300)
            if rc2 != 0:
                problems.append("after restoring from backup %d the filesystem is not clean (e2fsck -fn exit %d)" % (sblk, rc2))
            else:
                try:
                    t1 = tree(Fs(tmp))
                    if t1 != tree0:
                        diff = [p for p in set(tree0) | set(t1) if tree0.get(p) != t1.get(p)]
                        problems.append("after restoring from backup %d files differ: %s" % (sblk, diff[:4]))
                except FormatError as ex:
                    problems.append("after restoring from backup %d the independent reader fails: %s" % (sblk, ex))
        os.unlink(tmp)
    # plain e2fsck finds a backup by itself when the group size is the default
    if fs.blocks_per_group == 8 * fs.bs and locs:
        tmp = img + ".rest"
        shutil.copy(img, tmp)
        with open(tmp, "r+b") as f:
            f.seek(1024)
            f.write(b"\0" * 1024)
        rc, out = e2v.sh([T("e2fsck/e2fsck"), "-fy", tmp], env=env, timeout=300)
        tries += 1
        if rc & ~3 or rc == -9:
            problems.append("plain e2fsck -fy could not use a backup superblock: exit %d" % rc)
        else:
            rc2, _ = e2v.sh([T("e2fsck/e2fsck"), "-fn", tmp], env=env, timeout=300)
            if rc2 != 0:
                problems.append("after plain e2fsck -fy the filesystem is not clean")
        os.unlink(tmp)
    return recipe, problems, tries


def big_block_case(src, bs):
    """block sizes whose default group (65528 blocks, the 16-bit limit) is smaller than 8 * blocksize: two groups, the primary
    superblock destroyed, plain e2fsck has to find the backup in group 1 by itself (no reader involved: 2-4 GiB sparse images)"""
    T = lambda p_: os.path.join(src, p_)
    env = e2v.tool_env(src)
    img = os.path.join(WORK, "bigblk_%d.img" % bs)
    if os.path.exists(img):
        os.unlink(img)
    recipe = {"mke2fs": ["-t", "ext4", "-b", str(bs)], "size": "70000 blocks", "steps": [{"cmd": "zero bytes 1024..4095; e2fsck -fy IMG"}]}
    rc, out = e2v.sh([T("misc/mke2fs"), "-q", "-F", "-t", "ext4", "-b", str(bs), img, "70000"], env=env, timeout=300)
    problems = []
    if rc == 0:
        with open(img, "r+b") as f:
            f.seek(1024)
            f.write(b"\0" * 3072)
        rc, out = e2v.sh([T("e2fsck/e2fsck"), "-fy", img], env=env, timeout=600)
        if rc & ~3 or rc < 0:
            problems.append("plain e2fsck -fy could not use a backup superblock (block size %d, default group size 65528): exit %d" % (bs, rc))
        elif e2v.sh([T("e2fsck/e2fsck"), "-fn", img], env=env, timeout=600)[0] != 0:
            problems.append("not clean after the restore from the backup superblock (block size %d)" % bs)
    if os.path.exists(img):
        os.unlink(img)
    return recipe, problems, 1


def run(res, replay=None):
    tier, seed = res.tier, res.seed
    os.makedirs(WORK, exist_ok=True)
    src = e2v.ensure_build()
    hexe = e2v.build_harness("h_layout", src)
    pr = e2v.coq_property("C20")
    res.add_proof(pr)
    mexe = e2v.build_driver("layout", ["theories/Layout/Layout.vo", "theories/Layout/BackupBgs.vo"], ["layout_model"])
    res.cov["trusted_base"] = e2v.TRUSTED_COMMON + [
        "lib/extfmt.py: the check's own reader (backup decoding, tree comparison)",
        "the tools are run on generated images; which blocks the tools write is observed, not modelled",
    ]
    res.cov["partial"] = ["ext2fs_flush2's write plan and e2fsck's get_backup_sb search loop are not modelled (exercised by the restore oracle)",
                          "group numbers below 2^64 / dgrp_t 32 bits"]
    # ---- A. sweep: C code vs Coq model
    r = e2v.rng(seed, "c20sweep")
    cfgs = ["S 1 0 0 0 0 0 32 3 10 1 8192 1024 %d" % (70000 if tier == "thorough" else 20000),
            "S 0 0 0 0 0 0 32 2 0 0 32768 4096 300", "S 1 1 1 37 0 0 64 3 0 0 32768 4096 200",
            "S 1 0 0 0 1 0 32 5 0 1 256 1024 700", "S 1 0 0 0 1 2 64 9 3 0 1024 2048 900",
            # 1k-block bigalloc (block 0 outside the metadata): old-style descriptors only, meta_bg from block 0, meta_bg from block 2
            "S 1 0 0 0 0 0 64 3 0 0 8192 1024 38 1", "S 1 0 0 0 1 0 64 5 0 0 8192 1024 70 1", "S 1 0 0 0 1 2 64 6 0 0 8192 1024 90 1"]
    for _ in range(30 if tier == "quick" else 400):
        bs = r.choice([1024, 2048, 4096, 65536])
        ds = r.choice([32, 64])
        ng = r.randint(1, 3000)
        sp2 = r.random() < 0.25
        mb = r.random() < 0.4
        dpb = bs // ds
        fdb = 1 if bs == 1024 and r.random() < 0.7 else 0
        cfgs.append("S %d %d %d %d %d %d %d %d %d %d %d %d %d %d" % (
            r.randint(0, 1), 1 if sp2 else 0, r.randint(0, ng), r.randint(0, ng), 1 if mb else 0,
            r.randint(0, (ng + dpb - 1) // dpb) if mb else 0, ds, (ng + dpb - 1) // dpb, r.randint(0, 40),
            fdb, r.choice([256, 1024, 8 * bs]), bs, ng,
            # 1k blocks: s_first_data_block is 0 exactly on bigalloc filesystems (e2fsck's PR_0_FIRST_DATA_BLOCK); larger blocks: either
            (1 if fdb == 0 else 0) if bs == 1024 else r.randint(0, 1)))
    l2 = ["L2 %d %d %d 5" % (a, b, g) for a, b, g in [(0, 0, 9), (1, 0, 9), (0, 7, 9), (1, 8, 9), (3, 3, 4), (1, 1, 2), (0, 1, 2)]] + \
         ["L2 %d %d %d 6" % (r.choice([0, r.randint(1, 50)]), r.choice([0, r.randint(1, 50)]), r.randint(2, 60)) for _ in range(20)]
    text = "\n".join(cfgs) + "\nL 46\n" + "\n".join(l2) + "\n"
    hout = run_lines(hexe, text)
    mout = run_lines(mexe, text)
    sweep_bad = None
    rows = 0
    for i, (a, b) in enumerate(zip(hout, mout)):
        rows += 1
        if a != b:
            sweep_bad = (i, a, b)
            break
    if len(hout) != len(mout) and not sweep_bad:
        sweep_bad = (min(len(hout), len(mout)), "length %d" % len(hout), "length %d" % len(mout))
    for c in cfgs:
        res.case(c, True)
    res.cov["evaluations"] += rows
    res.sample({"sweep_config": cfgs[3], "columns": "group has_super super_blk old_desc_blk new_desc_blk used_blks", "first_rows": hout[:4]})
    # ---- B. tools
    n = 26 if tier == "quick" else 260
    with concurrent.futures.ThreadPoolExecutor(8) as ex:
        outs = list(ex.map(lambda i: tool_case(src, mexe, i, seed, tier), range(n)))
        outs += list(ex.map(lambda b_: big_block_case(src, b_), (32768, 65536)))
    bad = []
    restores = 0
    for i, (recipe, problems, tries) in enumerate(outs):
        res.case(json.dumps(recipe), True)
        restores += tries
        if i < 2:
            res.sample(recipe)
        if problems:
            bad.append((recipe, problems))
    res.cov["correspondence"] = {"sweep_rows": rows, "sweep_configs": len(cfgs), "sweep_mismatch": sweep_bad,
                                 "images": n, "restores_from_backup": restores, "image_failures": len(bad),
                                 "compared": "ext2fs_bg_has_super / ext2fs_super_and_bgd_loc2 / ext2fs_list_backups vs the extracted Coq functions for every group of each configuration; on images: every location the model prescribes holds a valid current backup, and e2fsck -b restores an identical tree"}
    res.cov["oracle"] = {"evaluations": n + restores, "failures": len(bad)}
    res.cov["rule"] = ("sweep: fixed + random geometries (block size, desc size, groups up to 20000/70000, sparse_super/sparse_super2/meta_bg); images: 8 mke2fs configurations populated by debugfs then 0-3 of "
                       "tune2fs -U/-O/-L, e2fsck -fy/-fyD, resize2fs grow/shrink; restore from first/last/random backup (all in thorough); non-trivial: every case")
    res.add_obligation("C functions = Coq model on the whole sweep", sweep_bad is None)
    if sweep_bad:
        res.violation("correspondence", {"row": sweep_bad[0], "implementation": sweep_bad[1], "model": sweep_bad[2],
                                         "note": "backup-group arithmetic of libext2fs differs from the model (columns: group has_super super old_desc new_desc used)"},
                      has_input=True, signature="c20sweep:%s" % sweep_bad[1])
    for recipe, problems in bad[:3]:
        res.violation("oracle", {"recipe": recipe, "problems": problems[:6]},
                      signature="c20:" + hashlib.sha256(json.dumps(recipe).encode()).hexdigest()[:12])
    if not pr["ok"] and not bad and not sweep_bad:
        res.violation("proof", {"theorem_file": "coq/theories/Properties_C20.v", "failed_at": pr["failed_at"],
                                "forbidden": pr["forbidden"], "log_tail": pr["log_tail"][-1500:]}, has_input=False)

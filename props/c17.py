# C17 - block I/O layer: coherent, durable on flush, race-free bitmap loading
import json, os, subprocess, hashlib
import e2v
from extfmt import Fs

WORK = os.path.join(e2v.SCRATCH, "c17")


def hexdata(r, n, kind=None):
    kind = kind or r.random()
    if kind < 0.5:
        t = r.randint(1, 255)
        return "".join("%02x" % ((t + 13 * k) % 256) for k in range(n))
    return "".join("%02x" % r.randint(0, 255) for _ in range(n))


def gen_case(r, maxops):
    bsz = r.choice([8, 16, 16, 32])
    nblocks = r.choice([12, 20, 40])
    ops = []
    hot = [r.randint(0, nblocks - 1) for _ in range(3)]
    cur = bsz

    def blk(cnt=1):
        nb = (bsz * nblocks) // cur
        k = r.random()
        if k < 0.5:
            b = r.choice(hot) * bsz // cur + r.randint(-1, 1)
        else:
            b = r.randint(0, nb - 1)
        return max(0, min(b, nb - cnt))
    for _ in range(r.randint(3, maxops)):
        nb = (bsz * nblocks) // cur
        k = r.random()
        if k < 0.22:
            c = r.choice([1, 1, 2, 3, 4, 5, 6, 9])
            c = min(c, nb)
            ops.append("R %d %d" % (blk(c), c))
        elif k < 0.27:
            b = blk(2)
            ops.append("RB %d %d" % (b, r.randint(1, min(3 * cur, (nb - b) * cur))))
        elif k < 0.52:
            c = r.choice([1, 1, 1, 2, 3, 4, 5, 6, 9])
            c = min(c, nb)
            ops.append("W %d %d %s" % (blk(c), c, hexdata(r, c * cur)))
        elif k < 0.57:
            b = blk(2)
            ops.append("WB %d %s" % (b, hexdata(r, r.randint(1, min(3 * cur, (nb - b) * cur)))))
        elif k < 0.65:
            off = r.randint(0, bsz * nblocks - 1)
            ops.append("WY %d %s" % (off, hexdata(r, r.randint(1, min(2 * cur, bsz * nblocks - off)))))
        elif k < 0.72:
            c = r.randint(1, 3)
            c = min(c, nb)
            ops.append("Z %d %d" % (blk(c), c))
        elif k < 0.77:
            cur = r.choice([8, 16, 32])
            ops.append("SB %d" % cur)
        elif k < 0.84:
            ops.append("F")
        elif k < 0.88:
            ops.append("COFF")
        elif k < 0.93:
            ops.append("CON")
        else:
            ops.append("WT %d" % r.randint(0, 1))
    return (bsz, nblocks), ops


CORPUS = [
    ((16, 12), ["R 0 1", "W 0 5 " + "11" * 80, "R 0 1"]),
    ((16, 12), ["R 3 1", "WY 50 aabbcc", "R 3 1"]),
    ((16, 12), ["R 2 1", "Z 2 1", "R 2 1"]),
    ((16, 12), ["R 1 1", "COFF", "W 1 1 " + "22" * 16, "CON", "R 1 1"]),
    ((8, 20), ["W %d 1 %s" % (i, ("%02x" % i) * 8) for i in range(10)] + ["R 0 4", "R 4 4", "R 8 2", "F"]),
    # write-through switched on while block 1 is cached dirty; the cache fills; a write-through of blocks 0-1 evicts the old block 1
    ((16, 20), ["W 1 1 " + "4d" * 16, "R 3 3", "WT 1", "R 2 3", "W 14 1 " + "f1" * 16, "R 8 2", "W 0 2 " + "7a" * 32, "F", "R 0 2"]),
]


def run_prog(cmd, text, cwd=None):
    p = subprocess.run(cmd, input=text.encode(), stdout=subprocess.PIPE, stderr=subprocess.DEVNULL, timeout=900, cwd=cwd)
    return p.stdout.decode().split("\n")


def split_groups(lines):
    groups, cur = [], None
    for l in lines:
        if l == "N":
            cur = []
            groups.append(cur)
        elif l and cur is not None:
            cur.append(l)
    return groups


def text_for(cases, tag):
    out = []
    for i, (g, ops) in enumerate(cases):
        out.append("N %s/f_%s_%d.img %d %d" % (WORK, tag, i % 50, g[0], g[1]))
        out += ops
        out.append("C")
    return "\n".join(out) + "\n"


def nontrivial(ops):
    w = False
    for o in ops:
        c = o.split()[0]
        if c in ("W", "WB", "WY", "Z"):
            w = True
        elif c in ("R", "RB") and w:
            return True
    return False


def setup(src):
    e2v.ensure_build("tsan")
    e2v.build_harness("h_io", src)
    e2v.build_driver("iocache", ["theories/IoCache/IoModel.vo"], ["iocache_model"])


def fault_cases(seed, n):
    """write sequences with one injected EIO on the k-th device write"""
    out = []
    for i in range(n):
        r = e2v.rng(seed, "c17f", i)
        bsz, nblocks = 16, 24
        ops = []
        if r.random() < 0.5:
            ops.append("HANDLER")
        if i % 2 == 1:
            ops.append("WT 1")          # write-through: the device write happens inside the write call
        ops.append("FAIL %d" % r.randint(1, 12))
        for _ in range(r.randint(9, 20)):
            k = r.random()
            if k < 0.75:
                c = r.choice([1, 1, 1, 2, 5])
                ops.append("W %d %d %s" % (r.randint(0, nblocks - c), c, hexdata(r, c * bsz, 0.9)))
            elif k < 0.9:
                ops.append("R %d 1" % r.randint(0, nblocks - 1))
            else:
                ops.append("F")
        ops.append("F")
        out.append(((bsz, nblocks), ops))
    return out


THREAD_CONFIGS = [
    (["-t", "ext4", "-b", "1024", "-g", "256", "-N", "256"], "7M"),                 # 28 groups, flex 16
    (["-t", "ext4", "-b", "1024", "-g", "512", "-G", "4", "-N", "256"], "9M"),
    (["-t", "ext4", "-b", "1024", "-g", "256", "-O", "^flex_bg", "-N", "256"], "5M"),
    (["-t", "ext2", "-b", "1024", "-g", "256", "-N", "256"], "3M"),
    (["-t", "ext4", "-b", "4096", "-G", "2"], "300M"),
    (["-t", "ext4", "-b", "1024", "-g", "256", "-O", "^metadata_csum,uninit_bg", "-G", "8", "-N", "256"], "6M"),
    (["-t", "ext4", "-b", "1024", "-g", "256", "-G", "1", "-N", "128"], "1300K"),    # 5 groups
    # 64 groups whose bitmap blocks all have a damaged tail (padding bits clear): every loader thread has something to report
    (["-t", "ext2", "-b", "1024", "-g", "256", "-O", "^flex_bg,^resize_inode", "-N", "512"], "16M"),
    # the same geometry; a damaged block-bitmap tail only in the first groups, a damaged inode-bitmap tail only in the last group:
    # different threads report different flags, the loader has to merge them
    (["-t", "ext2", "-b", "1024", "-g", "256", "-O", "^flex_bg,^resize_inode", "-N", "512"], "16M"),
]
THREADS = ["1", "2", "3", "4", "5", "7", "8", "16", "33", "64", "0", "-1"]


def thread_check(src, tier, seed):
    """bitmaps loaded with every thread count must equal single-threaded loading; thorough: the same under ThreadSanitizer"""
    hb = e2v.build_harness("h_bmload", src)
    env = e2v.tool_env(src)
    bad, runs = [], 0
    imgs = []
    for k, (opts, size) in enumerate(THREAD_CONFIGS):
        img = os.path.join(WORK, "thr_%d.img" % k)
        if os.path.exists(img):
            os.unlink(img)
        rc, out = e2v.sh([os.path.join(src, "misc/mke2fs"), "-q", "-F"] + opts + [img, size], env=env, timeout=300)
        if rc != 0:
            continue
        r = e2v.rng(seed, "c17thr", k)
        cmds = ["mkdir d%d" % i for i in range(r.randint(2, 12))] + ["write /etc/services f%d" % i for i in range(r.randint(3, 30))]
        e2v.sh([os.path.join(src, "debugfs/debugfs"), "-w", "-f", "-", img], input=("\n".join(cmds) + "\n").encode(), env=env, timeout=300)
        if k >= len(THREAD_CONFIGS) - 2:
            fsx = Fs(img)
            split = k == len(THREAD_CONFIGS) - 1
            with open(img, "r+b") as f:
                for g_, gd in enumerate(fsx.groups):
                    for which_, blk in (("b", gd["block_bitmap"]), ("i", gd["inode_bitmap"])):
                        if split and not ((which_ == "b" and g_ < 3) or (which_ == "i" and g_ == len(fsx.groups) - 1)):
                            continue
                        f.seek(blk * fsx.bs + fsx.bs - 1)
                        f.write(b"\x7f")
        imgs.append((k, opts, img))
        p = subprocess.run([hb, img] + THREADS, stdout=subprocess.PIPE, stderr=subprocess.STDOUT, timeout=600)
        lines = [l.split() for l in p.stdout.decode().split("\n") if l.strip()]
        runs += len(lines)
        ref = [l for l in lines if l[0] == "1"]
        if p.returncode != 0 or len(lines) != len(THREADS) or not ref:
            bad.append({"mke2fs": opts, "why": "harness failed: rc %d, %d lines" % (p.returncode, len(lines))})
            continue
        for l in lines:
            if l[1:] != ref[0][1:]:
                bad.append({"mke2fs": opts, "threads": l[0], "single_threaded": ref[0][1:], "observed": l[1:]})
                break
    if True:
        # ThreadSanitizer build of the tree: all images in the thorough tier, the two with most threads at work in the quick one
        ts = e2v.ensure_build("tsan")
        ht = e2v.build_harness("h_bmload", ts, variant="tsan")
        for k, opts, img in (imgs if tier == "thorough" else [x for x in imgs if x[0] in (0, len(THREAD_CONFIGS) - 1)]):
            p = subprocess.run([ht, img] + THREADS, stdout=subprocess.PIPE, stderr=subprocess.STDOUT, timeout=900,
                               env=dict(os.environ, TSAN_OPTIONS="halt_on_error=0"))
            runs += len(THREADS)
            o = p.stdout.decode()
            if "ThreadSanitizer" in o:
                i = o.index("ThreadSanitizer")
                bad.append({"mke2fs": opts, "why": "ThreadSanitizer report: " + o[max(0, i - 20):i + 400].replace("\n", " | ")})
    return runs, bad, len(imgs)


def run(res, replay=None):
    tier, seed = res.tier, res.seed
    os.makedirs(WORK, exist_ok=True)
    src = e2v.ensure_build()
    hexe = e2v.build_harness("h_io", src)
    pr = e2v.coq_property("C17")
    res.add_proof(pr)
    mexe = e2v.build_driver("iocache", ["theories/IoCache/IoModel.vo"], ["iocache_model"])
    res.cov["trusted_base"] = e2v.TRUSTED_COMMON + [
        "POSIX file semantics of pread/pwrite/fsync on the backing file are assumed (the model's disk is a byte function)",
        "the run detection of unix_read_blk64 is modelled block by block; LRU order is not observable in results",
        "error paths (EIO on write-back) are not in the proved model; they are exercised by the fault oracle on the implementation",
        "write-through mode is part of the proved model (theorem hypothesis WThru = false removed after the repair of unix_write_blk64)",
        "thread interleavings of ext2fs_rw_bitmaps are represented by the proved partition of group ranges; data-race freedom of the C code is not proved",
    ]
    res.cov["partial"] = ["bounce-buffer (O_DIRECT) path, undo-wrapped and test_io channels, discard, readahead: not modelled",
                          "threaded bitmap loading: the partition arithmetic is proved; every thread count is compared with single-threaded loading on 8 geometries (one with a damaged tail in every bitmap block); under ThreadSanitizer on 2 of them in the quick tier, on all in the thorough tier"]
    if replay:
        rp = json.load(open(replay))
        cases = [(tuple(rp["geom"]), rp["ops"])]
    else:
        n = 1500 if tier == "quick" else 60000
        cases = CORPUS + [gen_case(e2v.rng(seed, "c17", i), 30 if tier == "quick" else 50) for i in range(n)]

    def outputs(cs):
        t = text_for(cs, "x")
        return {"impl": split_groups(run_prog([hexe], t)),
                "model": split_groups(run_prog([mexe, "model"], t)),
                "spec": split_groups(run_prog([mexe, "spec"], t))}

    def strip_d(rows):
        # compare return codes / data, and the final file image; ignore the fault counters
        out = []
        for l in rows:
            if l.startswith("D "):
                p = l.split()
                out.append("D " + p[1] + " " + p[-1])
            else:
                out.append(l)
        return out

    def fails(g, ops):
        o = outputs([(g, ops)])
        try:
            return strip_d(o["impl"][0]) != strip_d(o["spec"][0])
        except IndexError:
            return True

    stats = {"ops": {}, "blksz": {}}
    mism_oracle, mism_corr = [], []
    CH = 500
    for base in range(0, len(cases), CH):
        chunk = cases[base:base + CH]
        o = outputs(chunk)
        for i, (g, ops) in enumerate(chunk):
            res.case(json.dumps([g, ops]), nontrivial(ops))
            for op in ops:
                stats["ops"][op.split()[0]] = stats["ops"].get(op.split()[0], 0) + 1
            stats["blksz"][g[0]] = stats["blksz"].get(g[0], 0) + 1
            try:
                rows = {k: strip_d(o[k][i]) for k in o}
            except IndexError:
                mism_corr.append((g, ops, "missing output"))
                continue
            if base == 0 and i in (0, 5, 6):
                res.sample({"geom": g, "ops": [x[:60] for x in ops], "spec_results": [x[:60] for x in rows["spec"]]})
            if rows["impl"] != rows["spec"]:
                mism_oracle.append((g, ops))
            elif rows["model"] != rows["impl"]:
                mism_corr.append((g, ops, "model/impl differ"))
    res.cov["correspondence"] = {"cases": len(cases), "mismatches": len(mism_corr), "distribution": stats,
                                 "compared": "bytes returned by every read, return class of every op, backing file after close; model (extracted) vs unix_io on a real file"}
    res.add_obligation("correspondence model=implementation on all generated sequences", not mism_corr)

    def shrink(g, ops, pred):
        ops = list(ops)
        ch = True
        while ch:
            ch = False
            for i in range(len(ops) - 1, -1, -1):
                cand = ops[:i] + ops[i + 1:]
                if cand and pred(g, cand):
                    ops, ch = cand, True
        return ops
    for g, ops in mism_oracle[:3]:
        small = shrink(g, ops, fails)
        o = outputs([(g, small)])
        res.violation("oracle", {"geom": list(g), "ops": small, "expected_byte_array": o["spec"][0] if o["spec"] else None,
                                 "observed": o["impl"][0] if o["impl"] else None,
                                 "note": "unix_io returned bytes / left a file that differ from a flat byte array"},
                      signature="c17:" + json.dumps([list(g), small]))

    # fault oracle on the implementation: a failed device write must be reported
    fc = fault_cases(seed, 300 if tier == "quick" else 6000)
    fo = split_groups(run_prog([hexe], text_for(fc, "f")))
    nf, bad = 0, []
    for (g, ops), rows in zip(fc, fo):
        d = [l for l in rows if l.startswith("D ")]
        if not d:
            bad.append((g, ops, rows, "no final line"))
            continue
        p = d[0].split()
        injected, handled = int(p[2]), int(p[3])
        if injected == 0:
            continue
        nf += 1
        reported = any(l == "ERR" for l in rows) or p[1] == "ERR" or handled > 0
        if not reported:
            bad.append((g, ops, rows, "EIO injected but every operation returned success and no handler was called"))
    res.cov["oracle"] = {"evaluations": len(cases) + len(fc), "failures": len(mism_oracle) + len(bad),
                         "fault_runs_with_injected_EIO": nf,
                         "statement": "reads equal a flat byte array; file after close equals it; an injected EIO is reported by some operation up to close or by the write-error handler"}
    for g, ops, rows, why in bad[:2]:
        res.violation("oracle", {"geom": list(g), "ops": ops, "observed": rows, "note": why},
                      signature="c17f:" + hashlib.sha256(json.dumps(ops).encode()).hexdigest()[:16])
    res.cov["rule"] = ("seeded random channel op sequences on a real file (block sizes 8/16/32, 12-40 blocks), 3 hot blocks, counts around WRITE_DIRECT_SIZE (4 vs 5), "
                       "byte writes, zeroout, cache on/off, write-through, block-size changes; non-trivial = a read after a write; plus fault sequences with one injected EIO")
    truns, tbad, timgs = thread_check(src, tier, seed)
    res.cov["oracle"]["thread_loading_runs"] = truns
    res.cov["oracle"]["thread_loading_images"] = timgs
    res.cov["oracle"]["failures"] += len(tbad)
    res.cov["evaluations"] += truns
    for tb in tbad[:2]:
        res.violation("oracle", dict(tb, note="allocation bitmaps / flags loaded with several threads differ from single-threaded loading (or a data race was reported)"),
                      signature="c17thr:" + hashlib.sha256(json.dumps(tb, sort_keys=True).encode()).hexdigest()[:12])
    if not pr["ok"] and not mism_oracle and not bad and not tbad:
        res.violation("proof", {"theorem_file": "coq/theories/Properties_C17.v", "failed_at": pr["failed_at"],
                                "forbidden": pr["forbidden"], "log_tail": pr["log_tail"][-1500:]}, has_input=False)
    if mism_corr and not mism_oracle:
        g, ops, why = mism_corr[0]
        res.violation("correspondence", {"geom": list(g), "ops": ops, "why": why}, has_input=False)

# C05 - e2fsck never alters healthy files
import json, os, re, struct, subprocess, hashlib, shutil, concurrent.futures
import e2v, extfmt, corrupt
from extfmt import *
from props import c02

WORK = os.path.join(e2v.SCRATCH, "c05")
MODES = [["-fp"], ["-fy"], ["-fyD"], ["-fy", "-E", "bmap2extent"], ["-fy", "-E", "fixes_only"]]


def setup(src):
    e2v.build_driver("pack", ["theories/Rehash/Pack.vo"], ["pack_model"])


def op_csum_field(fs, d, r, keep):
    """damage only a checksum field of otherwise intact metadata"""
    k = r.choice(["inode", "gd", "bb", "ib", "dir", "sb"])
    if not fs.has_csum:
        k = "gd" if fs.has_gdt_csum else "none"
    if k == "inode":
        ino = r.choice(corrupt.regular_files(fs) + corrupt.directories(fs))
        a = fs.inode_loc(ino) + 124
        d[a] ^= 0xFF
        return "inode %d checksum field damaged" % ino
    if k == "gd":
        g = r.randrange(fs.groups_count)
        d[corrupt.gd_loc(fs, g) + 30] ^= 0xFF
        return "group %d descriptor checksum field damaged" % g
    if k in ("bb", "ib"):
        g = r.randrange(fs.groups_count)
        d[corrupt.gd_loc(fs, g) + (0x18 if k == "bb" else 0x1A)] ^= 0x55
        corrupt.fix_gd_csum(fs, d, g)
        return "group %d %s bitmap checksum field damaged" % (g, "block" if k == "bb" else "inode")
    if k == "dir":
        dirs = [i for i in corrupt.directories(fs)]
        ino = r.choice(dirs)
        inode = fs.inode(ino)
        m, _ = fs.file_map(ino, inode)
        lb = [l for l in m if l * fs.bs < inode["size"]]
        if lb:
            pblk = m[r.choice(lb)][0]
            d[fs.off + pblk * fs.bs + fs.bs - 1] ^= 0xFF
            return "directory %d: checksum field of a block damaged" % ino
        return "not applicable"
    if k == "sb":
        d[fs.off + 1024 + 0x3FC] ^= 0xFF
        return "superblock checksum field damaged"
    return "not applicable"


SUMMARY_OPS = [corrupt.op_bitmap_block, corrupt.op_bitmap_inode, corrupt.op_gd_counts, op_csum_field, op_csum_field]


def tree_of(path):
    try:
        return tree(Fs(path))
    except FormatError as ex:
        return {"<error>": str(ex)}


def tree_diff(a, b):
    return sorted(p for p in set(a) | set(b) if a.get(p) != b.get(p))[:5]


def pack_check(mexe, path):
    """after -D: leaf blocks of indexed directories vs the packing model; returns (blocks compared, mismatch or None)"""
    fs = Fs(path)
    B = fs.bs - (12 if fs.has_csum else 0)
    n = 0
    for ino in corrupt.directories(fs):
        inode = fs.inode(ino)
        if not inode["flags"] & INDEX_FL or inode["flags"] & INLINE_DATA_FL:
            continue
        m, _ = fs.file_map(ino, inode)
        leaves = []
        for lblk in sorted(m):
            if lblk == 0 or lblk * fs.bs >= inode["size"]:
                continue
            blk = fs.block(m[lblk][0])
            es = fs.dir_block_entries(blk)
            i0, rl0 = struct.unpack_from("<IH", blk, 0)
            if i0 == 0 and len([e for e in es if e[1]]) == 0:
                continue        # interior htree node
            ents = [(e[3], e[2]) for e in es if e[1] != 0]
            leaves.append(ents)
        if not leaves:
            continue
        names = [nl for blk in leaves for nl, rl in blk]
        slack = max(12, B * 20 // 100)
        p = subprocess.run([mexe], input=("%d %d %s\n" % (B, slack, " ".join(str(x) for x in names))).encode(),
                           stdout=subprocess.PIPE, timeout=60)
        model = [[tuple(int(v) for v in x.split(":")) for x in blk.split()] for blk in p.stdout.decode().strip().split(" | ")]
        n += len(leaves)
        if model != leaves:
            return n, {"dir_inode": ino, "model_blocks": model[:3], "observed_blocks": leaves[:3]}
    return n, None


def extra_image(src, kind):
    """consistent filesystems with shapes the common images lack:
    prealloc - files whose written extent is followed, logically and physically, by an unwritten one inside i_size,
               on a device whose old contents are not zero;
    bigalloc_dense - bigalloc, linear multi-block directories packed with long names, each followed by a file's clusters"""
    import mkimg
    img = os.path.join(WORK, "extra_%s.img" % kind)
    with e2v.Lock(img + ".lock"):
        keyf = img + ".key"
        k = open(os.path.join(e2v.SCRATCH, "std", "KEY")).read()
        if os.path.exists(img) and os.path.exists(keyf) and open(keyf).read() == k:
            return img
        T = lambda p: os.path.join(src, p)
        env = e2v.tool_env(src, E2FSPROGS_FAKE_TIME="1700000000")
        hf = mkimg.host_files(os.path.join(e2v.SCRATCH, "hostfiles"), 1)
        with open(img, "wb") as f:
            f.write(b"X" * (8 << 20))
        cmds = []
        if kind == "prealloc":
            opts = ["-t", "ext4", "-b", "1024", "-E", "nodiscard,lazy_itable_init=0,lazy_journal_init=0"]
            for i in range(6):
                cmds += ["write %s p%d" % (hf["small"], i), "sif p%d size 4096" % i, "fallocate p%d 1 3" % i]
            cmds += ["write %s plain" % hf["mid"], "mkdir d", "write %s d/q" % hf["small"], "sif d/q size 8192", "fallocate d/q 1 6"]
        elif kind == "casefold":
            # a casefold filesystem whose directories are NOT marked +F: names that differ only by case are different files
            opts = ["-t", "ext4", "-b", "1024", "-O", "casefold", "-E", "nodiscard,lazy_itable_init=0,lazy_journal_init=0"]
            cmds += ["mkdir small", "write %s small/Foo" % hf["small"], "write %s small/foo" % hf["tiny"], "write %s small/FOO" % hf["mid"],
                     "mkdir large"]
            for j in range(120):
                cmds += ["write /dev/null large/Name_%03d_%s" % (j, "x" * (j % 40)), "write /dev/null large/name_%03d_%s" % (j, "x" * (j % 40))]
            cmds += ["mkdir folded", "set_inode_field folded flags 0x40080000", "write %s folded/Alpha" % hf["small"], "write %s folded/beta" % hf["tiny"]]
        else:
            opts = ["-t", "ext4", "-b", "1024", "-O", "bigalloc", "-C", "4096", "-E", "nodiscard,lazy_itable_init=0,lazy_journal_init=0"]
            for i, n in enumerate([16, 32, 12, 28, 20, 48, 15, 16]):
                cmds.append("mkdir dd%d" % i)
                cmds += ["write /dev/null dd%d/%s_%03d" % (i, "L" * 190, j) for j in range(n)]
                cmds.append("write %s ddfile%d" % (hf["mid"], i))
        rc, out = e2v.sh([T("misc/mke2fs"), "-q", "-F"] + opts + ["-U", mkimg.UUID, "-E", "hash_seed=" + mkimg.HSEED, img], env=env, timeout=120) \
            if False else e2v.sh([T("misc/mke2fs"), "-q", "-F"] + opts[:-2] + ["-U", mkimg.UUID, "-E", opts[-1] + ",hash_seed=" + mkimg.HSEED, img], env=env, timeout=120)
        if rc != 0:
            raise RuntimeError("mke2fs failed for extra image %s: %s" % (kind, out[-300:]))
        e2v.sh([T("debugfs/debugfs"), "-w", "-f", "-", img], input=("\n".join(cmds) + "\n").encode(), env=env, timeout=300)
        rc, out = e2v.sh([T("e2fsck/e2fsck"), "-fn", img], env=env, timeout=300)
        if rc != 0:
            raise RuntimeError("extra image %s not clean: %s" % (kind, out[-400:]))
        open(keyf, "w").write(k)
        return img


EXTRA = [("prealloc", ["-fy", "-E", "bmap2extent"]), ("bigalloc_dense", ["-fyD"]), ("prealloc", ["-fyD"]), ("bigalloc_dense", ["-fy"]),
         ("prealloc", ["-fy"]), ("bigalloc_dense", ["-fy", "-E", "bmap2extent"]), ("casefold", ["-fyD"]), ("casefold", ["-fy"])]


def healthy_case(src, mexe, idx, seed, tier):
    r = e2v.rng(seed, "c05h", idx)
    if idx < len(EXTRA) or (tier != "quick" and idx % 40 == 7):
        name, mode = EXTRA[idx % len(EXTRA)]
        opts = ["(extra image)"]
        base = extra_image(src, name)
    else:
        name, opts, size = corrupt.IMG_CONFIGS[idx % len(corrupt.IMG_CONFIGS)]
        base = corrupt.build_image(src, WORK, name, opts, size, 1 + (idx // 12) % 2, nfiles=r.choice([60, 60, 150]))
        mode = MODES[(idx // len(corrupt.IMG_CONFIGS)) % len(MODES)]
    img = os.path.join(WORK, "h_%d.img" % idx)
    shutil.copy(base, img)
    t0 = tree_of(img)
    env = e2v.tool_env(src)
    rc, out = e2v.sh([os.path.join(src, "e2fsck/e2fsck")] + mode + [img], env=env, timeout=300)
    recipe = {"base": name, "mke2fs": opts, "mode": " ".join(mode), "case_index": idx}
    problems, drift, nblk = [], None, 0
    if rc not in (0, 1):
        problems.append("e2fsck %s on a consistent filesystem exits %d: %s" % (" ".join(mode), rc, out[-200:].replace("\n", " | ")))
    t1 = tree_of(img)
    if t1 != t0:
        problems.append("files changed: %s" % tree_diff(t0, t1))
    cons = c02.judge_consistency(img)
    if cons:
        problems.append("result inconsistent: %s" % cons[:3])
    rc2, out2 = e2v.sh([os.path.join(src, "e2fsck/e2fsck"), "-fn", img], env=env, timeout=300)
    if rc2 != 0:
        problems.append("e2fsck -fn exits %d after e2fsck %s on a consistent filesystem" % (rc2, " ".join(mode)))
    if "-fyD" in mode and not problems and cons is not None:
        nblk, drift = pack_check(mexe, img)
    os.unlink(img)
    return recipe, problems, drift, nblk


def summary_case(src, idx, seed, tier):
    r = e2v.rng(seed, "c05s", idx)
    name, opts, size = r.choice(corrupt.IMG_CONFIGS)
    base = corrupt.build_image(src, WORK, name, opts, size, 1)
    img = os.path.join(WORK, "s_%d.img" % idx)
    t0 = tree_of(base)
    if idx == 0:
        # directed: the bit of a bitmap block that flex_bg placed in an initialised group for a BLOCK_UNINIT group
        name, opts, size = [c for c in corrupt.IMG_CONFIGS if c[0] == "ext4_metabg48"][0]
        base = corrupt.build_image(src, WORK, name, opts, size, 1)
        t0 = tree_of(base)
        fs = Fs(base)
        shutil.copy(base, img)
        desc = ["nothing"]
        for g2, gd2 in enumerate(fs.groups):
            b = gd2["inode_bitmap"]
            g = (b - fs.first_data_block) // fs.blocks_per_group
            if gd2["flags"] & extfmt.BG_BLOCK_UNINIT and g != g2 and not fs.groups[g]["flags"] & extfmt.BG_BLOCK_UNINIT:
                bit = b - fs.group_first_block(g)
                with open(img, "r+b") as f:
                    f.seek(fs.groups[g]["block_bitmap"] * fs.bs + bit // 8)
                    c = f.read(1)[0]
                    f.seek(-1, 1)
                    f.write(bytes([c & ~(1 << (bit % 8))]))
                desc = ["block bitmap of group %d, bit %d cleared (inode bitmap of group %d, BLOCK_UNINIT)" % (g, bit, g2)]
                break
    else:
        desc = corrupt.corrupt(base, img, r, nops=r.choice([1, 1, 2]), operators=SUMMARY_OPS)
    env = e2v.tool_env(src)
    rc, out = e2v.sh([os.path.join(src, "e2fsck/e2fsck"), "-fy", img], env=env, timeout=300)
    recipe = {"base": name, "mke2fs": opts, "operators": desc, "case_index": idx, "groups": Fs(base).groups_count}
    problems = []
    if rc & ~3 or rc < 0:
        problems.append("e2fsck -fy exits %d" % rc)
    t1 = tree_of(img)
    if t1 != t0:
        problems.append("files changed by repairing summary-only damage: %s" % tree_diff(t0, t1))
    rc2, _ = e2v.sh([os.path.join(src, "e2fsck/e2fsck"), "-fn", img], env=env, timeout=300)
    if rc2 != 0:
        problems.append("not clean after repair (e2fsck -fn exit %d)" % rc2)
    cons = c02.judge_consistency(img)
    if cons:
        if not problems and c02.only_shadow(img, cons):
            # the one thing left is a clear on-disk bit for a metadata block of a BLOCK_UNINIT group (known finding, see C02)
            recipe["only_uninit_shadow"] = True
        problems.append("result inconsistent: %s" % cons[:3])
    os.unlink(img)
    return recipe, problems


def _cat(src, img, path, env):
    p = subprocess.run([os.path.join(src, "debugfs/debugfs"), "-R", "cat " + path, img], stdout=subprocess.PIPE, stderr=subprocess.DEVNULL, env=env, timeout=120)
    return hashlib.sha256(p.stdout).hexdigest()[:16], len(p.stdout)


def inline_ea_csum_case(src):
    """an inline-data file that also owns an attribute block; only that block's h_checksum is damaged: checksum-only damage,
    the repair may not change the file"""
    img = os.path.join(WORK, "d_inline_ea.img")
    T = lambda p: os.path.join(src, p)
    env = e2v.tool_env(src, E2FSPROGS_FAKE_TIME="1700000000")
    small, val = os.path.join(WORK, "d_small.txt"), os.path.join(WORK, "d_val.txt")
    open(small, "wb").write(b"x" * 99 + b"\n")
    open(val, "wb").write(b"v" * 300)
    recipe = {"directed": "inline_data file with an attribute block, h_checksum of the block xor 0x5a5a5a5a", "mode": "-fy", "case_index": -1}
    rc, out = e2v.sh([T("misc/mke2fs"), "-q", "-F", "-t", "ext4", "-O", "inline_data,metadata_csum", img, "8M"], env=env, timeout=120)
    e2v.sh([T("debugfs/debugfs"), "-w", "-f", "-", img], input=("write %s small\nea_set -f %s small user.big\n" % (small, val)).encode(), env=env, timeout=60)
    rc, out = e2v.sh([T("debugfs/debugfs"), "-R", "stat small", img], env=env, timeout=60)
    m = re.search(r"File ACL: (\d+)", out)
    if not m or int(m.group(1)) == 0 or e2v.sh([T("e2fsck/e2fsck"), "-fn", img], env=env, timeout=120)[0] != 0:
        return recipe, []
    before = _cat(src, img, "small", env)
    with open(img, "r+b") as f:
        off = int(m.group(1)) * 1024 + 16
        f.seek(off)
        c = struct.unpack("<I", f.read(4))[0]
        f.seek(off)
        f.write(struct.pack("<I", c ^ 0x5a5a5a5a))
    rc, out = e2v.sh([T("e2fsck/e2fsck"), "-fy", img], env=env, timeout=120)
    problems = []
    if rc & ~3 or rc < 0:
        problems.append("e2fsck -fy exits %d" % rc)
    after = _cat(src, img, "small", env)
    if after != before:
        problems.append("files changed by repairing checksum-only damage: /small was %d bytes (%s), is %d bytes (%s)" % (before[1], before[0], after[1], after[0]))
    if e2v.sh([T("e2fsck/e2fsck"), "-fn", img], env=env, timeout=120)[0] != 0:
        problems.append("not clean after repair")
    os.unlink(img)
    return recipe, problems


def bmap2extent_full_case(src):
    """a consistent filesystem without a free block; a block-mapped file of six fragments and no indirect block to recycle:
    -E bmap2extent needs a leaf block it cannot get"""
    img = os.path.join(WORK, "d_b2e_full.img")
    T = lambda p: os.path.join(src, p)
    env = e2v.tool_env(src, E2FSPROGS_FAKE_TIME="1700000000")
    r = e2v.rng(1, "c05b2e", 0)
    recipe = {"directed": "bmap2extent on a full filesystem (600 1k blocks, file of six one-block fragments, no free block)", "mode": "-fy -E bmap2extent", "case_index": -2}
    files = {}
    for nm, n in [("s%d" % i, 1024) for i in range(1, 15)] + [("frag", 6144), ("fill", 700000)]:
        files[nm] = os.path.join(WORK, "d_b2e_" + nm)
        open(files[nm], "wb").write(bytes(r.getrandbits(8) for _ in range(n)))
    rc, out = e2v.sh([T("misc/mke2fs"), "-q", "-F", "-t", "ext2", "-O", "^resize_inode,^dir_index", "-m", "0", "-b", "1024", "-N", "64", img, "600"], env=env, timeout=120)
    cmds = ["write %s s%d" % (files["s%d" % i], i) for i in range(1, 15)] + ["rm s%d" % i for i in (2, 4, 6, 8, 10, 12)] + \
           ["write %s frag" % files["frag"], "write %s fill" % files["fill"]]
    e2v.sh([T("debugfs/debugfs"), "-w", "-f", "-", img], input=("\n".join(cmds) + "\n").encode(), env=env, timeout=120)
    e2v.sh([T("e2fsck/e2fsck"), "-fy", img], env=env, timeout=120)
    for f in files.values():
        os.unlink(f)
    if e2v.sh([T("e2fsck/e2fsck"), "-fn", img], env=env, timeout=120)[0] != 0:
        return recipe, []
    before = _cat(src, img, "frag", env)
    rc, out = e2v.sh([T("e2fsck/e2fsck"), "-fy", "-E", "bmap2extent", img], env=env, timeout=120)
    problems = []
    after = _cat(src, img, "frag", env)
    if after != before:
        problems.append("files changed: /frag was %d bytes (%s), is %d bytes (%s); e2fsck -fy -E bmap2extent exit %d" % (before[1], before[0], after[1], after[0], rc))
        if "rebuilding extent map" in out or "Operation not permitted" in out or "No space" in out or "Could not allocate" in out:
            recipe["enospc_in_rebuild"] = True
    rc2 = e2v.sh([T("e2fsck/e2fsck"), "-fn", img], env=env, timeout=120)[0]
    if rc2 != 0:
        problems.append("e2fsck -fn exits %d after e2fsck -fy -E bmap2extent on a consistent filesystem" % rc2)
    os.unlink(img)
    return recipe, problems


def run(res, replay=None):
    tier, seed = res.tier, res.seed
    os.makedirs(WORK, exist_ok=True)
    src = e2v.ensure_build()
    pr = e2v.coq_property("C05")
    res.add_proof(pr)
    mexe = e2v.build_driver("pack", ["theories/Rehash/Pack.vo"], ["pack_model"])
    res.cov["trusted_base"] = e2v.TRUSTED_COMMON + [
        "lib/extfmt.py tree(): names, types, modes, owners, sizes, link counts, contents, symlink targets, xattrs as read by the check's own reader",
        "lib/corrupt.py summary-only operators (bitmap bits, descriptor counts, checksum fields)",
    ]
    res.cov["partial"] = ["proved: the entry-copying loop of the directory rebuild (copy_dir_entries); hash ordering, duplicate handling, index construction and the extent rebuild are observed through the tree comparison",
                          "inline_data / bigalloc / encrypted filesystems are outside the reader"]
    for nm, op, sz in corrupt.IMG_CONFIGS:
        corrupt.build_image(src, WORK, nm, op, sz, 1)
        corrupt.build_image(src, WORK, nm, op, sz, 2)
    nh = 36 if tier == "quick" else 900
    ns = 40 if tier == "quick" else 3000
    with concurrent.futures.ThreadPoolExecutor(16) as ex:
        houts = list(ex.map(lambda i: healthy_case(src, mexe, i, seed, tier), range(nh)))
        souts = list(ex.map(lambda i: summary_case(src, i, seed, tier), range(ns)))
    bad, drifts, nblk = [], [], 0
    modes = {}
    for recipe, problems, drift, n in houts:
        res.case(json.dumps(recipe), True)
        modes[recipe["mode"]] = modes.get(recipe["mode"], 0) + 1
        nblk += n
        if problems:
            bad.append((recipe, problems))
        if drift:
            drifts.append((recipe, drift))
    for recipe, problems in souts + [inline_ea_csum_case(src), bmap2extent_full_case(src)]:
        res.case(json.dumps(recipe), True)
        if problems:
            bad.append((recipe, problems))
    res.sample(houts[0][0])
    res.sample(souts[0][0])
    res.cov["correspondence"] = {"rebuilt_leaf_blocks_compared": nblk, "mismatches": len(drifts),
                                 "compared": "after e2fsck -fyD: (name_len, rec_len) of every leaf block of every indexed directory vs the extracted packing model"}
    res.cov["oracle"] = {"evaluations": nh + ns, "failures": len(bad), "healthy_runs_by_mode": modes, "summary_damage_runs": ns,
                         "statement": "exit 0/1 and identical tree on consistent filesystems in every repair mode; summary-only damage is repaired without changing any file"}
    res.cov["rule"] = ("healthy: 6 feature sets x 5 repair modes x 2 populations; summary-only damage: 1-2 of bitmap bit flips, descriptor count changes, checksum-field damage; non-trivial: every case")
    res.add_obligation("packing model = rebuilt directories", not drifts)
    def sig(recipe, problems=()):
        ops = " ".join(recipe.get("operators", []))
        # no backup superblock where e2fsck looks for one: non-default group size, or a single group - the repair run
        # gives up before it starts (exit 8); any other outcome on such an image is not this finding
        if "superblock checksum field damaged" in ops and ("-g" in recipe.get("mke2fs", []) or recipe.get("groups") == 1) and "e2fsck -fy exits 8" in problems:
            return "c05:sb-csum-damaged-nondefault-group-size"
        if recipe.get("only_uninit_shadow"):
            return "c05:uninit-group-metadata-bit-clear-on-disk"
        if recipe.get("case_index") == -2 and recipe.get("enospc_in_rebuild"):
            return "c05:bmap2extent-without-a-free-block"
        return "c05:" + hashlib.sha256(json.dumps(recipe).encode()).hexdigest()[:12]
    bad.sort(key=lambda x: 1 if sig(x[0], x[1]).startswith(("c05:sb-", "c05:uninit-", "c05:bmap2extent-")) else 0)
    KNOWN_SIGS = ("c05:sb-", "c05:uninit-", "c05:bmap2extent-")
    seen, unknown = set(), 0
    for recipe, problems in bad:
        sg = sig(recipe, problems)
        if sg.startswith(KNOWN_SIGS):
            if sg in seen:
                continue
            seen.add(sg)
        else:
            unknown += 1
            if unknown > 3:
                continue
        res.violation("oracle", {"recipe": recipe, "problems": problems[:5]}, signature=sg)
    if drifts and not bad:
        res.violation("correspondence", {"recipe": drifts[0][0], "drift": drifts[0][1],
                                         "note": "rebuilt directory blocks differ from the packing model; files and consistency are unaffected on every generated case"}, has_input=False)
    if not pr["ok"] and not bad and not drifts:
        res.violation("proof", {"theorem_file": "coq/theories/Properties_C05.v", "failed_at": pr["failed_at"],
                                "forbidden": pr["forbidden"], "log_tail": pr["log_tail"][-1500:]}, has_input=False)

# C14 - metadata checksums: format-exact and covering every protected byte
import json, os, struct, subprocess, hashlib, shutil
import e2v, extfmt
from extfmt import *

WORK = os.path.join(e2v.SCRATCH, "c14")


def setup(src):
    e2v.build_harness("h_csum", src)
    e2v.build_driver("csum", ["theories/Crc/Csum.vo"], ["csum_model"])


def ask(exe, lines):
    if not lines:
        return []
    p = subprocess.run([exe], input=("\n".join(lines) + "\n").encode(), stdout=subprocess.PIPE,
                       stderr=subprocess.DEVNULL, timeout=1800)
    return [x for x in p.stdout.decode().split("\n") if x != ""]


def ask_par(exe, lines, n=16):
    import concurrent.futures
    k = max(1, (len(lines) + n - 1) // n)
    parts = [lines[i:i + k] for i in range(0, len(lines), k)]
    with concurrent.futures.ThreadPoolExecutor(n) as ex:
        return [x for part in ex.map(lambda p: ask(exe, p), parts) for x in part]


# ---------------------------------------------------------------- images
CONFIGS = [
    ("mcsum1k", ["-t", "ext4", "-b", "1024", "-g", "2048", "-O", "metadata_csum,64bit", "-I", "256"], "6M"),
    ("mcsum4k", ["-t", "ext4", "-b", "4096", "-O", "metadata_csum,^64bit", "-I", "256"], "16M"),
    ("mcsum128", ["-t", "ext4", "-b", "1024", "-g", "4096", "-O", "metadata_csum,^64bit,^flex_bg", "-I", "128"], "6M"),
    ("seed", ["-t", "ext4", "-b", "2048", "-O", "metadata_csum,64bit,metadata_csum_seed", "-I", "512"], "8M"),
    ("gdtcsum", ["-t", "ext4", "-b", "1024", "-g", "2048", "-O", "^metadata_csum,uninit_bg", "-I", "256"], "6M"),
    ("desc128", ["-t", "ext4", "-b", "1024", "-O", "64bit,metadata_csum", "-E", "desc_size=128", "-I", "256", "-N", "256"], "8M"),
    ("gdtcsum_desc128", ["-t", "ext4", "-b", "2048", "-O", "64bit,^metadata_csum,uninit_bg", "-E", "desc_size=128", "-N", "256"], "8M"),
    ("mmp", ["-t", "ext4", "-b", "4096", "-O", "metadata_csum,mmp", "-I", "256"], "16M"),
]


def build_image(src, name, opts, size, seed):
    os.makedirs(WORK, exist_ok=True)
    img = os.path.join(WORK, name + ".img")
    if os.path.exists(img):
        os.unlink(img)
    T = lambda p: os.path.join(src, p)
    env = e2v.tool_env(src, E2FSPROGS_FAKE_TIME="1700000000")
    rc, out = e2v.sh([T("misc/mke2fs"), "-q", "-F"] + opts + ["-U", "0f1e2d3c-4b5a-6978-8796-a5b4c3d2e1f0", img, size], env=env, timeout=120)
    if rc != 0:
        raise RuntimeError("mke2fs failed for %s: %s" % (name, out[-300:]))
    r = e2v.rng(seed, "c14img", name)
    src_file = os.path.join(WORK, name + ".data")
    with open(src_file, "wb") as f:
        f.write(bytes(r.getrandbits(8) for _ in range(40000)))
    cmds = ["mkdir d1", "mkdir d1/sub", "mkdir big"]
    for i in range(r.randint(90, 160)):
        cmds.append("write %s big/file_with_a_long_name_%03d_%s" % (src_file if i % 40 == 0 else "/dev/null", i, "x" * r.randint(0, 40)))
    cmds += ["write %s d1/frag" % src_file]
    for k in range(1, 36, 2):
        cmds.append("punch d1/frag %d %d" % (k, k))
    if "1024" in opts:
        # more extents than four leaf blocks hold (84 each): a tree with an interior on-disk block
        deep = os.path.join(WORK, name + ".deep")
        with open(deep, "wb") as f:
            f.write(bytes(r.getrandbits(8) for _ in range(4096)) * 180)
        cmds += ["write %s d1/deep" % deep] + ["punch d1/deep %d %d" % (k, k) for k in range(1, 719, 2)]
    cmds += ["symlink d1/sl /" + "t" * 200, "ea_set d1/frag user.big %s" % ("v" * 300), "ea_set d1 user.small abc",
             "mknod d1/pipe p", "write %s d1/sub/second" % src_file]
    rc, out = e2v.sh([T("debugfs/debugfs"), "-w", "-f", "-", img], input="\n".join(cmds).encode() + b"\n", env=env, timeout=300)
    rc, out = e2v.sh([T("e2fsck/e2fsck"), "-fyD", img], env=env, timeout=300)
    if rc not in (0, 1):
        raise RuntimeError("e2fsck -fyD failed on %s (rc %s): %s" % (name, rc, out[-400:]))
    if "-I" in opts and opts[opts.index("-I") + 1] != "128":
        # inodes at the boundaries of "has i_checksum_hi": i_extra_isize 4 (just enough), 0 (none), 8; written by the tools
        e2v.sh([T("debugfs/debugfs"), "-w", "-f", "-", img], env=env, timeout=60,
               input=b"sif d1/sub/second extra_isize 4\nsif d1/sl extra_isize 8\nsif big extra_isize 0\n")
    rc, out = e2v.sh([T("e2fsck/e2fsck"), "-fn", img], env=env, timeout=300)
    if rc != 0:
        raise RuntimeError("image %s not clean after build (rc %s): %s" % (name, rc, out[-400:]))
    return img


# ---------------------------------------------------------------- objects
class Obj:
    def __init__(self, kind, ident, raw, file_off, req, stored, width, vcmd):
        self.kind, self.ident, self.raw, self.file_off = kind, ident, raw, file_off
        self.req = req          # function raw_bytes -> model request line
        self.stored = stored    # function raw_bytes -> stored checksum as the format stores it
        self.width = width      # 16 or 32 bits stored
        self.vcmd = vcmd        # function raw_bytes -> harness verify line


def objects(fs):
    objs = []
    H = lambda b: b.hex()
    if fs.incompat & INCOMPAT_CSUM_SEED:
        seed = fs.checksum_seed
    else:
        seed = None     # filled by caller from the model: crc32c(~0, uuid)
    return seed


def enumerate_objects(fs, seed):
    objs = []
    H = lambda b: bytes(b).hex()
    bs = fs.bs
    if fs.has_csum:
        objs.append(Obj("superblock", "sb", fs.sb_raw, fs.off + 1024,
                        lambda r: "sb " + H(r), lambda r: struct.unpack_from("<I", r, 0x3FC)[0], 32, lambda r: "VSB " + H(r)))
    if fs.has_csum:
        # every backup copy carries its own s_block_group_nr and therefore its own checksum
        for g in range(1, fs.groups_count):
            if not fs.bg_has_super(g):
                continue
            off = fs.off + fs.group_first_block(g) * bs
            raw = bytes(fs.d[off:off + 1024])
            if struct.unpack_from("<H", raw, 0x38)[0] != 0xEF53:
                continue
            objs.append(Obj("superblock_backup", "sb@group%d" % g, raw, off,
                            lambda r: "sb " + H(r), lambda r: struct.unpack_from("<I", r, 0x3FC)[0], 32, lambda r: "VSB " + H(r)))
    for g, gd in enumerate(fs.groups):
        loc = fs.off + fs.desc_block_loc(g // fs.desc_per_block) * bs + (g % fs.desc_per_block) * fs.desc_size
        if fs.has_csum:
            objs.append(Obj("group_desc", "gd%d" % g, gd["raw"], loc,
                            (lambda g: lambda r: "gd %d %d %s" % (seed, g, H(r)))(g),
                            lambda r: struct.unpack_from("<H", r, 0x1E)[0], 16, (lambda g: lambda r: "VGD %d %s" % (g, H(r)))(g)))
        elif fs.has_gdt_csum:
            objs.append(Obj("group_desc_crc16", "gd%d" % g, gd["raw"], loc,
                            (lambda g: lambda r: "gd16 %s %d %s" % (H(fs.uuid), g, H(r)))(g),
                            lambda r: struct.unpack_from("<H", r, 0x1E)[0], 16, (lambda g: lambda r: "VGD %d %s" % (g, H(r)))(g)))
        if fs.has_csum:
            wide = fs.desc_size >= 64
            if not gd["flags"] & BG_BLOCK_UNINIT:
                n = fs.clusters_per_group // 8
                raw = fs.block(gd["block_bitmap"])[:n]
                objs.append(Obj("block_bitmap", "bb%d" % g, raw, fs.off + gd["block_bitmap"] * bs,
                                lambda r: "bitmap %d %s" % (seed, H(r)),
                                (lambda gd: lambda r: gd["bb_csum"])(gd), 32 if wide else 16,
                                (lambda g: lambda r: "VBB %d %s" % (g, H(r)))(g)))
            if not gd["flags"] & BG_INODE_UNINIT:
                n = fs.inodes_per_group // 8
                raw = fs.block(gd["inode_bitmap"])[:n]
                objs.append(Obj("inode_bitmap", "ib%d" % g, raw, fs.off + gd["inode_bitmap"] * bs,
                                lambda r: "bitmap %d %s" % (seed, H(r)),
                                (lambda gd: lambda r: gd["ib_csum"])(gd), 32 if wide else 16,
                                (lambda g: lambda r: "VIB %d %s" % (g, H(r)))(g)))
    if not fs.has_csum:
        return objs
    for ino in fs.in_use_inodes():
        inode = fs.inode(ino)
        if ino < fs.first_ino and ino not in (2, 7, 8) and inode["mode"] == 0:
            continue
        has_hi = fs.inode_size > 128 and inode["extra_isize"] >= 4

        def stored_inode(r, has_hi=has_hi):
            lo = struct.unpack_from("<H", r, 124)[0]
            return lo | (struct.unpack_from("<H", r, 130)[0] << 16 if has_hi else 0)
        objs.append(Obj("inode", "ino%d" % ino, inode["raw"], fs.inode_loc(ino),
                        (lambda ino, has_hi: lambda r: "inode %d %d %d %s" % (seed, ino, 1 if has_hi else 0, H(r)))(ino, has_hi),
                        stored_inode, 32 if has_hi else 16, (lambda ino: lambda r: "VINODE %d %s" % (ino, H(r)))(ino)))
        gen = inode["generation"]
        fmt = inode["mode"] & 0xF000
        if inode["flags"] & EXTENTS_FL and not inode["flags"] & INLINE_DATA_FL and fmt in (0x8000, 0x4000, 0xA000):
            try:
                exts, nodes = fs.extent_tree(ino, inode)
            except FormatError:
                nodes = []
            for (pblk, raw, depth) in nodes:
                mx = struct.unpack_from("<H", raw, 4)[0]
                objs.append(Obj("extent_block", "ino%d@%d" % (ino, pblk), raw, fs.off + pblk * bs,
                                (lambda ino, gen, mx: lambda r: "extent %d %d %d %d %s" % (seed, ino, gen, mx, H(r)))(ino, gen, mx),
                                (lambda mx: lambda r: struct.unpack_from("<I", r, 12 + 12 * mx)[0])(mx), 32,
                                (lambda ino: lambda r: "VEXT %d %s" % (ino, H(r)))(ino)))
        if inode["file_acl"] and fmt in (0x8000, 0x4000, 0xA000, 0x1000, 0x2000, 0x6000, 0xC000):
            blk = inode["file_acl"]
            raw = fs.block(blk)
            if struct.unpack_from("<I", raw, 0)[0] == 0xEA020000:
                objs.append(Obj("xattr_block", "ino%d@%d" % (ino, blk), raw, fs.off + blk * bs,
                                (lambda blk: lambda r: "xattr %d %d %s" % (seed, blk, H(r)))(blk),
                                lambda r: struct.unpack_from("<I", r, 16)[0], 32,
                                (lambda ino, blk: lambda r: "VXA %d %d %s" % (ino, blk, H(r)))(ino, blk)))
        if fmt == 0x4000 and not inode["flags"] & INLINE_DATA_FL:
            m, _ = fs.file_map(ino, inode)
            for lblk in sorted(m):
                if lblk * bs >= inode["size"]:
                    continue
                pblk = m[lblk][0]
                raw = fs.block(pblk)
                dx = None
                i0, rl0, nl0, ft0 = struct.unpack_from("<IHBB", raw, 0)
                if lblk == 0 and inode["flags"] & INDEX_FL:
                    dx = 0x20
                elif inode["flags"] & INDEX_FL and i0 == 0 and rl0 == (bs if bs < 65536 else 0):
                    dx = 8
                if dx is not None:
                    limit, count = struct.unpack_from("<HH", raw, dx)
                    toff = dx + 8 * limit
                    if toff + 8 > bs:
                        continue
                    objs.append(Obj("htree_node", "ino%d@%d" % (ino, pblk), raw, fs.off + pblk * bs,
                                    (lambda ino, gen, dx, count, limit: lambda r: "dx %d %d %d %d %d %d %s" % (seed, ino, gen, dx, count, limit, H(r)))(ino, gen, dx, count, limit),
                                    (lambda toff: lambda r: struct.unpack_from("<I", r, toff + 4)[0])(toff), 32,
                                    (lambda ino: lambda r: "VDIR %d %s" % (ino, H(r)))(ino)))
                else:
                    ti, trl, tnl, tft = struct.unpack_from("<IHBB", raw, bs - 12)
                    if (ti, trl, tnl, tft) != (0, 12, 0, 0xDE):
                        objs.append(Obj("dir_leaf_without_tail", "ino%d@%d" % (ino, pblk), raw, fs.off + pblk * bs, None, None, 32, None))
                        continue
                    objs.append(Obj("dir_leaf", "ino%d@%d" % (ino, pblk), raw, fs.off + pblk * bs,
                                    (lambda ino, gen: lambda r: "dirent %d %d %d %s" % (seed, ino, gen, H(r)))(ino, gen),
                                    lambda r: struct.unpack_from("<I", r, len(r) - 4)[0], 32,
                                    (lambda ino: lambda r: "VDIR %d %s" % (ino, H(r)))(ino)))
    if fs.incompat & INCOMPAT_MMP and fs.mmp_block:
        raw = fs.block(fs.mmp_block)
        objs.append(Obj("mmp", "mmp", raw, fs.off + fs.mmp_block * bs, lambda r: "mmp %d %s" % (seed, H(r)),
                        lambda r: struct.unpack_from("<I", r, 1020)[0], 32, lambda r: "VMMP " + H(r)))
    if fs.compat & COMPAT_HAS_JOURNAL and fs.journal_inum:
        jm, _ = fs.file_map(fs.journal_inum)
        if 0 in jm:
            raw = fs.block(jm[0][0])[:1024]
            feat_incompat = struct.unpack_from(">I", raw, 0x28)[0]
            if feat_incompat & 0x18:     # csum v2 / v3
                objs.append(Obj("journal_sb", "jsb", raw, fs.off + jm[0][0] * bs, lambda r: "jsb " + H(r),
                                lambda r: struct.unpack_from(">I", r, 0xFC)[0], 32, None))
    return objs


# kinds whose damage must be reported both by the library path that reads them and by e2fsck -fn
E2E_KINDS = {"inode", "extent_block", "dir_leaf", "htree_node", "xattr_block", "block_bitmap", "inode_bitmap", "superblock", "mmp",
             "group_desc", "group_desc_crc16"}


def e2e_verdict(src, rexe, work, o):
    """None, or what failed to notice the altered byte"""
    import re
    m = re.match(r"ino(\d+)(?:@(\d+))?", o.ident)
    a, b = (int(m.group(1)), int(m.group(2) or 0)) if m else (0, 0)
    if o.kind in ("block_bitmap", "inode_bitmap"):
        a = int(o.ident[2:])
    why = []
    if not o.kind.startswith("group_desc"):
        rc, out = e2v.sh([rexe, work, o.kind, str(a), str(b)], timeout=60)
        codes = out.split()[1:] if out.startswith("R") else ["?"]
        need = {"inode": [0, 1], "extent_block": [0, 1, 2, 3]}.get(o.kind, [0])
        if codes and codes[0] == "open":
            codes = []          # the library refused the whole filesystem: noticed
        for k in need:
            if k < len(codes) and codes[k] == "0":
                why.append("library path %d of %s reports no error (h_csread: %s)" % (k, o.kind, out.strip()))
    rc, out = e2v.sh([os.path.join(src, "e2fsck/e2fsck"), "-fn", work], env=e2v.tool_env(src), timeout=300)
    if rc == 0:
        why.append("e2fsck -fn exits 0")
    return "; ".join(why) or None


def model_ok(val, stored, width):
    return (val & 0xFFFF) == stored if width == 16 else val == stored


def run(res, replay=None):
    tier, seed0 = res.tier, res.seed
    os.makedirs(WORK, exist_ok=True)
    src = e2v.ensure_build()
    import importlib.util
    spec = importlib.util.spec_from_file_location("gen_tables", os.path.join(e2v.VERIF, "gen", "gen_tables.py"))
    gt = importlib.util.module_from_spec(spec)
    spec.loader.exec_module(gt)
    gt.main(src, os.path.join(e2v.COQ, "theories", "Gen", "CrcTables.v"))
    res.cov["generated_tables"]["Gen/CrcTables.v"] = hashlib.sha256(open(os.path.join(e2v.COQ, "theories", "Gen", "CrcTables.v"), "rb").read()).hexdigest()[:16]
    hexe = e2v.build_harness("h_csum", src)
    pr = e2v.coq_property("C14")
    res.add_proof(pr)
    mexe = e2v.build_driver("csum", ["theories/Crc/Csum.vo"], ["csum_model"])
    res.cov["trusted_base"] = e2v.TRUSTED_COMMON + [
        "gen/gen_tables.py (translator of crc32c_table.h / crc16.c / crc32c_defs.h into Gen/CrcTables.v); theorem src_tables_match re-checks them against the polynomials on every run",
        "lib/extfmt.py: the check's own reader of the on-disk format (locates the objects whose checksums are recomputed)",
        "Csum.v is a reading of the ext4/jbd2 format definition (which bytes, which seed), validated in both directions against the tools",
    ]
    res.cov["partial"] = ["big-endian crc32 (jbd2 v1): bit-serial definition and correspondence only, no table/slicing theorem",
                          "16-bit stored checksums (group descriptors, inodes without i_checksum_hi, bitmaps with 32-byte descriptors): a changed byte changes the 32-bit CRC (proved) but may collide after truncation (2^-16)",
                          "journal descriptor/commit/revoke block checksums are covered under C03"]
    viol = []
    # ---- A. CRC primitives
    r = e2v.rng(seed0, "c14crc")
    ncrc = 1500 if tier == "quick" else 60000
    hreq, mreq, meta = [], [], []
    for i in range(ncrc):
        kind = r.choice(["CRC32C", "CRC32C", "CRC16", "CRC32BE"])
        k = r.random()
        ln = r.randint(0, 40) if k < 0.5 else (r.randint(40, 600) if k < 0.93 else r.randint(600, 4100 if tier == "quick" else 9000))
        al = r.randint(0, 15)
        sd = r.getrandbits(16 if kind == "CRC16" else 32) if r.random() < 0.8 else r.choice([0, 0xFFFFFFFF if kind != "CRC16" else 0xFFFF])
        data = bytes(r.getrandbits(8) for _ in range(ln)).hex() if r.random() < 0.8 else r.choice(["00", "ff"]) * ln
        hreq.append("%s %d %d %s" % (kind, sd, al, data))
        mreq.append("%s %d %s" % ({"CRC32C": "crc32c", "CRC16": "crc16", "CRC32BE": "crc32be"}[kind], sd, data))
        meta.append((kind, sd, al, ln))
    hres = ask(hexe, hreq)
    mres = ask_par(mexe, mreq)
    crc_bad = [(meta[i], hreq[i]) for i in range(ncrc) if i >= len(hres) or i >= len(mres) or hres[i] != mres[i]]
    for i in range(ncrc):
        res.case(hreq[i], meta[i][3] > 0)
    res.sample({"crc_case": {"kind": meta[0][0], "seed": meta[0][1], "align": meta[0][2], "len": meta[0][3]}})
    dist = {}
    for m in meta:
        key = "%s len%s" % (m[0], "0" if m[3] == 0 else "<8" if m[3] < 8 else "<64" if m[3] < 64 else "<1k" if m[3] < 1024 else ">=1k")
        dist[key] = dist.get(key, 0) + 1
    for m, req in crc_bad[:2]:
        res.violation("oracle", {"crc_request": req[:400], "note": "CRC primitive differs from its mathematical definition"},
                      signature="c14crc:%s:%d" % (m[0], m[3]))
    # ---- B/C. objects of real images
    total_objs, bad_format, kinds = 0, [], {}
    flips, flip_bad, escalated = 0, [], 0
    e2e, e2e_kinds = 0, {}
    rexe = e2v.build_harness("h_csread", src)
    imgs = CONFIGS if tier == "thorough" else CONFIGS[:7]
    for name, opts, size in imgs:
        img = build_image(src, name, opts, size, seed0)
        fs = Fs(img)
        if fs.incompat & INCOMPAT_CSUM_SEED:
            seed = fs.checksum_seed
        else:
            seed = int(ask(mexe, ["seed " + fs.uuid.hex()])[0])
        objs = [o for o in enumerate_objects(fs, seed)]
        notail = [o for o in objs if o.req is None]
        objs = [o for o in objs if o.req is not None]
        vals = ask_par(mexe, [o.req(o.raw) for o in objs])
        for o, v in zip(objs, vals):
            total_objs += 1
            kinds[o.kind] = kinds.get(o.kind, 0) + 1
            res.case(name + o.ident, True)
            if not model_ok(int(v), o.stored(o.raw), o.width):
                bad_format.append({"image": name, "mke2fs": opts, "object": o.kind, "id": o.ident,
                                   "stored": o.stored(o.raw), "format_definition": int(v)})
        for o in notail:
            bad_format.append({"image": name, "mke2fs": opts, "object": o.kind, "id": o.ident, "note": "directory block without checksum tail"})
        if len(res.cov["samples"]) < 4:
            res.sample({"image": name, "mke2fs_opts": opts, "objects": {k: v for k, v in kinds.items()}})
        # ---- D. flips: model verdict vs library verdict
        rr = e2v.rng(seed0, "c14flip", name)
        vobjs = [o for o in objs if o.vcmd is not None]
        per_kind = {}
        for o in vobjs:
            per_kind.setdefault(o.kind, []).append(o)
        chosen = []
        for k, lst in per_kind.items():
            for _ in range(12 if tier == "quick" else 150):
                o = rr.choice(lst)
                pos = rr.randrange(len(o.raw))
                bit = rr.randrange(8)
                mod = bytearray(o.raw)
                mod[pos] ^= 1 << bit
                chosen.append((o, pos, bit, bytes(mod)))
        mv = ask_par(mexe, [o.req(m) for o, p, b, m in chosen])
        lv = ask(hexe, ["OPEN " + img] + [o.vcmd(m) for o, p, b, m in chosen])[1:]
        # ---- E. the same flips on disk, read through the library's ordinary entry points and by e2fsck -fn
        work = img + ".e2e"
        shutil.copy(img, work)
        e2e_jobs = [(o, pos, mod) for (o, pos, bit, mod), m_val in zip(chosen, mv)
                    if not model_ok(int(m_val), o.stored(mod), o.width) and o.kind in E2E_KINDS]
        for o, pos, mod in e2e_jobs:
            with open(work, "r+b") as f:
                f.seek(o.file_off + pos)
                f.write(bytes([mod[pos]]))
            why = e2e_verdict(src, rexe, work, o)
            with open(work, "r+b") as f:
                f.seek(o.file_off + pos)
                f.write(bytes([o.raw[pos]]))
            e2e += 1
            e2e_kinds[o.kind] = e2e_kinds.get(o.kind, 0) + 1
            if why:
                flip_bad.append({"image": name, "mke2fs": opts, "object": o.kind, "id": o.ident, "byte": pos, "value": mod[pos], "note": why})
        os.unlink(work)
        for (o, pos, bit, mod), m_val, l_val in zip(chosen, mv, lv):
            flips += 1
            m_ok = model_ok(int(m_val), o.stored(mod), o.width)
            l_ok = l_val == "1"
            if m_ok == l_ok:
                continue
            if l_ok and not m_ok:
                # the library accepted bytes whose checksum is wrong by the format definition:
                # the property's second clause - e2fsck -fn must still reject the image
                escalated += 1
                tmp = img + ".flip"
                shutil.copy(img, tmp)
                with open(tmp, "r+b") as f:
                    f.seek(o.file_off + pos)
                    f.write(bytes([mod[pos]]))
                rc, out = e2v.sh([os.path.join(src, "e2fsck/e2fsck"), "-fn", tmp], timeout=300)
                os.unlink(tmp)
                if rc == 0:
                    flip_bad.append({"image": name, "mke2fs": opts, "object": o.kind, "id": o.ident, "byte": pos, "bit": bit,
                                     "note": "covered byte changed; library verify accepts and e2fsck -fn exits 0"})
            else:
                # the checksum tail of a directory block (fake dirent: inode 0, rec_len 12, name_len 0, type 0xDE) and the
                # htree count/limit header are validated as structures before any checksum is compared: damage there is
                # refused by the library although the checksum over the covered bytes still matches - not a violation
                if o.kind in ("dir_leaf", "htree_node"):
                    continue
                flip_bad.append({"image": name, "mke2fs": opts, "object": o.kind, "id": o.ident, "byte": pos, "bit": bit,
                                 "note": "library reports a checksum error where the format definition's checksum still matches"})
    res.cov["correspondence"] = {"crc_cases": ncrc, "crc_mismatches": len(crc_bad), "crc_distribution": dist,
                                 "objects_rechecksummed": total_objs, "object_kinds": kinds, "format_mismatches": len(bad_format),
                                 "flips": flips, "flips_read_back_from_disk": e2e, "read_back_by_kind": e2e_kinds, "flip_disagreements": len(flip_bad), "flips_escalated_to_e2fsck": escalated,
                                 "compared": "CRC primitives (extracted bit-serial definition vs ext2fs_crc32c_le/crc16/crc32_be at every alignment); stored checksum of every object vs Csum.v; verify verdict on flipped objects (Csum.v vs ext2fs_*_csum_verify)"}
    res.cov["oracle"] = {"evaluations": ncrc + total_objs + flips, "failures": len(crc_bad) + len(bad_format) + len(flip_bad)}
    res.cov["rule"] = ("CRC: seeded random (kind, seed, alignment 0..15, length 0..4100, content); objects: every checksummed object found by the independent reader in images built by mke2fs+debugfs+e2fsck -D "
                       "for several feature sets; flips: random single-bit changes per object kind; non-trivial = non-empty CRC input / any object")
    res.add_obligation("CRC primitives = mathematical definition on all generated inputs", not crc_bad)
    res.add_obligation("stored checksums = format definition for every enumerated object", not bad_format)
    res.add_obligation("verify verdicts agree (or e2fsck rejects) on all flips", not flip_bad)
    for b in bad_format[:2]:
        res.violation("oracle", dict(b, note=b.get("note", "stored checksum differs from the format definition")),
                      signature="c14fmt:%s:%s" % (b["image"], b["object"]))
    for b in flip_bad[:2]:
        res.violation("oracle", b, signature="c14flip:%s:%s" % (b["image"], b["object"]))
    if not pr["ok"] and not (crc_bad or bad_format or flip_bad):
        res.violation("proof", {"theorem_file": "coq/theories/Properties_C14.v", "failed_at": pr["failed_at"],
                                "forbidden": pr["forbidden"], "log_tail": pr["log_tail"][-1500:]}, has_input=False)

# C04 - journal recovery can be interrupted anywhere and re-run
import json, os, struct, shutil, hashlib, concurrent.futures
import e2v, extfmt
from props import c03
from jbd2enc import *

WORK = os.path.join(e2v.SCRATCH, "c04")


def setup(src):
    c03.setup(src)
    e2v.build_iotrace()


def crash_images(base, events, upto):
    """crash states for the prefix events[:upto]: writes before the last fsync are durable,
    later ones may be lost: yields (label, bytes) for {all kept, all lost, each single one lost}"""
    last_f = -1
    for i in range(upto):
        if events[i][0] == "F":
            last_f = i
    durable = bytearray(base)
    for e in events[:last_f + 1]:
        if e[0] == "W":
            durable[e[1]:e[1] + len(e[2])] = e[2]
    pending = [e for e in events[last_f + 1:upto] if e[0] == "W"]

    def apply(ws):
        d = bytearray(durable)
        for e in ws:
            d[e[1]:e[1] + len(e[2])] = e[2]
        return bytes(d)
    out = [("kept", apply(pending))]
    if pending:
        out.append(("lost", bytes(durable)))
        if len(pending) > 1:
            for i in range(len(pending)):
                out.append(("lost%d" % i, apply(pending[:i] + pending[i + 1:])))
            out.append(("reordered", apply(list(reversed(pending)))))
    return out


def one_journal(src, mexe, idx, seed, tier):
    r = e2v.rng(seed, "c04", idx)
    name, opts, size = r.choice(c03.BASES[:2])
    jimg = c03.JImage(c03.base_image(src, name, opts, size))
    mode = r.choice(["none", "v3"])
    inc = {"none": 0, "v3": INCOMPAT_CSUM3}[mode] | (INCOMPAT_64BIT if r.random() < 0.5 else 0)
    jlen = jimg.maxlen - jimg.first
    start_rel = r.choice([0, jlen - r.randint(1, 6), r.randint(0, jlen - 1)])
    seq0 = r.choice([3, 0xFFFFFFFE, r.randint(3, 1 << 30)])
    targets = jimg.free_blocks(r.randint(2, 6), r)
    cfg0 = Cfg(jimg.bs, jimg.first, jimg.maxlen, jimg.uuid, inc, seq0, start_rel)
    txns, note = c03.gen_txns(r, cfg0, targets)
    for _ in range(5):
        if len(txns) >= 1:
            break
        txns, note = c03.gen_txns(r, cfg0, targets)
    os.makedirs(WORK, exist_ok=True)
    a = os.path.join(WORK, "j%d.img" % idx)
    cfg, views = c03.prepare(jimg, inc, seq0, start_rel, txns, a)
    base = open(a, "rb").read()
    env = e2v.tool_env(src)
    cmd = lambda p: [os.path.join(src, "e2fsck/e2fsck"), "-fy", "-E", "journal_only", p]
    rc, out, ev = e2v.traced(cmd(a), a, a + ".trace", env=env)
    final = c03.observe(a, jimg, targets)
    bs = jimg.fs.bs
    problems = []
    recipe = {"base": name, "journal": {"csum": mode, "start_rel": start_rel, "seq0": seq0}, "note": note,
              "txns": [{"seq": x["seq"], "items": [(k, [t["blk"] for t in p] if k == "D" else p) for k, p in x["items"]], "commit": x.get("commit")} for x in txns]}
    # ---- shape of the trace (the model's protocol): replay writes < sync < journal reset < sync < needs_recovery cleared
    jsb_off = jimg.map[0] * bs
    first_reset = None
    for i, e in enumerate(ev):
        if e[0] == "W" and e[1] == jsb_off and len(e[2]) >= 0x20 and struct.unpack_from(">I", e[2], 0x1C)[0] == 0:
            first_reset = i
            break
    clear_idx = None
    for i, e in enumerate(ev):
        if e[0] == "W" and e[1] <= 1024 + 0x60 < e[1] + len(e[2]):
            v = bytearray(base[1024:2048])
            v[e[1] - 1024:e[1] - 1024 + len(e[2])] = e[2]
            if not struct.unpack_from("<I", v, 0x60)[0] & extfmt.INCOMPAT_RECOVER:
                clear_idx = i
                break
    verdict, mblocks = c03.model_run(mexe, cfg, views, False, targets)
    if verdict[0] == "OK":
        if first_reset is None or clear_idx is None:
            problems.append("journal reset or needs_recovery clearing not found in the write trace")
        else:
            tw = [i for i, e in enumerate(ev) if e[0] == "W" and e[1] // bs in targets and i < first_reset]
            if tw and not any(e[0] == "F" for e in ev[max(tw) + 1:first_reset]):
                problems.append("journal superblock reset (s_start=0) is written with no fsync after the last replayed block")
            late = [i for i, e in enumerate(ev) if e[0] == "W" and e[1] // bs in targets and first_reset < i < clear_idx]
            if late:
                problems.append("a replayed block is written after the journal was marked empty")
            if not any(e[0] == "F" for e in ev[first_reset + 1:clear_idx]):
                problems.append("needs_recovery is cleared with no fsync after the journal reset")
            # model's effective writes = observed final contents of the targets before the reset
            pre = bytearray(base)
            for e in ev[:first_reset]:
                if e[0] == "W":
                    pre[e[1]:e[1] + len(e[2])] = e[2]
            for t in targets:
                exp = mblocks[t] if mblocks.get(t) else base[t * bs:(t + 1) * bs]
                if bytes(pre[t * bs:(t + 1) * bs]) != exp:
                    problems.append("block %d before the journal reset differs from the model's replay" % t)
    # ---- crash points
    seg_end = (clear_idx + 2) if clear_idx is not None else len(ev)
    seg_end = min(seg_end, len(ev))
    runs = 0
    crash_bad = []
    ks = list(range(1, seg_end + 1))
    if tier == "quick" and len(ks) > 14:
        ks = sorted(set(ks[:8] + r.sample(ks[8:], 6)))
    for k in ks:
        for label, data in crash_images(base, ev, k):
            p = os.path.join(WORK, "j%d_crash.img" % idx)
            open(p, "wb").write(data)
            rc2, out2 = e2v.sh(cmd(p), env=env, timeout=120)
            runs += 1
            o = c03.observe(p, jimg, targets)
            why = None
            if rc2 == -9:
                why = "e2fsck timed out on the crash image"
            elif rc2 & ~3:
                why = "e2fsck exit %d on the crash image" % rc2
            elif any(o["blocks"][t] != final["blocks"][t] for t in targets):
                why = "re-run recovery gives different block contents than the uninterrupted run"
            elif o["j_start"] != 0 or o["needs_recovery"]:
                why = "journal not empty / needs_recovery set after re-running recovery"
            if why:
                crash_bad.append({"crash_after_event": k, "unflushed": label, "why": why})
                break
        if crash_bad:
            break
    problems += ["crash point %d (%s): %s" % (c["crash_after_event"], c["unflushed"], c["why"]) for c in crash_bad]
    return recipe, problems, {"events": len(ev), "segment": seg_end, "crash_runs": runs, "verdict": verdict[0], "ntx": len(txns)}, \
        [(e[0], e[1] // bs if e[0] == "W" else None) for e in ev[:seg_end]]


def run(res, replay=None):
    tier, seed = res.tier, res.seed
    os.makedirs(WORK, exist_ok=True)
    src = e2v.ensure_build()
    e2v.build_iotrace()
    pr = e2v.coq_property("C04")
    res.add_proof(pr)
    mexe = e2v.build_driver("jbd2", ["theories/Jbd2/Jbd2Model.vo"], ["jbd2_model"])
    for nm, op, sz in c03.BASES[:2]:
        c03.base_image(src, nm, op, sz)
    res.cov["trusted_base"] = e2v.TRUSTED_COMMON + [
        "harness/iotrace.c (LD_PRELOAD shim recording pwrite/write/fsync on the image)",
        "crash semantics assumed: data written before a completed fsync is durable; later writes may be lost individually or reordered; one write call is atomic",
        "lib/jbd2enc.py, lib/extfmt.py as in C03",
    ]
    res.cov["partial"] = ["device caches / barriers below fsync are represented only by the assumption above",
                          "crash points are enumerated on generated journals (all prefixes of the recovery segment in the thorough tier); the theorem covers every journal for the model"]
    n = 8 if tier == "quick" else 200
    idxs = [json.load(open(replay))["case_index"]] if replay else list(range(n))
    with concurrent.futures.ThreadPoolExecutor(8) as ex:
        outs = list(ex.map(lambda i: one_journal(src, mexe, i, seed, tier), idxs))
    bad = []
    tot_runs = 0
    for i, (recipe, problems, stat, shape) in zip(idxs, outs):
        res.case(json.dumps(recipe, default=str), stat["ntx"] >= 1)
        tot_runs += stat["crash_runs"]
        if len(res.cov["samples"]) < 2:
            res.sample({"journal": recipe, "trace_shape": shape[:40], "crash_runs": stat["crash_runs"]})
        if problems:
            bad.append((i, recipe, problems))
    res.cov["evaluations"] += tot_runs
    res.cov["correspondence"] = {"journals": len(idxs), "crash_reruns": tot_runs, "mismatches": len(bad),
                                 "compared": "order of replay writes / fsync / journal reset / needs_recovery clearing in the real write trace vs the model protocol; blocks before the reset vs model; every enumerated crash image re-recovered vs the uninterrupted result"}
    res.cov["oracle"] = {"evaluations": tot_runs, "failures": len(bad)}
    res.cov["rule"] = ("journals as in C03 (at least one transaction); for every prefix of the recovery segment of the real e2fsck write trace (sampled in the quick tier) the unflushed writes are {all kept, all lost, each one lost, reversed}; "
                       "distinct = journal recipe; non-trivial = at least one transaction")
    res.add_obligation("trace protocol and crash re-runs agree on all journals", not bad)
    for i, recipe, problems in bad[:3]:
        res.violation("oracle", {"case_index": i, "recipe": recipe, "problems": problems[:6]},
                      signature="c04:" + hashlib.sha256(json.dumps(recipe, default=str).encode()).hexdigest()[:12])
    if not pr["ok"] and not bad:
        res.violation("proof", {"theorem_file": "coq/theories/Properties_C04.v", "failed_at": pr["failed_at"],
                                "forbidden": pr["forbidden"], "log_tail": pr["log_tail"][-1500:]}, has_input=False)

# C04 - journal recovery can be interrupted anywhere and re-run
import json, os, struct, shutil, hashlib, concurrent.futures
import e2v, extfmt
from props import c03
from jbd2enc import *

WORK = os.path.join(e2v.SCRATCH, "c04")


def setup(src):
    c03.setup(src)
    e2v.build_iotrace()


def crash_images(base, events, upto):
    """crash states for the prefix events[:upto]: writes before the last fsync are durable,
    later ones may be lost: yields (label, bytes) for {all kept, all lost, each single one lost}"""
    last_f = -1
    for i in range(upto):
        if events[i][0] == "F":
            last_f = i
    durable = bytearray(base)
    for e in events[:last_f + 1]:
        if e[0] == "W":
            durable[e[1]:e[1] + len(e[2])] = e[2]
    pending = [e for e in events[last_f + 1:upto] if e[0] == "W"]

    def apply(ws):
        d = bytearray(durable)
        for e in ws:
            d[e[1]:e[1] + len(e[2])] = e[2]
        return bytes(d)
    out = [("kept", apply(pending))]
    if pending:
        out.append(("lost", bytes(durable)))
        if len(pending) > 1:
            for i in range(len(pending)):
                out.append(("lost%d" % i, apply(pending[:i] + pending[i + 1:])))
            out.append(("reordered", apply(list(reversed(pending)))))
    return out


def one_journal(src, mexe, idx, seed, tier):
    r = e2v.rng(seed, "c04", idx)
    name, opts, size = r.choice(c03.BASES[:2])
    jimg = c03.JImage(c03.base_image(src, name, opts, size))
    mode = r.choice(["none", "v3", "v1"])
    if idx % 4 == 3:
        mode = "v3"          # the directed partial-failure journal below needs per-block tag checksums
    inc = {"none": 0, "v3": INCOMPAT_CSUM3, "v1": V1_CHECKSUM}[mode] | (INCOMPAT_64BIT if r.random() < 0.5 else 0)
    jlen = jimg.maxlen - jimg.first
    start_rel = r.choice([0, jlen - r.randint(1, 6), r.randint(0, jlen - 1)])
    seq0 = r.choice([3, 0xFFFFFFFE, r.randint(3, 1 << 30)])
    targets = jimg.free_blocks(r.randint(2, 6), r)
    cfg0 = Cfg(jimg.bs, jimg.first, jimg.maxlen, jimg.uuid, inc, seq0, start_rel)
    txns, note = c03.gen_txns(r, cfg0, targets)
    for _ in range(5):
        if len(txns) >= 1:
            break
        txns, note = c03.gen_txns(r, cfg0, targets)
    if idx % 4 == 1:
        # every replayed block leaves the 8-entry block cache before recovery syncs: one transaction carries the data,
        # then enough revoke-only transactions (two journal reads each) follow to recycle the whole cache
        extra = jimg.free_blocks(len(targets) + 8, r)
        extra = [b for b in extra if b not in targets][:8]
        nrep = r.randint(1, min(3, len(targets)))
        tags = [{"blk": t, "data": (bytes([0x40 + i]) * 16 + struct.pack(">II", seq0, t)).ljust(jimg.bs, bytes([0x51 + i]))} for i, t in enumerate(targets[:nrep])]
        txns = [{"seq": seq0, "items": [("D", tags)], "commit": {"time": 1700000000}}]
        for i in range(r.choice([4, 5, 6, 8])):
            txns.append({"seq": (seq0 + 1 + i) & 0xFFFFFFFF, "items": [("R", [extra[i % len(extra)]])], "commit": {"time": 1700000001 + i}})
        note = "data transaction followed by %d revoke-only transactions" % (len(txns) - 1)
    elif idx % 4 == 3 and inc & INCOMPAT_CSUM3:
        # the replay pass fails only partly (one logged block fails its tag checksum, the others are written): recovery
        # reports the error, the journal is released all the same - the replayed blocks still have to be durable first
        nrep = min(4, max(3, len(targets)))
        tg = (targets * 4)[:nrep]
        tags = [{"blk": t, "data": (bytes([0x60 + i]) * 16 + struct.pack(">II", seq0, t)).ljust(jimg.bs, bytes([0x71 + i]))} for i, t in enumerate(dict.fromkeys(tg))]
        if len(tags) >= 2:
            tags[1]["bad_tag_csum"] = True
        txns = [{"seq": seq0, "items": [("D", tags)], "commit": {"time": 1700000000}}]
        note = "one transaction, the second logged block fails its tag checksum"
    os.makedirs(WORK, exist_ok=True)
    a = os.path.join(WORK, "j%d.img" % idx)
    cfg, views = c03.prepare(jimg, inc, seq0, start_rel, txns, a)
    base = open(a, "rb").read()
    env = e2v.tool_env(src)
    cmd = lambda p: [os.path.join(src, "e2fsck/e2fsck"), "-fy", "-E", "journal_only", p]
    rc, out, ev = e2v.traced(cmd(a), a, a + ".trace", env=env)
    final = c03.observe(a, jimg, targets)
    bs = jimg.fs.bs
    problems = []
    recipe = {"base": name, "journal": {"csum": mode, "start_rel": start_rel, "seq0": seq0}, "note": note,
              "txns": [{"seq": x["seq"], "items": [(k, [t["blk"] for t in p] if k == "D" else p) for k, p in x["items"]], "commit": x.get("commit")} for x in txns]}
    # ---- shape of the trace (the model's protocol): replay writes < sync < journal reset < sync < needs_recovery cleared
    jsb_off = jimg.map[0] * bs
    first_reset = None
    for i, e in enumerate(ev):
        if e[0] == "W" and e[1] == jsb_off and len(e[2]) >= 0x20 and struct.unpack_from(">I", e[2], 0x1C)[0] == 0:
            first_reset = i
            break
    clear_idx = None
    for i, e in enumerate(ev):
        if e[0] == "W" and e[1] <= 1024 + 0x60 < e[1] + len(e[2]):
            v = bytearray(base[1024:2048])
            v[e[1] - 1024:e[1] - 1024 + len(e[2])] = e[2]
            if not struct.unpack_from("<I", v, 0x60)[0] & extfmt.INCOMPAT_RECOVER:
                clear_idx = i
                break
    verdict, mblocks = c03.model_run(mexe, cfg, views, False, targets)
    if verdict[0] == "OK":
        if first_reset is None or clear_idx is None:
            problems.append("journal reset or needs_recovery clearing not found in the write trace")
        else:
            tw = [i for i, e in enumerate(ev) if e[0] == "W" and e[1] // bs in targets and i < first_reset]
            if tw and not any(e[0] == "F" for e in ev[max(tw) + 1:first_reset]):
                problems.append("journal superblock reset (s_start=0) is written with no fsync after the last replayed block")
            late = [i for i, e in enumerate(ev) if e[0] == "W" and e[1] // bs in targets and first_reset < i < clear_idx]
            if late:
                problems.append("a replayed block is written after the journal was marked empty")
            if not any(e[0] == "F" for e in ev[first_reset + 1:clear_idx]):
                problems.append("needs_recovery is cleared with no fsync after the journal reset")
            # model's effective writes = observed final contents of the targets before the reset
            pre = bytearray(base)
            for e in ev[:first_reset]:
                if e[0] == "W":
                    pre[e[1]:e[1] + len(e[2])] = e[2]
            for t in targets:
                exp = mblocks[t] if mblocks.get(t) else base[t * bs:(t + 1) * bs]
                if bytes(pre[t * bs:(t + 1) * bs]) != exp:
                    problems.append("block %d before the journal reset differs from the model's replay" % t)
    # ---- crash points
    seg_end = (clear_idx + 2) if clear_idx is not None else len(ev)
    seg_end = min(seg_end, len(ev))
    runs = 0
    crash_bad = []
    ks = list(range(1, seg_end + 1))
    if tier == "quick" and len(ks) > 14:
        ks = sorted(set(ks[:8] + r.sample(ks[8:], 6)))
    for k in ks:
        for label, data in crash_images(base, ev, k):
            p = os.path.join(WORK, "j%d_crash.img" % idx)
            open(p, "wb").write(data)
            rc2, out2 = e2v.sh(cmd(p), env=env, timeout=120)
            runs += 1
            o = c03.observe(p, jimg, targets)
            why = None
            if rc2 == -9:
                why = "e2fsck timed out on the crash image"
            elif rc2 & ~3:
                why = "e2fsck exit %d on the crash image" % rc2
            elif any(o["blocks"][t] != final["blocks"][t] for t in targets):
                why = "re-run recovery gives different block contents than the uninterrupted run"
            elif o["j_start"] != 0 or o["needs_recovery"]:
                why = "journal not empty / needs_recovery set after re-running recovery"
            if why:
                crash_bad.append({"crash_after_event": k, "unflushed": label, "why": why})
                break
        if crash_bad:
            break
    problems += ["crash point %d (%s): %s" % (c["crash_after_event"], c["unflushed"], c["why"]) for c in crash_bad]
    return recipe, problems, {"events": len(ev), "segment": seg_end, "crash_runs": runs, "verdict": verdict[0], "ntx": len(txns)}, \
        [(e[0], e[1] // bs if e[0] == "W" else None) for e in ev[:seg_end]]


XUUID = "1db3f677-6832-4adb-bafc-8e4059c30a34"


def two_file_crash_states(base_fs, base_j, ev, upto):
    """crash states of (filesystem file, journal file) after ev[:upto]: an fsync makes the earlier writes of ITS file durable;
    later writes of either file may be lost independently"""
    last = {"F": -1, "f": -1}
    for i in range(upto):
        if ev[i][0] in last:
            last[ev[i][0]] = i

    def split(wop, fop, base):
        d = bytearray(base)
        for e in ev[:last[fop] + 1]:
            if e[0] == wop:
                d[e[1]:e[1] + len(e[2])] = e[2]
        return d, [e for e in ev[last[fop] + 1:upto] if e[0] == wop]
    dfs, pfs = split("W", "F", base_fs)
    dj, pj = split("w", "f", base_j)

    def apply(d, ws):
        d = bytearray(d)
        for e in ws:
            d[e[1]:e[1] + len(e[2])] = e[2]
        return bytes(d)
    out = [("fs kept, journal kept", apply(dfs, pfs), apply(dj, pj))]
    if pfs:
        out.append(("fs unflushed writes lost, journal kept", bytes(dfs), apply(dj, pj)))
    if pj:
        out.append(("fs kept, journal unflushed writes lost", apply(dfs, pfs), bytes(dj)))
    if pfs and pj:
        out.append(("both lost", bytes(dfs), bytes(dj)))
    if len(pfs) > 1:
        for i in range(min(len(pfs), 4)):
            out.append(("fs write %d lost, journal kept" % i, apply(dfs, pfs[:i] + pfs[i + 1:]), apply(dj, pj)))
    return out


def ext_journal_case(src, idx, seed, tier):
    """recovery from an EXTERNAL journal: two devices, two flush domains"""
    r = e2v.rng(seed, "c04x", idx)
    env = e2v.tool_env(src)
    T = lambda p: os.path.join(src, p)
    bs = r.choice([1024, 4096])
    fsimg = os.path.join(WORK, "x%d_fs.img" % idx)
    jimg = os.path.join(WORK, "x%d_jnl.img" % idx)
    for p in (fsimg, jimg):
        if os.path.exists(p):
            os.unlink(p)
    e2v.sh([T("misc/mke2fs"), "-q", "-F", "-b", str(bs), "-O", "journal_dev", "-U", XUUID, jimg, "4096"], env=env, timeout=120)
    # two groups (a backup superblock exists) with checksums, or one group without: the field-by-field update of the primary
    # superblock is not one write call, and a single-group filesystem has nothing to fall back on when it is torn
    e2v.sh([T("misc/mke2fs"), "-q", "-F", "-t", "ext4", "-b", str(bs), "-O", "^has_journal" + (",^metadata_csum" if bs == 4096 else ""), fsimg, "16384" if bs == 1024 else "8192"], env=env, timeout=120)
    e2v.sh([T("debugfs/debugfs"), "-w", "-f", "-", fsimg], input=("feature has_journal\nssv journal_dev 0x9999\nssv journal_uuid %s\n" % XUUID).encode(), env=env, timeout=60)
    cmd = [T("e2fsck/e2fsck"), "-fy", "-j", jimg, fsimg]
    rc, out = e2v.sh(cmd, env=env, timeout=120)
    recipe = {"kind": "external journal", "block_size": bs, "case_index": idx}
    if rc & ~1:
        return recipe, ["could not set up a filesystem with an external journal: e2fsck exit %d" % rc], {"events": 0, "segment": 0, "crash_runs": 0, "verdict": "-", "ntx": 0}, []
    fs = extfmt.Fs(fsimg)
    free = []
    for g, gd in enumerate(fs.groups):
        if gd["flags"] & extfmt.BG_BLOCK_UNINIT:
            continue
        bm = fs.block(gd["block_bitmap"])
        b0 = fs.group_first_block(g)
        free += [b0 + i for i in range(min(fs.blocks_per_group, fs.blocks_count - b0)) if not (bm[i >> 3] >> (i & 7)) & 1]
    r.shuffle(free)
    targets, extra = sorted(free[:r.randint(2, 6)]), free[10:20]
    shape = idx % 3
    script, txd = [], []
    ntx = 1 if shape == 0 else r.randint(1, 4)
    for t in range(ntx):
        blks = sorted(r.sample(targets, r.randint(1, len(targets))))
        df = os.path.join(WORK, "x%d_data%d" % (idx, t))
        with open(df, "wb") as f:
            for b in blks:
                f.write((b"C04 txn %d block %d " % (t, b)).ljust(bs, bytes([0x30 + t])))
        script += ["jo -f %s" % jimg, "jw -b %s %s" % (",".join(map(str, blks)), df)]
        if shape == 2 and r.random() < 0.4:
            script.append("jw -r %d" % r.choice(extra))
        script.append("jc")
        txd.append({"write": blks})
    if shape == 1:
        for i in range(r.choice([4, 5, 6])):
            script += ["jo -f %s" % jimg, "jw -r %d" % extra[i], "jc"]
            txd.append({"revoke": [extra[i]]})
    rc, out = e2v.sh([T("debugfs/debugfs"), "-w", "-f", "-", fsimg], input=("\n".join(script) + "\n").encode(), env=env, timeout=120)
    recipe["transactions"] = txd
    base_fs, base_j = open(fsimg, "rb").read(), open(jimg, "rb").read()
    jsb_off = (2 if bs == 1024 else 1) * bs
    if struct.unpack_from(">I", base_j, jsb_off + 0x1C)[0] == 0:
        return recipe, ["debugfs did not leave a journal to recover (s_start = 0)"], {"events": 0, "segment": 0, "crash_runs": 0, "verdict": "-", "ntx": 0}, []
    rcmd = [T("e2fsck/e2fsck"), "-fy", "-E", "journal_only", "-j", jimg, fsimg]
    rc, out, ev = e2v.traced(rcmd, fsimg, fsimg + ".trace", env=env, watch2=jimg)
    final_fs = open(fsimg, "rb").read()
    final = {t: final_fs[t * bs:(t + 1) * bs] for t in targets}
    problems = []
    if rc & ~3:
        problems.append("uninterrupted recovery exits %d: %s" % (rc, out[-200:]))
    if all(final[t] == base_fs[t * bs:(t + 1) * bs] for t in targets):
        problems.append("recovery changed none of the journalled blocks")
    reset = next((i for i, e in enumerate(ev) if e[0] == "w" and e[1] == jsb_off and len(e[2]) >= 0x20 and struct.unpack_from(">I", e[2], 0x1C)[0] == 0), None)
    if reset is None:
        problems.append("journal reset (s_start = 0) not found in the write trace of the journal device")
    else:
        tw = [i for i, e in enumerate(ev[:reset]) if e[0] == "W" and e[1] // bs in targets]
        if not tw:
            problems.append("no replayed block reaches the filesystem file before the journal is marked empty")
        elif not any(e[0] == "F" for e in ev[max(tw) + 1:reset]):
            problems.append("the journal device's superblock is reset (s_start=0) with no fsync of the filesystem file after the last replayed block")
        if any(e[0] == "W" and e[1] // bs in targets for e in ev[reset + 1:]):
            problems.append("a replayed block is written after the journal was marked empty")
    seg_end = len(ev)
    ks = list(range(1, seg_end + 1))
    if tier == "quick" and len(ks) > 12:
        around = [k for k in ks if reset is not None and abs(k - 1 - reset) <= 3]
        ks = sorted(set(ks[:4] + around + r.sample(ks, 4)))
    runs = 0
    cf, cj = os.path.join(WORK, "x%d_cfs.img" % idx), os.path.join(WORK, "x%d_cj.img" % idx)
    ccmd = [T("e2fsck/e2fsck"), "-fy", "-E", "journal_only", "-j", cj, cf]
    for k in ks:
        if problems:
            break
        for label, dfs, dj in two_file_crash_states(base_fs, base_j, ev, k):
            open(cf, "wb").write(dfs)
            open(cj, "wb").write(dj)
            rc2, out2 = e2v.sh(ccmd, env=env, timeout=120)
            runs += 1
            o = open(cf, "rb").read()
            oj = open(cj, "rb").read()
            why = None
            if rc2 == -9:
                why = "e2fsck timed out on the crash state"
            elif rc2 & ~3:
                why = "e2fsck exit %d on the crash state" % rc2
            elif any(o[t * bs:(t + 1) * bs] != final[t] for t in targets):
                why = "re-run recovery gives different block contents than the uninterrupted run"
            elif struct.unpack_from(">I", oj, jsb_off + 0x1C)[0] != 0 or struct.unpack_from("<I", o, 1024 + 0x60)[0] & extfmt.INCOMPAT_RECOVER:
                why = "journal not empty / needs_recovery set after re-running recovery"
            if why:
                problems.append("crash after event %d (%s): %s" % (k, label, why))
                break
    for p in [fsimg, jimg, cf, cj, fsimg + ".trace"] + [os.path.join(WORK, "x%d_data%d" % (idx, t)) for t in range(ntx)]:
        if os.path.exists(p):
            os.unlink(p)
    return recipe, problems, {"events": len(ev), "segment": seg_end, "crash_runs": runs, "verdict": "-", "ntx": len(txd)}, \
        [(e[0], e[1] // bs if e[0] in "Ww" else None) for e in ev[:60]]


def run(res, replay=None):
    tier, seed = res.tier, res.seed
    os.makedirs(WORK, exist_ok=True)
    src = e2v.ensure_build()
    e2v.build_iotrace()
    pr = e2v.coq_property("C04")
    res.add_proof(pr)
    mexe = e2v.build_driver("jbd2", ["theories/Jbd2/Jbd2Model.vo"], ["jbd2_model"])
    for nm, op, sz in c03.BASES[:2]:
        c03.base_image(src, nm, op, sz)
    res.cov["trusted_base"] = e2v.TRUSTED_COMMON + [
        "harness/iotrace.c (LD_PRELOAD shim recording pwrite/write/fsync on the image)",
        "crash semantics assumed: data written before a completed fsync is durable; later writes may be lost individually or reordered; one write call is atomic",
        "lib/jbd2enc.py, lib/extfmt.py as in C03",
    ]
    res.cov["partial"] = ["device caches / barriers below fsync are represented only by the assumption above",
                          "crash points are enumerated on generated journals (all prefixes of the recovery segment in the thorough tier); the theorem covers every journal for the model"]
    n = 8 if tier == "quick" else 200
    nx = 3 if tier == "quick" else 60           # external-journal cases carry indices 100000+
    idxs = [json.load(open(replay))["case_index"]] if replay else list(range(n)) + [100000 + i for i in range(nx)]
    with concurrent.futures.ThreadPoolExecutor(8) as ex:
        outs = list(ex.map(lambda i: ext_journal_case(src, i, seed, tier) if i >= 100000 else one_journal(src, mexe, i, seed, tier), idxs))
    bad = []
    tot_runs = 0
    for i, (recipe, problems, stat, shape) in zip(idxs, outs):
        res.case(json.dumps(recipe, default=str), stat["ntx"] >= 1)
        tot_runs += stat["crash_runs"]
        if len(res.cov["samples"]) < 2:
            res.sample({"journal": recipe, "trace_shape": shape[:40], "crash_runs": stat["crash_runs"]})
        if problems:
            bad.append((i, recipe, problems))
    res.cov["evaluations"] += tot_runs
    res.cov["correspondence"] = {"journals": len(idxs), "crash_reruns": tot_runs, "mismatches": len(bad),
                                 "compared": "order of replay writes / fsync / journal reset / needs_recovery clearing in the real write trace vs the model protocol; blocks before the reset vs model; every enumerated crash image re-recovered vs the uninterrupted result"}
    res.cov["oracle"] = {"evaluations": tot_runs, "failures": len(bad)}
    res.cov["rule"] = ("journals as in C03 (at least one transaction), plus filesystems with an EXTERNAL journal device written by debugfs jo/jw/jc (two files, two flush domains: the filesystem file's unflushed writes may be lost while the journal file's are kept, and vice versa); for every prefix of the recovery segment of the real e2fsck write trace (sampled in the quick tier) the unflushed writes are {all kept, all lost, each one lost, reversed}; "
                       "distinct = journal recipe; non-trivial = at least one transaction")
    res.add_obligation("trace protocol and crash re-runs agree on all journals", not bad)
    for i, recipe, problems in bad[:3]:
        res.violation("oracle", {"case_index": i, "recipe": recipe, "problems": problems[:6]},
                      signature="c04:" + hashlib.sha256(json.dumps(recipe, default=str).encode()).hexdigest()[:12])
    if not pr["ok"] and not bad:
        res.violation("proof", {"theorem_file": "coq/theories/Properties_C04.v", "failed_at": pr["failed_at"],
                                "forbidden": pr["forbidden"], "log_tail": pr["log_tail"][-1500:]}, has_input=False)

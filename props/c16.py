# C16 - every bitmap implementation behaves as a set of integers
import json, os, subprocess, hashlib
import e2v

TYPES = {"ba": 1, "rb": 2}


def gen_geom(r):
    k = r.random()
    start = r.choice([0, 0, 1, 1, 3])
    if k < 0.5:
        end = start + r.randint(1, 70)
    elif k < 0.85:
        end = start + r.randint(60, 300)
    else:
        end = start + r.randint(300, 1500)
    real_end = end + r.choice([0, 0, 1, 7, 8, 9, 31])
    cb = r.choice([0, 0, 0, 1, 2, 4])
    return start, end, real_end, cb


def gen_ops(r, geom, nops):
    start, end, real_end, cb = geom
    lo, hi = start << cb, ((end + 1) << cb) - 1      # block numbers that map into the range
    ops = []
    hot = [r.randint(lo, hi) for _ in range(4)]       # positions revisited -> adjacency / cursor cases

    def pos():
        k = r.random()
        if k < 0.45:
            p = r.choice(hot) + r.randint(-2, 2) * (1 << cb)
        elif k < 0.6:
            p = r.choice([lo, lo + 1, hi, hi - 1, hi - (1 << cb)])
        elif k < 0.97:
            p = r.randint(lo, hi)
        else:
            p = r.choice([hi + 1, hi + (1 << cb), max(lo - 1, 0), hi + 1000])  # out of range
        return max(p, 0)

    def length(p):
        k = r.random()
        if k < 0.5:
            return r.randint(0, 5) << r.choice([0, cb])
        if k < 0.9:
            return r.randint(1, 40)
        if k < 0.97:
            return max(0, hi + 1 - p)          # to the end
        return hi + 2 - p if hi + 2 > p else 1  # one past the end
    for _ in range(nops):
        k = r.random()
        if k < 0.16:
            ops.append("M %d" % pos())
        elif k < 0.28:
            ops.append("U %d" % pos())
        elif k < 0.42:
            ops.append("T %d" % pos())
        elif k < 0.54:
            p = pos(); ops.append("MR %d %d" % (p, length(p)))
        elif k < 0.64:
            p = pos(); ops.append("UR %d %d" % (p, length(p)))
        elif k < 0.73:
            p = pos(); ops.append("TR %d %d" % (p, length(p)))
        elif k < 0.80:
            a = pos(); b = pos()
            if r.random() < 0.9 and a > b:
                a, b = b, a
            ops.append("FZ %d %d" % (a, b))
        elif k < 0.87:
            a = pos(); b = pos()
            if r.random() < 0.9 and a > b:
                a, b = b, a
            ops.append("FS %d %d" % (a, b))
        elif k < 0.91:
            # bulk get: any position and length inside [start, end] (byte boundaries half of the time)
            nb = end - start + 1
            off = 8 * r.randint(0, max(0, (nb - 1) // 8)) if r.random() < 0.5 else r.randint(0, max(0, nb - 1))
            n = r.randint(0, max(0, nb - off))
            ops.append("GR %d %d" % (start + off, n))
        elif k < 0.95:
            nb = end - start + 1
            if r.random() < 0.5:
                off = 8 * r.randint(0, max(0, (nb - 1) // 8))
                n = 8 * r.randint(0, max(0, (nb - off) // 8))
            else:
                off = r.randint(0, max(0, nb - 1))
                n = r.randint(0, max(0, nb - off))
            kind = r.random()
            if kind < 0.3:
                bits = "".join(r.choice("01") for _ in range(n))
            elif kind < 0.6:
                bits = "".join(r.choice(["00000000", "11111111", "00111100", "11110000"]) for _ in range(n // 8 + 1))[:n]
            else:
                bits = "".join(r.choice("0001") for _ in range(n))
            ops.append("SR %d %d %s" % (start + off, n, bits))
        elif k < 0.96:
            ops.append("CL")
        elif k < 0.98:
            ops.append("SNAP")
        else:
            ops.append("CMP")
    return ops


def run_prog(cmd, text):
    p = subprocess.run(cmd, input=text.encode(), stdout=subprocess.PIPE, stderr=subprocess.DEVNULL, timeout=600)
    return p.stdout.decode().split("\n")


def split_groups(lines):
    groups, cur = [], None
    for l in lines:
        if l == "G":
            cur = []
            groups.append(cur)
        elif l and cur is not None:
            cur.append(l)
    return groups


def nontrivial(ops):
    mut = 0
    for o in ops:
        c = o.split()[0]
        if c in ("M", "U", "MR", "UR", "SR", "CL", "PAD"):
            mut += 1
        elif mut >= 2:
            return True
    return False


def make_cases(seed, n, maxops):
    cases = []
    for i in range(n):
        r = e2v.rng(seed, "c16", i)
        g = gen_geom(r)
        ops = gen_ops(r, g, r.randint(3, maxops))
        # resizes: the geometry changes in mid-sequence (same real_end: the in-place path; other real_end: reallocation)
        cur = g
        while i % 3 == 0 and r.random() < 0.6:
            start, end, real_end, cb = cur
            if r.random() < 0.5:
                ops.append("PAD")
            k = r.random()
            if k < 0.35 and real_end > end:
                ne, nre = r.randint(end, real_end), real_end            # grow inside the allocated range
            elif k < 0.6:
                ne, nre = r.randint(start, end), real_end               # shrink, same allocation
            elif k < 0.8:
                ne = end + r.randint(1, 40); nre = ne + r.choice([0, 3, 8])   # grow with reallocation
            else:
                ne = r.randint(start, end); nre = ne + r.choice([0, 1, 9])   # shrink with reallocation
            ops.append("RS %d %d" % (ne, nre))
            cur = (start, ne, nre, cb)
            ops += gen_ops(r, cur, r.randint(2, max(3, maxops // 2)))
        cases.append((g, ops))
    return cases


CORPUS = [
    # minimised past failures / proof boundary cases, run first
    ((0, 63, 63, 0), ["FZ 0 63", "GR 0 16", "M 10", "M 11", "U 9", "T 9", "FZ 10 63"]),
    ((0, 40, 47, 0), ["M 40", "PAD", "RS 30 47", "RS 44 47", "T 35", "T 41", "FS 0 44", "RS 46 60", "FS 31 46"]),
    ((1, 40, 47, 0), ["MR 5 5", "SR 9 16 1111000011110000", "GR 1 40", "TR 10 3", "SNAP", "M 40", "CMP"]),
    # bulk get/set off the byte boundaries, and lengths that are not whole bytes
    ((0, 63, 63, 0), ["M 13", "M 20", "GR 3 16", "SR 5 6 110011", "GR 0 16", "SR 17 3 101", "GR 16 8", "GR 2 61"]),
    ((1, 40, 47, 0), ["MR 3 30", "SR 8 5 01010", "GR 1 40", "GR 6 13", "SR 2 39 " + "10" * 19 + "1", "GR 1 40"]),
    ((0, 30, 31, 2), ["M 7", "MR 8 9", "T 4", "FS 0 100", "FZ 4 123", "UR 3 2", "TR 0 4"]),
]


def shrink(geom, ops, fails):
    ops = list(ops)
    changed = True
    while changed:
        changed = False
        for i in range(len(ops) - 1, -1, -1):
            cand = ops[:i] + ops[i + 1:]
            if cand and fails(geom, cand):
                ops = cand
                changed = True
    return ops


def setup(src):
    e2v.build_harness("h_bitmap", src)
    e2v.build_driver("bitmap", ["theories/Bitmap/RBModel.vo", "theories/Bitmap/BAModel.vo", "theories/Bitmap/BmResize.vo"], ["bitmap_model"])


def run(res, replay=None):
    tier, seed = res.tier, res.seed
    src = e2v.ensure_build()
    hexe = e2v.build_harness("h_bitmap", src)
    pr = e2v.coq_property("C16")
    res.add_proof(pr)
    res.cov["trusted_base"] = e2v.TRUSTED_COMMON + [
        "rbtree.c (rebalancing, next/prev/first/last) is represented by its in-order node sequence; exercised by correspondence only",
        "C integer wrap-around is not modelled: positions < 2^63, counts < 2^32 (generator respects this)",
        "bulk get/set are modelled and proved for every start and length (the bit-array back end was repaired to honour ranges off byte boundaries)",
        "bit-array tests such as byte != 0xff are modelled through the bits they inspect",
    ]
    res.assumptions = ["the legacy 32-bit bitmaps (gen_bitmap.c), ext2fs_fudge_generic_bmap_end and allocation failure are not modelled: partial",
                       "array alignment in the C run is whatever malloc returns (al = 0); the theorem covers every alignment"]
    res.cov["partial"] = ["ext2fs_resize_generic_bmap is modelled (BmResize.v: the common range is kept, the rest reads clear); fudge_end and allocation failure are not", "legacy 32-bit bitmap (gen_bitmap.c): single bits, bulk get/set, clear and resize are compared with the reference set on in-range requests; its find-first, range-test and error behaviour is not"]
    mexe = e2v.build_driver("bitmap", ["theories/Bitmap/RBModel.vo", "theories/Bitmap/BAModel.vo", "theories/Bitmap/BmResize.vo"], ["bitmap_model"])

    if replay:
        rp = json.load(open(replay))
        cases = [(tuple(rp["geom"]), rp["ops"])]
    else:
        n = 3000 if tier == "quick" else 120000
        cases = CORPUS + make_cases(seed, n, 40 if tier == "quick" else 60)

    def text_for(cs, typ):
        out = []
        for g, ops in cs:
            out.append("G %d %d %d %d %d" % (TYPES[typ], g[0], g[1], g[2], g[3]))
            out += ops
        return "\n".join(out) + "\n"

    def outputs(cs):
        o = {}
        for typ in ("ba", "rb"):
            t = text_for(cs, typ)
            o["impl_" + typ] = split_groups(run_prog([hexe], t))
            o["model_" + typ] = split_groups(run_prog([mexe, typ], t))
        o["spec"] = split_groups(run_prog([mexe, "fs"], text_for(cs, "rb")))
        return o

    def fails(geom, ops):
        o = outputs([(geom, ops)])
        try:
            return not (o["impl_ba"][0] == o["spec"][0] == o["impl_rb"][0])
        except IndexError:
            return True

    # ---- the legacy 32-bit back end: single bits, bulk get/set at any alignment, clear, resize (shrink, grow) - in-range
    # requests only, no clusters - against the same reference set
    def legacy_cases(nl):
        rr = e2v.rng(seed, "c16legacy")
        out_ = [((0, 100, 100, 0), ["MR 0 64", "RS 10 10", "RS 100 100"] + ["T %d" % i for i in range(8, 20)]),
                ((0, 63, 63, 0), ["M 21", "GR 19 8", "GR 16 8", "SR 19 8 00100001", "GR 16 16", "T 19", "T 21", "T 26"])]
        for _ in range(nl):
            st = rr.choice([0, 0, 1, 8])
            en = st + rr.randint(10, 300)
            geom = (st, en, en, 0)
            ops_ = []
            for _ in range(rr.randint(5, 40)):
                k = rr.random()
                p_ = rr.randint(st, en)
                if k < 0.25:
                    ops_.append("M %d" % p_)
                elif k < 0.35:
                    ops_.append("U %d" % p_)
                elif k < 0.55:
                    ops_.append("T %d" % p_)
                elif k < 0.7:
                    ops_.append("GR %d %d" % (p_, rr.randint(1, en - p_ + 1)))
                elif k < 0.82:
                    n_ = rr.randint(1, en - p_ + 1)
                    ops_.append("SR %d %d %s" % (p_, n_, "".join(rr.choice("01") for _ in range(n_))))
                elif k < 0.86:
                    ops_.append("CL")
                else:
                    en = max(st + 2, en + rr.choice([-40, -9, -7, -1, 1, 7, 9, 40, 100]))
                    ops_.append("RS %d %d" % (en, en))
            out_.append((geom, ops_))
        return out_
    lcases = legacy_cases(300 if tier == "quick" else 20000)
    ltext = lambda typ: "\n".join("\n".join(["G %d %d %d %d %d" % (typ, g[0], g[1], g[2], g[3])] + ops_) for g, ops_ in lcases) + "\n"
    l_impl = split_groups(run_prog([hexe], ltext(0)))
    l_spec = split_groups(run_prog([mexe, "fs"], ltext(2)))
    lbad = [(lcases[i][0], lcases[i][1], l_impl[i] if i < len(l_impl) else None, l_spec[i] if i < len(l_spec) else None)
            for i in range(len(lcases)) if i >= len(l_impl) or i >= len(l_spec) or l_impl[i] != l_spec[i]]
    res.cov["legacy_32bit"] = {"histories": len(lcases), "mismatches": len(lbad), "operations": "mark/unmark/test, get/set range at any alignment, clear, resize down and up"}
    for g_, ops_, a_, b_ in lbad[:2]:
        k_ = next((j for j in range(min(len(a_ or []), len(b_ or []))) if a_[j] != b_[j]), None)
        res.violation("oracle", {"geom": list(g_), "ops": ops_, "backend": "legacy 32-bit (gen_bitmap.c)", "first_difference_at_row": k_,
                                 "implementation": (a_ or [])[k_] if k_ is not None else None, "reference_set": (b_ or [])[k_] if k_ is not None else None},
                      signature="c16legacy:" + hashlib.sha256(json.dumps([g_, ops_]).encode()).hexdigest()[:12])
    stats = {"ops": {}, "geoms": {"cbits": {}, "start": {}}, "results": {}}
    mism_corr, mism_oracle = [], []
    CH = 2000
    for base in range(0, len(cases), CH):
        chunk = cases[base:base + CH]
        o = outputs(chunk)
        for i, (g, ops) in enumerate(chunk):
            canon = json.dumps([g, ops])
            res.case(canon, nontrivial(ops))
            for op in ops:
                stats["ops"][op.split()[0]] = stats["ops"].get(op.split()[0], 0) + 1
            stats["geoms"]["cbits"][g[3]] = stats["geoms"]["cbits"].get(g[3], 0) + 1
            stats["geoms"]["start"][g[0]] = stats["geoms"]["start"].get(g[0], 0) + 1
            try:
                rows = {k: o[k][i] for k in o}
            except IndexError:
                mism_corr.append((g, ops, "missing output (crash?)", {k: len(o[k]) for k in o}))
                continue
            for line in rows["spec"]:
                stats["results"][line.split()[0] + (" " + line.split()[1] if line[0] == "E" else "")] = \
                    stats["results"].get(line.split()[0] + (" " + line.split()[1] if line[0] == "E" else ""), 0) + 1
            if base == 0 and i < 3:
                res.sample({"geom": g, "ops": ops, "spec_results": rows["spec"]})
            # oracle: implementation vs the reference set, and back ends agree
            if not (rows["impl_ba"] == rows["spec"] and rows["impl_rb"] == rows["spec"]):
                mism_oracle.append((g, ops, rows))
            # correspondence: model vs implementation per back end
            elif not (rows["model_ba"] == rows["impl_ba"] and rows["model_rb"] == rows["impl_rb"]):
                mism_corr.append((g, ops, "model/impl differ", rows))
    res.cov["correspondence"] = {"cases": len(cases), "mismatches": len(mism_corr), "distribution": stats,
                                 "compared": "every result line of every op, bit-array and rbtree back ends, model (extracted OCaml) vs libext2fs"}
    res.cov["oracle"] = {"evaluations": len(cases) * 2, "failures": len(mism_oracle),
                         "statement": "each result of each back end equals the reference set's (FSet) result"}
    res.cov["rule"] = ("seeded random op sequences (3..40/60 ops) over random geometries (start 0/1/3, 2..1500 bits, cluster bits 0/1/2/4); "
                       "positions concentrated on 4 hot spots +-2, range ends and out-of-range; non-trivial = contains a query after >= 2 mutating ops; distinct by sha256 of (geometry, ops)")
    res.add_obligation("correspondence model=implementation on all generated sequences", not mism_corr)

    for g, ops, rows in mism_oracle[:3]:
        small = shrink(g, ops, fails)
        o = outputs([(g, small)])
        res.violation("oracle", {"geom": list(g), "ops": small,
                                 "expected_reference_set": o["spec"][0] if o["spec"] else None,
                                 "observed_bitarray": o["impl_ba"][0] if o["impl_ba"] else None,
                                 "observed_rbtree": o["impl_rb"][0] if o["impl_rb"] else None,
                                 "note": "libext2fs bitmap result differs from the reference set"},
                      signature="c16:" + json.dumps([list(g), small]))
    if not pr["ok"]:
        # broken proof obligation: search already ran above (oracle on the implementation)
        if not mism_oracle:
            res.violation("proof", {"theorem_file": "coq/theories/Properties_C16.v", "failed_at": pr["failed_at"],
                                    "forbidden": pr["forbidden"], "log_tail": pr["log_tail"][-1500:]}, has_input=False)
    if mism_corr and not mism_oracle:
        g, ops, why, rows = mism_corr[0]
        res.violation("correspondence", {"geom": list(g), "ops": ops, "why": why, "rows": rows,
                                         "note": "model and implementation differ but the implementation agrees with the reference set on every generated case"},
                      has_input=False)

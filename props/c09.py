# C09 - file data written through libext2fs reads back exactly
import json, os, re, struct, subprocess, hashlib, shutil, concurrent.futures
import e2v, extfmt
from extfmt import *

WORK = os.path.join(e2v.SCRATCH, "c09")
CONFIGS = [
    ("extent_1k", ["-t", "ext4", "-b", "1024"]),
    ("extent_4k", ["-t", "ext4", "-b", "4096"]),
    ("blockmap_1k", ["-t", "ext2", "-b", "1024"]),
    ("blockmap_2k", ["-t", "ext3", "-b", "2048"]),
    ("extent_nocsum_1k", ["-t", "ext4", "-b", "1024", "-O", "^metadata_csum,^64bit"]),
    ("inline_1k", ["-t", "ext4", "-b", "1024", "-O", "inline_data"]),
    ("bigalloc_1k", ["-t", "ext4", "-b", "1024", "-O", "bigalloc", "-C", "8192"]),
]


def setup(src):
    e2v.build_harness("h_file", src)
    e2v.build_driver("filespec", ["theories/FileIO/FileSpec.vo"], ["filespec_model"])
    e2v.build_driver("filebuf", ["theories/FileIO/FileBuf.vo"], ["filebuf_model"])


def gen_ops(r, bs, nfiles, nops, inline, inline_sz=False):
    """(harness line, model line or None) pairs; positions around block, 12-block (first indirect) and extent boundaries"""
    ops = []
    pos = {f: 0 for f in range(nfiles)}
    size = {f: 0 for f in range(nfiles)}
    marks = [0, 1, 59, 60, 61, bs - 1, bs, bs + 1, 2 * bs, 4 * bs - 3, 12 * bs - 1, 12 * bs, 12 * bs + 5, 13 * bs, 20 * bs + 7, 40 * bs]
    limit = 45 * bs if bs <= 2048 else 14 * bs
    for _ in range(nops):
        f = r.randrange(nfiles)
        k = r.random()
        if k < 0.4:
            p = r.choice(marks) if r.random() < 0.6 else r.randint(0, limit)
            p = min(p, limit)
            n = r.choice([1, 2, 7, 60, 61, 100, bs - 1, bs, bs + 1, 2 * bs + 3, 3 * bs]) if r.random() < 0.7 else r.randint(1, 3 * bs)
            data = r.randbytes(n) if r.random() < 0.85 else bytes(n)
            ops.append((["S %d %d" % (f, p), "W %d %s" % (f, data.hex())], "W %d %d %s" % (f, p, data.hex())))
            size[f] = max(size[f], p + n)
        elif k < 0.7:
            p = r.choice(marks) if r.random() < 0.5 else r.randint(0, limit)
            n = r.choice([1, 60, bs, 2 * bs + 1, 5 * bs])
            ops.append((["S %d %d" % (f, p), "R %d %d" % (f, n)], "R %d %d %d" % (f, p, n)))
        elif k < 0.8 and not (inline and not inline_sz):
            s = r.choice(marks + [limit // 2]) if r.random() < 0.7 else r.randint(0, limit)
            ops.append((["SZ %d %d" % (f, s)], "Z %d %d" % (f, s)))
            size[f] = s
        elif k < 0.88 and not inline:
            a = r.randint(0, limit // bs)
            b = a + r.choice([0, 0, 1, 2, 4, 11, 30])
            ops.append((["FL %d" % f, "P @%d %d %d" % (f, a, b), "REOPEN %d" % f], "P %d %d %d" % (f, a, b)))
        elif k < 0.91 and not inline and size[f] >= 2 * bs:
            # preallocation inside the file: content must not change (holes keep reading as zeros, data stays)
            a = r.randint(0, size[f] // bs - 1)
            b = min(size[f] // bs - 1, a + r.choice([0, 1, 2, 5, 9, 17]))
            ops.append((["FL %d" % f, "FA @%d %d %d" % (f, a, b), "REOPEN %d" % f], None))
        elif k < 0.94:
            ops.append((["FL %d" % f], None))
        else:
            ops.append((["REOPEN %d" % f], None))
    return ops


def mkops(seq):
    """('W', f, pos, nbytes, fill) | ('R', f, pos, n) | ('Z', f, size) | ('P', f, a, b) -> generator format"""
    out = []
    for t in seq:
        if t[0] == "W":
            data = (bytes([t[4]]) * t[3]).hex()
            out.append((["S %d %d" % (t[1], t[2]), "W %d %s" % (t[1], data)], "W %d %d %s" % (t[1], t[2], data)))
        elif t[0] == "R":
            out.append((["S %d %d" % (t[1], t[2]), "R %d %d" % (t[1], t[3])], "R %d %d %d" % (t[1], t[2], t[3])))
        elif t[0] == "Z":
            out.append((["SZ %d %d" % (t[1], t[2])], "Z %d %d" % (t[1], t[2])))
        elif t[0] == "P":
            out.append((["FL %d" % t[1], "P @%d %d %d" % (t[1], t[2], t[3]), "REOPEN %d" % t[1]], "P %d %d %d" % (t[1], t[2], t[3])))
        elif t[0] == "F":
            out.append((["FL %d" % t[1], "FA @%d %d %d" % (t[1], t[2], t[3]), "REOPEN %d" % t[1]], None))
        elif t[0] == "L":
            out.append((["FL %d" % t[1]], None))
        elif t[0] == "O":
            out.append((["REOPEN %d" % t[1]], None))
    return out


# minimised past failures and the case-split boundaries of truncate / punch, run first on three configurations
def corpus(bs):
    return [
        [("W", 0, 0, 4, 0xAA), ("Z", 0, 2), ("Z", 0, 61), ("R", 0, 0, 100)],                                   # tail behind a truncation
        [("W", 1, 12 * bs, bs + 1, 0xA1), ("Z", 1, 12 * bs), ("W", 1, 13 * bs, bs + 1, 0xB2)],                # buffered block freed by the truncate
        [("W", 0, 12 * bs, 100, 0xC3), ("Z", 0, 12 * bs), ("W", 0, 12 * bs, 10, 0xD4), ("R", 0, 12 * bs, 20)],  # truncate exactly in front of the buffered block
        [("W", 0, 0, 3 * bs - 100, 0x58), ("Z", 0, 2 * bs), ("W", 0, 2 * bs, 10, 0x59)],
        [("W", 0, 0, 2 * bs - 100, 0x42), ("Z", 0, bs), ("W", 1, 0, bs, 0x43), ("R", 1, 0, bs)],               # a stale dirty buffer must not land in another file
        [("W", 1, 19 * bs + 400, 500, 0xE5), ("P", 1, 8, 19)],                                                 # punch from the direct into the indirect range
        [("W", 0, 0, 30 * bs, 0x77), ("P", 0, 10, 13), ("R", 0, 9 * bs, 6 * bs)],
        [("W", 0, 0, 30 * bs, 0x78), ("P", 0, 5, 20), ("R", 0, 4 * bs, 18 * bs)],
        # preallocation right behind data that ends inside a cluster, next to another file's cluster; and over a punched hole
        [("W", 1, 0, 8 * bs, 0x61), ("W", 0, 0, 3 * bs, 0x62), ("Z", 0, 24 * bs), ("F", 0, 3, 12), ("R", 0, 0, 24 * bs), ("R", 1, 0, 8 * bs)],
        [("W", 0, 0, 5 * bs + 7, 0x63), ("Z", 0, 40 * bs), ("F", 0, 6, 30), ("W", 0, 20 * bs, 10, 0x64), ("R", 0, 0, 40 * bs)],
        [("W", 0, 0, 30 * bs, 0x65), ("P", 0, 4, 9), ("F", 0, 2, 11), ("R", 0, 0, 30 * bs)],
        # two adjacent uninitialized extents (preallocate, write, punch, preallocate again): a write into the last block of the
        # first / the first block of the second must become an initialized block of its own
        [("Z", 0, 10 * bs), ("F", 0, 0, 9), ("W", 0, 5 * bs, bs, 0x41), ("P", 0, 5, 5), ("F", 0, 5, 5), ("W", 0, 5 * bs, bs, 0x42), ("R", 0, 0, 10 * bs)],
        [("Z", 0, 12 * bs), ("F", 0, 0, 11), ("W", 0, 6 * bs, bs, 0x43), ("P", 0, 6, 6), ("F", 0, 6, 6), ("W", 0, 7 * bs, bs, 0x44), ("R", 0, 0, 12 * bs),
         ("W", 0, 6 * bs, 10, 0x45), ("R", 0, 0, 12 * bs)],
        [("Z", 0, 20 * bs), ("F", 0, 2, 15), ("W", 0, 8 * bs, 2 * bs, 0x46), ("P", 0, 8, 9), ("F", 0, 8, 9), ("W", 0, 9 * bs, bs, 0x47), ("W", 0, 8 * bs, bs, 0x48), ("R", 0, 0, 20 * bs)],
        # truncation into the middle of the block that sits CLEAN in the handle's buffer (after a flush / after reading it), the
        # buffer then moves elsewhere, the file grows again: the cut-off bytes must read as zeros
        [("W", 0, 0, 3 * bs, 0x65), ("L", 0), ("R", 0, 2 * bs, 10), ("Z", 0, 2 * bs + 476), ("R", 0, 0, bs), ("Z", 0, 3 * bs), ("R", 0, 2 * bs, bs)],
        [("W", 1, 0, 2 * bs + 100, 0x66), ("L", 1), ("Z", 1, bs + 7), ("R", 1, 0, 10), ("W", 1, 2 * bs, 5, 0x67), ("R", 1, bs, bs + 5)],
        [("W", 0, 0, 2 * bs, 0x68), ("O", 0), ("R", 0, bs, bs), ("Z", 0, bs + 1), ("O", 0), ("Z", 0, 2 * bs), ("R", 0, bs, bs)],
        # a write that enters the last, partial block at its start and ends exactly at EOF (no read-modify-write needed for the live
        # bytes) while the handle's buffer holds another block: what lies behind EOF in that block must stay zero for a later extension
        [("W", 0, 0, bs + 476, 0x31), ("R", 0, 0, bs), ("W", 0, bs, 476, 0x32), ("Z", 0, 2 * bs), ("R", 0, bs, bs)],
        [("W", 1, 0, 2 * bs + 100, 0x33), ("R", 1, bs, bs), ("W", 1, 2 * bs, 100, 0x34), ("W", 1, 3 * bs, 5, 0x35), ("R", 1, 2 * bs, bs + 5)],
        [("W", 0, 0, 1500, 0x36), ("O", 0), ("R", 0, 0, 10), ("W", 0, 0, 1500, 0x37), ("Z", 0, 4 * bs), ("R", 0, 0, 4 * bs)],
        # 270 preallocated blocks (three leaves of 1k), every third written, then the blocks in front of the written ones: each of those writes hands the
        # last block of an unwritten extent to the written extent behind it - also where that one is the first entry of the next leaf
        (lambda nb: [("Z", 0, nb * bs), ("F", 0, 0, nb - 1)] + [("W", 0, i * bs, bs, 0x20 + i % 200) for i in range(0, nb, 3)] +
         [("W", 0, i * bs, bs, 0x21 + i % 200) for i in range(2, nb, 3)] + [("R", 0, 0, nb * bs)])(270 if bs == 1024 else 90),
        [("W", 0, 0, 30 * bs, 0x79), ("P", 0, 0, 20)], [("W", 0, 0, 30 * bs, 0x7A), ("P", 0, 12, 12)], [("W", 0, 0, 30 * bs, 0x7B), ("P", 0, 11, 12)],
    ]


def corpus_case(src, hexe, mexe, k):
    cfgs = [CONFIGS[2], CONFIGS[0], CONFIGS[1], CONFIGS[6]]
    name, opts = cfgs[k % 4]
    bs = int(opts[opts.index("-b") + 1])
    seq = corpus(bs)[k // 4]
    return execute(src, hexe, mexe, name, opts, mkops(seq), 7000 + k)


def enospc_ind_case(src):
    """a block-mapped file, one free block left, a write at logical block 12: the indirect block gets the last free block,
    the data block cannot be had - the failed write has to leave a consistent filesystem"""
    T = lambda p_: os.path.join(src, p_)
    env = e2v.tool_env(src)
    img = os.path.join(WORK, "enospc.img")
    host = {n: os.path.join(WORK, "enospc_" + n) for n in ("tiny", "filler", "sparse")}
    open(host["tiny"], "wb").write(b"t" * 1024)
    open(host["filler"], "wb").write(b"f" * (3 << 20))
    with open(host["sparse"], "wb") as f:
        f.seek(12 * 1024)
        f.write(b"0123456789")
    recipe = {"config": "ext2 1k 2M, one free block", "ops": ["write <hole of 12 blocks + 10 bytes> /f"], "directed": "enospc_ind"}
    e2v.sh([T("misc/mke2fs"), "-q", "-F", "-t", "ext2", "-b", "1024", "-m", "0", "-O", "^resize_inode", img, "2M"], env=env, timeout=60)
    e2v.sh([T("debugfs/debugfs"), "-w", "-f", "-", img], input=("write %s tiny\nwrite %s filler\n" % (host["tiny"], host["filler"])).encode(), env=env, timeout=120)
    e2v.sh([T("e2fsck/e2fsck"), "-fy", img], env=env, timeout=120)
    e2v.sh([T("debugfs/debugfs"), "-w", "-R", "rm tiny", img], env=env, timeout=60)
    free = Fs(img).free_blocks if hasattr(Fs(img), "free_blocks") else None
    rc0 = e2v.sh([T("e2fsck/e2fsck"), "-fn", img], env=env, timeout=120)
    m = re.search(r"(\d+)/(\d+) blocks", rc0[1])
    problems = []
    st = {"nops": 1, "reads": 0}
    if rc0[0] == 0 and m and int(m.group(2)) - int(m.group(1)) == 1:
        rc, out = e2v.sh([T("debugfs/debugfs"), "-w", "-R", "write %s f" % host["sparse"], img], env=env, timeout=60)
        rc2, out2 = e2v.sh([T("e2fsck/e2fsck"), "-fn", img], env=env, timeout=120)
        recipe["free_blocks"] = 1
        if rc2 != 0:
            problems.append("after the refused write (%s) e2fsck -fn exits %d: %s" % (out.strip().split("\n")[-1][:80], rc2, " | ".join(l for l in out2.split("\n") if "differences" in l or "?" in l)[:200]))
    else:
        recipe["setup"] = "not reached"
    for f in list(host.values()) + [img]:
        if os.path.exists(f):
            os.unlink(f)
    return recipe, problems, st


def one_case(src, hexe, mexe, idx, seed, tier):
    r = e2v.rng(seed, "c09", idx)
    name, opts = CONFIGS[idx % len(CONFIGS)]
    inline = "inline" in name
    img = os.path.join(WORK, "f_%d.img" % idx)
    env = e2v.tool_env(src)
    T = lambda p: os.path.join(src, p)
    if os.path.exists(img):
        os.unlink(img)
    rc, out = e2v.sh([T("misc/mke2fs"), "-q", "-F"] + opts + [img, "16M"], env=env, timeout=120)
    if rc != 0:
        return {"config": name}, ["mke2fs failed"], {}
    bs = int(opts[opts.index("-b") + 1])
    nfiles = 2
    ops = gen_ops(r, bs, nfiles, r.randint(10, 40 if tier == "quick" else 120), inline, inline_sz=True)
    return execute(src, hexe, mexe, name, opts, ops, idx)


def execute(src, hexe, mexe, name, opts, ops, idx):
    inline = "inline" in name
    img = os.path.join(WORK, "f_%d.img" % idx)
    env = e2v.tool_env(src)
    T = lambda p: os.path.join(src, p)
    if os.path.exists(img):
        os.unlink(img)
    rc, out = e2v.sh([T("misc/mke2fs"), "-q", "-F"] + opts + [img, "16M"], env=env, timeout=120)
    bs = int(opts[opts.index("-b") + 1])
    nfiles = 2
    # ---- run the implementation
    hl = ["OPEN " + img] + ["NEW file%d" % f for f in range(nfiles)]
    p = subprocess.run([hexe], input=("\n".join(hl) + "\n").encode(), stdout=subprocess.PIPE, timeout=120)
    # inode numbers are needed for FO / P: a first short session allocates the files
    inos = [int(l.split()[1]) for l in p.stdout.decode().split("\n") if l.startswith("INO")]
    if len(inos) != nfiles:
        return {"config": name}, ["could not create the files: %s" % p.stdout.decode()[-200:]], {}
    hl = ["OPEN " + img]          # (the first session was not closed: reopen from the image as written so far)
    subprocess.run([hexe], input=("OPEN %s\n" % img + "".join("NEW file%d\n" % f for f in range(nfiles)) + "CLOSE\n").encode(), stdout=subprocess.PIPE, timeout=120) if False else None
    # simpler: one session does everything
    hl = ["OPEN " + img] + ["NEW file%d" % f for f in range(nfiles)]
    ml = ["N %d" % bs]
    bl = ["N %d" % bs]          # the buffer model (FileBuf.v) gets the same history
    cur = {f: 0 for f in range(nfiles)}
    rsize = {f: 0 for f in range(nfiles)}
    expect = []     # (index in harness output, kind)
    has_fa = False  # preallocations are outside the buffer model: the mapped-block tie is skipped for such histories
    for f in range(nfiles):
        hl.append("FO %d @INO%d" % (f, f))
    for hls, mline in ops:
        for h in hls:
            if h.startswith("REOPEN"):
                f = int(h.split()[1])
                hl.append("FC %d" % f)
                hl.append("FO %d @INO%d" % (f, f))
            elif h.startswith("P @") or h.startswith("FA @"):
                c_, ff, a, b = h.split()
                hl.append("%s @INO%s %s %s" % (c_, ff[1:], a, b))
                has_fa = has_fa or c_ == "FA"
            else:
                hl.append(h)
        if mline:
            ml.append(mline)
            t = mline.split()
            ff = int(t[1])
            if t[0] == "W":
                bl.append(mline)
                n_ = len(t[3]) // 2 if len(t) > 3 else 0
                cur[ff] = int(t[2]) + n_
                if n_:
                    rsize[ff] = max(rsize[ff], cur[ff])
            elif t[0] == "R":
                cur[ff] = max(int(t[2]), min(int(t[2]) + int(t[3]), rsize[ff]))
            elif t[0] == "Z":
                bl.append("Z %d %d %s" % (ff, cur[ff], t[2]))
                rsize[ff] = int(t[2])
            elif t[0] == "P":
                bl.append(mline)
                cur[ff] = 0
        else:
            for h in hls:
                if h.startswith("FL"):
                    bl.append("FL %s" % h.split()[1])
                elif h.startswith("REOPEN"):
                    bl.append("RO %s" % h.split()[1])
                    cur[int(h.split()[1])] = 0
    for f in range(nfiles):
        bl.append("M %d 64" % f)
        bl.append("D %d" % f)
    for f in range(nfiles):
        hl.append("S %d 0" % f)
        hl.append("GS %d" % f)
        hl.append("R %d 400000" % f)
        hl.append("FC %d" % f)
        ml.append("D %d" % f)
    hl.append("CLOSE")
    # resolve @INO after creation: run creation first in the same process is impossible with static text, so
    # predict the inode numbers from a scratch copy
    cp = img + ".probe"
    shutil.copy(img, cp)
    p = subprocess.run([hexe], input=("OPEN %s\n" % cp + "".join("NEW file%d\n" % f for f in range(nfiles))).encode(), stdout=subprocess.PIPE, timeout=120)
    inos = [int(l.split()[1]) for l in p.stdout.decode().split("\n") if l.startswith("INO")]
    os.unlink(cp)
    text = "\n".join(hl) + "\n"
    for f in range(nfiles):
        text = text.replace("@INO%d" % f, str(inos[f]))
    p = subprocess.run([hexe], input=text.encode(), stdout=subprocess.PIPE, stderr=subprocess.PIPE, timeout=600)
    hout = p.stdout.decode().split("\n")
    def big_stack():
        import resource
        try:
            resource.setrlimit(resource.RLIMIT_STACK, (resource.RLIM_INFINITY, resource.RLIM_INFINITY))
        except Exception:
            pass
    mout = subprocess.run([mexe], input=("\n".join(ml) + "\n").encode(), stdout=subprocess.PIPE, timeout=900, preexec_fn=big_stack).stdout.decode().split("\n")
    bexe = os.path.join(os.path.dirname(os.path.dirname(mexe)), "filebuf", "filebuf.exe")
    bout = subprocess.run([bexe], input=("\n".join(bl) + "\n").encode(), stdout=subprocess.PIPE, timeout=900, preexec_fn=big_stack).stdout.decode().split("\n") if (not inline and not has_fa and (idx >= 7000 or idx % 4 == 0)) else []
    problems = []
    recipe = {"config": name, "mke2fs": opts, "ops": [m for _, m in ops if m][:60], "all_ops": [[h, m] for h, m in ops], "case_index": idx}
    if p.returncode != 0:
        problems.append("the harness died (exit %d, %s)" % (p.returncode, p.stderr.decode()[-200:]))
        return recipe, problems, {}
    created = [int(l.split()[1]) for l in hout if l.startswith("INO")]
    if created != inos:
        return recipe, ["inode numbers differ between the probe and the run"], {}
    hreads = [l for l in hout if l.startswith("R ")]
    mreads = [l for l in mout if l.startswith("R ")] + ["R " + l[2:] for l in mout if l.startswith("D ")]
    errs = [l for l in hout if re.match(r"(W \d+ [1-9]|SZ [1-9]|FO [1-9]|FC [1-9]|P [1-9]|FL [1-9]|OPEN [1-9]|CLOSE [1-9])", l) or "ERR" in l]
    nread = 0
    if errs:
        problems.append("an operation failed: %s" % errs[:3])
    else:
        if len(hreads) != len(mreads):
            problems.append("number of reads differs (%d vs %d)" % (len(hreads), len(mreads)))
        for i, (a, b) in enumerate(zip(hreads, mreads)):
            nread += 1
            if a.strip() != b.strip():
                ha, hb = a[2:].strip(), b[2:].strip()
                first = next((j for j in range(0, min(len(ha), len(hb)), 2) if ha[j:j + 2] != hb[j:j + 2]), min(len(ha), len(hb))) // 2
                problems.append("read %d returns %d bytes, the reference %d; first difference at byte %d of the read" % (i, len(ha) // 2, len(hb) // 2, first))
                break
        sizes = [int(l.split()[1]) for l in hout if l.startswith("SIZE")]
        msizes = [len(l[2:].strip()) // 2 for l in mout if l.startswith("D ")]
        if sizes != msizes and not problems:
            problems.append("file sizes %s, reference %s" % (sizes, msizes))
    # ---- after close: the filesystem as the independent reader sees it
    if not problems:
        rc, out = e2v.sh([T("e2fsck/e2fsck"), "-fn", img], env=env, timeout=300)
        if rc != 0:
            problems.append("e2fsck -fn exits %d after the sequence: %s" % (rc, " | ".join(l for l in out.split("\n") if "?" in l or "should be" in l)[:300]))
        if not inline:
            try:
                fs = Fs(img)
                finals = [bytes.fromhex(l[2:].strip()) for l in mout if l.startswith("D ")]
                bmaps = [l for l in bout if l.startswith("M")]
                bcont = [l for l in bout if l.startswith("D ")]
                for f in range(nfiles):
                    data = fs.file_data(inos[f])
                    if data != finals[f]:
                        problems.append("file%d on disk (%d bytes) differs from the reference (%d bytes)" % (f, len(data or b""), len(finals[f])))
                    # the buffer model: same content, and the same set of mapped logical blocks
                    if f < len(bcont) and bytes.fromhex(bcont[f][2:].strip()) != finals[f]:
                        problems.append("buffer model content of file%d differs from the reference" % f)
                    if f < len(bmaps):
                        want = sorted(int(x) for x in bmaps[f].split()[1:])
                        m_, _ = fs.file_map(inos[f], fs.inode(inos[f]))
                        have = sorted(l for l in m_ if l < 64)
                        if have != want:
                            problems.append("file%d: mapped logical blocks %s, the buffer model maps %s" % (f, have[:20], want[:20]))
            except (FormatError, struct.error) as ex:
                problems.append("independent reader: %s" % ex)
    if os.path.exists(img):
        os.unlink(img)
    return recipe, problems, {"reads": nread, "nops": len(ops)}


def large_case(src, hexe, idx, seed):
    """files reaching the double-indirect range / several extent leaves; the reference here is a Python bytearray
    (the extracted reference works on unary byte lists and is kept for files up to 45 blocks)"""
    r = e2v.rng(seed, "c09L", idx)
    name, opts = [CONFIGS[2], CONFIGS[0], CONFIGS[3]][idx % 3]
    bs = int(opts[opts.index("-b") + 1])
    img = os.path.join(WORK, "L_%d.img" % idx)
    env = e2v.tool_env(src)
    if os.path.exists(img):
        os.unlink(img)
    e2v.sh([os.path.join(src, "misc/mke2fs"), "-q", "-F"] + opts + [img, "24M"], env=env, timeout=120)
    ref = bytearray()
    apb = bs // 4
    marks = [0, 11, 12, 13, 12 + apb - 1, 12 + apb, 12 + apb + 1, 12 + apb + 300, 12 + 2 * apb, 12 + 2 * apb + 44, 12 + 3 * apb + 7]
    top = (12 + 3 * apb + 40)
    hl = ["OPEN " + img, "NEW big", "FO 0 @INO"]
    ops = []
    for _ in range(r.randint(6, 25)):
        k = r.random()
        if k < 0.55:
            b = r.choice(marks) + r.choice([0, 0, 1, 2]) if r.random() < 0.7 else r.randint(0, top)
            off = b * bs + r.choice([0, 0, 1, bs - 3])
            data = r.randbytes(r.choice([1, 100, bs, bs + 5, 2 * bs]))
            hl += ["S 0 %d" % off, "W 0 %s" % data.hex()]
            if len(ref) < off:
                ref.extend(bytes(off - len(ref)))
            ref[off:off + len(data)] = data
            ops.append("write %d bytes at block %d+%d" % (len(data), off // bs, off % bs))
        elif k < 0.85:
            a = r.choice(marks) + r.choice([0, 1, 3]) if r.random() < 0.7 else r.randint(0, top)
            b = a + r.choice([0, 1, 9, 40, apb, 2 * apb + 3])
            hl += ["FL 0", "P @INO %d %d" % (a, b), "FC 0", "FO 0 @INO"]
            lo, hi = min(a * bs, len(ref)), min((b + 1) * bs, len(ref))
            ref[lo:hi] = bytes(hi - lo)
            ops.append("punch blocks %d..%d" % (a, b))
        else:
            s_ = r.choice(marks) * bs + r.choice([0, 1, 700])
            hl += ["SZ 0 %d" % s_]
            if s_ < len(ref):
                del ref[s_:]
            else:
                ref.extend(bytes(s_ - len(ref)))
            ops.append("set size %d" % s_)
    hl += ["S 0 0", "GS 0", "R 0 %d" % (len(ref) + 10), "FC 0", "CLOSE"]
    cp = img + ".probe"
    shutil.copy(img, cp)
    p = subprocess.run([hexe], input=("OPEN %s\nNEW big\n" % cp).encode(), stdout=subprocess.PIPE, timeout=120)
    ino = [int(l.split()[1]) for l in p.stdout.decode().split("\n") if l.startswith("INO")][0]
    os.unlink(cp)
    p = subprocess.run([hexe], input=("\n".join(hl) + "\n").replace("@INO", str(ino)).encode(), stdout=subprocess.PIPE, timeout=600)
    out = p.stdout.decode().split("\n")
    problems = []
    reads = [l for l in out if l.startswith("R ")]
    errs = [l for l in out if re.match(r"(W \d+ [1-9]|SZ [1-9]|FO [1-9]|FC [1-9]|P [1-9]|FL [1-9]|OPEN [1-9]|CLOSE [1-9])", l)]
    if p.returncode != 0 or errs or not reads:
        problems.append("operation failed / harness died: rc %d %s" % (p.returncode, errs[:2]))
    else:
        got = bytes.fromhex(reads[-1][2:].strip())
        if got != bytes(ref):
            first = next((i for i in range(min(len(got), len(ref))) if got[i] != ref[i]), min(len(got), len(ref)))
            problems.append("final read returns %d bytes, the reference has %d; first difference at byte %d (block %d)" % (len(got), len(ref), first, first // bs))
        rc, o = e2v.sh([os.path.join(src, "e2fsck/e2fsck"), "-fn", img], env=env, timeout=300)
        if rc != 0 and not problems:
            problems.append("e2fsck -fn exits %d: %s" % (rc, " | ".join(l for l in o.split("\n") if "?" in l or "should be" in l)[:200]))
        if not problems:
            try:
                if Fs(img).file_data(ino) != bytes(ref):
                    problems.append("content on disk differs from the reference")
            except (FormatError, struct.error) as ex:
                problems.append("independent reader: %s" % ex)
    if os.path.exists(img):
        os.unlink(img)
    return {"config": name, "mke2fs": opts, "ops": ops, "large": True, "case_index": idx}, problems, {"nops": len(ops), "reads": 1}


def run(res, replay=None):
    tier, seed = res.tier, res.seed
    os.makedirs(WORK, exist_ok=True)
    src = e2v.ensure_build()
    pr = e2v.coq_property("C09")
    res.add_proof(pr)
    hexe = e2v.build_harness("h_file", src)
    mexe = e2v.build_driver("filespec", ["theories/FileIO/FileSpec.vo"], ["filespec_model"])
    e2v.build_driver("filebuf", ["theories/FileIO/FileBuf.vo"], ["filebuf_model"])
    res.cov["trusted_base"] = e2v.TRUSTED_COMMON + [
        "harness/h_file.c drives ext2fs_file_open/write/read/llseek/set_size2/flush/close and ext2fs_punch",
        "lib/extfmt.py file_data(): the check's own reading of the final file contents",
    ]
    res.cov["partial"] = ["proved: the reference (what a read must return after any writes, truncations and punches) and the cutting of a request into per-block rounds; the buffer handling of ext2_file_t, block mapping, extent tree and indirect-block updates are compared with the reference operation by operation, not modelled",
                          "bigalloc files and files above 45 blocks are outside the campaign; inline-data files are compared through the library's own reads only"]
    n = 18 if tier == "quick" else 2400
    idxs = [json.load(open(replay))["recipe"]["case_index"]] if replay else list(range(n))
    with concurrent.futures.ThreadPoolExecutor(12) as ex:
        outs = list(ex.map(lambda i: one_case(src, hexe, mexe, i, seed, tier), idxs))
        if not replay:
            outs = list(ex.map(lambda k: corpus_case(src, hexe, mexe, k), range(4 * len(corpus(1024))))) + outs
            outs += list(ex.map(lambda i: large_case(src, hexe, i, seed), range(9 if tier == "quick" else 600)))
            outs.append(enospc_ind_case(src))
    bad = []
    reads = ops = 0
    for recipe, problems, st in outs:
        res.case(json.dumps(recipe), st.get("nops", 0) >= 5)
        reads += st.get("reads", 0)
        ops += st.get("nops", 0)
        if len(res.cov["samples"]) < 2:
            res.sample({"config": recipe["config"], "ops": [o[:60] for o in recipe.get("ops", [])[:6]]})
        if problems:
            bad.append((recipe, problems))
    res.cov["correspondence"] = {"reads_compared": reads, "operations": ops, "mismatches": len(bad),
                                 "compared": "bytes and length of every read, final size and content of every file: ext2_file_t API vs the extracted reference f_step"}
    res.cov["oracle"] = {"evaluations": ops, "failures": len(bad),
                         "statement": "every read returns the reference bytes; after close the independent reader finds the reference content; e2fsck -fn exit 0"}
    res.cov["rule"] = "6 configurations (extent / block-mapped / inline, 1k-4k blocks); two files interleaved; writes, reads, truncations and punches at block, 12-block (first indirect) and 60-byte (inline) boundaries, holes, zero data, flush and close/reopen in between; non-trivial = at least 5 operations"
    def sig(recipe, problems):
        return "c09:" + hashlib.sha256(json.dumps(recipe.get("ops", [])).encode()).hexdigest()[:12]
    known = {k["signature"] for k in e2v.known_findings() if k["property"] == "C09" and k.get("status") == "known"}
    res.add_obligation("implementation = reference on every read and final content (cases matching a listed known finding aside)",
                       not [b for b in bad if sig(*b) not in known])
    for recipe, problems in bad[:3]:
        res.violation("oracle", {"recipe": recipe, "problems": problems[:5]}, signature=sig(recipe, problems))
    if not pr["ok"] and not bad:
        res.violation("proof", {"theorem_file": "coq/theories/Properties_C09.v", "failed_at": pr["failed_at"],
                                "forbidden": pr["forbidden"], "log_tail": pr["log_tail"][-1500:]}, has_input=False)

# C06 - no memory-safety violation, crash or hang on arbitrary input
import json, os, re, struct, subprocess, hashlib, shutil, concurrent.futures
import e2v, extfmt, corrupt
from extfmt import *
from props import c03
from jbd2enc import *

WORK = os.path.join(e2v.SCRATCH, "c06")
SAN = re.compile(r"(ERROR: AddressSanitizer|ERROR: LeakSanitizer|runtime error:|SUMMARY: \w*Sanitizer|Segmentation fault|stack smashing|double free|corrupted size|Assertion .* failed)")


def setup(src):
    e2v.build_harness("h_dirwalk", src)
    e2v.build_driver("dirwalk", ["theories/Parsers/DirWalk.vo", "theories/Parsers/EaValue.vo", "theories/Robust/Restart.vo", "theories/Robust/ItableLen.vo", "theories/Robust/MinGroups.vo"], ["dirwalk_model"])
    e2v.ensure_build("asan")


def invocations(a, img, aux):
    T = lambda p: os.path.join(a, p)
    dbg = lambda c: [T("debugfs/debugfs"), "-R", c, img]
    # rdump copies a file byte by byte up to its i_size (no sparse output): a damaged size field of 2^40 is not a hang but
    # a very long copy, also on a healthy filesystem with such a file - every output file is capped at 64 MiB instead
    # (the write fails with EFBIG, debugfs reports it and goes on)
    capped = lambda cmd: ["/bin/bash", "-c", 'trap "" XFSZ; ulimit -f 65536; exec "$@"', "sh"] + cmd
    return [
        ("e2fsck -fn", [T("e2fsck/e2fsck"), "-fn", img], False), ("e2fsck -fy", [T("e2fsck/e2fsck"), "-fy", img], True),
        ("e2fsck -p", [T("e2fsck/e2fsck"), "-p", img], True), ("e2fsck -fyD", [T("e2fsck/e2fsck"), "-fyD", img], True),
        ("debugfs ls -l", dbg("ls -l /d1"), False), ("debugfs stat", dbg("stat /d1/plain"), False), ("debugfs htree", dbg("htree_dump /big"), False),
        ("debugfs logdump", dbg("logdump -a"), False), ("debugfs ex", dbg("ex /d1/frag"), False), ("debugfs cat", dbg("cat /d1/plain"), False),
        ("debugfs ea_list", dbg("ea_list /d1/plain"), False), ("debugfs icheck", dbg("icheck 100 200 300"), False), ("debugfs ncheck", dbg("ncheck 12 13 14 15"), False),
        ("debugfs rdump", capped(dbg("rdump / %s" % aux)), False), ("debugfs bmap", dbg("bmap /d1/plain 3"), False), ("debugfs lsdel", dbg("lsdel"), False),
        ("dumpe2fs", [T("misc/dumpe2fs"), img], False), ("dumpe2fs -x", [T("misc/dumpe2fs"), "-x", img], False), ("tune2fs -l", [T("misc/tune2fs"), "-l", img], False),
        ("resize2fs -P", [T("resize/resize2fs"), "-P", img], False), ("resize2fs -f -P", [T("resize/resize2fs"), "-f", "-P", img], False), ("e2image -r", [T("misc/e2image"), "-r", img, aux + ".raw"], False),
        ("e2image -Q", [T("misc/e2image"), "-Q", img, aux + ".qcow"], False), ("e2freefrag", [T("misc/e2freefrag"), img], False),
    ]


def run_san(cmd, env, timeout=60):
    e = dict(env)
    e["ASAN_OPTIONS"] = "detect_leaks=0:abort_on_error=0:allocator_may_return_null=1:max_allocation_size_mb=2048"
    e["UBSAN_OPTIONS"] = "print_stacktrace=1"
    rc, out = e2v.sh(cmd, env=e, timeout=timeout)
    why = None
    m = SAN.search(out)
    if rc == -9:
        why = "hang (killed after %ds)" % timeout
    elif m:
        why = "sanitizer / crash report: " + out[m.start():m.start() + 300].replace("\n", " | ")
    elif rc < 0:
        why = "killed by signal %d" % -rc
    return rc, why


def image_case(src, asan, idx, seed, tier):
    r = e2v.rng(seed, "c06", idx)
    name, opts, size = r.choice(corrupt.IMG_CONFIGS)
    nx = len(corrupt.XATTR_VARIANTS)
    nd_ = 2 * nx + 2 * len(corrupt.SB_VARIANTS) + 2 * len(corrupt.DX_VARIANTS)
    if idx < nd_:
        first_half = idx < nx or 2 * nx <= idx < 2 * nx + len(corrupt.SB_VARIANTS) or 2 * nx + 2 * len(corrupt.SB_VARIANTS) <= idx < nd_ - len(corrupt.DX_VARIANTS)
        name, opts, size = corrupt.IMG_CONFIGS[0 if first_half else 2]
    gdv = None
    extra = [(corrupt.op_gd_variant, v, c) for v, c in corrupt.GD_VARIANTS] + [(corrupt.op_extent_cycle, v, c) for v, c in corrupt.EXTENT_CYCLE_VARIANTS]
    if nd_ <= idx < nd_ + len(extra):
        gdop, gdv, cfgname = extra[idx - nd_]
        name, opts, size = [c for c in corrupt.IMG_CONFIGS if c[0] == cfgname][0]
    base = corrupt.build_image(src, WORK, name, opts, size, 1)
    img = os.path.join(WORK, "m_%d.img" % idx)
    aux = os.path.join(WORK, "aux_%d" % idx)
    k = r.random()
    ns = len(corrupt.SB_VARIANTS)
    if gdv:
        # descriptor fields at the values that steer relocation / table-length arithmetic (thorough-tier findings: e2fsck -n
        # relocating an inode table forever, e2image's table length wrapping below zero)
        desc = corrupt.corrupt(base, img, r, directed=(gdop, gdv))
    elif idx < 2 * nx:
        # boundary values of one attribute-block entry, checksums valid
        desc = corrupt.corrupt(base, img, r, directed=(corrupt.op_xattr_block, corrupt.XATTR_VARIANTS[idx % nx]))
    elif idx < 2 * nx + 2 * ns:
        # superblock geometry at and beyond what the open-time checks accept
        desc = corrupt.corrupt(base, img, r, directed=(corrupt.op_superblock_geometry, corrupt.SB_VARIANTS[(idx - 2 * nx) % ns]))
    elif idx < 2 * nx + 2 * ns + 2 * len(corrupt.DX_VARIANTS):
        desc = corrupt.corrupt(base, img, r, directed=(corrupt.op_dx_node, corrupt.DX_VARIANTS[(idx - 2 * nx - 2 * ns) % len(corrupt.DX_VARIANTS)]))
    elif k < 0.6:
        desc = corrupt.corrupt(base, img, r)
    elif k < 0.8:
        desc = corrupt.corrupt(base, img, r, nops=r.randint(3, 8), operators=[corrupt.op_noise, corrupt.op_noise, corrupt.op_inode_field, corrupt.op_extent, corrupt.op_dirent, corrupt.op_gd_location])
    else:
        # unstructured: random bytes in the superblock / descriptors / first inode table
        d = bytearray(open(base, "rb").read())
        fs = Fs(base)
        areas = [(1024, 1024), (fs.desc_block_loc(0) * fs.bs, fs.bs), (fs.groups[0]["inode_table"] * fs.bs, 4 * fs.bs)]
        desc = []
        for _ in range(r.randint(1, 6)):
            a, n = r.choice(areas)
            o = a + r.randrange(n)
            d[o] = r.getrandbits(8)
            desc.append("byte %d := %d" % (o, d[o]))
        open(img, "wb").write(d)
    env = e2v.tool_env(src)
    bad = []
    nrun = 0
    invs = invocations(asan, img, aux)
    directed_case = idx < nd_
    chosen = invs if (tier != "quick" or directed_case) else [invs[0], invs[1]] + r.sample(invs[2:], 5)
    pristine = open(img, "rb").read()
    for label, cmd, writes in chosen:
        subprocess.run(["rm", "-rf", aux])      # rdump of a damaged tree can be nested deeper than Python's recursion limit
        os.makedirs(aux, exist_ok=True)
        rc, why = run_san(cmd, env)
        nrun += 1
        if why:
            bad.append({"invocation": label, "why": why})
            break
        if writes:
            open(img, "wb").write(pristine)
    for p in (img, aux + ".raw", aux + ".qcow"):
        if os.path.exists(p):
            os.unlink(p)
    subprocess.run(["rm", "-rf", aux])      # rdump of a damaged tree can be nested deeper than Python's recursion limit
    return {"kind": "image", "base": name, "mke2fs": opts, "operators": desc, "case_index": idx}, bad, nrun


FC_VARIANTS = ["pad_len_huge", "tag_at_block_end", "add_range_short", "inode_len_huge", "header_cut", "random_tags", "num_fc_beyond_maxlen", "num_fc_huge"]


def fast_commit_case(src, asan, idx, seed, tier):
    """a fast-commit area whose first block holds a valid head tag followed by tags with lengths that do not fit the block
    (or their own structure): the scan has to stay inside the block buffer"""
    r = e2v.rng(seed, "c06fc", idx)
    which = FC_VARIANTS[(idx // 8) % len(FC_VARIANTS)]
    bname, opts, size = [("fc4k", ["-t", "ext4", "-b", "4096", "-O", "fast_commit", "-J", "size=4"], "64M"),
                         ("fc1k", ["-t", "ext4", "-b", "1024", "-O", "fast_commit,^metadata_csum", "-J", "size=4"], "32M")][(idx // 8) % 2]
    jimg = c03.JImage(c03.base_image(src, bname, opts, size))
    fs, bs = jimg.fs, jimg.fs.bs
    d = bytearray(open(jimg.path, "rb").read())
    jsb = bytearray(jimg.jsb)
    num_fc = struct.unpack_from(">I", jsb, 0x54)[0] or 256
    seq = r.choice([7, 0xFFFFFFFF, 1])
    if which == "num_fc_beyond_maxlen":
        struct.pack_into(">I", jsb, 0x54, jimg.maxlen + 7)
    elif which == "num_fc_huge":
        struct.pack_into(">I", jsb, 0x54, 0xFFFFFFF0)
    struct.pack_into(">II", jsb, 0x18, seq, jimg.first)
    inc = struct.unpack_from(">I", jsb, 0x28)[0] | INCOMPAT_FC
    struct.pack_into(">I", jsb, 0x28, inc)
    if inc & (INCOMPAT_CSUM2 | INCOMPAT_CSUM3):
        jsb[0xFC:0x100] = b"\0\0\0\0"
        struct.pack_into(">I", jsb, 0xFC, extfmt.crc32c(0xFFFFFFFF, bytes(jsb)))
    d[jimg.map[0] * bs:jimg.map[0] * bs + 1024] = jsb
    d[jimg.map[jimg.first] * bs:(jimg.map[jimg.first] + 1) * bs] = b"\0" * bs          # an empty main log
    blk = bytearray(bs)
    struct.pack_into("<HHII", blk, 0, 9, 8, 0, seq)                                     # head tag: features 0, expected tid
    o = 12
    tag = lambda off, t, ln: struct.pack_into("<HH", blk, off, t, ln)
    if which == "pad_len_huge":
        tag(o, 7, bs - 8 - o - 4)
        tag(bs - 8, 7, r.choice([0xFFF0, bs, 0x7FFF, 5]))
    elif which == "tag_at_block_end":
        tag(o, 7, bs - 4 - o - 4)
        tag(bs - 4, r.choice([1, 6, 8, 9]), r.choice([16, 0, 0xFFFF]))
    elif which == "add_range_short":
        tag(o, 7, bs - 6 - o - 4)
        tag(bs - 6, 1, 2)
    elif which == "inode_len_huge":
        tag(o, 6, r.choice([0xFFFF, bs - o, 3]))
    elif which == "header_cut":
        tag(o, 7, bs - 2 - o - 4)
        blk[bs - 2:bs] = b"\x07\x00"
    else:
        while o + 4 < bs:
            ln = r.choice([0, 4, 16, 20, 60, 300, 0xFFFF, bs])
            tag(o, r.choice([1, 2, 3, 4, 5, 6, 7, 8, 9, 77]), ln)
            o += 4 + min(ln, 400)
    for k in (jimg.maxlen - num_fc, jimg.maxlen - num_fc + 1):
        if k in jimg.map:
            d[jimg.map[k] * bs:(jimg.map[k] + 1) * bs] = blk
    sb = bytearray(d[1024:2048])
    struct.pack_into("<I", sb, 0x60, struct.unpack_from("<I", sb, 0x60)[0] | 4)           # needs_recovery
    if fs.has_csum:
        struct.pack_into("<I", sb, 0x3FC, extfmt.crc32c(0xFFFFFFFF, bytes(sb[:0x3FC])))
    d[1024:2048] = sb
    img = os.path.join(WORK, "fc_%d.img" % idx)
    env = e2v.tool_env(src)
    T = lambda p_: os.path.join(asan, p_)
    bad, nrun = [], 0
    for label, cmd in (("e2fsck -fy journal", [T("e2fsck/e2fsck"), "-fy", img]), ("debugfs logdump", [T("debugfs/debugfs"), "-R", "logdump -a", img]),
                       ("debugfs jr", [T("debugfs/debugfs"), "-w", "-R", "jr", img])):
        open(img, "wb").write(d)
        rc, why = run_san(cmd, env)
        nrun += 1
        if why:
            bad.append({"invocation": label, "why": why})
    os.unlink(img)
    return {"kind": "journal", "base": bname, "journal": "fast commit", "note": "fast-commit block: head tag, then %s" % which, "damage": [], "case_index": idx}, bad, nrun


def tiny_geometry_case(src, asan, idx, seed, tier):
    """one-group filesystems whose per-group counts are not multiples of 8 (12 inodes per group; 1001 blocks per group):
    tools that size a buffer by count / 8 and then look at every bit of the group read past it"""
    env = e2v.tool_env(src)
    T = lambda p_: os.path.join(asan, p_)
    img = os.path.join(WORK, "tiny_%d.img" % idx)
    e2v.sh([os.path.join(src, "misc/mke2fs"), "-q", "-F", "-t", "ext2", "-b", "1024", "-N", "16", img, "1M"], env=env, timeout=60)
    d = bytearray(open(img, "rb").read())
    which = ["ipg12", "ipg9", "bpg1001"][idx % 3]
    if which.startswith("ipg"):
        n = int(which[3:])
        struct.pack_into("<I", d, 1024 + 0, n)
        struct.pack_into("<I", d, 1024 + 0x28, n)
        struct.pack_into("<I", d, 1024 + 0x10, min(struct.unpack_from("<I", d, 1024 + 0x10)[0], 1))
    else:
        struct.pack_into("<I", d, 1024 + 4, 1002)
        struct.pack_into("<I", d, 1024 + 0x20, 1001)
        struct.pack_into("<I", d, 1024 + 0x24, 1001)
    open(img, "wb").write(d)
    bad, nrun = [], 0
    for label, cmd in (("dumpe2fs", [T("misc/dumpe2fs"), img]), ("e2fsck -fn", [T("e2fsck/e2fsck"), "-fn", img]), ("debugfs stats", [T("debugfs/debugfs"), "-R", "stats", img]),
                       ("debugfs ffb/ffi", [T("debugfs/debugfs"), "-f", "-", img]), ("e2freefrag", [T("misc/e2freefrag"), img]), ("resize2fs -P", [T("resize/resize2fs"), "-P", img])):
        rc, why = run_san(cmd, env) if label != "debugfs ffb/ffi" else run_san_input(cmd, env, b"ffb 3\nffi\nffi\n")
        nrun += 1
        if why:
            bad.append({"invocation": label, "why": why})
    os.unlink(img)
    return {"kind": "image", "base": "ext2 1M, 16 inodes", "operators": ["superblock: %s" % which], "case_index": idx}, bad, nrun


def huge_size_case(src, asan, idx, seed, tier):
    """a regular file whose i_size says 2^55 (with and without mapped blocks): copying it out stops at the first write the
    output refuses (the output is capped at 64 MiB), it does not go on for the remaining petabytes"""
    env = e2v.tool_env(src)
    name, opts, size = [c for c in corrupt.IMG_CONFIGS if c[0] == ("ext4_1k" if idx % 2 == 0 else "ext3")][0]
    base = corrupt.build_image(src, WORK, name, opts, size, 1)
    img = os.path.join(WORK, "huge_%d.img" % idx)
    aux = os.path.join(WORK, "huge_aux_%d" % idx)
    shutil.copy(base, img)
    e2v.sh([os.path.join(src, "debugfs/debugfs"), "-w", "-f", "-", img], input=b"sif /d1/plain size 0x00be000000000000\nwrite /dev/null /d1/hole\nsif /d1/hole size 0x00be000000000000\n", env=env, timeout=60)
    bad, nrun = [], 0
    for label, cmd, writes in [x for x in invocations(asan, img, aux) if x[0] in ("debugfs rdump", "debugfs cat", "e2fsck -fn", "debugfs stat")]:
        subprocess.run(["rm", "-rf", aux])
        os.makedirs(aux, exist_ok=True)
        if label == "debugfs cat":
            cmd = ["/bin/bash", "-c", 'trap "" XFSZ; ulimit -f 65536; exec "$@" > %s/cat.out' % aux, "sh"] + cmd
        rc, why = run_san(cmd, env)
        nrun += 1
        if why:
            bad.append({"invocation": label, "why": why})
    subprocess.run(["rm", "-rf", aux])
    os.unlink(img)
    return {"kind": "image", "base": name, "operators": ["/d1/plain and an empty /d1/hole: i_size := 0x00be000000000000"], "case_index": idx}, bad, nrun


def run_san_input(cmd, env, data):
    e = dict(env)
    e["ASAN_OPTIONS"] = "detect_leaks=0:abort_on_error=0:allocator_may_return_null=1:max_allocation_size_mb=2048"
    e["UBSAN_OPTIONS"] = "print_stacktrace=1"
    rc, out = e2v.sh(cmd, env=e, timeout=60, input=data)
    m = SAN.search(out)
    why = "hang (killed after 60s)" if rc == -9 else ("sanitizer / crash report: " + out[m.start():m.start() + 300].replace("\n", " | ")) if m else ("killed by signal %d" % -rc if rc < 0 else None)
    return rc, why


def journal_case(src, asan, idx, seed, tier):
    """journals with damaged blocks, and the log that consists of descriptor blocks only"""
    if idx % 8 == 5:
        return fast_commit_case(src, asan, idx, seed, tier)
    r = e2v.rng(seed, "c06j", idx)
    name, opts, size = c03.BASES[0 if idx % 8 == 7 else idx % 2]
    jimg = c03.JImage(c03.base_image(src, name, opts, size))
    mode = r.choice(["none", "v2", "v3"])
    inc = {"none": 0, "v2": INCOMPAT_CSUM2, "v3": INCOMPAT_CSUM3}[mode] | (INCOMPAT_64BIT if r.random() < 0.5 else 0)
    targets = jimg.free_blocks(6, r)
    cfg0 = Cfg(jimg.bs, jimg.first, jimg.maxlen, jimg.uuid, inc, 5, 0)
    txns, note = c03.gen_txns(r, cfg0, targets)
    while not txns:
        txns, note = c03.gen_txns(r, cfg0, targets)
    img = os.path.join(WORK, "j_%d.img" % idx)
    cfg, views = c03.prepare(jimg, inc, 5, 0, txns, img)
    d = bytearray(open(img, "rb").read())
    bs = jimg.fs.bs
    desc = []
    if idx % 8 in (6, 7):
        # every log block a valid descriptor (or revoke) block of the expected sequence: no pass ever meets an end
        cfgc = Cfg(jimg.bs, jimg.first, jimg.maxlen, jimg.uuid, 0, 5, 0)
        if idx % 8 == 7:
            blk, _, _ = enc_desc(cfgc, 5, [{"blk": targets[0], "data": b"\x55" * bs}])
            what = "descriptor"
        else:
            blk = enc_revoke(cfgc, 5, [targets[0], targets[1]])
            blk = blk[0] if isinstance(blk, tuple) else blk
            what = "revoke"
        for lb in range(jimg.first, jimg.maxlen):
            d[jimg.map[lb] * bs:(jimg.map[lb] + 1) * bs] = blk
        jsb = bytearray(d[jimg.map[0] * bs:jimg.map[0] * bs + 1024])
        struct.pack_into(">II", jsb, 0x18, 5, jimg.first)
        compat, incompat, ro = struct.unpack_from(">III", jsb, 0x24)
        struct.pack_into(">III", jsb, 0x24, compat, incompat & ~(INCOMPAT_64BIT | INCOMPAT_CSUM2 | INCOMPAT_CSUM3), ro)
        jsb[0x50] = 0
        struct.pack_into(">I", jsb, 0xFC, 0)
        d[jimg.map[0] * bs:jimg.map[0] * bs + 1024] = jsb
        open(img, "wb").write(d)
        env = e2v.tool_env(src)
        T = lambda p: os.path.join(asan, p)
        bad = []
        nrun = 0
        pristine = bytes(d)
        for label, cmd in (("e2fsck -fy journal", [T("e2fsck/e2fsck"), "-fy", img]), ("debugfs logdump", [T("debugfs/debugfs"), "-R", "logdump -a", img]),
                           ("debugfs jr", [T("debugfs/debugfs"), "-w", "-R", "jr", img]), ("e2fsck -fn", [T("e2fsck/e2fsck"), "-fn", img])):
            open(img, "wb").write(pristine)
            rc, why = run_san(cmd, env, timeout=40)
            nrun += 1
            if why:
                bad.append({"invocation": label, "why": why})
        os.unlink(img)
        return {"kind": "journal", "base": name, "journal": "none", "note": "every log block is a %s block of the expected sequence (no commit anywhere)" % what, "damage": [], "case_index": idx}, bad, nrun
    for _ in range(r.randint(1, 5)):
        lb = r.randrange(min(len(jimg.map), 40))
        o = jimg.map[lb] * bs + r.choice([0, 1, 4, 8, 12, 13, 16, 20, 24, 0x1C, 0x20, r.randrange(bs)])
        d[o] = r.getrandbits(8)
        desc.append("journal block %d byte %d := %d" % (lb, o % bs, d[o]))
    open(img, "wb").write(d)
    env = e2v.tool_env(src)
    T = lambda p: os.path.join(asan, p)
    bad = []
    nrun = 0
    pristine = bytes(d)
    for label, cmd in (("e2fsck -fy journal", [T("e2fsck/e2fsck"), "-fy", img]), ("debugfs logdump", [T("debugfs/debugfs"), "-R", "logdump -a", img]),
                       ("debugfs jr", [T("debugfs/debugfs"), "-w", "-R", "jr", img]), ("e2fsck -fn", [T("e2fsck/e2fsck"), "-fn", img])):
        open(img, "wb").write(pristine)
        rc, why = run_san(cmd, env)
        nrun += 1
        if why:
            bad.append({"invocation": label, "why": why})
            break
    os.unlink(img)
    return {"kind": "journal", "base": name, "journal": mode, "note": note, "damage": desc, "case_index": idx}, bad, nrun


UNDO_DIRECTED = [
    [("fs_block_size", 1 << 20), ("key0.size", 64 << 20)],
    [("key0.size", "512*bs+bs")],
    [("key0.size", "512*bs+1")],        # just above the replay buffer (E2UNDO_MAX_EXTENT_BLOCKS blocks); the file is padded so that the read has data
    [("key0.size", "513*bs-1")],
    [("key0.size", 0xFFFFFFFF)],
    [("block_size", 0)],
    [("fs_block_size", 0)],
    [("num_keys", 1 << 40)],
    [("num_keys", 1 << 61)],         # 24 * 2^61 wraps to 0: the key array was allocated with 0 bytes (side remark of a seeding agent, repaired)
    [("num_keys", (1 << 64) // 24 + 1)],
    [("key_offset", 1 << 40)],
    [("block_size", 1 << 30), ("fs_block_size", 1 << 30)],
    [("block_size", 1)],            # below the size of a key block header: e2undo -f skipped the lower bound (thorough-tier finding)
    [("block_size", 17)],
    [("block_size", 31), ("key0.size", 511)],
    [("block_size", 32)],
]


def undo_edit(d, r, edits=None):
    """field-level edits of an undo file with the header and key-block checksums recomputed"""
    from extfmt import crc32c
    HDR = {"num_keys": (8, "<Q"), "super_offset": (16, "<Q"), "key_offset": (24, "<Q"), "block_size": (32, "<I"), "fs_block_size": (36, "<I"),
           "state": (44, "<I"), "f_compat": (48, "<I"), "f_incompat": (52, "<I"), "fs_offset": (64, "<Q")}
    if d[:8] != b"E2UNDO02" or len(d) < 2048:
        return ["not an undo file"]
    bs = struct.unpack_from("<I", d, 32)[0]
    koff = struct.unpack_from("<Q", d, 24)[0] * bs
    nkeys = struct.unpack_from("<Q", d, 8)[0]
    desc = []
    if edits is None:
        edits = []
        for _ in range(r.randint(1, 3)):
            f = r.choice(list(HDR) + ["key0.size", "key0.size", "key0.fsblk", "keyN.size"])
            v = r.choice([0, 1, 511, 512, 1 << 16, 1 << 20, 64 << 20, 1 << 30, 0x7FFFFFFF, 0xFFFFFFFF, "512*bs+bs", "512*bs", "512*bs+1", "513*bs-1"])
            edits.append((f, v))
    for f, v in edits:
        if v == "512*bs+1":
            v = 512 * bs + 1
        elif v == "513*bs-1":
            v = 513 * bs - 1
        elif v == "512*bs+bs":
            v = 513 * bs
        elif v == "512*bs":
            v = 512 * bs
        if f in HDR:
            off, fmt = HDR[f]
            struct.pack_into(fmt, d, off, v & (0xFFFFFFFF if fmt == "<I" else 0xFFFFFFFFFFFFFFFF))
        elif koff + bs <= len(d) and nkeys:
            j = 0 if f.startswith("key0") else r.randrange(min(nkeys, bs // 16 - 1))
            k = koff + 16 + 16 * j
            if f.endswith("size"):
                struct.pack_into("<I", d, k + 12, v & 0xFFFFFFFF)
                if j == 0 and v <= (64 << 20) and len(d) < koff + bs + v:
                    d.extend(bytes(koff + bs + v - len(d)))       # the recorded data the key claims is there to be read
            else:
                struct.pack_into("<Q", d, k, v)
            struct.pack_into("<I", d, koff + 4, 0)
            struct.pack_into("<I", d, koff + 4, crc32c(0xFFFFFFFF, bytes(d[koff:koff + bs])))
        desc.append("undo file %s := %s (checksums recomputed)" % (f, v))
    struct.pack_into("<I", d, 508, crc32c(0xFFFFFFFF, bytes(d[:508])))
    return desc


def aux_case(src, asan, idx, seed, tier):
    """damaged undo files and qcow2 images"""
    r = e2v.rng(seed, "c06a", idx)
    env = e2v.tool_env(src)
    T = lambda p: os.path.join(asan, p)
    S = lambda p: os.path.join(src, p)
    name, opts, size = corrupt.IMG_CONFIGS[idx % 3]
    base = corrupt.build_image(src, WORK, name, opts, size, 1)
    img = os.path.join(WORK, "a_%d.img" % idx)
    shutil.copy(base, img)
    f = os.path.join(WORK, "a_%d.aux" % idx)
    if os.path.exists(f):
        os.unlink(f)
    bad, nrun, desc = [], 0, []
    if idx % 2 == 0:
        e2v.sh([S("misc/tune2fs"), "-z", f, "-O", "^has_journal", img], env=dict(env, E2FSPROGS_UNDO_DIR=WORK), timeout=120)
        kind = "undo file"
        cmds = [("e2undo", [T("misc/e2undo"), f, img]), ("e2undo -f", [T("misc/e2undo"), "-f", f, img]), ("e2undo -n", [T("misc/e2undo"), "-n", f, img])]
    else:
        e2v.sh([S("misc/e2image"), "-Q", img, f], env=env, timeout=120)
        kind = "qcow2 image"
        # "env -i": with an empty environment no earlier library call has failed, errno is 0 when a short read happens
        cmds = [("e2image -r from qcow2", [T("misc/e2image"), "-r", f, f + ".raw"]),
                ("e2image -r from qcow2 (empty environment)", ["/usr/bin/env", "-i", "ASAN_OPTIONS=detect_leaks=0:abort_on_error=0:allocator_may_return_null=1", "UBSAN_OPTIONS=print_stacktrace=1",
                                                              T("misc/e2image"), "-r", f, f + ".raw"])]
    if os.path.exists(f):
        d = bytearray(open(f, "rb").read())
        if kind == "qcow2 image" and idx % 4 == 1:
            # the file ends inside the L1 table, or inside the first L2 table
            l1_size, l1_off = struct.unpack_from(">IQ", d, 36)
            l2 = struct.unpack_from(">Q", d, l1_off)[0] & 0x00FFFFFFFFFFFE00
            cut = l1_off + 4 if (idx // 4) % 2 == 0 else l2 + 16
            d = d[:cut]
            desc.append("qcow2 image truncated to %d bytes (%s)" % (cut, "inside the L1 table" if (idx // 4) % 2 == 0 else "inside the first L2 table"))
        elif kind == "undo file" and (idx // 2 < len(UNDO_DIRECTED) or r.random() < 0.5):
            desc += undo_edit(d, r, UNDO_DIRECTED[idx // 2] if idx // 2 < len(UNDO_DIRECTED) else None)
        else:
          for _ in range(r.randint(1, 6)):
            o = r.randrange(min(len(d), 4096)) if r.random() < 0.7 else r.randrange(len(d))
            d[o] = r.getrandbits(8)
            desc.append("%s byte %d := %d" % (kind, o, d[o]))
        open(f, "wb").write(d)
        for label, cmd in cmds:
            rc, why = run_san(cmd, env)
            nrun += 1
            if why:
                bad.append({"invocation": label, "why": why})
                break
    for p in (img, f, f + ".raw"):
        if os.path.exists(p):
            os.unlink(p)
    return {"kind": kind, "base": name, "damage": desc, "case_index": idx}, bad, nrun


def ea_value_corr(src, mexe, seed, n):
    """e2fsck pass 1 on attribute-block entries with chosen (e_value_offs, e_value_size): PR_1_EA_BAD_VALUE is reported
    exactly when the extracted ea_value_ok says no"""
    from props import c02
    rows, bad = 0, []
    r = e2v.rng(seed, "c06ea")
    for name in ("ext4_1k", "ext4_4k", "ext4_nocsum"):
        cfg = [c for c in corrupt.IMG_CONFIGS if c[0] == name][0]
        base = corrupt.build_image(src, WORK, cfg[0], cfg[1], cfg[2], 1)
        fs = Fs(base)
        owners = [i for i in fs.in_use_inodes() if (i == 2 or i >= fs.first_ino) and fs.inode(i)["file_acl"]]
        if not owners:
            continue
        blk = fs.inode(owners[0])["file_acl"]
        a = blk * fs.bs
        bs = fs.bs
        grid = [(bs - 4, (1 << 32) - bs // 2), (4, bs - 4), (4, bs - 3), (bs, 0), (bs, 1), (0, bs), (0, bs + 1), (100, 1 << 24), (100, (1 << 24) + 1),
                (0xFFFF, 1), (0xFFFF, (1 << 32) - 0xFFFF), (bs // 2, (1 << 32) - bs // 2), (bs // 2, (1 << 32) - bs // 2 + bs), (64, 0xFFFFFFFF), (64, 0x80000000)]
        grid += [(r.choice([0, 32, 36, bs // 2, bs - 8, bs - 1, bs, bs + 8, 0xFFF0]), r.choice([0, 1, 8, bs // 2, bs - 36, bs, 1 << 16, 1 << 24, (1 << 32) - r.randint(1, 2 * bs)])) for _ in range(n)]
        for offs, size in grid:
            size &= 0xFFFFFFFF
            d = bytearray(fs.d)
            e = a + 32
            struct.pack_into("<H", d, e + 2, offs & 0xFFFF)
            struct.pack_into("<I", d, e + 4, 0)
            struct.pack_into("<I", d, e + 8, size)
            corrupt.fix_xattr_block_csum(fs, d, blk)
            img = os.path.join(WORK, "ea_%s.img" % name)
            open(img, "wb").write(d)
            rc, probs, out = c02.fsck(src, img, ["-fn"], "ea")
            mo = subprocess.run([mexe], input=("E %d %d %d\n" % (bs, offs & 0xFFFF, size)).encode(), stdout=subprocess.PIPE, timeout=30).stdout.decode().strip()
            rows += 1
            reported = any(c == 0x010042 for c, a_ in probs)
            if rc < 0 or mo not in ("0", "1") or reported != (mo == "0"):
                bad.append({"base": name, "block_size": bs, "e_value_offs": offs & 0xFFFF, "e_value_size": size, "e2fsck_exit": rc,
                            "PR_1_EA_BAD_VALUE reported": reported, "model ea_value_ok": mo})
            os.unlink(img)
    return rows, bad


def robust_corr(src, mexe, seed, tier):
    """(a) restarts of e2fsck on devices with k missing inode tables, read-only and writing, vs Robust.Restart.restarts;
    (b) the leading run of inode-table blocks that e2image -r copies for a group, for chosen bg_itable_unused, vs
    Robust.ItableLen.itable_len_new"""
    rows, bad = 0, []
    env = e2v.tool_env(src)
    ask = lambda line: subprocess.run([mexe], input=(line + "\n").encode(), stdout=subprocess.PIPE, timeout=30).stdout.decode().strip()
    for name in ("ext4_1k", "ext4_nocsum", "ext2_noflex") + (("ext3", "ext4_2k_64") if tier != "quick" else ()):
        cfg = [c for c in corrupt.IMG_CONFIGS if c[0] == name][0]
        base = corrupt.build_image(src, WORK, cfg[0], cfg[1], cfg[2], 1)
        fs = Fs(base)
        G = fs.groups_count
        for k in range(0, min(G, 3) + 1):
            for which in ("last", "first"):
                if k == 0 and which == "first":
                    continue
                groups = list(range(G - k, G)) if which == "last" else list(range(k))
                for ro, mode in ((1, "-fn"), (0, "-fy")):
                    d = bytearray(fs.d)
                    for g in groups:
                        struct.pack_into("<I", d, corrupt.gd_loc(fs, g) + 8, 0)
                        if fs.desc_size >= 64:
                            struct.pack_into("<I", d, corrupt.gd_loc(fs, g) + 0x28, 0)
                        corrupt.fix_gd_csum(fs, d, g)
                    # the backup descriptors say the same (otherwise e2fsck takes the tables' locations from them and nothing is missing)
                    prim = fs.desc_block_loc(0) * fs.bs
                    for bg in range(1, G):
                        if fs.bg_has_super(bg):
                            o = (fs.group_first_block(bg) + 1) * fs.bs
                            d[o:o + fs.desc_blocks * fs.bs] = d[prim:prim + fs.desc_blocks * fs.bs]
                    img = os.path.join(WORK, "rs_%s.img" % name)
                    open(img, "wb").write(d)
                    log = img + ".out"
                    with open(log, "wb") as lf:
                        try:
                            rc = subprocess.run([os.path.join(src, "e2fsck/e2fsck"), mode, img], env=env, stdout=lf, stderr=subprocess.STDOUT,
                                                stdin=subprocess.DEVNULL, timeout=60).returncode
                        except subprocess.TimeoutExpired:
                            rc = -9
                    n_restart = 0
                    reached_pass1 = False
                    with open(log, "rb") as lf:
                        for line in lf:
                            n_restart += line.startswith(b"Restarting e2fsck from the beginning")
                            reached_pass1 = reached_pass1 or line.startswith(b"Pass 1")
                            if n_restart > 50:
                                break
                    os.unlink(log)
                    os.unlink(img)
                    if not reached_pass1 and rc != -9:
                        # the protocol is about runs that get as far as pass 1; with the journal inode in a group whose table is
                        # missing e2fsck gives up before ("Cannot proceed with file system check")
                        continue
                    mo = ask("RS %d %d" % (ro, k))
                    rows += 1
                    if rc == -9 or mo != str(n_restart):
                        bad.append({"what": "restarts", "base": name, "groups_without_inode_table": groups, "mode": mode, "e2fsck_exit": rc,
                                    "restarts_observed": "more than 50 (killed)" if n_restart > 50 else n_restart, "model": mo})
    # (b)
    cfg = [c for c in corrupt.IMG_CONFIGS if c[0] == "ext4_nocsum"][0]
    base = corrupt.build_image(src, WORK, cfg[0], cfg[1], cfg[2], 1)
    fs = Fs(base)
    ipb = fs.bs // fs.inode_size
    n = fs.itb_per_group
    g = 0
    it = fs.groups[g]["inode_table"]
    real_unused = struct.unpack_from("<H", fs.d, corrupt.gd_loc(fs, g) + 28)[0]
    d0 = bytearray(fs.d)
    first_free_blk = (fs.inodes_per_group - real_unused + ipb - 1) // ipb
    for j in range(first_free_blk, n):          # make the unused part of the table visible in the copy
        for q in range(ipb):
            d0[(it + j) * fs.bs + q * fs.inode_size + 4: (it + j) * fs.bs + q * fs.inode_size + 8] = b"\xAA\xAA\xAA\x0A"
    ipg = fs.inodes_per_group
    vals = [0, 1, ipb - 1, ipb, real_unused, ipg - ipb, ipg - 1, ipg, ipg + 1, ipg + ipb, 2 * ipg, 0xFFFF]
    r = e2v.rng(seed, "c06il")
    vals += [r.randrange(0, 0x10000) for _ in range(4 if tier == "quick" else 60)]
    for unused in vals:
        d = bytearray(d0)
        struct.pack_into("<H", d, corrupt.gd_loc(fs, g) + 28, unused)
        corrupt.fix_gd_csum(fs, d, g)
        img = os.path.join(WORK, "il.img")
        out = os.path.join(WORK, "il.raw")
        open(img, "wb").write(d)
        if os.path.exists(out):
            os.unlink(out)
        try:
            rc = subprocess.run([os.path.join(src, "misc/e2image"), "-r", img, out], env=env, stdout=subprocess.DEVNULL, stderr=subprocess.DEVNULL,
                                stdin=subprocess.DEVNULL, timeout=60).returncode
        except subprocess.TimeoutExpired:
            rc = -9
        copied = 0
        if rc == 0 and os.path.exists(out):
            with open(out, "rb") as f:
                for j in range(n):
                    f.seek((it + j) * fs.bs)
                    if f.read(fs.bs) != bytes(d[(it + j) * fs.bs:(it + j + 1) * fs.bs]):
                        break
                    copied += 1
        mo = ask("IL %d %d %d" % (n, unused, ipb))
        rows += 1
        if rc != 0 or mo != str(copied):
            bad.append({"what": "inode table blocks in the raw image", "base": "ext4_nocsum", "group": g, "table_blocks": n, "bg_itable_unused": unused,
                        "inodes_per_block": ipb, "e2image_exit": rc, "leading_blocks_copied": copied, "model": mo})
        for p_ in (img, out):
            if os.path.exists(p_):
                os.unlink(p_)
    # (c) resize2fs -P: the number of groups its estimate starts from (printed with -d 32), for free inode counts below, at and
    # above the inode count, vs Robust.MinGroups.min_groups_new
    for name in ("ext4_1k", "ext2_noflex"):
        cfg = [c for c in corrupt.IMG_CONFIGS if c[0] == name][0]
        base = corrupt.build_image(src, WORK, cfg[0], cfg[1], cfg[2], 1)
        fs = Fs(base)
        total, ipg_ = fs.inodes_count, fs.inodes_per_group
        real_free = struct.unpack_from("<I", fs.d, fs.off + 1024 + 16)[0]
        for free in [real_free, 0, 1, total - ipg_, total - ipg_ - 1, total - 1, total, total + 1, total + ipg_, 0x7FFFFFFF, 0xFFFFFFFF]:
            d = bytearray(fs.d)
            struct.pack_into("<I", d, fs.off + 1024 + 16, free & 0xFFFFFFFF)
            corrupt.fix_sb_csum(fs, d)
            img = os.path.join(WORK, "mg_%s.img" % name)
            open(img, "wb").write(d)
            rc, out_ = e2v.sh([os.path.join(src, "resize/resize2fs"), "-f", "-d", "32", "-P", img], env=env, timeout=60)
            os.unlink(img)
            m_ = re.search(r"fs has \d+ inodes, (\d+) groups required", out_)
            seen = m_.group(1) if m_ else ("INCONSISTENT" if "appears inconsistent" in out_.split("fs requires")[0] else "?")
            mo = ask("MG %d %d %d" % (total, free & 0xFFFFFFFF, ipg_))
            rows += 1
            if rc < 0 or rc > 1 or seen != mo:
                bad.append({"what": "groups needed by the inodes in use (resize2fs -f -d 32 -P)", "base": name, "s_inodes_count": total, "s_free_inodes_count": free & 0xFFFFFFFF,
                            "inodes_per_group": ipg_, "resize2fs_exit": rc, "printed": seen, "model": mo})
    return rows, bad


def dirwalk_corr(src, hexe, mexe, seed, n):
    """library directory walk vs the model on directory blocks with damaged record headers"""
    r = e2v.rng(seed, "c06d")
    out_bad, rows = [], 0
    for i in range(n):
        name, opts, size = corrupt.IMG_CONFIGS[i % len(corrupt.IMG_CONFIGS)]
        base = corrupt.build_image(src, WORK, name, opts, size, 1)
        fs = Fs(base)
        d = bytearray(fs.d)
        dirs = [x for x in corrupt.directories(fs) if not fs.inode(x)["flags"] & INLINE_DATA_FL]
        ino = r.choice(dirs)
        inode = fs.inode(ino)
        m, _ = fs.file_map(ino, inode)
        lbs = [l for l in sorted(m) if l * fs.bs < inode["size"]]
        for _ in range(r.randint(1, 4)):
            pb = m[r.choice(lbs)][0]
            ents = fs.dir_block_entries(fs.block(pb)) if True else []
            try:
                e = r.choice(ents)
                o = pb * fs.bs + e[0] + r.choice([4, 4, 5, 6, 6, 0])
            except (IndexError, FormatError):
                o = pb * fs.bs + 4
            d[o] = r.choice([0, 1, 3, 4, 7, 8, 12, 255, r.getrandbits(8)])
        img = os.path.join(WORK, "dw_%d.img" % i)
        open(img, "wb").write(d)
        p = subprocess.run([hexe, img, str(ino)], stdout=subprocess.PIPE, timeout=60)
        lib = p.stdout.decode().strip().split("\n")[-1].split()[1:]
        tot, verdict = 0, "OK"
        for l in lbs:
            blk = bytes(d[m[l][0] * fs.bs:(m[l][0] + 1) * fs.bs])
            a = subprocess.run([mexe], input=("W %d %s\n" % (fs.bs, blk.hex())).encode(), stdout=subprocess.PIPE, timeout=60).stdout.decode().split()
            if a[0] != "OK":
                verdict = a[0]
                break
            tot += int(a[1])
        rows += 1
        model = [verdict] if verdict != "OK" else ["OK", str(tot)]
        if lib != model:
            out_bad.append({"base": name, "dir_inode": ino, "library": lib, "model": model})
        os.unlink(img)
    return rows, out_bad


def run(res, replay=None):
    tier, seed = res.tier, res.seed
    os.makedirs(WORK, exist_ok=True)
    src = e2v.ensure_build()
    asan = e2v.ensure_build("asan")
    pr = e2v.coq_property("C06")
    res.add_proof(pr)
    hexe = e2v.build_harness("h_dirwalk", src)
    mexe = e2v.build_driver("dirwalk", ["theories/Parsers/DirWalk.vo", "theories/Parsers/EaValue.vo", "theories/Robust/Restart.vo", "theories/Robust/ItableLen.vo", "theories/Robust/MinGroups.vo"], ["dirwalk_model"])
    res.cov["trusted_base"] = e2v.TRUSTED_COMMON + [
        "clang/gcc AddressSanitizer + UndefinedBehaviorSanitizer build of the working tree (asan variant): what they do not instrument is not observed",
        "a SIGKILL timeout of 60 s per invocation stands for 'hang'",
        "lib/corrupt.py, lib/jbd2enc.py: generators of damaged images, journals, undo files and qcow2 images",
    ]
    res.cov["partial"] = ["this property is about the C runtime: proved is only the bounds logic of three parsers (directory record walk, journal tag counting, attribute value bounds), the termination of e2fsck's relocate-and-restart protocol and e2image's inode-table length; memory safety of the code is observed by sanitizers on the sampled inputs, not proved",
                          "mounted filesystems, block devices and 64k-block directories are outside the campaign"]
    for nm, op, sz in c03.BASES[:2] + [("fc4k", ["-t", "ext4", "-b", "4096", "-O", "fast_commit", "-J", "size=4"], "64M"),
                                       ("fc1k", ["-t", "ext4", "-b", "1024", "-O", "fast_commit,^metadata_csum", "-J", "size=4"], "32M")]:
        c03.base_image(src, nm, op, sz)
    for nm, op, sz in corrupt.IMG_CONFIGS:
        corrupt.build_image(src, WORK, nm, op, sz, 1)
    rows, dbad = dirwalk_corr(src, hexe, mexe, seed, 40 if tier == "quick" else 2000)
    erows, ebad = ea_value_corr(src, mexe, seed, 6 if tier == "quick" else 150)
    rrows, rbad = robust_corr(src, mexe, seed, tier)
    n_img, n_j, n_a = (100, 64, 32) if tier == "quick" else (4000, 1500, 800)
    with concurrent.futures.ThreadPoolExecutor(14) as ex:
        o1 = list(ex.map(lambda i: image_case(src, asan, i, seed, tier), range(n_img)))
        o2 = list(ex.map(lambda i: journal_case(src, asan, i, seed, tier), range(n_j)))
        o3 = list(ex.map(lambda i: aux_case(src, asan, i, seed, tier), range(n_a)))
        o3 += list(ex.map(lambda i: tiny_geometry_case(src, asan, i, seed, tier), range(3)))
        o3 += list(ex.map(lambda i: huge_size_case(src, asan, i, seed, tier), range(2)))
    bad = []
    runs = 0
    for recipe, b, nrun in o1 + o2 + o3:
        res.case(json.dumps(recipe), True)
        runs += nrun
        if b:
            bad.append((recipe, b))
    res.sample(o1[0][0])
    res.sample(o2[0][0])
    res.cov["evaluations"] += runs
    res.cov["correspondence"] = {"directories_walked": rows, "mismatches": len(dbad),
                                 "compared": "ext2fs_dir_iterate2 verdict and record count on directories with damaged record headers vs the extracted dir_block_walk over the same blocks"}
    res.cov["oracle"] = {"evaluations": runs, "failures": len(bad), "inputs": {"images": n_img, "journals": n_j, "undo_and_qcow2": n_a},
                         "statement": "no sanitizer report, fatal signal or 60 s hang in any tool invocation on damaged input"}
    res.cov["rule"] = "structured and unstructured damage to populated images of 6 feature sets, journals (c03 generator + byte damage in log blocks), undo files and qcow2 images x e2fsck -fn/-fy/-p/-fyD, 12 debugfs commands, dumpe2fs, tune2fs -l, resize2fs -P, e2image, e2freefrag, e2undo; non-trivial: every case"
    res.add_obligation("library directory walk = model on all damaged directories", not dbad)
    res.cov["correspondence"]["ea_value_entries"] = erows
    res.cov["correspondence"]["ea_value_mismatches"] = len(ebad)
    res.cov["correspondence"]["ea_value_compared"] = "attribute-block entries with chosen (e_value_offs, e_value_size), block checksum valid: e2fsck -fn reports PR_1_EA_BAD_VALUE exactly when the extracted ea_value_ok rejects"
    res.add_obligation("e2fsck's attribute value check = ea_value_ok on the whole grid", not ebad)
    res.cov["correspondence"]["restart_and_table_length_runs"] = rrows
    res.cov["correspondence"]["restart_and_table_length_mismatches"] = len(rbad)
    res.cov["correspondence"]["restart_and_table_length_compared"] = ("e2fsck -fn / -fy on devices with 0..3 inode-table locations zeroed (descriptor checksums valid): number of "
        "'Restarting e2fsck' lines vs Restart.restarts; e2image -r for 16+ values of bg_itable_unused: leading inode-table blocks present in the raw image vs ItableLen.itable_len_new")
    res.add_obligation("restart protocol and table-length arithmetic = models", not rbad)

    def sig(recipe, b):
        w = b[0]["why"]
        m = re.search(r"(heap-buffer-overflow|stack-buffer-overflow|heap-use-after-free|SEGV|runtime error: [a-z ]+|hang|signal \d+)", w)
        fn = re.search(r"#\d+ 0x[0-9a-f]+ in (\w+)", w)
        return "c06:%s:%s:%s" % (b[0]["invocation"].split()[0], m.group(1) if m else "report", fn.group(1) if fn else "?")
    seen = set()
    for recipe, b in bad:
        s_ = sig(recipe, b)
        if s_ in seen or len(seen) >= 4:
            continue
        seen.add(s_)
        res.violation("oracle", {"recipe": recipe, "failure": b[0]}, signature=s_)
    for c in dbad[:1]:
        res.violation("correspondence", {"drift": c, "note": "library directory walk and model disagree"}, has_input=True,
                      signature="c06dir:" + hashlib.sha256(json.dumps(c).encode()).hexdigest()[:12])
    for c in ebad[:1]:
        res.violation("correspondence", {"entry": c, "note": "e2fsck pass 1 and the model disagree on an attribute value's bounds (theorem ea_value_check_safe is about the model)"}, has_input=True,
                      signature="c06ea:" + hashlib.sha256(json.dumps(c).encode()).hexdigest()[:12])
    for c in rbad[:2]:
        res.violation("correspondence", {"run": c, "note": "the tool and the model disagree (theorems restart_protocol_terminates / itable_len_bounded are about the model)"}, has_input=True,
                      signature="c06rb:" + hashlib.sha256(json.dumps(c).encode()).hexdigest()[:12])
    if not pr["ok"] and not bad and not dbad and not ebad and not rbad:
        res.violation("proof", {"theorem_file": "coq/theories/Properties_C06.v", "failed_at": pr["failed_at"],
                                "forbidden": pr["forbidden"], "log_tail": pr["log_tail"][-1500:]}, has_input=False)

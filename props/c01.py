# C01 - e2fsck repairs converge: a repaired filesystem checks clean     (campaign shared with C02)
import re, json, os, subprocess, hashlib
import e2v
from props import c02


def setup(src):
    c02.setup(src)


def run(res, replay=None):
    tier, seed = res.tier, res.seed
    src = e2v.ensure_build()
    pr = e2v.coq_property("C01")
    res.add_proof(pr)
    mexe = e2v.build_driver("verdict", ["theories/Verdict/Verdict.vo"], ["verdict_model"])
    res.cov["trusted_base"] = e2v.TRUSTED_COMMON + [
        "gen/gen_problem_table.py, Frozen/NoOkFrozen.v, lib/extfmt.py, lib/corrupt.py as in C02",
        "ICache.v models the 4-slot inode cache of lib/ext2fs/inode.c (repaired code)",
    ]
    res.cov["partial"] = ["the repair routines of passes 1-5 are not modelled; convergence is observed on generated corruptions",
                          "proved: the verdict layer in -y mode and the inode cache never returning another inode's bytes"]
    if replay:
        rp = json.load(open(replay))
        cases = [c02.one_case(src, rp["recipe"]["case_index"], seed, tier)]
    else:
        try:
            cases = c02.campaign(src, seed, tier)
        except c02.BaseNotClean as ex:
            res.violation("oracle", {"recipe": ex.recipe, "note": "e2fsck -fn reports problems on an undamaged filesystem (so a repair run would change a healthy filesystem and not converge): " + ex.msg[-400:]},
                          signature="c01:base:" + ex.recipe["base"])
            res.add_obligation("campaign ran", False)
            return
    bad = []
    stats = {"rc_y": {}, "claims_success": 0, "second_run_clean": 0, "input_inconsistent": 0}
    lines = [c02.verdict_model(mexe, "y", c["probs_y"], changed=True) for c in cases]
    mv = c02.run_model(mexe, lines)
    vbad = []
    for c, mexit in zip(cases, mv):
        rec = c["recipe"]
        stats["rc_y"][c["rc_y"]] = stats["rc_y"].get(c["rc_y"], 0) + 1
        nontriv = bool(c["probs_n"])
        res.case(json.dumps(rec), nontriv)
        if c["cons0"]:
            stats["input_inconsistent"] += 1
        if mexit.strip().isdigit() and int(mexit) & 4 and c["rc_y"] >= 0 and not (c["rc_y"] & 4) and not (c["rc_y"] & 8):
            vbad.append((rec, c["probs_y"][:8], c["rc_y"]))
        if c["rc_y"] < 0 or c["rc_y"] & (4 | 8 | 16 | 32):
            continue           # the repair run does not claim success
        stats["claims_success"] += 1
        why = None
        if c["rc_n2"] != 0:
            why = "second run e2fsck -fn exits %d" % c["rc_n2"]
        elif any(True for code, a in c["probs_n2"]):
            why = "second run reports problems %s" % [hex(x[0]) for x in c["probs_n2"][:5]]
        elif c["cons2"] not in ([], None, "skipped"):
            why = "repaired filesystem still violates: %s" % c["cons2"][:3]
        if why:
            xl = bool(c.get("journal_crosslinked"))
            codes2 = {code for code, a in c["probs_n2"]}
            if codes2 and codes2 <= {0x50003, 0x50004, 0x50014, 0x50006} and c["cons2"] in ([], None, "skipped"):
                xl = "leak"          # the second run finds nothing but blocks that are marked in use and belong to nobody
            if c.get("shadow2") and c["rc_n2"] == 0 and not c["probs_n2"]:
                xl = "shadow"
            if c.get("ea_cleared"):
                xl = "eacleared"
            if c.get("special2") and c["rc_n2"] == 0 and not c["probs_n2"]:
                xl = "special"
            bad.append((rec, why, c["out_n2"], xl))
        else:
            stats["second_run_clean"] += 1
        if len(res.cov["samples"]) < 3 and nontriv:
            res.sample({"recipe": rec, "repair_exit": c["rc_y"], "problems_fixed": len(c["probs_y"]), "recheck_exit": c["rc_n2"]})
    res.cov["correspondence"] = {"e2fsck_y_runs": len(cases), "verdict_mismatches": len(vbad),
                                 "compared": "exit status of every e2fsck -fy run vs the verdict model applied to its problem log"}
    res.cov["oracle"] = {"evaluations": len(cases), "failures": len(bad), "distribution": stats,
                         "statement": "e2fsck -fy claiming success is followed by e2fsck -fn with exit 0, an empty problem log and a consistent independent reading"}
    res.cov["rule"] = ("same images and corruption operators as C02; non-trivial = the first e2fsck -fn reported at least one problem")
    res.add_obligation("verdict model consistent with every observed -y exit status", not vbad)
    def sig(rec, why, out, xl):
        if xl == "leak":
            return "c01:second-run-finds-only-leaked-blocks"
        if xl == "shadow":
            return "c01:uninit-group-metadata-bit-clear-on-disk"
        if xl == "eacleared":
            return "c01:cleared-inode-keeps-its-attribute-block-reference"
        if xl == "special":
            return "c01:special-inode-bad-file-acl"
        if xl and "invalid journal" in out:
            return "c01:journal-cross-linked-superblock-lost"
        return "c01:" + hashlib.sha256(json.dumps(rec["operators"]).encode()).hexdigest()[:12]
    bad.sort(key=lambda b: 1 if sig(*b) in ("c01:journal-cross-linked-superblock-lost", "c01:second-run-finds-only-leaked-blocks", "c01:uninit-group-metadata-bit-clear-on-disk", "c01:cleared-inode-keeps-its-attribute-block-reference", "c01:special-inode-bad-file-acl") else 0)
    listed = {k["signature"] for k in e2v.known_findings() if k["property"] == "C01" and k.get("status") == "known"}
    shown, unknown = set(), 0
    for rec, why, out, xl in bad:
        s_ = sig(rec, why, out, xl)
        if s_ in listed:
            if s_ in shown:
                continue
            shown.add(s_)
        else:
            unknown += 1
            if unknown > 3:
                continue
        res.violation("oracle", {"recipe": rec, "note": why, "second_run_output_tail": out[-400:], "journal_blocks_cross_linked_in_input": xl},
                      signature=s_)
    for rec, probs, rc in vbad[:2]:
        res.violation("correspondence", {"recipe": rec, "problem_log": probs, "exit": rc}, signature="c01v:" + hashlib.sha256(json.dumps(rec["operators"]).encode()).hexdigest()[:12])
    if not pr["ok"] and not bad and not vbad:
        res.violation("proof", {"theorem_file": "coq/theories/Properties_C01.v", "failed_at": pr["failed_at"],
                                "forbidden": pr["forbidden"], "log_tail": pr["log_tail"][-1500:]}, has_input=False)

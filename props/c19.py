# C19 - e2image images preserve all metadata and never touch the source
import json, os, struct, subprocess, hashlib, shutil, concurrent.futures
import e2v, extfmt, mkimg
from extfmt import *

WORK = os.path.join(e2v.SCRATCH, "c19")
CONFIGS = [
    ("ext4_1k", ["-t", "ext4", "-b", "1024"], "24M"),
    ("ext4_4k", ["-t", "ext4", "-b", "4096"], "64M"),
    ("ext3_1k", ["-t", "ext3", "-b", "1024"], "16M"),
    ("ext2_2k", ["-t", "ext2", "-b", "2048", "-O", "^resize_inode"], "20M"),
    ("ext4_quota", ["-t", "ext4", "-b", "1024", "-O", "quota"], "16M"),
    ("ext4_metabg", ["-t", "ext4", "-b", "1024", "-O", "meta_bg,^resize_inode", "-g", "1024"], "20M"),
    # metadata spread over far more than 512 L2 tables: the writer's table cache is recycled many times
    ("ext3_wide_1k", ["-t", "ext3", "-b", "1024", "-g", "256", "-O", "^resize_inode", "-N", "8192"], "272M"),
]


def setup(src):
    e2v.build_driver("qcow", ["theories/Qcow2/QcowIndex.vo", "theories/Qcow2/QcowWriter.vo"], ["qcow_model"])
    e2v.build_iotrace()


class Qcow:
    """the check's own reader of a qcow2 (version 2) file"""
    MASK = 0x00FFFFFFFFFFFE00

    def __init__(self, path):
        self.d = open(path, "rb").read()
        h = struct.unpack_from(">4sIQIIQIIQQIIQ", self.d, 0)
        (magic, self.version, self.backing_off, self.backing_size, self.cb, self.size, self.crypt, self.l1_size, self.l1_off,
         self.rt_off, self.rt_clusters, self.nsnap, self.snap_off) = h
        if magic != b"QFI\xfb":
            raise FormatError("qcow2: bad magic")
        if not 9 <= self.cb <= 21:
            raise FormatError("qcow2: cluster bits %d" % self.cb)
        self.cs = 1 << self.cb
        self.l2n = self.cs // 8
        self.problems = []
        self.map = {}          # blk -> (data offset, l1 index, l2 index)
        self.used = {}         # cluster index -> what
        self._use(0, "header")
        for i in range((self.l1_size * 8 + self.cs - 1) // self.cs):
            self._use((self.l1_off >> self.cb) + i, "l1 table")
        for i in range(self.rt_clusters):
            self._use((self.rt_off >> self.cb) + i, "refcount table")
        if self.l1_off % self.cs or self.rt_off % self.cs:
            self.problems.append("table offsets not cluster aligned")
        for l1 in range(self.l1_size):
            e = struct.unpack_from(">Q", self.d, self.l1_off + 8 * l1)[0]
            off = e & self.MASK
            if not off:
                continue
            if off % self.cs or off + self.cs > len(self.d):
                self.problems.append("L1[%d] points to %d (unaligned or outside the file)" % (l1, off))
                continue
            self._use(off >> self.cb, "l2 table %d" % l1)
            for l2 in range(self.l2n):
                e2 = struct.unpack_from(">Q", self.d, off + 8 * l2)[0]
                o2 = e2 & self.MASK
                if e2 & (1 << 62):
                    self.problems.append("compressed cluster")
                if not o2:
                    continue
                if o2 % self.cs or o2 + self.cs > len(self.d):
                    self.problems.append("L2[%d][%d] points to %d (unaligned or outside the file)" % (l1, l2, o2))
                    continue
                self._use(o2 >> self.cb, "data of block %d" % (l1 * self.l2n + l2))
                self.map[l1 * self.l2n + l2] = (o2, l1, l2)
        # refcounts
        self.refblocks = {}
        per = self.cs // 2
        for ti in range(self.rt_clusters * self.cs // 8):
            o = struct.unpack_from(">Q", self.d, self.rt_off + 8 * ti)[0]
            if not o:
                continue
            if o % self.cs or o + self.cs > len(self.d):
                self.problems.append("refcount table[%d] points to %d" % (ti, o))
                continue
            self._use(o >> self.cb, "refcount block %d" % ti)
            self.refblocks[ti] = o
        for c, what in self.used.items():
            ti, e = c // per, c % per
            if ti not in self.refblocks:
                self.problems.append("cluster %d (%s) has no refcount block" % (c, what))
                continue
            rc = struct.unpack_from(">H", self.d, self.refblocks[ti] + 2 * e)[0]
            if rc != 1:
                self.problems.append("cluster %d (%s) has refcount %d" % (c, what, rc))

    def _use(self, c, what):
        if c in self.used:
            self.problems.append("cluster %d used twice: %s and %s" % (c, self.used[c], what))
        self.used[c] = what

    def block(self, blk):
        return self.d[self.map[blk][0]:self.map[blk][0] + self.cs] if blk in self.map else None


def _big_stack():
    import resource
    try:
        resource.setrlimit(resource.RLIMIT_STACK, (resource.RLIM_INFINITY, resource.RLIM_INFINITY))
    except Exception:
        pass


def metadata_blocks(fs):
    """every block an image must carry: fixed metadata, directory blocks, extent/indirect blocks, xattr blocks,
    symlink blocks, the journal and the other special inodes"""
    # primary metadata only: backup superblocks/descriptors are not part of an image (the property exempts them)
    out = {0 if fs.bs > 1024 else 1}
    for i in range(fs.desc_blocks):
        out.add(fs.desc_block_loc(i))
    gcs = fs.has_gdt_csum or fs.has_csum
    for gd in fs.groups:
        # bitmap blocks whose content the descriptor declares not yet initialised are not metadata (e2image skips them)
        if not (gcs and gd["flags"] & BG_BLOCK_UNINIT):
            out.add(gd["block_bitmap"])
        if not (gcs and gd["flags"] & BG_INODE_UNINIT):
            out.add(gd["inode_bitmap"])
        # the inode table as far as it is in use: e2image (like the kernel) leaves out the part the descriptor declares
        # unused (bg_itable_unused) and the tables of INODE_UNINIT groups - released inodes there are not metadata any more
        if gcs and gd["flags"] & BG_INODE_UNINIT:
            continue
        end = fs.itb_per_group - (gd["itable_unused"] // (fs.bs // fs.inode_size) if gcs else 0)
        out |= set(range(gd["inode_table"], gd["inode_table"] + end))
    for ino in range(1, fs.inodes_count + 1):
        g = (ino - 1) // fs.inodes_per_group
        if fs.has_gdt_csum or fs.has_csum:
            if fs.groups[g]["flags"] & BG_INODE_UNINIT:
                continue
        try:
            i = fs.inode(ino)
        except FormatError:
            continue
        if not i["links"] and ino >= fs.first_ino:
            continue
        if i["mode"] == 0 and ino >= fs.first_ino:
            continue
        if i["file_acl"]:
            out.add(i["file_acl"])
        fmt = i["mode"] & 0xF000
        if i["flags"] & INLINE_DATA_FL:
            continue
        if fmt == 0xA000 and i["size"] < 60 and not i["flags"] & EXTENTS_FL:
            continue
        if fmt not in (0x4000, 0x8000, 0xA000):
            continue
        try:
            m, meta = fs.file_map(ino, i)
        except (FormatError, struct.error, IndexError):
            continue
        out |= set(meta)
        if fmt in (0x4000, 0xA000) or ino == fs.journal_inum or (ino < fs.first_ino and ino != 7):
            out |= {p for p, _ in m.values()}
    return {b for b in out if 0 <= b < fs.blocks_count}


def full_all_case(src, idx, seed):
    """-Qa / -ra of a filesystem without a free block, every block non-zero: the qcow2 file is larger than the filesystem,
    its last L2 tables lie behind the filesystem size and the last block of the filesystem is part of the image"""
    r = e2v.rng(seed, "c19full", idx)
    T = lambda p: os.path.join(src, p)
    env = e2v.tool_env(src)
    bs, size_m = [(1024, 40), (1024, 20), (4096, 48), (2048, 36)][idx % 4]
    img = os.path.join(WORK, "full_%d.img" % idx)
    fill = os.path.join(WORK, "full_%d.dat" % idx)
    outs = {k: os.path.join(WORK, "full_%d.%s" % (idx, k)) for k in ("qcow", "rawall", "raw2")}
    for p_ in [img] + list(outs.values()):
        if os.path.exists(p_):
            os.unlink(p_)
    recipe = {"kind": "full filesystem, -Qa", "block_size": bs, "size": "%dM" % size_m, "case_index": 100000 + idx}
    e2v.sh([T("misc/mke2fs"), "-q", "-F", "-t", "ext2", "-b", str(bs), "-O", "^resize_inode", "-N", "16", "-m", "0", img, "%dM" % size_m], env=env, timeout=120)
    with open(fill, "wb") as f:
        f.write(bytes(1 + (b % 255) for b in r.randbytes(1 << 16)) * (size_m * 18))
    e2v.sh([T("debugfs/debugfs"), "-w", "-R", "write %s f" % fill, img], env=env, timeout=300)
    e2v.sh([T("e2fsck/e2fsck"), "-fy", img], env=env, timeout=300)
    problems = []
    fs = Fs(img)
    if sum(g["free_blocks"] for g in fs.groups):
        problems.append("generator: the filesystem is not full")
    for label, cmd in (("-Qa", [T("misc/e2image"), "-Qa", img, outs["qcow"]]), ("-ra", [T("misc/e2image"), "-ra", img, outs["rawall"]]),
                       ("-r from qcow2", [T("misc/e2image"), "-r", outs["qcow"], outs["raw2"]])):
        rc, out = e2v.sh(cmd, env=env, timeout=600)
        if rc != 0:
            problems.append("e2image %s exits %d: %s" % (label, rc, out[-200:]))
    stat = {}
    if not problems:
        a, b, s0 = open(outs["rawall"], "rb").read(), open(outs["raw2"], "rb").read(), open(img, "rb").read()
        stat["qcow_bytes_over_fs"] = os.path.getsize(outs["qcow"]) - len(s0)
        if b != a:
            d_ = [i for i in range(0, max(len(a), len(b)), bs) if a[i:i + bs] != b[i:i + bs]]
            problems.append("raw image made from the -Qa image differs from the -ra image in %d blocks (sizes %d / %d), first blocks %s" % (len(d_), len(b), len(a), [x // bs for x in d_[:4]]))
    for p_ in [img, fill] + list(outs.values()):
        if os.path.exists(p_):
            os.unlink(p_)
    return recipe, problems, stat


def trailing_hole_case(src, idx, seed):
    """the bytes behind the last non-zero metadata block are an exact multiple of 1 MiB (the raw writer's sparse-run threshold)"""
    T = lambda p: os.path.join(src, p)
    env = e2v.tool_env(src)
    bs, opts, n0 = [(1024, ["-t", "ext2", "-b", "1024", "-N", "4096"], 17000), (4096, ["-t", "ext4", "-b", "4096", "-O", "^has_journal", "-N", "2048"], 40000),
                    (1024, ["-t", "ext3", "-b", "1024", "-N", "1024"], 20000), (2048, ["-t", "ext2", "-b", "2048", "-N", "2048"], 33000)][idx % 4]
    img = os.path.join(WORK, "th_%d.img" % idx)
    raw = os.path.join(WORK, "th_%d.raw" % idx)
    per_mib = (1 << 20) // bs
    recipe = {"kind": "trailing hole of whole MiB", "mke2fs": opts, "case_index": 200000 + idx}
    problems, n, want = [], n0, None
    for attempt in range(4):
        for p_ in (img, raw):
            if os.path.exists(p_):
                os.unlink(p_)
        rc, out = e2v.sh([T("misc/mke2fs"), "-q", "-F"] + opts + [img, str(n)], env=env, timeout=120)
        e2v.sh([T("debugfs/debugfs"), "-w", "-R", "mkdir d", img], env=env, timeout=60)
        rc, out = e2v.sh([T("misc/e2image"), "-r", img, raw], env=env, timeout=300)
        if rc != 0:
            return recipe, ["e2image -r exits %d" % rc], {}
        d = open(raw, "rb").read()
        last = max((b for b in range(len(d) // bs) if d[b * bs:(b + 1) * bs].strip(b"\0")), default=0)
        hole = n - (last + 1)
        recipe.update({"blocks": n, "last_nonzero_block": last, "trailing_hole_blocks": hole})
        if hole > 0 and hole % per_mib == 0:
            break
        n = last + 1 + per_mib * max(1, round(hole / per_mib))
    fs = Fs(img)
    if os.path.getsize(raw) != fs.blocks_count * bs:
        problems.append("raw image is %d bytes, the filesystem %d (trailing hole of %d blocks)" % (os.path.getsize(raw), fs.blocks_count * bs, recipe.get("trailing_hole_blocks", -1)))
    rc, out = e2v.sh([T("e2fsck/e2fsck"), "-fn", raw], env=env, timeout=300)
    if rc != 0:
        problems.append("e2fsck -fn on the raw image exits %d: %s" % (rc, out[-200:].replace("\n", " | ")))
    for p_ in (img, raw):
        if os.path.exists(p_):
            os.unlink(p_)
    return recipe, problems, {"trailing_hole_exact": 1 if recipe.get("trailing_hole_blocks", 1) % per_mib == 0 else 0}


def beyond_4g_case(src, idx, seed):
    """a filesystem larger than 4 GiB (sparse): metadata beyond byte 2^32 must come back from the qcow2 image at its own offset"""
    T = lambda p_: os.path.join(src, p_)
    env = e2v.tool_env(src)
    img, qc, raw1, raw2 = (os.path.join(WORK, "g4_%d.%s" % (idx, x)) for x in ("img", "qcow", "raw1", "raw2"))
    recipe = {"kind": "filesystem of 5 GiB, qcow2 and back", "mke2fs": ["-t", "ext4", "-b", "4096"], "case_index": 300000 + idx}
    for p_ in (img, qc, raw1, raw2):
        if os.path.exists(p_):
            os.unlink(p_)
    problems = []
    rc, out = e2v.sh([T("misc/mke2fs"), "-q", "-F", "-t", "ext4", "-b", "4096", "-E", "lazy_itable_init=1,lazy_journal_init=1,nodiscard", img, "5G"], env=env, timeout=300)
    e2v.sh([T("debugfs/debugfs"), "-w", "-R", "mkdir d", img], env=env, timeout=60)
    if rc == 0:
        rc1, _ = e2v.sh([T("misc/e2image"), "-r", img, raw1], env=env, timeout=600)
        rc2, _ = e2v.sh([T("misc/e2image"), "-Q", img, qc], env=env, timeout=600)
        rc3, _ = e2v.sh([T("misc/e2image"), "-r", qc, raw2], env=env, timeout=600)
        if rc1 or rc2 or rc3:
            problems.append("e2image exits %d / %d / %d (raw, qcow2, qcow2 to raw)" % (rc1, rc2, rc3))
        else:
            def data_segments(path):
                segs, fd = [], os.open(path, os.O_RDONLY)
                try:
                    end, pos = os.fstat(fd).st_size, 0
                    while pos < end:
                        try:
                            a = os.lseek(fd, pos, os.SEEK_DATA)
                        except OSError:
                            break
                        b = os.lseek(fd, a, os.SEEK_HOLE)
                        segs.append((a, b))
                        pos = b
                finally:
                    os.close(fd)
                return segs
            with open(raw1, "rb") as f1, open(raw2, "rb") as f2:
                for a, b in data_segments(raw1) + data_segments(raw2):
                    pos = a
                    while pos < b and not problems:
                        n_ = min(1 << 20, b - pos)
                        f1.seek(pos)
                        f2.seek(pos)
                        x, y = f1.read(n_), f2.read(n_)
                        if x != y:
                            k = next(i for i in range(min(len(x), len(y))) if x[i] != y[i]) if len(x) == len(y) else min(len(x), len(y))
                            problems.append("the raw image made from the qcow2 image differs from the direct raw image at byte %d (block %d)" % (pos + k, (pos + k) // 4096))
                        pos += n_
                    if problems:
                        break
            if not problems and e2v.sh([T("e2fsck/e2fsck"), "-fn", raw2], env=env, timeout=600)[0] != 0:
                problems.append("e2fsck -fn fails on the raw image made from the qcow2 image")
    for p_ in (img, qc, raw1, raw2):
        if os.path.exists(p_):
            os.unlink(p_)
    return recipe, problems, {}


def one_case(src, mexe, idx, seed, tier):
    if idx >= 300000:
        return beyond_4g_case(src, idx - 300000, seed)
    if idx >= 200000:
        return trailing_hole_case(src, idx - 200000, seed)
    if idx >= 100000:
        return full_all_case(src, idx - 100000, seed)
    r = e2v.rng(seed, "c19", idx)
    name, opts, size = CONFIGS[idx % len(CONFIGS)]
    if name == "ext3_wide_1k":
        base = mkimg.cached_fs(src, WORK, name, opts, size, 1, fill=0.01, nfiles=40, ndirs=1500)
    else:
        base = mkimg.cached_fs(src, WORK, name, opts, size, 1 + idx // len(CONFIGS) % 2, fill=r.choice([0.2, 0.5]), nfiles=r.choice([40, 200]))
    T = lambda p: os.path.join(src, p)
    env = e2v.tool_env(src)
    pre = os.path.join(WORK, "i_%d" % idx)
    outs = {k: pre + "." + k for k in ("raw", "qcow", "raw2", "rawall", "e2i")}
    for p in outs.values():
        if os.path.exists(p):
            os.unlink(p)
    recipe = {"config": name, "mke2fs": opts, "size": size, "case_index": idx}
    problems, stat = [], {}
    before = hashlib.sha256(open(base, "rb").read()).hexdigest()
    fs = Fs(base)
    need = metadata_blocks(fs)
    stat["metadata_blocks"] = len(need)
    if idx % 2 == 1:
        # the raw output file already exists and holds other data: every metadata block of the source - the all-zero ones
        # too - has to be written over it
        with open(outs["raw"], "wb") as f:
            chunk = bytes([0x77]) * (1 << 20)
            left = fs.blocks_count * fs.bs
            while left > 0:
                f.write(chunk[:min(left, len(chunk))])
                left -= len(chunk)
        recipe["raw_output"] = "existing file filled with 0x77"
    runs = [("-r", [T("misc/e2image"), "-r", base, outs["raw"]]), ("-Q", [T("misc/e2image"), "-Q", base, outs["qcow"]]),
            ("-ra", [T("misc/e2image"), "-ra", base, outs["rawall"]]), ("normal", [T("misc/e2image"), base, outs["e2i"]])]
    for label, cmd in runs:
        rc, out, ev = e2v.traced(cmd, base, base + ".trace%d" % idx, env=env, timeout=600)
        if rc != 0:
            problems.append("e2image %s exits %d: %s" % (label, rc, out[-200:]))
        if any(e[0] in ("W", "T", "A") for e in ev) or any(e[0] == "O" and e[1] & 3 for e in ev):
            problems.append("e2image %s wrote to / opened for writing its source" % label)
    if os.path.exists(base + ".trace%d" % idx):
        os.unlink(base + ".trace%d" % idx)
    if hashlib.sha256(open(base, "rb").read()).hexdigest() != before:
        problems.append("the source changed")
    if problems:
        return recipe, problems, stat
    src_d = fs.d
    raw = open(outs["raw"], "rb").read()
    bs = fs.bs
    # ---- raw image
    missing = [b for b in sorted(need) if raw[b * bs:(b + 1) * bs] != src_d[b * bs:(b + 1) * bs]]
    if missing:
        problems.append("raw image: %d metadata blocks differ from the source, first %s" % (len(missing), missing[:6]))
    rc, out = e2v.sh([T("e2fsck/e2fsck"), "-fn", outs["raw"]], env=env, timeout=600)
    if rc != 0:
        problems.append("e2fsck -fn on the raw image exits %d: %s" % (rc, out[-200:].replace("\n", " | ")))
    d1 = e2v.sh([T("misc/dumpe2fs"), base], env=env, timeout=300)[1].split("\n", 1)[-1]
    d2 = e2v.sh([T("misc/dumpe2fs"), outs["raw"]], env=env, timeout=300)[1].split("\n", 1)[-1]
    if d1 != d2:
        problems.append("dumpe2fs of the raw image differs from the source")
    # ---- qcow2 image: independent decoding, structure, model indices
    try:
        q = Qcow(outs["qcow"])
        stat["qcow_mapped"] = len(q.map)
        problems += ["qcow2: " + p for p in q.problems[:4]]
        if q.cb != bs.bit_length() - 1 or q.size != fs.blocks_count * bs:
            problems.append("qcow2 header: cluster bits %d size %d for block size %d x %d blocks" % (q.cb, q.size, bs, fs.blocks_count))
        bad = [b for b in sorted(need) if q.block(b) != src_d[b * bs:(b + 1) * bs] and src_d[b * bs:(b + 1) * bs] != bytes(bs)]
        if bad:
            problems.append("qcow2 image: %d non-zero metadata blocks missing or different, first %s" % (len(bad), bad[:6]))
        sample = r.sample(sorted(q.map), min(400, len(q.map)))
        lines = ["I %d %d %d" % (q.cb, b, q.map[b][0]) for b in sample]
        mo = subprocess.run([mexe], input=("\n".join(lines) + "\n").encode(), stdout=subprocess.PIPE, timeout=120).stdout.decode().split("\n")
        per = q.cs // 2
        for b, o in zip(sample, mo):
            l1, l2, ti, e = [int(x) for x in o.split()]
            c = q.map[b][0] >> q.cb
            if (l1, l2) != q.map[b][1:] or (ti, e) != (c // per, c % per):
                problems.append("qcow2: block %d found at L1 %d L2 %d refcount (%d,%d); model says %s" % (b, q.map[b][1], q.map[b][2], c // per, c % per, o))
                break
        stat["index_samples"] = len(sample)
        # ---- the writer's table cache: the L1 table and every L2 table of the real file vs the extracted write_all
        if q.map and not q.problems:
            obs_l1, obs_tab = {}, {}
            for l1 in range(q.l1_size):
                off = struct.unpack_from(">Q", q.d, q.l1_off + 8 * l1)[0] & q.MASK
                if off:
                    obs_l1[l1] = off
                    obs_tab[off] = {l2: struct.unpack_from(">Q", q.d, off + 8 * l2)[0] & q.MASK for l2 in range(q.l2n)
                                    if struct.unpack_from(">Q", q.d, off + 8 * l2)[0] & q.MASK}
            items = " ".join("%d:%d:%d" % (b, q.map[b][0], q.map[b][0] + q.cs) for b in sorted(q.map))
            first = obs_l1[min(obs_l1)]
            cap = min(512, q.l1_size)
            mo2 = subprocess.run([mexe], input=("WR %d %d %d %s\n" % (q.l2n, cap, first, items)).encode(), stdout=subprocess.PIPE, timeout=600,
                                 preexec_fn=_big_stack).stdout.decode().split("\n")
            m_l1, m_tab = None, {}
            for ln in mo2:
                w = ln.split()
                if w[:1] == ["L1"]:
                    m_l1 = {int(x.split(":")[0]): int(x.split(":")[1]) for x in w[1:]}
                elif w[:1] == ["T"]:
                    m_tab[int(w[1])] = {int(x.split(":")[0]): int(x.split(":")[1]) for x in w[2:]}
            stat["writer_tables"] = len(obs_tab)
            if m_l1 != obs_l1:
                dk = sorted(k for k in set(m_l1 or {}) | set(obs_l1) if (m_l1 or {}).get(k) != obs_l1.get(k))
                problems.append("qcow2 writer: L1 table differs from the model at indices %s (file %s, model %s)" % (dk[:4], [obs_l1.get(k) for k in dk[:4]], [(m_l1 or {}).get(k) for k in dk[:4]]))
            elif m_tab != obs_tab:
                dk = sorted(k for k in set(m_tab) | set(obs_tab) if m_tab.get(k) != obs_tab.get(k))
                o0 = dk[0]
                de = sorted(k for k in set(m_tab.get(o0, {})) | set(obs_tab.get(o0, {})) if m_tab.get(o0, {}).get(k) != obs_tab.get(o0, {}).get(k))
                problems.append("qcow2 writer: %d L2 tables differ from the model, first the table at %d, entries %s (file %s, model %s)" % (
                    len(dk), o0, de[:4], [obs_tab.get(o0, {}).get(k) for k in de[:4]], [m_tab.get(o0, {}).get(k) for k in de[:4]]))
    except (FormatError, struct.error, IndexError) as ex:
        problems.append("qcow2 image unreadable: %s" % ex)
    # ---- qcow2 -> raw through e2image's own reader equals the direct raw image
    rc, out = e2v.sh([T("misc/e2image"), "-r", outs["qcow"], outs["raw2"]], env=env, timeout=600)
    if rc != 0:
        problems.append("e2image -r from the qcow2 image exits %d: %s" % (rc, out[-200:]))
    else:
        raw2 = open(outs["raw2"], "rb").read()
        n = max(len(raw), len(raw2))
        if recipe.get("raw_output"):
            # the direct raw image was written over other data: compare what an image has to carry
            if any(raw[b * bs:(b + 1) * bs] != raw2[b * bs:(b + 1) * bs].ljust(bs, b"\0") for b in need):
                problems.append("raw image made from the qcow2 image differs from the direct raw image in a metadata block")
        elif raw.ljust(n, b"\0") != raw2.ljust(n, b"\0"):
            problems.append("raw image made from the qcow2 image differs from the direct raw image")
        if len(raw) != fs.blocks_count * bs or len(raw2) != fs.blocks_count * bs:
            problems.append("raw images are %d / %d bytes, the filesystem %d" % (len(raw), len(raw2), fs.blocks_count * bs))
    # ---- -ra: everything in use
    rawall = open(outs["rawall"], "rb").read()
    try:
        if tree(Fs(outs["rawall"])) != tree(fs):
            problems.append("-ra image: files differ from the source")
    except FormatError as ex:
        problems.append("-ra image unreadable: %s" % ex)
    for p in outs.values():
        if os.path.exists(p):
            os.unlink(p)
    return recipe, problems, stat


def run(res, replay=None):
    tier, seed = res.tier, res.seed
    os.makedirs(WORK, exist_ok=True)
    src = e2v.ensure_build()
    e2v.build_iotrace()
    pr = e2v.coq_property("C19")
    res.add_proof(pr)
    mexe = e2v.build_driver("qcow", ["theories/Qcow2/QcowIndex.vo", "theories/Qcow2/QcowWriter.vo"], ["qcow_model"])
    res.cov["trusted_base"] = e2v.TRUSTED_COMMON + [
        "props/c19.py Qcow: the check's own reader of the qcow2 format (header, L1/L2 tables, refcount table and blocks)",
        "props/c19.py metadata_blocks + lib/extfmt.py: which blocks count as metadata (fixed tables, directory, extent, indirect, xattr, symlink, journal and special-inode blocks)",
        "harness/iotrace.c: the source is only opened read-only and never written",
    ]
    res.cov["partial"] = ["proved: the index arithmetic of the qcow2 map and refcounts and the disjointness of sequentially assigned data clusters; the writer's table/refcount-block allocation and e2image's own block discovery are validated per image by the independent decoder, not modelled",
                          "-I (install image), -b/-B (superblock options) and bigalloc/inline_data sources are outside the campaign"]
    n = 7 if tier == "quick" else 245
    nfull = 2 if tier == "quick" else 12
    idxs = [json.load(open(replay))["recipe"]["case_index"]] if replay else list(range(n)) + [100000 + i for i in range(nfull)] + [200000 + i for i in range(2 if tier == "quick" else 8)] + [300000]
    with concurrent.futures.ThreadPoolExecutor(6) as ex:
        outs = list(ex.map(lambda i: one_case(src, mexe, i, seed, tier), idxs))
    bad = []
    tot = {"metadata_blocks": 0, "qcow_mapped": 0, "index_samples": 0, "writer_tables": 0, "trailing_hole_exact": 0}
    for recipe, problems, stat in outs:
        res.case(json.dumps(recipe), True)
        for k in tot:
            tot[k] += stat.get(k, 0)
        if len(res.cov["samples"]) < 2:
            res.sample(dict(recipe, **stat))
        if problems:
            bad.append((recipe, problems))
    res.cov["correspondence"] = dict(tot, mismatches=sum(1 for rcp, p in bad if any("model says" in x for x in p)),
                                     compared="L1/L2 position and refcount position of sampled mapped blocks in the real qcow2 file vs the extracted l1_of/l2_of/rc_table_index/rc_entry")
    res.cov["oracle"] = {"evaluations": len(outs) * 5, "failures": len(bad),
                         "statement": "raw, qcow2 and -ra images carry every metadata block of the source byte for byte; the qcow2 file decodes without overlap, every used cluster with refcount 1; qcow2->raw equals the direct raw image; e2fsck -fn and dumpe2fs agree on image and source; -ra keeps every file; the source is opened read-only and unchanged"}
    res.cov["rule"] = "6 feature sets (1k/2k/4k blocks, meta_bg, quota, ext2/3/4) x 2 populations x fill levels; sizes crossing many L2 tables and refcount blocks; non-trivial: every case"
    res.cov["correspondence"]["writer_compared"] = "the L1 table and every L2 table (offset and all non-zero entries) of each real qcow2 file vs the extracted write_all run on the file's own (block, data offset, data offset + cluster) list with the cache capacity min(512, l1_size)"
    res.add_obligation("index model = positions in the real qcow2 files", not any("model says" in x for rcp, p in bad for x in p))
    res.add_obligation("writer model (L2 table cache) = L1 and L2 tables of the real qcow2 files", not any("qcow2 writer:" in x for rcp, p in bad for x in p))
    for recipe, problems in bad[:3]:
        res.violation("oracle", {"recipe": recipe, "problems": problems[:6]}, signature="c19:" + hashlib.sha256(json.dumps(recipe).encode()).hexdigest()[:12])
    if not pr["ok"] and not bad:
        res.violation("proof", {"theorem_file": "coq/theories/Properties_C19.v", "failed_at": pr["failed_at"],
                                "forbidden": pr["forbidden"], "log_tail": pr["log_tail"][-1500:]}, has_input=False)

# C15 - extended attributes read back exactly as set
import json, os, re, struct, subprocess, hashlib, shutil, concurrent.futures
import corrupt, e2v, extfmt
from extfmt import *

WORK = os.path.join(e2v.SCRATCH, "c15")
CONFIGS = [
    ("i256_1k", ["-t", "ext4", "-b", "1024", "-I", "256"]),
    ("i128_1k", ["-t", "ext4", "-b", "1024", "-I", "128", "-O", "^metadata_csum,^64bit"]),
    ("i512_4k", ["-t", "ext4", "-b", "4096", "-I", "512"]),
    ("i256_ea_inode", ["-t", "ext4", "-b", "1024", "-I", "256", "-O", "ea_inode"]),
    ("i1024_2k_nocsum", ["-t", "ext4", "-b", "2048", "-I", "1024", "-O", "^metadata_csum"]),
    ("ext2_i256", ["-t", "ext2", "-b", "1024", "-I", "256"]),
    ("i256_4k_ea_inode", ["-t", "ext4", "-b", "4096", "-I", "256", "-O", "ea_inode"]),
    ("i128_4k_ea_inode", ["-t", "ext4", "-b", "4096", "-I", "128", "-O", "ea_inode,^metadata_csum"]),
]
PREFIXES = ["user.", "user.", "trusted.", "security.", "system.foo_"]


def setup(src):
    e2v.build_driver("xattr", ["theories/Xattr/XattrPack.vo", "theories/Xattr/XattrSort.vo", "theories/Xattr/XattrSet.vo"], ["xattr_model"])


def layout(fs, ino):
    """on-disk layout of both storage areas: [(area, storage size, [(entry offset, value offset, name len, value len, ea_ino)])]"""
    inode = fs.inode(ino)
    raw = inode["raw"]
    out = []
    if fs.inode_size > 128:
        base = 128 + inode["extra_isize"]
        if base + 4 <= fs.inode_size and struct.unpack_from("<I", raw, base)[0] == 0xEA020000:
            ents = []
            o = base + 4
            while o + 4 <= fs.inode_size and struct.unpack_from("<I", raw, o)[0]:
                nl, idx, voff, vino, vsize, h = struct.unpack_from("<BBHIII", raw, o)
                ents.append((o - (base + 4), voff, nl, vsize, 1 if vino else 0))
                o += (16 + nl + 3) & ~3
            out.append(("ibody", fs.inode_size - base - 4, ents))
    if inode["file_acl"]:
        blk = fs.block(inode["file_acl"])
        ents = []
        o = 32
        while o + 4 <= fs.bs and struct.unpack_from("<I", blk, o)[0]:
            nl, idx, voff, vino, vsize, h = struct.unpack_from("<BBHIII", blk, o)
            ents.append((o - 32, voff - 32 if not vino else 0, nl, vsize, 1 if vino else 0))
            o += (16 + nl + 3) & ~3
        out.append(("block", fs.bs - 32, ents))
    return out


def block_keys(fs, ino):
    """(name index, name bytes) of the entries of the attribute block, in on-disk order, as model keys"""
    inode = fs.inode(ino)
    out = []
    if inode["file_acl"]:
        blk = fs.block(inode["file_acl"])
        o = 32
        while o + 4 <= fs.bs and struct.unpack_from("<I", blk, o)[0]:
            nl, idx = struct.unpack_from("<BB", blk, o)
            out.append("%d:%s" % (idx, blk[o + 16:o + 16 + nl].hex()))
            o += (16 + nl + 3) & ~3
    return out


def _vid(fs, val):
    """identity of a value's bytes (the model compares identities, not bytes)"""
    if isinstance(val, tuple):
        try:
            val = fs.file_data(val[1])[:val[2]]
        except Exception:
            val = repr(val).encode()
    return int.from_bytes(hashlib.sha256(val).digest()[:6], "big")


def areas(fs, ino):
    """the attribute array as the library rebuilds it: (in-inode attrs, block attrs), each 'index:hexname:vid:vlen:ea' in on-disk order"""
    inode = fs.inode(ino)
    raw = inode["raw"]
    ibl, bll = [], []
    fmt = lambda idx, name, val: "%d:%s:%d:%d:%d" % (idx, name.hex(), _vid(fs, val), val[2] if isinstance(val, tuple) else len(val), 1 if isinstance(val, tuple) else 0)
    if fs.inode_size > 128:
        base = 128 + inode["extra_isize"]
        if base + 4 <= fs.inode_size and struct.unpack_from("<I", raw, base)[0] == 0xEA020000:
            ibl = [fmt(idx, name, val) for idx, name, val, h, o in extfmt._xattr_entries(raw, base + 4, base + 4, fs.inode_size)]
    if inode["file_acl"]:
        bll = [fmt(idx, name, val) for idx, name, val, h, o in extfmt._xattr_entries(fs.block(inode["file_acl"]), 32, 0, fs.bs)]
    return ibl, bll


NAME_INDEX = {"user.": 1, "trusted.": 4, "security.": 6, "system.": 7}


def model_key(full):
    for p, i in NAME_INDEX.items():
        if full.startswith(p):
            return "%d:%s" % (i, full[len(p):].encode("latin1").hex())
    return "0:" + full.encode("latin1").hex()


def model(mexe, line):
    return subprocess.run([mexe], input=(line + "\n").encode(), stdout=subprocess.PIPE, timeout=60).stdout.decode().strip()


def one_case(src, mexe, idx, seed, tier):
    r = e2v.rng(seed, "c15", idx)
    name, opts = CONFIGS[idx % len(CONFIGS)]
    img = os.path.join(WORK, "x_%d.img" % idx)
    env = e2v.tool_env(src)
    T = lambda p: os.path.join(src, p)
    if os.path.exists(img):
        os.unlink(img)
    rc, out = e2v.sh([T("misc/mke2fs"), "-q", "-F"] + opts + [img, "8M"], env=env, timeout=120)
    if rc != 0:
        return {"config": name}, ["mke2fs failed"], {}
    e2v.sh([T("debugfs/debugfs"), "-w", "-f", "-", img], input=b"write /etc/hostname f\nmkdir d\nwrite /etc/hostname g\nsymlink s /tmp/x\n", env=env, timeout=60)
    fs = Fs(img)
    bs, isz = fs.bs, fs.inode_size
    targets = ["f", "d", "g"]
    spec = {t: {} for t in targets}
    ops, problems = [], []
    vfile = os.path.join(WORK, "val_%d" % idx)
    names_pool = [r.choice(PREFIXES) + r.choice(["a", "bb", "ccc", "dddd", "k" * r.choice([5, 17, 40, 200]), "n%d" % i]) for i in range(10)]
    # names of one length in one namespace: their order in the block is decided by the bytes alone
    names_pool += ["user." + x for x in r.sample(["aaa", "ccc", "bbb", "zzz", "mmm", "aab", "Azz", "a~a"], 5)]
    corr_rows, corr_bad = 0, []
    order_rows, order_bad = 0, []
    set_rows, set_bad = 0, []
    bkeys = {t: [] for t in targets}
    nops = r.randint(8, 30 if tier == "quick" else 60)
    share_at = nops // 2 if r.random() < 0.6 and "ea_inode" not in name else -1
    scripted = []
    if (idx // len(CONFIGS)) % 2 == 1 and isz > 128:
        sh, lg = r.choice([("zz", "bbbbbb"), ("bb", "dddd"), ("q", "aaaaaa"), ("mm", "mmm")])
        pre = r.choice(["user.", "trusted.", "security."])
        scripted = [("f", pre + sh, 8), ("f", pre + lg, 200), ("f", pre + sh, 300), ("g", pre + lg, 4), ("g", pre + sh, 250), ("g", pre + lg, 260)]
        nops = max(nops, len(scripted) + 4)
        share_at = -1 if share_at < len(scripted) else share_at
    for k in range(nops):
        if k == share_at:
            # two inodes share one attribute block (reference count 2), as the kernel arranges for identical attribute sets:
            # what the library then does to one of them (copy on write, charging, reference counts) must leave the other alone
            try:
                fs = Fs(img)
                rootd = {e[0]: e[1] for e in fs.dir_entries(2)}
                inos = {t_: rootd[t_.encode()] for t_ in targets}
                have = [t_ for t_ in targets if fs.inode(inos[t_])["file_acl"]]
                free = [t_ for t_ in targets if not fs.inode(inos[t_])["file_acl"]]
                if have and free:
                    s_t, d_t = r.choice(have), r.choice(free)
                    blk_ = fs.inode(inos[s_t])["file_acl"]
                    d_ = bytearray(fs.d)
                    rc_ = struct.unpack_from("<I", d_, blk_ * fs.bs + 4)[0]
                    struct.pack_into("<I", d_, blk_ * fs.bs + 4, rc_ + 1)
                    loc_ = fs.inode_loc(inos[d_t])
                    struct.pack_into("<I", d_, loc_ + 104, blk_)
                    struct.pack_into("<I", d_, loc_ + 28, struct.unpack_from("<I", d_, loc_ + 28)[0] + fs.bs // 512)
                    corrupt.fix_inode_csum(fs, d_, inos[d_t])
                    corrupt.fix_xattr_block_csum(fs, d_, blk_)
                    tmp_ = img + ".share"
                    open(tmp_, "wb").write(d_)
                    rcs_, _ = e2v.sh([T("e2fsck/e2fsck"), "-fn", tmp_], env=env, timeout=120)
                    f2_ = Fs(tmp_)
                    merged = xattrs(f2_, inos[d_t])
                    merged.pop("system.data", None)
                    dup_ = set(spec[d_t]) & set(spec[s_t])
                    if rcs_ == 0 and not dup_:
                        os.replace(tmp_, img)
                        spec[d_t] = merged
                        ops.append("(image edit) %s now shares the attribute block %d of %s, reference count %d" % (d_t, blk_, s_t, rc_ + 1))
                        fs = Fs(img)
                    else:
                        os.unlink(tmp_)
            except (FormatError, struct.error, KeyError, IndexError):
                pass
        t = r.choice(targets)
        kind = r.random()
        nm = r.choice(names_pool)
        before = dict(spec[t])
        if kind < 0.62 and before and r.random() < 0.45:
            nm = r.choice(sorted(before))      # replace an existing attribute by one of another size class
        forced_ln = None
        if scripted:
            # an attribute grows out of the inode body into a block that already holds a name up to five bytes longer
            t, nm, forced_ln = scripted.pop(0)
            kind = 0.0
            before = dict(spec[t])
        if kind < 0.62:
            ln = r.choice([0, 1, 3, 4, 5, 16, 60, 61, 100, isz - 128 - 32 - 40, isz - 128 - 32 - 20, 300, bs // 2, bs - 80, bs - 52, bs - 36, bs + 100, 5000, 70000]) if r.random() < 0.8 else r.randint(0, 400)
            if forced_ln is not None:
                ln = forced_ln
            ln = min(max(0, ln), bs)          # debugfs ea_set -f reads at most one block of the value file
            val = r.randbytes(ln)
            open(vfile, "wb").write(val)
            cmd = "ea_set -f %s %s %s" % (vfile, t, nm)
            want = dict(before)
            want[nm] = val
        elif kind < 0.85:
            cmd = "ea_rm %s %s" % (t, nm)
            want = dict(before)
            want.pop(nm, None)
        else:
            # read back through the library as well
            rc, out = e2v.sh([T("debugfs/debugfs"), "-R", "ea_get -f %s.out %s %s" % (vfile, t, nm), img], env=env, timeout=60)
            got = open(vfile + ".out", "rb").read() if os.path.exists(vfile + ".out") else None
            if os.path.exists(vfile + ".out"):
                os.unlink(vfile + ".out")
            if nm in before and got != before[nm]:
                problems.append("op %d: ea_get %s %s returns %s bytes, the attribute has %d" % (k, t, nm, None if got is None else len(got), len(before[nm])))
            ops.append("ea_get %s %s" % (t, nm))
            continue
        try:
            ino_t = {e[0]: e[1] for e in fs.dir_entries(2)}[t.encode()]
            st_before = areas(fs, ino_t)
            ino_b = fs.inode(ino_t)
            extra_b = ino_b["extra_isize"] or struct.unpack_from("<H", fs.d, fs.off + 1024 + 0x15E)[0] or 4
        except Exception:
            st_before = None
        rc, out = e2v.sh([T("debugfs/debugfs"), "-w", "-R", cmd, img], env=env, timeout=60)
        err = "\n".join(l for l in out.split("\n")[1:] if l.strip())
        ops.append(cmd.replace(vfile, "<%d bytes>" % (len(val) if cmd.startswith("ea_set") else 0)))
        fs = Fs(img)
        try:
            ino = {e[0]: e[1] for e in fs.dir_entries(2)}[t.encode()]
            now = xattrs(fs, ino)
            now.pop("system.data", None)
        except (FormatError, struct.error, KeyError) as ex:
            problems.append("op %d (%s): attributes unreadable afterwards: %s" % (k, ops[-1], ex))
            break
        if now == want:
            spec[t] = want
        elif now == before and err:
            spec[t] = before                # refused with a message: nothing changed
        else:
            diff = sorted(set(now) ^ set(want) | {n for n in set(now) & set(want) if now[n] != want[n]})
            problems.append("op %d (%s): attributes of %s are neither the expected set nor unchanged-with-error: differing %s (error output: %s)" % (
                k, ops[-1], t, diff[:4], err[:80]))
            break
        # every other file keeps its attributes
        for o in targets:
            if o != t:
                oi = {e[0]: e[1] for e in fs.dir_entries(2)}[o.encode()]
                ox = xattrs(fs, oi)
                ox.pop("system.data", None)
                if ox != spec[o]:
                    problems.append("op %d (%s) changed the attributes of %s" % (k, ops[-1], o))
        # layout of the touched inode vs the packing model
        for area, size, ents in layout(fs, ino):
            if not ents:
                continue
            line = "P %d %s" % (size, " ".join("%d:%d:%d" % (e[2], e[3], e[4]) for e in ents))
            mo = subprocess.run([mexe], input=(line + "\n").encode(), stdout=subprocess.PIPE, timeout=60).stdout.decode().strip()
            corr_rows += 1
            m = re.match(r"F(\d) \| (.*) \| (\d+) (\d+)", mo)
            pred = [tuple(int(x) for x in p.split(":")) for p in m.group(2).split()] if m else []
            obs = [(e[0], e[1] if not e[4] else 0, ((e[3] + 3) // 4 * 4) if not e[4] else 0) for e in ents]
            if not m or m.group(1) != "1" or [(p[0], p[1]) for p in pred] != [(o_[0], o_[1]) for o_ in obs]:
                corr_bad.append({"area": area, "storage": size, "entries(name len,value len,ea_inode)": [e[2:] for e in ents],
                                 "observed(entry off,value off)": [(o_[0], o_[1]) for o_ in obs], "model": mo})
        # the handle state machine: which area every attribute is in, and in which order
        if st_before is not None and "system.data" not in xattrs(fs, ino):
            icap = (isz - 128 - extra_b - 8) if isz > 128 else 0
            has_ea = 1 if "ea_inode" in " ".join(opts) else 0
            opline = ("S %s %d %d" % (model_key(nm), _vid(fs, val), len(val))) if cmd.startswith("ea_set") else "R %s" % model_key(nm)
            line = "X %d %d %d %d | %s | %s | %s" % (max(icap, 0), bs - 36, has_ea, bs - 56, " ".join(st_before[0]), " ".join(st_before[1]), opline)
            mo = model(mexe, line)
            st_after = areas(fs, ino)
            set_rows += 1
            if mo == "NOSPACE":
                if not (err and st_after == st_before):
                    set_bad.append({"op": ops[-1], "before": st_before, "after": st_after, "model": "EXT2_ET_EA_NO_SPACE, nothing changes", "tool output": err[:120]})
            else:
                mm = [x.strip().split() for x in mo.split("|")[1:]] if mo.startswith("OK") else None
                if mm is None or len(mm) != 2 or (mm[0], mm[1]) != (st_after[0], st_after[1]):
                    set_bad.append({"op": ops[-1], "before (in-inode, block)": st_before, "after": st_after, "model": mo, "tool output": err[:120]})
        # order of the block entries vs the sorted-insertion model
        keys = block_keys(fs, ino)
        order_rows += 1
        if keys:
            if model(mexe, "S " + " ".join(keys)) != "S1":
                order_bad.append({"op": ops[-1], "block entries (index:name hex) on disk": keys, "model": "sortedb = false"})
            else:
                lost = [k_ for k_ in keys if model(mexe, "L %s %s" % (k_, " ".join(keys))) != "L1"]
                if lost:
                    order_bad.append({"op": ops[-1], "block entries": keys, "not found by the sorted lookup": lost})
            new = [k_ for k_ in keys if k_ not in bkeys[t]]
            if len(new) == 1 and len(keys) == len(bkeys[t]) + 1:
                pred = model(mexe, "I %s %s" % (new[0], " ".join(bkeys[t]))).split()
                order_rows += 1
                if pred != keys:
                    order_bad.append({"op": ops[-1], "block entries before": bkeys[t], "after": keys, "model insert_key": pred})
        bkeys[t] = keys
        if problems or order_bad or set_bad:
            break
    recipe = {"config": name, "mke2fs": opts, "ops": ops, "case_index": idx}
    rc, out = e2v.sh([T("e2fsck/e2fsck"), "-fn", img], env=env, timeout=300)
    if rc != 0 and not problems:
        plines = [l for l in out.split("\n") if re.search(r"\?\s*no\s*$", l) or "should be" in l or "differences" in l]
        plines = [l for l in plines if not re.match(r"^(Fix|Clear|Relocate|Recreate|Connect)", l)]
        only_iblocks = bool(plines) and all(re.match(r"Inode \d+, i_blocks is \d+, should be \d+", l) for l in plines)
        problems.append("e2fsck -fn exits %d after the sequence%s: %s" % (rc, " (only i_blocks of inodes owning EA inodes)" if only_iblocks else "", " | ".join(plines)[:300]))
    for p in (img, vfile):
        if os.path.exists(p):
            os.unlink(p)
    return recipe, problems, {"rows": corr_rows, "corr_bad": corr_bad, "nops": len(ops), "order_rows": order_rows, "order_bad": order_bad, "set_rows": set_rows, "set_bad": set_bad}


def run(res, replay=None):
    tier, seed = res.tier, res.seed
    os.makedirs(WORK, exist_ok=True)
    src = e2v.ensure_build()
    pr = e2v.coq_property("C15")
    res.add_proof(pr)
    mexe = e2v.build_driver("xattr", ["theories/Xattr/XattrPack.vo", "theories/Xattr/XattrSort.vo", "theories/Xattr/XattrSet.vo"], ["xattr_model"])
    res.cov["trusted_base"] = e2v.TRUSTED_COMMON + [
        "lib/extfmt.py xattrs(): the check's own decoder of in-inode and block attribute storage (and EA inodes)",
        "debugfs ea_set/ea_rm/ea_get are the front end to ext2fs_xattr_set/remove/get; the reference is a Python dict per file",
    ]
    res.cov["partial"] = ["proved: the packing of an attribute list into a storage area (no write outside it, entries never meet values, values pairwise disjoint) whenever the library's space estimate says it fits; the array update logic, hashing, sorting, block sharing/refcounts and EA-inode bookkeeping are validated per operation against the dict reference and by e2fsck, not modelled",
                          "POSIX-ACL value conversion and kernel-written layouts are outside the campaign"]
    n = 16 if tier == "quick" else 1600
    idxs = [json.load(open(replay))["recipe"]["case_index"]] if replay else list(range(n))
    with concurrent.futures.ThreadPoolExecutor(12) as ex:
        outs = list(ex.map(lambda i: one_case(src, mexe, i, seed, tier), idxs))
    bad, cbad, obad, sbad = [], [], [], []
    rows = ops = orows = srows = 0
    for recipe, problems, st in outs:
        res.case(json.dumps(recipe), st.get("nops", 0) >= 3)
        rows += st.get("rows", 0)
        ops += st.get("nops", 0)
        if len(res.cov["samples"]) < 2:
            res.sample({"config": recipe["config"], "ops": recipe.get("ops", [])[:8]})
        if problems:
            bad.append((recipe, problems))
        for c in st.get("corr_bad", [])[:1]:
            cbad.append((recipe, c))
        srows += st.get("set_rows", 0)
        for c in st.get("set_bad", [])[:1]:
            sbad.append((recipe, c))
        orows += st.get("order_rows", 0)
        for c in st.get("order_bad", [])[:1]:
            obad.append((recipe, c))
    res.cov["correspondence"] = {"storage_areas_compared": rows, "mismatches": len(cbad),
                                 "compared": "entry offsets and value offsets of every attribute in the inode body and in the attribute block after each operation vs the extracted place (and fits must hold)"}
    res.cov["oracle"] = {"evaluations": ops, "failures": len(bad),
                         "statement": "after every ea_set/ea_rm the decoded name->value map of the file equals the reference dict (or is unchanged when the tool reports an error), other files keep theirs, ea_get returns the stored bytes, e2fsck -fn exit 0 at the end"}
    res.cov["rule"] = "8 configurations (inode size 128..1024, block 1k..4k, ea_inode, with/without checksums); value lengths at the in-inode and block capacity boundaries, 0, >block, 70000; name lengths 1..200; prefixes user/trusted/security/system; non-trivial = at least 3 operations"
    res.cov["correspondence"]["block_order_rows"] = orows
    res.cov["correspondence"]["block_order_mismatches"] = len(obad)
    res.cov["correspondence"]["block_order_compared"] = "the entries of the attribute block after every operation: extracted sortedb must hold, the extracted kernel-style sorted_lookup must find every stored name, and when exactly one name joined the block the new order equals the extracted insert_key"
    res.add_obligation("packing model = on-disk layout after every operation", not cbad)
    res.add_obligation("attribute block sorted as the insertion model says after every operation", not obad)
    res.cov["correspondence"]["handle_steps"] = srows
    res.cov["correspondence"]["handle_mismatches"] = len(sbad)
    res.cov["correspondence"]["handle_compared"] = "for every ea_set/ea_rm: the attribute array decoded before the operation, pushed through the extracted xset/xremove, must equal the array decoded afterwards (which attributes are in the inode, which in the block, their order, value identity, value length, EA-inode flag), and the model refuses (EXT2_ET_EA_NO_SPACE) exactly when the tool does"
    res.add_obligation("handle model (xset/xremove) = decoded attribute array after every operation", not sbad)

    def sig(recipe, problems):
        if all("(only i_blocks of inodes owning EA inodes)" in p for p in problems) and "ea_inode" in recipe["config"]:
            return "c15:ea-inode-blocks-not-charged"
        return "c15:" + hashlib.sha256(json.dumps(recipe.get("ops", [])).encode()).hexdigest()[:12]
    bad.sort(key=lambda b: 1 if sig(*b).startswith("c15:ea-") else 0)
    for recipe, problems in bad[:3]:
        res.violation("oracle", {"recipe": recipe, "problems": problems[:5]}, signature=sig(recipe, problems))
    for recipe, c in obad[:2]:
        res.violation("oracle", {"recipe": recipe, "block_order": c, "problems": ["the attribute block is not in (index, name length, name) order: a reader using the sorted lookup (the kernel) does not find attributes that were set"]},
                      signature="c15:order:" + hashlib.sha256(json.dumps(recipe.get("ops", [])).encode()).hexdigest()[:12])
    for recipe, c in sbad[:2]:
        res.violation("correspondence", {"recipe": recipe, "handle_step": c, "note": "the placement decision of ext2fs_xattr_set / xattr_array_update differs from the model (theorems xset_refines_map, xset_keeps_invariant are about the model)"},
                      has_input=True, signature="c15:set:" + hashlib.sha256(json.dumps(recipe.get("ops", [])).encode()).hexdigest()[:12])
    for recipe, c in cbad[:1]:
        if not bad:
            res.violation("correspondence", {"recipe": recipe, "layout": c, "note": "the packing of the attribute area differs from the model; the decoded attributes still match the reference"}, has_input=False)
    if not pr["ok"] and not bad and not cbad and not obad and not sbad:
        res.violation("proof", {"theorem_file": "coq/theories/Properties_C15.v", "failed_at": pr["failed_at"],
                                "forbidden": pr["forbidden"], "log_tail": pr["log_tail"][-1500:]}, has_input=False)

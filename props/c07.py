# C07 - mke2fs produces a consistent filesystem for every accepted configuration
import json, os, re, struct, subprocess, hashlib, shutil, resource, concurrent.futures
import e2v, extfmt
from extfmt import *
from props import c02, c20

WORK = os.path.join(e2v.SCRATCH, "c07")


def setup(src):
    e2v.build_harness("h_init", src)
    e2v.build_driver("initgeom", ["theories/Geometry/InitGeom.vo"], ["initgeom_model"])
    e2v.build_driver("layout", ["theories/Layout/Layout.vo", "theories/Layout/BackupBgs.vo"], ["layout_model"])
    e2v.build_iotrace()


def gen_lines(r, n, f):
    lines = []
    for i in range(n):
        lbs = r.choice([0, 0, 1, 2, 2, 6])
        bs = 1024 << lbs
        isz = min(r.choice([128, 256, 256, 512, 1024]), bs)
        bpg = 0 if r.random() < 0.6 else r.choice([256, 512, 1024, 8192, bs * 8, 264, 4096])
        bpg = min(bpg, bs * 8)
        ebpg = bpg or min(bs * 8, 65528)
        k = r.random()
        if k < 0.08:
            blocks = r.randint(10, ebpg)
        else:
            G = r.randint(1, 3) if k < 0.25 else r.randint(1, 40) if k < 0.7 else r.randint(40, 3000) if k < 0.97 else r.randint(3000, 200000)
            blocks = G * ebpg + r.choice([0, 1, 2, r.randint(0, ebpg - 1), 50, 100, 300, ebpg - 1])
        blocks = min(max(blocks, 10), (1 << 32) - 1)
        b64 = 1 if r.random() < 0.4 else 0
        inodes = 0 if r.random() < 0.3 else max(1, int(blocks * bs / r.choice([1024, 4096, 16384, 65536, 1 << 20, 4 << 20])))
        inodes = min(inodes, (1 << 32) - 1)
        sp = r.randint(0, 1)
        sp2 = 1 if r.random() < 0.2 else 0
        rsz = r.randint(0, 1)
        mb = 1 if r.random() < 0.2 else 0
        if mb:
            rsz = 0
        rsv = 0 if r.random() < 0.8 else r.randint(1, bs // 4 + 3)
        lines.append("I %s %d %d %d %d %d %d %d %d %d %d %d %d %d" % (f, blocks, lbs, isz, inodes, bpg, sp, sp2, r.randint(0, 5), r.randint(0, 300), rsz, mb, b64, rsv))
    return lines


def _lim():
    resource.setrlimit(resource.RLIMIT_AS, (6 << 30, 6 << 30))


def run_lines(exe, text, lim=False):
    p = subprocess.run([exe], input=text.encode(), stdout=subprocess.PIPE, stderr=subprocess.DEVNULL, timeout=1800, preexec_fn=_lim if lim else None)
    return p.stdout.decode().split("\n")


FEATURE_MENU = [
    [], [], ["^has_journal"], ["^resize_inode"], ["meta_bg", "^resize_inode"], ["^64bit"], ["64bit"], ["^flex_bg"], ["sparse_super2"],
    ["^metadata_csum", "uninit_bg"], ["^metadata_csum"], ["quota"], ["quota", "project"], ["mmp"], ["^dir_index"], ["ea_inode"], ["large_dir"],
    ["metadata_csum_seed"], ["^orphan_file"], ["^huge_file"], ["^extent", "^64bit"], ["bigalloc"], ["inline_data"], ["encrypt"], ["stable_inodes"],
    ["^sparse_super", "^resize_inode"], ["^ext_attr"], ["^filetype"], ["^large_file"], ["fast_commit"], ["^extent", "^64bit", "orphan_file"],
]
EXT_MENU = [[], [], ["stride=%d"], ["stride=%d", "stripe_width=%d"], ["resize=%d"], ["num_backup_sb=%d"], ["packed_meta_blocks=1"], ["lazy_itable_init=0"],
            ["lazy_journal_init=0"], ["root_owner=1234:4321"], ["nodiscard"], ["offset=%d"], ["assume_storage_prezeroed=1"], ["orphan_file_size=%d"]]


def host_tree():
    """a small host directory tree for -d (built once)"""
    d = os.path.join(WORK, "tree")
    if not os.path.exists(os.path.join(d, ".done2")):
        os.makedirs(os.path.join(d, "a/b/c"), exist_ok=True)
        rr = e2v.rng(1, "c07tree")
        for i in range(25):
            with open(os.path.join(d, "a", "f%02d" % i), "wb") as f:
                f.write(rr.randbytes(rr.choice([0, 10, 700, 5000, 70000])))
        with open(os.path.join(d, "a/b/sparse"), "wb") as f:
            f.seek(300000)
            f.write(b"end")
        if not os.path.lexists(os.path.join(d, "a/b/c/link")):
            os.symlink("../../f00", os.path.join(d, "a/b/c/link"))
            os.link(os.path.join(d, "a/f01"), os.path.join(d, "a/b/hard"))
        for nm, n in (("long80", 80), ("long59", 59), ("long60", 60), ("long200", 200)):
            if not os.path.lexists(os.path.join(d, "a", nm)):
                os.symlink("t" * n, os.path.join(d, "a", nm))      # 60 bytes and more do not fit i_block: inline data where enabled
        open(os.path.join(d, ".done2"), "w").close()
    if not _WARM:
        # access times of the source are inputs of mke2fs -d, and the kernel (relatime) moves them on the first read after a
        # change or after a day: read everything once before any two runs are compared
        for root, dirs, files in os.walk(d):
            os.listdir(root)
            for nm in files + dirs:
                p_ = os.path.join(root, nm)
                if os.path.islink(p_):
                    os.readlink(p_)
                elif os.path.isfile(p_):
                    with open(p_, "rb") as f:
                        f.read()
        _WARM.append(1)
    return d


_WARM = []


# combinations that random sampling reaches rarely; they run first
DIRECTED = [
    (["-t", "ext4", "-b", "1024", "-O", "sparse_super2,^64bit"], ["num_backup_sb=1"], 65536),
    (["-t", "ext4", "-b", "1024", "-O", "sparse_super2"], ["num_backup_sb=2"], 16384),
    (["-t", "ext4", "-b", "1024", "-O", "sparse_super2"], ["num_backup_sb=0"], 20000),
    (["-t", "ext4", "-b", "1024", "-O", "sparse_super2", "-g", "8192"], ["num_backup_sb=2"], 16385),          # two groups
    (["-t", "ext4", "-b", "4096", "-O", "sparse_super2"], ["num_backup_sb=1"], 300000),
    (["-t", "ext4", "-b", "4096", "-O", "bigalloc"], [], 262144),
    (["-t", "ext4", "-b", "1024", "-O", "bigalloc", "-C", "8192"], [], 65536),
    (["-t", "ext4", "-b", "1024", "-O", "meta_bg,^resize_inode"], [], 40000),
    (["-t", "ext4", "-b", "2048", "-O", "quota,project"], [], 30000),
    (["-t", "ext4", "-b", "4096"], ["resize=4000000"], 65536),
    (["-t", "ext2", "-b", "1024", "-r", "0"], [], 8192),
    (["-t", "ext4", "-b", "1024", "-O", "inline_data", "-I", "512"], [], 12000),
    (["-t", "ext4", "-b", "1024", "-O", "^has_journal,^orphan_file,uninit_bg,^metadata_csum"], ["lazy_itable_init=0"], 9000),
    (["-t", "ext4", "-b", "4096", "-O", "mmp"], [], 40000),
    (["-t", "ext3", "-b", "1024", "-J", "size=4"], [], 32768),
    (["-t", "ext4", "-b", "2048", "-G", "4", "-O", "flex_bg"], ["packed_meta_blocks=1"], 50000),
    # packed tables without flex grouping: the groups were already charged for tables of their own (thorough-tier finding, fixed)
    (["-t", "ext4", "-b", "1024", "-G", "1"], ["packed_meta_blocks=1"], 65536),
    (["-t", "ext4", "-b", "4096", "-G", "1", "-O", "^metadata_csum,uninit_bg"], ["packed_meta_blocks=1"], 224919),
    # two groups, one sparse_super2 backup in the short last group, a large reserved GDT: the tail-group trimming has to count it
    (["-t", "ext4", "-b", "1024", "-i", "16384", "-O", "sparse_super2"], ["resize=4294967295", "num_backup_sb=1"], 8320),
    (["-t", "ext4", "-b", "1024", "-i", "16384", "-O", "sparse_super2,^flex_bg"], ["resize=4294967295", "num_backup_sb=1"], 8400),
    # lazy inode-table initialisation over a device that holds an older filesystem of the same geometry
    (["-t", "ext4", "-b", "1024", "-O", "^has_journal,^orphan_file,uninit_bg,^metadata_csum"], ["lazy_itable_init=1", "nodiscard"], 16384, "prev"),
    (["-t", "ext4", "-b", "4096"], ["lazy_itable_init=1", "nodiscard"], 65536, "prev"),
    (["-t", "ext3", "-b", "1024", "-O", "uninit_bg"], ["lazy_itable_init=1", "nodiscard", "lazy_journal_init=1"], 32768, "prev"),
    # an orphan file mapped by block pointers (its indirect block counts in i_blocks); a journal with a fast-commit area (its inode
    # covers s_maxlen blocks)
    (["-t", "ext3", "-b", "1024", "-O", "orphan_file"], [], 16384),
    (["-t", "ext4", "-b", "1024", "-O", "^extent,^64bit"], [], 20000),
    (["-t", "ext4", "-b", "4096", "-O", "fast_commit"], [], 65536),
    (["-t", "ext4", "-b", "1024", "-O", "fast_commit,^extent,^64bit", "-J", "size=4"], ["orphan_file_size=65536"], 32768),
    # populated from a host tree with symlinks of 59, 60, 80 and 200 bytes: quota files vs what e2fsck counts (inline-data symlinks)
    (["-t", "ext4", "-b", "1024", "-O", "quota,inline_data", "-d", "@TREE"], [], 32768),
    (["-t", "ext4", "-b", "4096", "-O", "quota,project,inline_data", "-I", "512", "-d", "@TREE"], [], 65536),
    # the listed known finding (inode count rounded below the request): 1000 inodes over 4 groups of 4-inode blocks
    (["-t", "ext4", "-b", "1024", "-I", "256", "-N", "1000"], [], 32768),
    # dense inodes under flex_bg: packed inode tables that straddle a group boundary
    (["-t", "ext4", "-b", "1024", "-i", "1024", "-G", "16"], [], 131072),
    # RAID stride without flex_bg: the staggered bitmap position walks through every offset of a group, the last block included
    (["-t", "ext2", "-b", "1024", "-I", "128", "-N", "40800"], ["stride=496"], 163841),
    (["-t", "ext2", "-b", "1024", "-g", "1024"], ["stride=7"], 262144),
    (["-t", "ext3", "-b", "1024", "-g", "512", "-N", "2048"], ["stride=13"], 131072),
    (["-t", "ext2", "-b", "2048", "-g", "2048", "-O", "^resize_inode"], ["stride=31,stripe_width=62"], 100000),
    (["-t", "ext4", "-b", "1024", "-g", "1024", "-O", "^flex_bg"], ["stride=5"], 200000),
]


def gen_config(r, idx=None):
    if idx is not None and idx < len(DIRECTED):
        opts, ext, size_k = DIRECTED[idx][:3]
        feats = []
        if "-O" in opts:
            feats = opts[opts.index("-O") + 1].split(",")
        opts = [host_tree() if o == "@TREE" else o for o in opts]
        return {"opts": list(opts), "ext": list(ext), "size_k": size_k, "bs": int(opts[opts.index("-b") + 1]), "type": opts[1], "feats": feats,
                "prev": len(DIRECTED[idx]) > 3}
    fam = r.random()
    if fam < 0.07:
        # family: a short last group that has to hold (or not) a sparse_super2 backup, with a reserved GDT of any size
        bs = r.choice([1024, 1024, 2048])
        bpg = 8 * bs
        ng = r.choice([2, 2, 3, 5])
        size_k = ((ng - 1) * bpg + (1 if bs == 1024 else 0) + r.randint(20, 900)) * bs // 1024
        ext = ["num_backup_sb=%d" % r.choice([0, 1, 1, 2])]
        if r.random() < 0.7:
            ext.append("resize=%d" % r.choice([4294967295, 1 << 24, 1 << 20, 40000]))
        feats = ["sparse_super2"] + (["^flex_bg"] if r.random() < 0.4 else []) + (["^64bit"] if r.random() < 0.3 else [])
        opts = ["-t", "ext4", "-b", str(bs), "-O", ",".join(feats)] + (["-i", str(r.choice([4096, 16384, 65536]))] if r.random() < 0.6 else [])
        return {"opts": opts, "ext": ext, "size_k": size_k, "bs": bs, "type": "ext4", "feats": feats}
    if fam < 0.14:
        # family: dense inodes and a flex_bg size large enough for packed inode tables to cross group boundaries
        bs = r.choice([1024, 1024, 2048, 4096])
        opts = ["-t", "ext4", "-b", str(bs), "-i", str(r.choice([bs, bs, 2 * bs, 4 * bs])), "-G", str(r.choice([8, 16, 32, 64]))]
        if r.random() < 0.3:
            opts += ["-I", str(r.choice([128, 256, 512]))]
        if r.random() < 0.3:
            opts += ["-g", str(8 * r.randint(bs // 4, bs))]
        return {"opts": opts, "ext": [], "size_k": r.randint(60000, 300000), "bs": bs, "type": "ext4", "feats": []}
    t = r.choice(["ext2", "ext3", "ext4", "ext4", "ext4"])
    bs = r.choice([1024, 1024, 2048, 4096, 4096])
    k = r.random()
    size_k = r.randint(200, 2000) if k < 0.12 else r.randint(2000, 40000) if k < 0.75 else r.randint(40000, 400000)
    if r.random() < 0.3:
        size_k += r.choice([1, 3, 7, 513])
    opts = ["-t", t, "-b", str(bs)]
    feats = []
    for _ in range(r.choice([0, 1, 1, 2, 3])):
        feats += r.choice(FEATURE_MENU)
    if feats:
        opts += ["-O", ",".join(dict.fromkeys(feats))]
    if "bigalloc" in feats:
        opts += ["-C", str(bs * r.choice([2, 4, 16]))]
    if r.random() < 0.4:
        opts += ["-I", str(r.choice([128, 256, 256, 512, 1024]))]
    k = r.random()
    if k < 0.25:
        opts += ["-i", str(r.choice([1024, 2048, 4096, 8192, 65536, 1 << 20]))]
    elif k < 0.45:
        opts += ["-N", str(r.choice([11, 16, 100, 1000, 5000, 100000]))]
    if r.random() < 0.3:
        opts += ["-g", str(8 * r.randint(32, bs))]
    if r.random() < 0.2:
        opts += ["-G", str(r.choice([1, 2, 4, 16, 64]))]
    if r.random() < 0.2:
        opts += ["-m", str(r.choice([0, 1, 5, 20, 50]))]
    if r.random() < 0.2 and t != "ext2":
        opts += ["-J", "size=%d" % r.choice([1, 4, 8, 32])]
    if r.random() < 0.15:
        opts += ["-r", "0"] if t == "ext2" and not feats else []
    if r.random() < 0.2:
        opts += ["-L", "lab_%d" % r.randint(0, 999)]
    ext = []
    for _ in range(r.choice([0, 0, 1, 2])):
        e = r.choice(EXT_MENU)
        for x in e:
            if "%d" in x:
                key = x.split("=")[0]
                val = {"stride": r.choice([1, 4, 16, 33]), "stripe_width": r.choice([4, 16, 64]), "resize": size_k * 1024 // bs * r.choice([2, 8, 100]),
                       "num_backup_sb": r.choice([0, 1, 2]), "offset": bs * r.choice([1, 4, 33]) if False else 4096 * r.choice([1, 3, 16]),
                       "orphan_file_size": r.choice([8, 32, 512]) * 1024}[key]
                ext.append(x % val)
            else:
                ext.append(x)
    ext = list(dict.fromkeys(ext))
    if r.random() < 0.2 and size_k > 4000:
        opts += ["-d", host_tree()]
    prev = False
    if r.random() < 0.12 and not any(x.startswith(("offset=", "lazy_itable_init")) for x in ext):
        ext += ["lazy_itable_init=1"] + ([] if "nodiscard" in ext else ["nodiscard"])
        prev = True
    return {"opts": opts, "ext": ext, "size_k": size_k, "bs": bs, "type": t, "feats": feats, "prev": prev}


def invariants_of_geometry(fs):
    """the clauses of init_good read off the finished superblock"""
    bad = []
    f = fs.first_data_block
    G = fs.groups_count
    if (G - 1) * fs.blocks_per_group >= fs.blocks_count - f or fs.blocks_count - f > G * fs.blocks_per_group:
        bad.append("groups do not tile the device")
    if fs.inodes_per_group % 8 or fs.inodes_per_group < 8:
        bad.append("inodes per group %d is not a positive multiple of 8" % fs.inodes_per_group)
    if fs.inodes_count != fs.inodes_per_group * G:
        bad.append("inode count %d != %d x %d" % (fs.inodes_count, fs.inodes_per_group, G))
    if fs.inodes_count > 0xFFFFFFFF or fs.inodes_count < fs.first_ino + 1:
        bad.append("inode count out of range")
    if fs.inodes_per_group > 8 * fs.bs:
        bad.append("inode bitmap does not fit one block")
    rem = (fs.blocks_count - f) % fs.blocks_per_group
    if rem and not (fs.ro_compat & RO_BIGALLOC):
        ov = 2 + fs.itb_per_group + ((1 + fs.desc_blocks + fs.reserved_gdt) if fs.bg_has_super(G - 1) else 0)
        if rem < ov + 50 and G > 1:
            bad.append("last group has %d blocks, fewer than its overhead %d + 50" % (rem, ov))
    return bad


def requested_vs_actual(cfg, fs, dev_blocks):
    bad = []
    o = cfg["opts"]
    if fs.bs != cfg["bs"]:
        bad.append("block size %d, requested %d" % (fs.bs, cfg["bs"]))
    if "-I" in o and fs.inode_size != int(o[o.index("-I") + 1]):
        bad.append("inode size %d, requested %s" % (fs.inode_size, o[o.index("-I") + 1]))
    if "-N" in o and fs.inodes_count < int(o[o.index("-N") + 1]):
        short = int(o[o.index("-N") + 1]) - fs.inodes_count
        bad.append("inode count %d below the requested %s%s" % (fs.inodes_count, o[o.index("-N") + 1],
                   " (rounding to a multiple of 8 per group)" if short < 8 * fs.groups_count and fs.bs // fs.inode_size % 8 else ""))
    # -g together with an inode count that does not fit: ext2fs_initialize() lowers the blocks per group until the inodes
    # per group fit one bitmap block ("retry:" loop) - two requests that cannot both be met, the inode count wins
    g_req = int(o[o.index("-g") + 1]) if "-g" in o else 0
    n_req = int(o[o.index("-N") + 1]) if "-N" in o else 0
    if not n_req and "-i" in o:
        n_req = dev_blocks * fs.bs // max(1, int(o[o.index("-i") + 1]))      # the inode ratio asks for this many
    conflict = bool(g_req and n_req and -(-n_req // max(1, -(-(dev_blocks - (1 if fs.bs == 1024 else 0)) // g_req))) > fs.bs * 8 and fs.blocks_per_group < g_req)
    if "-g" in o and fs.blocks_per_group != g_req and not fs.ro_compat & RO_BIGALLOC and not conflict:
        bad.append("blocks per group %d, requested %s" % (fs.blocks_per_group, o[o.index("-g") + 1]))
    if "-L" in o and fs.sb_raw[0x78:0x88].rstrip(b"\0").decode() != o[o.index("-L") + 1]:
        bad.append("label differs")
    if fs.blocks_count > dev_blocks:
        bad.append("filesystem (%d blocks) larger than the device (%d)" % (fs.blocks_count, dev_blocks))
    if fs.blocks_count < dev_blocks - fs.blocks_per_group - 1 and not fs.ro_compat & RO_BIGALLOC:
        bad.append("filesystem (%d blocks) leaves more than a group of the device (%d) unused" % (fs.blocks_count, dev_blocks))
    FEAT = {"has_journal": ("compat", 0x4), "resize_inode": ("compat", 0x10), "dir_index": ("compat", 0x20), "sparse_super2": ("compat", 0x200),
            "meta_bg": ("incompat", 0x10), "64bit": ("incompat", 0x80), "flex_bg": ("incompat", 0x200), "extent": ("incompat", 0x40), "mmp": ("incompat", 0x100),
            "ea_inode": ("incompat", 0x400), "large_dir": ("incompat", 0x4000), "inline_data": ("incompat", 0x8000), "encrypt": ("incompat", 0x10000),
            "metadata_csum_seed": ("incompat", 0x2000), "filetype": ("incompat", 0x2),
            "metadata_csum": ("ro_compat", 0x400), "uninit_bg": ("ro_compat", 0x10), "quota": ("ro_compat", 0x100), "project": ("ro_compat", 0x2000),
            "bigalloc": ("ro_compat", 0x200), "huge_file": ("ro_compat", 0x8), "sparse_super": ("ro_compat", 0x1), "large_file": ("ro_compat", 0x2),
            "ext_attr": ("compat", 0x8), "orphan_file": ("compat", 0x1000), "fast_commit": ("compat", 0x400), "stable_inodes": ("compat", 0x800)}
    final = {}
    for x in cfg["feats"]:
        final[x.lstrip("^")] = not x.startswith("^")
    for name, want in final.items():
        if name not in FEAT:
            continue
        word, bit = FEAT[name]
        have = bool(getattr(fs, word) & bit)
        if want and not have:
            # mke2fs.c: a feature of the profile's defaults whose prerequisite the command line removes is dropped
            # silently (default_orphan_file / default_csum_seed), also when the same -O names it again
            if (name == "metadata_csum_seed" and not final.get("metadata_csum", True)) or (name == "orphan_file" and not final.get("has_journal", True)):
                continue
            bad.append("feature %s requested but not set" % name)
        if name == "has_journal" and "-J" in cfg["opts"]:
            continue                                              # -J asks for a journal: contradictory request, either outcome is fine
        if name == "resize_inode" and any(x.startswith("resize=") for x in cfg["ext"]):
            continue                                              # -E resize= asks for the reserved GDT blocks that ^resize_inode denies
        if not want and have and name not in ("large_file",):     # large_file is set when needed
            if name == "resize_inode" or name == "sparse_super" or True:
                bad.append("feature %s disabled on the command line but set" % name)
    return bad


def tool_case(src, lexe, idx, seed, tier):
    r = e2v.rng(seed, "c07", idx)
    cfg = gen_config(r, idx)
    img = os.path.join(WORK, "m_%d.img" % idx)
    env = e2v.tool_env(src, E2FSPROGS_FAKE_TIME="1700000000")
    T = lambda p: os.path.join(src, p)
    offset = 0
    for x in cfg["ext"]:
        if x.startswith("offset="):
            offset = int(x.split("=")[1])
    dev_bytes = cfg["size_k"] * 1024 + offset
    fill = bytes([0x5A]) * 4096

    def fresh():
        with open(img, "wb") as f:
            for _ in range(dev_bytes // 4096):
                f.write(fill)
            f.write(fill[:dev_bytes % 4096])
        if cfg.get("prev"):
            # the device holds a filesystem of the same geometry from an earlier mke2fs (inode tables written, reserved
            # inodes in use): a lazily initialised new filesystem must not pick any of it up
            pe = [x for x in cfg["ext"] if not x.startswith(("lazy_itable_init", "nodiscard"))] + ["lazy_itable_init=0", "hash_seed=01234567-89ab-cdef-0123-456789abcdef"]
            e2v.sh([T("misc/mke2fs"), "-q", "-F"] + cfg["opts"] + ["-U", "6b6b6b6b-1111-2222-3333-444444444444", "-E", ",".join(pe), img] +
                   (["%dk" % cfg["size_k"]] if offset else []), env=env, timeout=600)
            e2v.sh([T("debugfs/debugfs"), "-w", "-f", "-", img], input=b"mkdir old\nwrite /etc/hostname old/f\nmkdir old/d\n", env=env, timeout=120)
    cmd = [T("misc/mke2fs"), "-q", "-F"] + cfg["opts"] + (["-E", ",".join(cfg["ext"])] if cfg["ext"] else []) + \
          ["-U", "5a5a5a5a-1111-2222-3333-444444444444", "-E", "hash_seed=01234567-89ab-cdef-0123-456789abcdef"]
    # two -E options: mke2fs takes the last; merge instead
    if cfg["ext"]:
        cmd = [T("misc/mke2fs"), "-q", "-F"] + cfg["opts"] + ["-U", "5a5a5a5a-1111-2222-3333-444444444444",
                                                            "-E", ",".join(cfg["ext"] + ["hash_seed=01234567-89ab-cdef-0123-456789abcdef"])]
    size_arg = ["%dk" % cfg["size_k"]] if offset else []
    recipe = {"cmd": " ".join(cmd[1:] + ["IMG"] + size_arg), "size_k": cfg["size_k"], "case_index": idx, "device": "older filesystem of the same geometry" if cfg.get("prev") else "filled with 0x5A"}
    problems, stat = [], {}
    # ---- mke2fs -n: must not write
    fresh()
    before = hashlib.sha256(open(img, "rb").read()).hexdigest()
    rcn, outn, evn = e2v.traced(cmd[:1] + ["-n"] + cmd[1:] + [img] + size_arg, img, img + ".trace", env=env, timeout=300)
    if any(e[0] in ("W", "T", "A") for e in evn) or hashlib.sha256(open(img, "rb").read()).hexdigest() != before:
        problems.append("mke2fs -n wrote to the device")
    # ---- the real run
    rc, out = e2v.sh(cmd + [img] + size_arg, env=env, timeout=600)
    stat["rc"] = rc
    if rcn != 0 and rc == 0:
        problems.append("mke2fs -n refuses (exit %d) a configuration mke2fs accepts" % rcn)
    if rc != 0:
        stat["outcome"] = "rejected"
        if os.path.exists(img):
            os.unlink(img)
        return recipe, problems, stat
    stat["outcome"] = "created"
    data1 = open(img, "rb").read()
    if offset and data1[:offset] != (fill * (offset // 4096 + 1))[:offset]:
        problems.append("bytes in front of the requested offset were modified")
    try:
        fs = Fs(data=data1, offset=offset)
    except FormatError as ex:
        problems.append("independent reader rejects the result: %s" % ex)
        os.unlink(img)
        return recipe, problems, stat
    stat["features"] = [hex(fs.compat), hex(fs.incompat), hex(fs.ro_compat)]
    problems += invariants_of_geometry(fs)
    problems += requested_vs_actual(cfg, fs, cfg["size_k"] * 1024 // fs.bs)
    cons = None
    if not (fs.incompat & (INCOMPAT_INLINE_DATA | 0x10000 | 0x20000) or fs.ro_compat & RO_BIGALLOC):
        try:
            cons = extfmt.consistency(fs)
        except (FormatError, struct.error, IndexError, ValueError, KeyError) as ex:
            cons = ["format: %s" % ex]
        if cons:
            problems.append("independent reader: %s" % cons[:3])
        # backups (C20)
        try:
            groups = c20.model_groups(lexe, fs)
            problems += c20.check_backups(fs, groups, c20.py_crc32c())[:3]
        except Exception as ex:
            problems.append("backup check failed: %s" % ex)
    stat["reader"] = "skipped" if cons is None else "ok"
    fsck_cmd = [T("e2fsck/e2fsck"), "-fn"] + (["-E", "offset=%d" % offset] if False else []) + [img]
    if offset:
        # e2fsck has no offset option for plain files: check a copy without the prefix
        cp = img + ".nooff"
        open(cp, "wb").write(data1[offset:])
        fsck_cmd = [T("e2fsck/e2fsck"), "-fn", cp]
    rc2, out2 = e2v.sh(fsck_cmd, env=e2v.tool_env(src), timeout=600)
    if rc2 != 0:
        problems.append("e2fsck -fn exits %d on the fresh filesystem: %s" % (rc2, out2[-300:].replace("\n", " | ")))
    if offset and os.path.exists(img + ".nooff"):
        os.unlink(img + ".nooff")
    # ---- reproducibility
    if idx % 3 == 0:
        fresh()
        rc3, _ = e2v.sh(cmd + [img] + size_arg, env=env, timeout=600)
        data2 = open(img, "rb").read()
        if rc3 != 0 or data2 != data1:
            where = "?"
            if rc3 == 0 and len(data2) == len(data1) and fs.incompat & 0x100:
                lo = offset + fs.mmp_block * fs.bs
                if data1[:lo] == data2[:lo] and data1[lo + fs.bs:] == data2[lo + fs.bs:]:
                    where = "mmp-block-only"
            stat["repro_diff"] = where
            problems.append("a second run with the same UUID, hash seed and time is not byte-identical (%s)" % where)
        stat["repro"] = True
    for p in (img, img + ".trace"):
        if os.path.exists(p):
            os.unlink(p)
    return recipe, problems, stat


def run(res, replay=None):
    tier, seed = res.tier, res.seed
    os.makedirs(WORK, exist_ok=True)
    src = e2v.ensure_build()
    e2v.build_iotrace()
    pr = e2v.coq_property("C07")
    res.add_proof(pr)
    hexe = e2v.build_harness("h_init", src)
    mexe = e2v.build_driver("initgeom", ["theories/Geometry/InitGeom.vo"], ["initgeom_model"])
    lexe = e2v.build_driver("layout", ["theories/Layout/Layout.vo", "theories/Layout/BackupBgs.vo"], ["layout_model"])
    res.cov["trusted_base"] = e2v.TRUSTED_COMMON + [
        "lib/extfmt.py consistency(): the check's own reading of the format and its invariants",
        "harness/h_init.c calls ext2fs_initialize directly; harness/iotrace.c observes mke2fs -n",
    ]
    res.cov["partial"] = ["proved: the geometry computed by ext2fs_initialize (non-bigalloc); termination of its retry loops is not proved (fuel exhaustion would surface as a correspondence mismatch)",
                          "option parsing (PRS), table allocation, journal/quota/orphan-file creation are exercised through the option grid and judged by the independent reader, e2fsck -fn and the backup check, not modelled",
                          "bigalloc, inline_data, encrypt, casefold results are judged by e2fsck -fn and the geometry clauses only"]
    # ---- A. ext2fs_initialize vs the model
    scratch = os.path.join(WORK, "init_scratch.img")
    open(scratch, "wb").close()
    n = 3000 if tier == "quick" else 120000
    lines = gen_lines(e2v.rng(seed, "c07geom"), n, scratch)
    sweep_bad = []
    dist = {}
    for base in range(0, n, 20000):
        chunk = lines[base:base + 20000]
        t = "\n".join(chunk) + "\n"
        a = run_lines(hexe, t, lim=True)
        b = run_lines(mexe, t)
        for l, x, y in zip(chunk, a + ["<missing>"] * len(chunk), b + ["<missing>"] * len(chunk)):
            dist[x.split()[0] if x else "?"] = dist.get(x.split()[0] if x else "?", 0) + 1
            res.case(l, x.startswith("OK"))
            if x != y and not x.startswith("ERR"):
                sweep_bad.append((l, x, y))
    res.sample({"geometry_case": lines[0].split()[2:], "columns": "blocks log_bs isz inodes bpg sparse sparse2 bb0 bb1 resize_inode meta_bg 64bit rsv"})
    # ---- B. mke2fs option grid
    m = 48 if tier == "quick" else 3000
    idxs = [json.load(open(replay))["recipe"]["case_index"]] if replay else list(range(m))
    with concurrent.futures.ThreadPoolExecutor(12) as ex:
        outs = list(ex.map(lambda i: tool_case(src, lexe, i, seed, tier), idxs))
    bad = []
    tdist = {"created": 0, "rejected": 0, "reader_ok": 0, "reader_skipped": 0, "repro": 0}
    for recipe, problems, stat in outs:
        res.case(json.dumps(recipe), stat.get("outcome") == "created")
        tdist[stat.get("outcome", "rejected")] += 1
        if stat.get("reader") == "ok":
            tdist["reader_ok"] += 1
        elif stat.get("reader") == "skipped":
            tdist["reader_skipped"] += 1
        if stat.get("repro"):
            tdist["repro"] += 1
        if len(res.cov["samples"]) < 4 and stat.get("outcome") == "created":
            res.sample(recipe)
        if problems:
            bad.append((recipe, problems, stat))
    res.cov["correspondence"] = {"geometry_cases": n, "mismatches": len(sweep_bad), "result_classes": dist,
                                 "compared": "blocks, blocks/group, groups, descriptor blocks, inodes/group, inode-table blocks, inode count, reserved GDT blocks, meta_bg/resize_inode or the error class: ext2fs_initialize vs the extracted init_geom"}
    res.cov["oracle"] = {"evaluations": len(outs), "failures": len(bad), "distribution": tdist,
                         "statement": "every configuration mke2fs accepts yields a filesystem the independent reader finds consistent, e2fsck -fn exits 0 on, whose geometry satisfies the clauses of init_geometry_ok, whose requested options are honoured, whose backups are valid; mke2fs -n writes nothing and agrees on acceptance; runs with fixed UUID/seed/time are byte-identical"}
    res.cov["rule"] = "geometry: device sizes at group boundaries +- {0,1,2,50,100,300,bpg-1}, 1..200000 groups, block sizes 1k..64k, inode sizes 128..1024, inode requests by ratio, -g values, feature flags; tools: random option sets from ~30 feature toggles, -I -i -N -g -G -m -J -L -r, 14 extended options, sizes 200k..400M incl. odd sizes; non-trivial = accepted"
    res.add_obligation("ext2fs_initialize = init_geom on the whole sweep", not sweep_bad)
    for l, x, y in sweep_bad[:2]:
        res.violation("correspondence", {"line": " ".join(l.split()[2:]), "implementation": x, "model": y,
                                         "note": "ext2fs_initialize computes a geometry different from the model (columns: blocks log_bs isz inodes bpg sparse sparse2 bb0 bb1 resize_inode meta_bg 64bit rsv)"},
                      has_input=True, signature="c07geom:" + hashlib.sha256(l.encode()).hexdigest()[:12])

    def sig(recipe, problems):
        if len(problems) == 1 and "(mmp-block-only)" in problems[0]:
            return "c07:mmp-block-carries-wall-clock-time"
        if len(problems) == 1 and "(rounding to a multiple of 8 per group)" in problems[0]:
            return "c07:inode-count-rounded-below-request"
        if "quota" in recipe["cmd"] and " -d " in recipe["cmd"]:
            return "c07:quota-with-populate"
        return "c07:" + hashlib.sha256(recipe["cmd"].encode()).hexdigest()[:12]
    bad.sort(key=lambda b: 1 if sig(b[0], b[1]) in ("c07:mmp-block-carries-wall-clock-time", "c07:inode-count-rounded-below-request") else 0)
    for recipe, problems, stat in bad[:3]:
        res.violation("oracle", {"recipe": recipe, "problems": problems[:6], "stat": stat}, signature=sig(recipe, problems))
    if not pr["ok"] and not bad and not sweep_bad:
        res.violation("proof", {"theorem_file": "coq/theories/Properties_C07.v", "failed_at": pr["failed_at"],
                                "forbidden": pr["forbidden"], "log_tail": pr["log_tail"][-1500:]}, has_input=False)

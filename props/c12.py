# C12 - an undo file restores the exact previous bytes
import json, os, struct, subprocess, hashlib, concurrent.futures
import e2v

WORK = os.path.join(e2v.SCRATCH, "c12")


def pat(seed, o):
    return (o * 131 + 7 * (o // 256) + seed) & 255


def image(size, seed):
    return bytes(pat(seed, o) for o in range(size))


def hexdata(r, n):
    t = r.randint(1, 255)
    return "".join("%02x" % ((t + 29 * k) % 256) for k in range(n))


def gen_case(r, maxops, aligned_only=False):
    T = r.choice([1024, 1024, 2048, 4096])
    k = r.random()
    if k < 0.75:
        B = r.choice([b for b in (1024, 2048, 4096) if T % b == 0])
    else:
        B = r.choice([1024, 2048, 4096])
    k = r.random()
    if k < 0.45 or aligned_only:
        off = r.choice([0, 0, T, 2 * T])
    elif k < 0.8:
        off = r.choice([512, 1024, 1536, 3072, T + 512, B])
    else:
        off = 0
    ncells = r.choice([8, 12, 16])
    fs_bytes = ncells * max(T, B)
    size = off + fs_bytes
    nb = fs_bytes // B
    ops = []
    hot = [r.randint(0, nb - 1) for _ in range(3)]
    for _ in range(r.randint(2, maxops)):
        k = r.random()
        blk = max(0, min(nb - 1, r.choice(hot) + r.randint(-1, 1))) if r.random() < 0.5 else r.randint(0, nb - 1)
        if k < 0.45:
            c = min(r.choice([1, 1, 2, 3, 5]), nb - blk)
            ops.append("W %d %d %s" % (blk, c, hexdata(r, c * B)))
        elif k < 0.55:
            n = r.randint(1, min(2 * B, (nb - blk) * B))
            ops.append("WB %d %s" % (blk, hexdata(r, n)))
        elif k < 0.72:
            o = r.randint(0, fs_bytes - 2)
            n = r.randint(1, min(300, fs_bytes - o))
            ops.append("WY %d %s" % (o, hexdata(r, n)))
        elif k < 0.82:
            c = min(r.randint(1, 2), nb - blk)
            ops.append("Z %d %d" % (blk, c))
        elif k < 0.92:
            ops.append("REOPEN")
        else:
            ops.append("W %d 1 %s" % (1024 // B, hexdata(r, B)))   # the superblock area
    return {"B": B, "T": T, "off": off, "size": size, "seed": r.randint(0, 255)}, ops


CORPUS = [
    # sessions that write nothing, before and between sessions that do
    ({"B": 1024, "T": 1024, "off": 0, "size": 8 * 1024, "seed": 11}, ["REOPEN", "W 2 1 " + "5a" * 1024]),
    ({"B": 1024, "T": 4096, "off": 0, "size": 8 * 4096, "seed": 12}, ["REOPEN", "REOPEN", "W 3 2 " + "6b" * 2048, "REOPEN", "REOPEN", "WY 100 " + "7c" * 40]),
    ({"B": 4096, "T": 4096, "off": 4096, "size": 9 * 4096, "seed": 13}, ["REOPEN"]),
    ({"B": 1024, "T": 4096, "off": 512, "size": 512 + 8 * 4096, "seed": 7}, ["W 3 1 " + "ab" * 1024]),
    ({"B": 1024, "T": 1024, "off": 1024, "size": 1024 + 8 * 1024, "seed": 9}, ["WY 3000 " + "cd" * 10]),
    ({"B": 1024, "T": 1024, "off": 2048, "size": 2048 + 8 * 1024, "seed": 3}, ["W 2 1 " + "11" * 1024, "REOPEN", "W 2 1 " + "22" * 1024]),
    ({"B": 1024, "T": 2048, "off": 0, "size": 8 * 2048, "seed": 1}, ["W 0 1 " + "ee" * 1024, "W 1 1 " + "dd" * 1024, "Z 5 2", "WB 9 " + "77" * 100]),
    # an appending session at a filesystem offset of exactly one undo block: the reopened block map must be in device positions
    ({"B": 1024, "T": 1024, "off": 1024, "size": 9216, "seed": 131}, ["W 0 2 " + "92" * 2048, "REOPEN", "W 1 1 " + "70" * 1024]),
    ({"B": 1024, "T": 1024, "off": 1024, "size": 17408, "seed": 40}, ["Z 4 1", "W 0 3 " + "ab" * 3072, "REOPEN", "W 2 4 " + "cd" * 4096]),
    # exactly one full key block (63 keys at 1k undo blocks) when the undo file is closed, then an appending session
    ({"B": 1024, "T": 1024, "off": 0, "size": 140 * 1024, "seed": 5}, ["W %d 1 %s" % (2 * k, ("%02x" % (k + 1)) * 1024) for k in range(63)] + ["REOPEN", "W 127 1 " + "fe" * 1024, "W 129 1 " + "fd" * 1024]),
]


def parse_undo(path):
    """returns (T, fsB, fs_offset, state, [(fs_byte_offset, size)])"""
    d = open(path, "rb").read()
    if d[:8] != b"E2UNDO02":
        return None
    num_keys, super_off, key_off, T, fsB, sb_crc, state, fc, fi, fr, pad = struct.unpack_from("<QQQIIIIIIII", d, 8)
    fs_offset, = struct.unpack_from("<Q", d, 8 + 24 + 32)
    keys = []
    lblk = key_off
    kpb = T // 16 - 1
    i = 0
    while i < num_keys:
        kb = d[lblk * T:(lblk + 1) * T]
        lblk += 1
        for j in range(min(kpb, num_keys - i)):
            fsblk, crc, size = struct.unpack_from("<QII", kb, 16 + 16 * j)
            keys.append((fsblk * fsB, size))
            lblk += (size + T - 1) // T
        i += kpb
    return T, fsB, fs_offset, state, keys


def ranges(keys):
    s = set()
    for a, n in keys:
        s.update(range(a, a + n))
    return s


def setup(src):
    e2v.build_harness("h_undo", src)
    e2v.build_driver("undo", ["theories/Undo/UndoModel.vo"], ["undo_model"])


def run_batch(hexe, mexe, e2undo, cases, tag):
    """returns per case dict(impl=..., model=...)"""
    os.makedirs(WORK, exist_ok=True)
    htext, mtext = [], []
    for i, (g, ops) in enumerate(cases):
        img = os.path.join(WORK, "%s_%d.img" % (tag, i))
        und = os.path.join(WORK, "%s_%d.undo" % (tag, i))
        with open(img, "wb") as f:
            f.write(image(g["size"], g["seed"]))
        if os.path.exists(und):
            os.unlink(und)
        htext.append("N %s %s %d %d %d" % (img, und, g["B"], g["T"], g["off"]))
        htext += ops + ["C"]
        mtext.append("N %d %d %d %d %d" % (g["size"], g["seed"], g["B"], g["T"], g["off"]))
        mtext += ops + ["C"]
    p = subprocess.run([hexe], input=("\n".join(htext) + "\n").encode(), stdout=subprocess.PIPE, stderr=subprocess.DEVNULL, timeout=900)
    hout = p.stdout.decode().split("\n")
    # the model driver is run on 16 slices in parallel (cases are independent)
    per_case, cur = [], None
    for l in mtext:
        if l.startswith("N "):
            cur = []
            per_case.append(cur)
        cur.append(l)

    def mrun(sl):
        if not sl:
            return []
        txt = "\n".join("\n".join(c) for c in sl) + "\n"
        q = subprocess.run([mexe], input=txt.encode(), stdout=subprocess.PIPE, stderr=subprocess.DEVNULL, timeout=1800)
        return [x for x in q.stdout.decode().split("\n") if x]
    k = max(1, (len(per_case) + 15) // 16)
    slices = [per_case[i:i + k] for i in range(0, len(per_case), k)]
    with concurrent.futures.ThreadPoolExecutor(16) as ex:
        mout = [l for part in ex.map(mrun, slices) for l in part]
    # split outputs per case
    res = []
    hi = mi = 0
    for i, (g, ops) in enumerate(cases):
        n = len(ops) + 2
        hrows = hout[hi:hi + n]
        hi += n
        mrows = mout[mi:mi + n + 3]
        mi += n + 3
        res.append({"hrows": hrows, "mrows": mrows})

    def undo_one(i):
        g, ops = cases[i]
        img = os.path.join(WORK, "%s_%d.img" % (tag, i))
        und = os.path.join(WORK, "%s_%d.undo" % (tag, i))
        after = open(img, "rb").read()
        parsed = parse_undo(und) if os.path.exists(und) else None
        # -n must not write
        rcn, _ = e2v.sh([e2undo, "-n", und, img], timeout=60)
        same_n = open(img, "rb").read() == after
        rc, out = e2v.sh([e2undo, und, img], timeout=60)
        undone = open(img, "rb").read()
        return {"after": after, "undone": undone, "rc": rc, "out": out[-300:], "parsed": parsed, "dry_ok": same_n, "und": und, "img": img}
    with concurrent.futures.ThreadPoolExecutor(16) as ex:
        ur = list(ex.map(undo_one, range(len(cases))))
    for r, u in zip(res, ur):
        r.update(u)
    return res


def judge(g, ops, r):
    """returns (oracle_fail_reason or None, corr_mismatch or None)"""
    orig = image(g["size"], g["seed"])
    oracle = None
    if any(x.startswith("ERR") for x in r["hrows"]):
        # the recorder refused an operation: nothing claimed - unless what it refused is its own undo file (the model's
        # reopen always succeeds: every session, also one that wrote nothing, leaves a file the next one can append to)
        for k, x in enumerate(r["hrows"][1:1 + len(ops)]):
            # (EXT2_ET_UNDO_FILE_CORRUPT only: at a filesystem offset the appending open compares the recorded superblock with
            #  the device at offset 0 and refuses with EXT2_ET_UNDO_FILE_WRONG - a refused run, about which C12 says nothing)
            if x.startswith("ERR 2133571500") and ops[k] == "REOPEN" and not any(y.startswith("ERR") for y in r["hrows"][:1 + k]):
                return "the recorder cannot reopen the undo file its own previous session wrote (operation %d: %s)" % (k, x[:60]), None
        return None, None
    if r["rc"] != 0:
        oracle = "e2undo exit %s: %s" % (r["rc"], r["out"])
    elif r["undone"][:len(orig)] != orig:
        bad = [i for i in range(len(orig)) if r["undone"][i] != orig[i]]
        oracle = "device differs from the original after e2undo at %d bytes, first at %d" % (len(bad), bad[0])
    if not r["dry_ok"]:
        oracle = "e2undo -n modified the device"
    corr = None
    try:
        m_keys = r["mrows"][-3].split(" ", 1)[1] if " " in r["mrows"][-3] else ""
        m_after = bytes.fromhex(r["mrows"][-2].split()[1])
        m_undone = bytes.fromhex(r["mrows"][-1].split()[1])
        mk = [(int(a), int(b)) for a, b in (x.split(":") for x in m_keys.split(",") if x)]
        if m_after != r["after"][:len(m_after)]:
            corr = "device contents after the recorded run differ from the model"
        elif r["parsed"] and ranges(mk) != ranges(r["parsed"][4]):
            corr = "saved byte ranges differ from the model"
        elif m_undone != r["undone"][:len(m_undone)]:
            corr = "device contents after e2undo differ from the model"
    except Exception as ex:
        corr = "model output unreadable: %r" % (ex,)
    return oracle, corr


def covered_bits(parsed, und_path):
    """byte offsets of the undo file whose change must make e2undo refuse"""
    T, fsB, fso, state, keys = parsed
    d = open(und_path, "rb").read()
    offs = list(range(0, 512)) + list(range(T, T + 1024))
    num_keys, super_off, key_off = struct.unpack_from("<QQQ", d, 8)
    lblk = key_off
    kpb = T // 16 - 1
    i = 0
    while i < num_keys:
        offs += list(range(lblk * T, (lblk + 1) * T))
        kb = d[lblk * T:(lblk + 1) * T]
        lblk += 1
        for j in range(min(kpb, num_keys - i)):
            fsblk, crc, size = struct.unpack_from("<QII", kb, 16 + 16 * j)
            offs += list(range(lblk * T, lblk * T + size))
            lblk += (size + T - 1) // T
        i += kpb
    return offs


def tool_chain(src, r, idx):
    """a chain of tools recording to one undo file; returns (recipe, failure or None)"""
    os.makedirs(WORK, exist_ok=True)
    img = os.path.join(WORK, "chain_%d.img" % idx)
    und = os.path.join(WORK, "chain_%d.undo" % idx)
    for f in (img, und):
        if os.path.exists(f):
            os.unlink(f)
    bs = r.choice([1024, 1024, 2048, 4096])
    size_k = r.choice([8192, 12288, 16384]) + r.choice([0, 0, 3, 17])   # odd sizes: not undo-block aligned
    orig = bytes(r.getrandbits(8) for _ in range(4096)) * (size_k // 4) + bytes(r.getrandbits(8) for _ in range((size_k % 4) * 1024))
    open(img, "wb").write(orig)
    T = lambda name: os.path.join(src, name)
    feats = r.choice(["", "-O ^has_journal", "-t ext4", "-t ext4 -O ^flex_bg", "-t ext3", "-O quota"])
    fs_k = (size_k // 4) * 3
    steps = [[T("misc/mke2fs"), "-q", "-F", "-z", und, "-b", str(bs)] + feats.split() + [img, "%dk" % fs_k]]
    menu = [
        [T("misc/tune2fs"), "-z", und, "-L", "lbl%d" % idx, img],
        [T("misc/tune2fs"), "-z", und, "-O", "^has_journal", img],
        [T("misc/tune2fs"), "-z", und, "-c", "7", "-m", "2", img],
        [T("e2fsck/e2fsck"), "-fy", "-z", und, img],
        [T("e2fsck/e2fsck"), "-fyD", "-z", und, img],
        [T("debugfs/debugfs"), "-w", "-z", und, "-R", "mkdir d%d" % idx, img],
        [T("debugfs/debugfs"), "-w", "-z", und, "-R", "write /etc/services svc", img],
        [T("resize/resize2fs"), "-z", und, img, "%dk" % (fs_k - 1024)],
        [T("resize/resize2fs"), "-z", und, img, "%dk" % ((size_k // 1024) * 1024)],
    ]
    for _ in range(r.randint(1, 4)):
        steps.append(r.choice(menu))
    log = []
    for st in steps:
        rc, out = e2v.sh(st, timeout=120, env=e2v.tool_env(src, E2FSPROGS_UNDO_DIR=WORK))
        log.append({"cmd": " ".join(os.path.basename(x) if "/" in x else x for x in st), "rc": rc})
        if rc == -9:
            return {"steps": log}, "tool timed out"
        # a tool that refuses (non-zero) leaves the chain as it is: go on with the next tool
    rc, out = e2v.sh([T("misc/e2undo"), und, img], timeout=120)
    log.append({"cmd": "e2undo", "rc": rc})
    now = open(img, "rb").read()
    recipe = {"bs": bs, "size_k": size_k, "features": feats, "steps": log}
    if rc != 0:
        return recipe, "e2undo exit %d: %s" % (rc, out[-200:])
    if now[:len(orig)] != orig:
        bad = [i for i in range(min(len(orig), len(now))) if now[i] != orig[i]]
        return recipe, "after e2undo the device differs from its original contents (len %d vs %d, %d bytes differ, first %s)" % (
            len(now), len(orig), len(bad), bad[0] if bad else "-")
    return recipe, None


def tail_chain(src, r, idx):
    """device length not a multiple of the undo block size; the filesystem fills the device and a second recorded tool
    rewrites the partial last undo block that the first one already saved"""
    os.makedirs(WORK, exist_ok=True)
    img = os.path.join(WORK, "tail_%d.img" % idx)
    und = os.path.join(WORK, "tail_%d.undo" % idx)
    scr = os.path.join(WORK, "tail_%d.cmd" % idx)
    for f in (img, und):
        if os.path.exists(f):
            os.unlink(f)
    bs = r.choice([1024, 1024, 2048])
    size_k = 512 + 32 * r.randint(0, 12) + r.choice([2, 8, 12, 20, 30])
    orig = bytes(r.getrandbits(8) for _ in range(1024)) * size_k
    open(img, "wb").write(orig)
    T = lambda name: os.path.join(src, name)
    env = e2v.tool_env(src, E2FSPROGS_UNDO_DIR=WORK)
    nblk = size_k * 1024 // bs
    first = 1 if bs == 1024 else 0
    last = range(max(first + 40, nblk - r.randint(4, 40)), nblk)
    open(scr, "w").write("".join("zap_block -p %d %d\n" % (0x41 + i % 20, b) for i, b in enumerate(last)))
    steps = [[T("misc/mke2fs"), "-q", "-F", "-z", und, "-b", str(bs), "-O", "^has_journal,^resize_inode", img],
             [T("debugfs/debugfs"), "-w", "-z", und, "-f", scr, img]]
    if r.random() < 0.5:
        steps.append([T("misc/tune2fs"), "-z", und, "-L", "tail", img])
    log = []
    for st in steps:
        rc, out = e2v.sh(st, timeout=120, env=env)
        log.append({"cmd": " ".join(os.path.basename(x) if "/" in x else x for x in st), "rc": rc})
    rc, out = e2v.sh([T("misc/e2undo"), und, img], timeout=120)
    log.append({"cmd": "e2undo", "rc": rc})
    now = open(img, "rb").read()
    recipe = {"kind": "tail", "bs": bs, "size_k": size_k, "zapped_blocks": [last[0], last[-1]], "steps": log}
    for f in (img, und, scr):
        if os.path.exists(f):
            os.unlink(f)
    if rc != 0:
        return recipe, "e2undo exit %d: %s" % (rc, out[-200:])
    if now != orig:
        bad = [i for i in range(min(len(orig), len(now))) if now[i] != orig[i]]
        return recipe, "after e2undo the device differs from its original contents (len %d vs %d, %d bytes differ, first at byte %s)" % (len(now), len(orig), len(bad), bad[0] if bad else "-")
    return recipe, None


def mmp_chain(src, r, idx):
    """a filesystem with multiple-mount protection: every read-write open writes the MMP block (and waits); a recorded run
    has to record that block before its first write to it"""
    os.makedirs(WORK, exist_ok=True)
    img = os.path.join(WORK, "mmp_%d.img" % idx)
    und = os.path.join(WORK, "mmp_%d.undo" % idx)
    for f in (img, und):
        if os.path.exists(f):
            os.unlink(f)
    T = lambda name: os.path.join(src, name)
    env = e2v.tool_env(src, E2FSPROGS_UNDO_DIR=WORK)
    bs = [1024, 4096][idx % 2]
    e2v.sh([T("misc/mke2fs"), "-q", "-F", "-t", "ext4", "-O", "mmp", "-b", str(bs), img, "16M"], env=env, timeout=120)
    orig = open(img, "rb").read()
    step = [[T("misc/tune2fs"), "-z", und, "-L", "mmp", img], [T("debugfs/debugfs"), "-w", "-z", und, "-R", "mkdir m", img],
            [T("e2fsck/e2fsck"), "-fy", "-z", und, img], [T("resize/resize2fs"), "-z", und, img, "12M"]][(idx // 2) % 4]
    rc, out = e2v.sh(step, env=env, timeout=180)
    log = [{"cmd": " ".join(os.path.basename(x) if "/" in x else x for x in step), "rc": rc}]
    rc, out = e2v.sh([T("misc/e2undo"), und, img], timeout=120)
    log.append({"cmd": "e2undo", "rc": rc})
    now = open(img, "rb").read()
    recipe = {"kind": "mmp", "bs": bs, "steps": log}
    for f in (img, und):
        if os.path.exists(f):
            os.unlink(f)
    if rc != 0:
        return recipe, "e2undo exit %d: %s" % (rc, out[-200:])
    if now != orig:
        bad = [i for i in range(min(len(orig), len(now))) if now[i] != orig[i]]
        return recipe, "after e2undo the device differs from its original contents (%d bytes differ, first at byte %s = block %s)" % (len(bad), bad[0] if bad else "-", bad[0] // bs if bad else "-")
    return recipe, None


def nowrite_chain(src, r, idx):
    """the first recorded run writes nothing (debugfs -w -z with a read-only request); a second tool then records to the
    same undo file, or e2undo is given the record of the empty run alone"""
    os.makedirs(WORK, exist_ok=True)
    img = os.path.join(WORK, "nw_%d.img" % idx)
    und = os.path.join(WORK, "nw_%d.undo" % idx)
    for f in (img, und):
        if os.path.exists(f):
            os.unlink(f)
    T = lambda name: os.path.join(src, name)
    env = e2v.tool_env(src, E2FSPROGS_UNDO_DIR=WORK)
    bs = [1024, 4096][idx % 2]
    e2v.sh([T("misc/mke2fs"), "-q", "-F", "-t", "ext4", "-b", str(bs), img, "16M"], env=env, timeout=120)
    orig = open(img, "rb").read()
    steps = [[T("debugfs/debugfs"), "-w", "-z", und, "-R", "stat /", img]]
    if (idx // 2) % 2 == 0:
        steps.append([T("misc/tune2fs"), "-z", und, "-L", "second", img])
    log = []
    for st in steps:
        rc, out = e2v.sh(st, env=env, timeout=180)
        log.append({"cmd": " ".join(os.path.basename(x) if "/" in x else x for x in st), "rc": rc})
        if rc != 0:
            return {"kind": "nowrite", "bs": bs, "steps": log}, "a recorded run after one that wrote nothing fails: %s" % out[-200:]
    rc, out = e2v.sh([T("misc/e2undo"), und, img], timeout=120)
    log.append({"cmd": "e2undo", "rc": rc})
    now = open(img, "rb").read()
    recipe = {"kind": "nowrite", "bs": bs, "steps": log}
    for f in (img, und):
        if os.path.exists(f):
            os.unlink(f)
    if rc != 0:
        return recipe, "e2undo exit %d: %s" % (rc, out[-200:])
    if now != orig:
        return recipe, "after e2undo the device differs from its original contents"
    return recipe, None


def unfinished_mark_chain(src, r, idx):
    """a recording run that ends without finishing its record (UNDO_IO_SIMULATE_UNFINISHED), on a filesystem at byte
    offset 0 / 4096 / 1536 of the device: e2undo restores every block and marks that filesystem as needing a check"""
    os.makedirs(WORK, exist_ok=True)
    img = os.path.join(WORK, "um_%d.img" % idx)
    und = os.path.join(WORK, "um_%d.undo" % idx)
    for f in (img, und):
        if os.path.exists(f):
            os.unlink(f)
    T = lambda name: os.path.join(src, name)
    env = e2v.tool_env(src, E2FSPROGS_UNDO_DIR=WORK)
    off = [0, 4096, 1536][idx % 3]
    rr = e2v.rng(1, "c12um", idx)
    open(img, "wb").write(bytes(rr.getrandbits(8) for _ in range(4096)) * (4 * 1024 + 8))
    dev = img + ("?offset=%d" % off if off else "")
    e2v.sh([T("misc/mke2fs"), "-q", "-F", "-t", "ext4", "-b", "1024"] + (["-E", "offset=%d" % off] if off else []) + [img, "12M"], env=env, timeout=120)
    orig = open(img, "rb").read()
    env2 = dict(env)
    env2["UNDO_IO_SIMULATE_UNFINISHED"] = "1"
    rc, out = e2v.sh([T("misc/tune2fs"), "-z", und, "-L", "unfinished", "-c", "9", dev], env=env2, timeout=120)
    log = [{"cmd": "UNDO_IO_SIMULATE_UNFINISHED=1 tune2fs -z um.undo -L unfinished -c 9 img%s" % dev[len(img):], "rc": rc}]
    rc, out = e2v.sh([T("misc/e2undo"), und, img], timeout=120)
    log.append({"cmd": "e2undo", "rc": rc})
    now = open(img, "rb").read()
    recipe = {"kind": "unfinished", "fs_offset": off, "steps": log}
    for f in (img, und):
        if os.path.exists(f):
            os.unlink(f)
    if rc != 0:
        return recipe, "e2undo exit %d: %s" % (rc, out[-200:])
    sb = off + 1024
    allowed = set(range(sb + 0x3A, sb + 0x3C)) | set(range(sb + 0x3FC, sb + 0x400)) | set(range(sb + 0x30, sb + 0x34)) | set(range(sb + 0x178, sb + 0x180))
    bad = [i for i in range(len(orig)) if now[i] != orig[i] and i not in allowed]
    if bad:
        return recipe, "after the unfinished run, e2undo leaves %d bytes different from the original outside s_state/s_wtime/s_kbytes_written/s_checksum, first at %d" % (len(bad), bad[0])
    if struct.unpack_from("<H", now, sb + 0x3A)[0] & 1:
        return recipe, "e2undo replayed an unfinished record ('Incomplete undo record; run e2fsck') and left the filesystem at offset %d marked clean" % off
    return recipe, None


def replay_chain(src, r, idx):
    """e2fsck -z on a filesystem whose journal needs recovery (replay, then the restarted check): e2undo must bring back
    the bytes the device had before e2fsck started"""
    os.makedirs(WORK, exist_ok=True)
    img = os.path.join(WORK, "rp_%d.img" % idx)
    und = os.path.join(WORK, "rp_%d.undo" % idx)
    dat = os.path.join(WORK, "rp_%d.dat" % idx)
    for f in (img, und):
        if os.path.exists(f):
            os.unlink(f)
    bs = r.choice([1024, 4096])
    T = lambda name: os.path.join(src, name)
    env = e2v.tool_env(src, E2FSPROGS_UNDO_DIR=WORK)
    e2v.sh([T("misc/mke2fs"), "-q", "-F", "-t", "ext4", "-b", str(bs), img, "16M" if bs == 1024 else "40M"], env=env, timeout=120)
    import extfmt
    fs = extfmt.Fs(img)
    kind = r.choice(["free", "bitmap"])
    if kind == "bitmap":
        blks = [fs.groups[0]["block_bitmap"], fs.groups[0]["inode_bitmap"]]      # replay leaves work for the check that follows
        open(dat, "wb").write(bytes(bs * len(blks)))
    else:
        blks = sorted(r.sample(range(fs.blocks_count // 2, fs.blocks_count - 8), 3))
        open(dat, "wb").write(b"".join((b"C12 replay %d " % b).ljust(bs, b"#") for b in blks))
    e2v.sh([T("debugfs/debugfs"), "-w", "-f", "-", img], input=("jo\njw -b %s %s\njc\n" % (",".join(map(str, blks)), dat)).encode(), env=env, timeout=120)
    orig = open(img, "rb").read()
    steps = [[T("e2fsck/e2fsck"), "-fy", "-z", und, img]]
    if r.random() < 0.5:
        steps.append([T("misc/tune2fs"), "-z", und, "-c", "9", img])
    log = []
    for st in steps:
        rc, out = e2v.sh(st, timeout=300, env=env)
        log.append({"cmd": " ".join(os.path.basename(x) if "/" in x else x for x in st), "rc": rc, "recovered": "recovering journal" in out})
    changed = open(img, "rb").read() != orig
    rc, out = e2v.sh([T("misc/e2undo"), und, img], timeout=120)
    log.append({"cmd": "e2undo", "rc": rc})
    now = open(img, "rb").read()
    recipe = {"kind": "journal replay under -z", "bs": bs, "journalled": kind, "blocks": blks, "steps": log}
    for f in (img, und, dat):
        if os.path.exists(f):
            os.unlink(f)
    if not log[0]["recovered"] or not changed:
        return recipe, "generator: e2fsck did not replay a journal (nothing was tested)"
    if rc != 0:
        return recipe, "e2undo exit %d: %s" % (rc, out[-300:])
    if now != orig:
        bad = [i for i in range(min(len(orig), len(now))) if now[i] != orig[i]]
        return recipe, "after e2undo the device differs from what it held before e2fsck -z (%d bytes differ, first at byte %s)" % (len(bad), bad[0] if bad else "-")
    return recipe, None


def order_chain(src, r, idx):
    """two undo files recorded one after the other: the older one must be refused while the newer changes are still on the device
    (the recorded superblock differs from the device's in fields other than UUID / times / write counter), and both restore in order"""
    os.makedirs(WORK, exist_ok=True)
    img = os.path.join(WORK, "ord_%d.img" % idx)
    ua, ub = os.path.join(WORK, "ord_%d.A" % idx), os.path.join(WORK, "ord_%d.B" % idx)
    for f in (img, ua, ub):
        if os.path.exists(f):
            os.unlink(f)
    T = lambda name: os.path.join(src, name)
    env = e2v.tool_env(src, E2FSPROGS_UNDO_DIR=WORK, E2FSPROGS_FAKE_TIME="1700000000")
    feats = r.choice([["-t", "ext2", "-O", "none"], ["-t", "ext2", "-O", "none", "-b", "2048"], ["-t", "ext2", "-O", "^resize_inode,^dir_index"]])
    e2v.sh([T("misc/mke2fs"), "-q", "-F"] + feats + [img, "8M"], env=env, timeout=120)
    s0 = open(img, "rb").read()
    second = r.choice([["-c", "20"], ["-e", "remount-ro"], ["-m", "1"], ["-r", "77"], ["-E", "stride=4"]])
    log = []
    for und, args in ((ua, ["-L", "first"]), (ub, second)):
        rc, out = e2v.sh([T("misc/tune2fs"), "-z", und] + args + [img], env=env, timeout=120)
        log.append({"cmd": "tune2fs -z %s %s" % (os.path.basename(und)[-1], " ".join(args)), "rc": rc})
    s2 = open(img, "rb").read()
    rc, out = e2v.sh([T("misc/e2undo"), ua, img], env=env, timeout=120)
    log.append({"cmd": "e2undo A (B still applied)", "rc": rc})
    recipe = {"kind": "undo files applied out of order", "mke2fs": feats, "steps": log}
    why = None
    if open(img, "rb").read() != s2:
        why = "e2undo of the older undo file changed the device although the newer changes are still applied (exit %d)" % rc
    elif rc == 0:
        why = "e2undo of the older undo file reports success while the device does not match its recorded state"
    else:
        rc1, _ = e2v.sh([T("misc/e2undo"), ub, img], env=env, timeout=120)
        rc2, _ = e2v.sh([T("misc/e2undo"), ua, img], env=env, timeout=120)
        log += [{"cmd": "e2undo B", "rc": rc1}, {"cmd": "e2undo A", "rc": rc2}]
        if rc1 or rc2:
            why = "undo files applied in order were refused (exit %d, %d)" % (rc1, rc2)
        elif open(img, "rb").read() != s0:
            why = "after undoing B then A the device differs from its original contents"
    for f in (img, ua, ub):
        if os.path.exists(f):
            os.unlink(f)
    return recipe, why


def killed_run(src, r, idx):
    """a recording run that ends abnormally (SIGKILL at its k-th device write, no exit handlers):
    e2undo must still restore every block and may only mark the filesystem as needing a check"""
    os.makedirs(WORK, exist_ok=True)
    img = os.path.join(WORK, "kill_%d.img" % idx)
    und = os.path.join(WORK, "kill_%d.undo" % idx)
    for f in (img, und):
        if os.path.exists(f):
            os.unlink(f)
    T = lambda name: os.path.join(src, name)
    bs = r.choice([1024, 2048, 4096])
    feats = r.choice(["-t ext4", "-t ext4 -O ^flex_bg", "-t ext3", "-t ext2"])
    env = e2v.tool_env(src, E2FSPROGS_UNDO_DIR=WORK)
    rc, out = e2v.sh([T("misc/mke2fs"), "-q", "-F", "-b", str(bs)] + feats.split() + [img, "12M"], env=env, timeout=120)
    if rc != 0:
        return {"mke2fs": feats, "rc": rc}, None
    if r.random() < 0.5:    # an earlier, complete recording run in the same undo file
        e2v.sh([T("misc/tune2fs"), "-z", und, "-L", "first", img], env=env, timeout=120)
        e2v.sh([T("misc/e2undo"), und, img], timeout=120)
        os.unlink(und)
    orig = open(img, "rb").read()
    menu = [
        ([T("debugfs/debugfs"), "-w", "-z", und, "-f", "-", img], ("write /etc/services svc\nmkdir d1\nwrite /etc/passwd d1/p\nset_super_value mnt_count 5\nmkdir d2\n").encode()),
        ([T("tune2fs") if False else T("misc/tune2fs"), "-z", und, "-O", "^has_journal" if "ext2" not in feats else "dir_index", "-c", "9", img], None),
        ([T("e2fsck/e2fsck"), "-fyD", "-z", und, img], None),
        ([T("resize/resize2fs"), "-z", und, img, "9M"], None),
    ]
    cmd, inp = r.choice(menu)
    # how many device writes does the complete run perform?
    probe = img + ".probe"
    open(probe, "wb").write(orig)
    pc = [probe if x == img else (und + ".probe" if x == und else x) for x in cmd]
    if os.path.exists(und + ".probe"):
        os.unlink(und + ".probe")
    rc, out, ev = e2v.traced(pc, probe, probe + ".trace", env=env, timeout=180, input=inp)
    nw = len([e for e in ev if e[0] == "W"])
    for f in (probe, probe + ".trace", und + ".probe"):
        if os.path.exists(f):
            os.unlink(f)
    if nw < 2:
        return {"cmd": os.path.basename(cmd[0]), "writes": nw}, None
    k = r.randint(2, nw)
    rc, out, ev = e2v.traced(cmd, img, img + ".trace", env=env, timeout=180, kill_at=k, input=inp)
    recipe = {"bs": bs, "features": feats, "cmd": " ".join(os.path.basename(x) if "/" in x else x for x in cmd), "device_writes": nw, "killed_at_write": k, "rc": rc}
    mid = open(img, "rb").read()
    if os.path.exists(und):
        # -n never writes: not on an unfinished record either (where the real run goes on to mark the filesystem)
        for fl in (["-n"], ["-n", "-f"]):
            e2v.sh([T("misc/e2undo")] + fl + [und, img], timeout=120)
            if open(img, "rb").read() != mid:
                return recipe, "e2undo %s on the record of the killed run wrote to the device" % " ".join(fl)
    rc2, out2 = e2v.sh([T("misc/e2undo"), und, img], timeout=120)
    if rc2 != 0 and "doesn't match the undo file" in out2:
        # the run died between recording the superblock copy and a later superblock write: the
        # property lets e2undo refuse a mismatching superblock unless forced
        if open(img, "rb").read() != mid:
            return recipe, "e2undo refused (superblock mismatch) but wrote to the device"
        recipe["forced"] = True
        rc2, out2 = e2v.sh([T("misc/e2undo"), "-f", und, img], timeout=120)
    recipe["e2undo_rc"] = rc2
    now = open(img, "rb").read()
    for f in (img + ".trace",):
        if os.path.exists(f):
            os.unlink(f)
    if not os.path.exists(und):
        if mid[:len(orig)] != orig:
            return recipe, "the device was modified but no undo file exists"
        return recipe, None
    bad = [i for i in range(len(orig)) if i >= len(now) or now[i] != orig[i]]
    # marking the filesystem as needing a check rewrites s_state (and with it s_wtime, the written-kilobytes counter and the checksum)
    allowed = set(range(1024 + 0x3A, 1024 + 0x3C)) | set(range(1024 + 0x3FC, 1024 + 0x400)) | set(range(1024 + 0x30, 1024 + 0x34)) | set(range(1024 + 0x178, 1024 + 0x180))
    bad = [i for i in bad if i not in allowed]
    if bad:
        return recipe, "after the killed run, e2undo (exit %d: %s) leaves %d bytes different from the original outside s_state/s_wtime/s_kbytes_written/s_checksum, first at %d" % (
            rc2, out2.strip().split("\n")[-1][:80], len(bad), bad[0])
    return recipe, None


def run(res, replay=None):
    tier, seed = res.tier, res.seed
    src = e2v.ensure_build()
    hexe = e2v.build_harness("h_undo", src)
    e2undo = os.path.join(src, "misc", "e2undo")
    pr = e2v.coq_property("C12")
    res.add_proof(pr)
    mexe = e2v.build_driver("undo", ["theories/Undo/UndoModel.vo"], ["undo_model"])
    res.cov["trusted_base"] = e2v.TRUSTED_COMMON + [
        "the real channel under the recorder is a flat byte array (C17 theorem read_latest for unix_io)",
        "qsort in e2undo is modelled by a stable insertion sort; replay order is proved irrelevant for disjoint regions",
        "undo file layout (header/key block codec) is parsed by the check (props/c12.py) but not modelled in Coq",
    ]
    res.cov["partial"] = ["short reads at end of device, block-size changes inside a recorded run, undo-file codec and checksum refusal: not in the proved model (exercised on the implementation)",
                          "tool-level chains (mke2fs/tune2fs/resize2fs/e2fsck/debugfs -z, devices whose length is not a multiple of the undo block size, e2fsck -z with a journal replay and restart) are sampled: 16 in the quick tier"]
    if replay:
        rp = json.load(open(replay))
        cases = [(rp["geom"], rp["ops"])]
    else:
        n = 200 if tier == "quick" else 8000
        cases = CORPUS + [gen_case(e2v.rng(seed, "c12", i), 14 if tier == "quick" else 30) for i in range(n)]
    stats = {"B|T": 0, "B!|T": 0, "off0": 0, "off_aligned": 0, "off_unaligned": 0, "ops": {}}
    bad_oracle, bad_corr = [], []
    CH = 150
    for base in range(0, len(cases), CH):
        chunk = cases[base:base + CH]
        rs = run_batch(hexe, mexe, e2undo, chunk, "b")
        for (g, ops), r in zip(chunk, rs):
            res.case(json.dumps([g, ops]), len(ops) >= 2)
            stats["B|T" if g["T"] % g["B"] == 0 else "B!|T"] += 1
            stats["off0" if g["off"] == 0 else ("off_aligned" if g["off"] % g["T"] == 0 else "off_unaligned")] += 1
            for o in ops:
                stats["ops"][o.split()[0]] = stats["ops"].get(o.split()[0], 0) + 1
            if base == 0 and len(res.cov["samples"]) < 3:
                res.sample({"geom": g, "ops": [o[:40] for o in ops], "saved_ranges": r["parsed"][4] if r["parsed"] else None})
            o, c = judge(g, ops, r)
            if o:
                bad_oracle.append((g, ops, o))
            elif c:
                bad_corr.append((g, ops, c))
    res.cov["correspondence"] = {"cases": len(cases), "mismatches": len(bad_corr), "distribution": stats,
                                 "compared": "device after the recorded run, saved byte ranges parsed from the undo file, device after e2undo; extracted model vs undo_io_manager+e2undo"}
    res.add_obligation("correspondence model=implementation on all generated histories", not bad_corr)

    # refusal sweep: a damaged undo file must be refused without writing
    sweep_n = 0
    sweep_bad = []
    r = e2v.rng(seed, "c12sweep")
    sw_cases = [gen_case(e2v.rng(seed, "c12s", i), 8, aligned_only=True) for i in range(4 if tier == "quick" else 40)]
    srs = run_batch(hexe, mexe, e2undo, [(g, ops) for g, ops in sw_cases], "s")
    for (g, ops), rr in zip(sw_cases, srs):
        if not rr["parsed"] or rr["rc"] != 0:
            continue
        # rebuild the recorded state: run again to have a fresh undo file + modified image
        again = run_batch(hexe, mexe, e2undo, [(g, ops)], "t")[0]
        und, img = again["und"], again["img"]
        und_bytes = open(und, "rb").read()
        offs = covered_bits(again["parsed"], und)
        after = again["after"]
        for _ in range(48 if tier == "quick" else 400):
            bo = r.choice(offs)
            bit = r.randint(0, 7)
            mod = bytearray(und_bytes)
            mod[bo] ^= 1 << bit
            open(und, "wb").write(mod)
            open(img, "wb").write(after)
            rc, out = e2v.sh([e2undo, und, img], timeout=60)
            sweep_n += 1
            now = open(img, "rb").read()
            if rc == 0 or now != after:
                sweep_bad.append({"geom": g, "ops": ops, "flip_byte": bo, "bit": bit, "rc": rc, "device_changed": now != after, "out": out[-200:]})
    res.cov["oracle"] = {"evaluations": len(cases) + sweep_n, "failures": len(bad_oracle) + len(sweep_bad),
                         "refusal_sweep_flips": sweep_n,
                         "statement": "after e2undo the device equals its original bytes over the original length; e2undo -n writes nothing; any single-bit flip in header, stored superblock, key blocks or recorded data makes e2undo exit non-zero without writing"}
    res.cov["rule"] = ("seeded random write histories through undo_io_manager over unix_io on a file: B,T in {1k,2k,4k} (incl. B not dividing T), fs offset 0 / multiple of T / unaligned, "
                       "block writes, byte-count writes, write_byte, zeroout, superblock-area writes, close+reopen (appending sessions); non-trivial = at least 2 operations")

    # tool-level chains appending to one undo file
    nch = 8 if tier == "quick" else 300
    chain_bad = []
    with concurrent.futures.ThreadPoolExecutor(8) as ex:
        outs = list(ex.map(lambda i: tool_chain(src, e2v.rng(seed, "c12chain", i), i), range(nch)))
        nsp = 4 if tier == "quick" else 120
        outs += list(ex.map(lambda i: tail_chain(src, e2v.rng(seed, "c12tail", i), i), range(nsp)))
        outs += list(ex.map(lambda i: replay_chain(src, e2v.rng(seed, "c12replay", i), i), range(nsp)))
        outs += list(ex.map(lambda i: order_chain(src, e2v.rng(seed, "c12order", i), i), range(nsp)))
        outs += list(ex.map(lambda i: mmp_chain(src, e2v.rng(seed, "c12mmp", i), i), range(8)))
        outs += list(ex.map(lambda i: nowrite_chain(src, e2v.rng(seed, "c12nw", i), i), range(4)))
        outs += list(ex.map(lambda i: unfinished_mark_chain(src, e2v.rng(seed, "c12um", i), i), range(3)))
    nch = len(outs)
    for i, (recipe, why) in enumerate(outs):
        if i < 2:
            res.sample({"tool_chain": recipe})
        if why:
            chain_bad.append((recipe, why))
    res.cov["oracle"]["tool_chains"] = nch
    res.cov["oracle"]["failures"] += len(chain_bad)
    res.cov["oracle"]["evaluations"] += nch
    for recipe, why in chain_bad[:2]:
        res.violation("oracle", {"chain": recipe, "note": why}, signature="c12chain:" + json.dumps([x["cmd"].split()[0] for x in recipe["steps"]]))

    # recording runs that end abnormally
    e2v.build_iotrace()
    nk = 16 if tier == "quick" else 400
    with concurrent.futures.ThreadPoolExecutor(8) as ex:
        kouts = list(ex.map(lambda i: killed_run(src, e2v.rng(seed, "c12kill", i), i), range(nk)))
    kill_bad = [(rc_, why) for rc_, why in kouts if why]
    res.sample({"killed_run": kouts[0][0]})
    res.cov["oracle"]["killed_runs"] = nk
    res.cov["oracle"]["killed_runs_with_undo_applied"] = sum(1 for rc_, _ in kouts if rc_.get("e2undo_rc") == 0)
    res.cov["oracle"]["failures"] += len(kill_bad)
    res.cov["oracle"]["evaluations"] += nk
    chain_bad += [({"steps": [{"cmd": rc_.get("cmd", "?")}], "killed": rc_}, why) for rc_, why in kill_bad]
    for rc_, why in kill_bad[:2]:
        res.violation("oracle", {"killed_run": rc_, "note": why}, signature="c12kill:" + rc_.get("cmd", "?").split()[0] + ":%s" % rc_.get("killed_at_write"))

    def fails(g, ops):
        rr = run_batch(hexe, mexe, e2undo, [(g, ops)], "m")[0]
        return judge(g, ops, rr)[0] is not None
    bad_oracle.sort(key=lambda x: 0 if x[0]['T'] % x[0]['B'] == 0 else 1)
    for g, ops, why in bad_oracle[:3]:
        small = list(ops)
        ch = True
        while ch:
            ch = False
            for i in range(len(small) - 1, -1, -1):
                cand = small[:i] + small[i + 1:]
                if cand and fails(g, cand):
                    small, ch = cand, True
        sig = "c12:blocksize-does-not-divide-undo-blocksize" if g["T"] % g["B"] else \
            "c12:" + json.dumps([g["B"], g["T"], g["off"], [o.split()[0] for o in small]])
        res.violation("oracle", {"geom": g, "ops": small, "note": why}, signature=sig)
    for sb in sweep_bad[:2]:
        res.violation("oracle", dict(sb, note="damaged undo file was not refused"), signature="c12flip:%d" % sb["flip_byte"])
    if not pr["ok"] and not bad_oracle and not sweep_bad and not chain_bad:
        res.violation("proof", {"theorem_file": "coq/theories/Properties_C12.v", "failed_at": pr["failed_at"],
                                "forbidden": pr["forbidden"], "log_tail": pr["log_tail"][-1500:]}, has_input=False)
    if bad_corr and not bad_oracle:
        g, ops, why = bad_corr[0]
        res.violation("correspondence", {"geom": g, "ops": ops, "why": why}, has_input=False)

# C18 - populating from a directory tree is exact; extraction returns the same data
import json, os, stat, struct, subprocess, hashlib, shutil, concurrent.futures
import e2v, extfmt
from extfmt import *
from props import c02

WORK = os.path.join(e2v.SCRATCH, "c18")
CONFIGS = [
    ("ext4_1k", ["-t", "ext4", "-b", "1024"]),
    ("ext4_4k", ["-t", "ext4", "-b", "4096"]),
    ("ext2_1k", ["-t", "ext2", "-b", "1024"]),
    ("ext3_2k", ["-t", "ext3", "-b", "2048", "-O", "^dir_index"]),
    ("ext4_nocsum", ["-t", "ext4", "-b", "1024", "-O", "^metadata_csum,^64bit"]),
    ("ext4_inline", ["-t", "ext4", "-b", "1024", "-O", "inline_data"]),
]
MTIME = 1600000000


def setup(src):
    e2v.build_driver("copychunk", ["theories/Populate/CopyChunk.vo", "theories/Populate/SeekAlign.vo"], ["copychunk_model"])


def make_tree(root, r, huge=False):
    """a host tree with the shapes the property lists; returns nothing (the manifest is read back with lstat)"""
    if os.path.exists(root):
        shutil.rmtree(root)
    os.makedirs(root)
    if huge:
        # data on both sides of the 4 GiB offset, nearly all of the file a hole
        with open(os.path.join(root, "huge_sparse"), "wb") as f:
            f.write(b"head" * 700)
            f.seek((1 << 32) - 5000)
            f.write(r.randbytes(9000))
            f.seek((1 << 32) + 3 * 4096 + 17)
            f.write(r.randbytes(6000))
            f.truncate((1 << 32) + 100000)
    dirs = [root]
    for i in range(r.randint(5, 11)):
        # names next to "." and "..": directories (and, below, files) that only start like them
        dnames = ["d%d" % i, "x" * r.choice([1, 40, 200, 255]) if i == 1 else "dir_%d" % i, "sp ace%d" % i,
                  "..data%d" % i, "...%d" % i, ".hidden%d" % i, "..%d" % i, ".x%d" % i]
        p = os.path.join(r.choice(dirs), dnames[i % 8] if i < 8 else r.choice(dnames))
        if len(os.path.relpath(p, root).split("/")) > 4 or os.path.exists(p):
            continue
        os.makedirs(p)
        dirs.append(p)
    files = []
    nf = r.randint(8, 40)
    for i in range(nf):
        d = r.choice(dirs)
        name = r.choice(["f%d" % i, "file_%d.dat" % i, "n" * r.choice([1, 100, 255]) + "", "\xe4\xf6%d" % i, "..f%d" % i, ".f%d" % i, "...%d" % i])
        p = os.path.join(d, name[:255])
        if os.path.lexists(p):
            continue
        kind = r.random()
        with open(p, "wb") as f:
            if kind < 0.12:
                pass                                                        # empty
            elif kind < 0.45:
                f.write(r.randbytes(r.choice([1, 59, 60, 61, 1023, 1024, 1025, 4095, 4096, 4097, 12000, 70000])))
            elif kind < 0.7:
                # sparse: holes made by seeking, plus blocks of explicit zeros (which must become holes too)
                pos = 0
                for _ in range(r.randint(1, 6)):
                    k = r.random()
                    if k < 0.4:
                        pos += r.choice([1024, 4096, 8192, 65536, 3000])
                        f.seek(pos)
                    elif k < 0.6:
                        f.write(bytes(r.choice([1024, 4096, 8192, 5000])))
                        pos = f.tell()
                    else:
                        f.write(r.randbytes(r.choice([1, 700, 1024, 4096, 9000])))
                        pos = f.tell()
                if r.random() < 0.5:
                    f.truncate(pos + r.choice([0, 1, 4096, 100000]))      # trailing hole
            else:
                for _ in range(r.randint(2, 30)):
                    f.write(r.randbytes(4096) if r.random() < 0.7 else bytes(4096))
        os.chmod(p, r.choice([0o644, 0o600, 0o755, 0o4755, 0o2755, 0o1777, 0o000, 0o444]))
        files.append(p)
    # symlink targets on both sides of the fast-symlink limit (60) and of what fits an inode body
    for i, tgt in enumerate(["t", "../x", "a" * 59, "b" * 60, "c" * 61, "d" * 90, "e" * 120, "/" + "p" * 200, "q/" * 400 + "z"]):
        p = os.path.join(r.choice(dirs), "sl%d" % i)
        if not os.path.lexists(p):
            os.symlink(tgt, p)
            if i in (1, 4):
                # a symbolic link with a second name: a hard-link group like any other
                q = os.path.join(r.choice(dirs), "sl%d_second_name" % i)
                try:
                    os.link(p, q, follow_symlinks=False)
                except OSError:
                    pass
    for i in range(r.randint(0, 3)):
        if files:
            p = os.path.join(r.choice(dirs), "hard%d" % i)
            if not os.path.lexists(p):
                os.link(r.choice(files), p)
    p = os.path.join(r.choice(dirs), "fifo")
    if not os.path.lexists(p):
        os.mkfifo(p)
        os.chmod(p, 0o640)
        q = os.path.join(r.choice(dirs), "fifo_second_name")       # hard links are not only for regular files
        if not os.path.lexists(q):
            os.link(p, q)
    for kind, nm in ((stat.S_IFCHR, "chr"), (stat.S_IFBLK, "blk")):
        p = os.path.join(r.choice(dirs), nm)
        try:
            if not os.path.lexists(p):
                os.mknod(p, kind | 0o660, os.makedev(r.randint(1, 250), r.randint(0, 250)))
                q = os.path.join(r.choice(dirs), nm + "_second_name")
                if not os.path.lexists(q):
                    os.link(p, q)
        except OSError:
            pass
    for p in files[:6]:
        try:
            os.setxattr(p, "user.c18", r.randbytes(r.choice([1, 30, 300])))
        except OSError:
            break
    for p in files[6:9] + dirs[1:2]:
        try:
            os.setxattr(p, "user.empty", b"")          # an attribute with an empty value is an attribute
            os.setxattr(p, "user.one", b"1")
        except OSError:
            break
    for p in files + dirs[1:]:
        try:
            os.chown(p, r.choice([0, 1000, 65534, 70000]), r.choice([0, 100, 70001]), follow_symlinks=False)
        except OSError:
            pass
    for d in dirs[1:]:
        os.chmod(d, r.choice([0o755, 0o700, 0o1777, 0o2775]))
    for dp, dn, fn in os.walk(root, topdown=False):
        for n in fn + dn:
            p = os.path.join(dp, n)
            try:
                os.utime(p, (MTIME, MTIME + (len(n) % 7)), follow_symlinks=False)
            except (OSError, NotImplementedError):
                pass
    os.utime(root, (MTIME, MTIME))


def restore_times(root):
    """reading the source updates its access times (relatime), and mke2fs copies them: they are an input"""
    for dp, dn, fn in os.walk(root, topdown=False):
        for n in fn + dn:
            try:
                os.utime(os.path.join(dp, n), (MTIME, MTIME + (len(n) % 7)), follow_symlinks=False)
            except (OSError, NotImplementedError):
                pass
    os.utime(root, (MTIME, MTIME))


def host_manifest(root):
    """path -> (kind, mode, uid, gid, size_or_rdev, links, digest/target[, xattrs])"""
    out = {}
    inos = {}
    for dp, dn, fn in os.walk(root):
        for n in [None] + dn + fn:
            p = dp if n is None else os.path.join(dp, n)
            if n is None and dp != root:
                continue
            st = os.lstat(p)
            rel = "/" + os.path.relpath(p, root) if p != root else "/"
            rel = rel.encode("utf-8", "surrogateescape").decode("latin1")
            m = st.st_mode
            if stat.S_ISDIR(m):
                names = sorted(x.encode("utf-8", "surrogateescape") for x in os.listdir(p)) + ([b"lost+found"] if p == root else [])
                ent = ("dir", m & 0o7777, st.st_uid, st.st_gid, 0, None, hashlib.sha256(b"\0".join(sorted(names))).hexdigest()[:16])
            elif stat.S_ISREG(m):
                ent = ("file", m & 0o7777, st.st_uid, st.st_gid, st.st_size, st.st_nlink, (extfmt.sparse_digest_of_file(p) if st.st_size > extfmt.BIG_FILE else hashlib.sha256(open(p, "rb").read() if m & 0o400 or os.geteuid() == 0 else b"").hexdigest()[:16]))
            elif stat.S_ISLNK(m):
                t = os.readlink(p).encode("utf-8", "surrogateescape")
                ent = ("symlink", 0o777, st.st_uid, st.st_gid, len(t), st.st_nlink, t.decode("latin1"))
            else:
                kind = "fifo" if stat.S_ISFIFO(m) else "chr" if stat.S_ISCHR(m) else "blk" if stat.S_ISBLK(m) else "sock"
                rdev = 0
                if kind in ("chr", "blk"):
                    ma, mi = os.major(st.st_rdev), os.minor(st.st_rdev)
                    rdev = (ma << 8) | mi if ma < 256 and mi < 256 else ((mi & 0xFF) | (ma << 8) | ((mi & ~0xFF) << 12))
                ent = (kind, m & 0o7777, st.st_uid, st.st_gid, rdev, st.st_nlink, "")
            try:
                xa = {k: os.getxattr(p, k, follow_symlinks=False) for k in os.listxattr(p, follow_symlinks=False) if k.startswith("user.")}
            except OSError:
                xa = {}
            if xa:
                ent = ent + (tuple(sorted((k, hashlib.sha256(v).hexdigest()[:12]) for k, v in xa.items())),)
            out[rel] = ent + (int(st.st_mtime),)
    return out


def compare(host, img_tree):
    """differences between the host manifest and the reader's view of the image"""
    bad = []
    for p, h in host.items():
        t = img_tree.get(p)
        if t is None:
            bad.append("%s missing in the filesystem" % p)
            continue
        hk, tk = list(h), list(t)
        if hk[0] == "dir":
            hk[5] = tk[5]                  # directory link counts follow the subdirectory count
        if p == "/":
            hk[1:4] = tk[1:4]              # the root directory is made by mke2fs, not copied
            hk[-1] = tk[-1]
        if hk != tk:
            names = ["kind", "mode", "uid", "gid", "size/rdev", "links", "content/target", "xattrs/mtime", "mtime"]
            diff = [names[i] if i < len(names) else "field%d" % i for i in range(max(len(hk), len(tk))) if i >= len(hk) or i >= len(tk) or hk[i] != tk[i]]
            bad.append("%s differs in %s (host %s, filesystem %s)" % (p, diff, hk[:6], tk[:6]))
    for p in img_tree:
        if p not in host and not p.startswith("/lost+found"):
            bad.append("%s exists only in the filesystem" % p)
    return bad


def holes_check(mexe, root, fs, img_tree, r):
    """model: which blocks of a regular file are mapped = the blocks of the source that are not all zero"""
    bad, n = [], 0
    cands = []
    for dp, dn, fn in os.walk(root):
        for f in fn:
            p = os.path.join(dp, f)
            st = os.lstat(p)
            if stat.S_ISREG(st.st_mode) and 0 < st.st_size <= 150000 and st.st_nlink == 1:
                cands.append(p)
    lines, meta = [], []
    for p in cands[:40]:
        data = open(p, "rb").read()
        lines.append("M %d 0 %s" % (fs.bs, data.hex()))
        meta.append((p, data))
    # files too large to hand over as bytes: their data extents (SEEK_DATA/SEEK_HOLE), widened by the extracted data_blk/hole_blk,
    # must contain every mapped block, and every block with a non-zero 1k piece must be mapped
    for dp, dn, fn in os.walk(root):
        for f in fn:
            p = os.path.join(dp, f)
            st = os.lstat(p)
            if not (stat.S_ISREG(st.st_mode) and st.st_size > extfmt.BIG_FILE):
                continue
            rel = ("/" + os.path.relpath(p, root)).encode("utf-8", "surrogateescape").decode("latin1")
            ino = lookup(fs, rel)
            if ino is None:
                continue
            fd = os.open(p, os.O_RDONLY)
            ranges, nonzero, pos = [], set(), 0
            try:
                while pos < st.st_size:
                    try:
                        d0 = os.lseek(fd, pos, os.SEEK_DATA)
                    except OSError:
                        break
                    h0 = os.lseek(fd, d0, os.SEEK_HOLE)
                    o = subprocess.run([mexe], input=("A %d %d %d\n" % (fs.bs, d0, h0)).encode(), stdout=subprocess.PIPE, timeout=30).stdout.decode().split()
                    ranges.append((int(o[0]) // fs.bs, int(o[1]) // fs.bs))
                    q = d0 - d0 % fs.bs
                    while q < h0:
                        if os.pread(fd, fs.bs, q).strip(b"\0"):
                            nonzero.add(q // fs.bs)
                        q += fs.bs
                    pos = h0
            finally:
                os.close(fd)
            m, _ = fs.file_map(ino, fs.inode(ino))
            n += 1
            outside = [l for l in m if not any(a <= l < b for a, b in ranges)]
            missing = [l for l in sorted(nonzero) if l not in m]
            if outside or missing:
                bad.append("%s (%d bytes): mapped blocks outside the widened data extents %s, blocks with data that are not mapped %s" % (rel, st.st_size, outside[:6], missing[:6]))
    if not lines:
        return bad, n
    out = subprocess.run([mexe], input=("\n".join(lines) + "\n").encode(), stdout=subprocess.PIPE, timeout=600).stdout.decode().split("\n")
    byname = {}
    for (p, data), o in zip(meta, out):
        rel = ("/" + os.path.relpath(p, root)).encode("utf-8", "surrogateescape").decode("latin1")
        want = sorted(set(int(x) for x in o.split()))
        # locate the inode through the tree walk
        ino = lookup(fs, rel)
        if ino is None:
            continue
        inode = fs.inode(ino)
        if inode["flags"] & INLINE_DATA_FL:
            continue
        m, _ = fs.file_map(ino, inode)
        have = sorted(k for k in m)
        n += 1
        if have != want:
            bad.append("%s: mapped blocks %s, the copy loop maps %s" % (rel, have[:12], want[:12]))
    return bad, n


def lookup(fs, path):
    ino = 2
    for comp in [c for c in path.split("/") if c]:
        ents = fs.dir_entries(ino)
        if ents is None:
            return None
        nxt = [child for name, child, ft in ents if name == comp.encode("latin1")]
        if not nxt:
            return None
        ino = nxt[0]
    return ino


def one_case(src, mexe, idx, seed, tier):
    r = e2v.rng(seed, "c18", idx)
    name, opts = CONFIGS[idx % len(CONFIGS)]
    root = os.path.join(WORK, "tree_%d" % idx)
    make_tree(root, r, huge=(idx == 1 or idx % 50 == 1))
    img = os.path.join(WORK, "p_%d.img" % idx)
    env = e2v.tool_env(src, E2FSPROGS_FAKE_TIME="1700000000")
    T = lambda p: os.path.join(src, p)
    cmd = [T("misc/mke2fs"), "-q", "-F"] + opts + ["-U", "5a5a5a5a-1111-2222-3333-444444444444", "-E", "hash_seed=01234567-89ab-cdef-0123-456789abcdef",
                                                    "-d", root, img, "48M"]
    recipe = {"config": name, "mke2fs": opts, "case_index": idx}
    problems, stat_ = [], {}
    host = host_manifest(root)
    for f in (img,):
        if os.path.exists(f):
            os.unlink(f)
    # reading the tree for the manifest has settled the access times (relatime); change and access times
    # of the source are inputs of mke2fs, so nothing touches the tree between the runs that are compared
    rc, out = e2v.sh(cmd, env=env, timeout=600)
    if rc != 0:
        shutil.rmtree(root, ignore_errors=True)
        return recipe, ["mke2fs -d failed: %s" % out[-300:]], {"outcome": "failed"}
    host2 = host_manifest(root)
    if host2 != host:
        problems.append("the source tree was modified by mke2fs -d")
    recipe["entries"] = len(host)
    rc2, out2 = e2v.sh([T("e2fsck/e2fsck"), "-fn", img], env=e2v.tool_env(src), timeout=600)
    if rc2 != 0:
        problems.append("e2fsck -fn exits %d on the populated filesystem: %s" % (rc2, out2[-300:].replace("\n", " | ")))
    inline = "inline_data" in " ".join(opts)
    if not inline:
        try:
            fs = Fs(img)
            t = tree(fs, with_times=True)
            problems += compare(host, t)[:6]
            cons = extfmt.consistency(fs)
            if cons:
                problems.append("independent reader: %s" % cons[:3])
            hb, n = holes_check(mexe, root, fs, t, r)
            stat_["files_vs_copy_model"] = n
            problems += hb[:4]
        except FormatError as ex:
            problems.append("independent reader rejects the filesystem: %s" % ex)
    # ---- extraction: rdump returns the same names, types, contents, link targets
    outd = os.path.join(WORK, "out_%d" % idx)
    shutil.rmtree(outd, ignore_errors=True)
    os.makedirs(outd)
    e2v.sh([T("debugfs/debugfs"), "-R", "rdump / %s" % outd, img], env=e2v.tool_env(src), timeout=600)
    back = host_manifest(outd)
    for p, h in host.items():
        if p == "/":
            continue
        b = back.get(p)
        if h[0] in ("fifo", "chr", "blk", "sock"):
            continue                                  # rdump does not recreate special files
        if b is None:
            problems.append("rdump: %s missing" % p)
        elif h[0] != b[0] or (h[0] != "dir" and h[6] != b[6]) or (h[0] == "file" and h[4] != b[4]):
            problems.append("rdump: %s differs (source %s size %s, extracted %s size %s)" % (p, h[0], h[4], b[0], b[4]))
        if len(problems) > 8:
            break
    # ---- reproducibility
    if idx % 3 == 0 and not problems:
        data1 = open(img, "rb").read()
        os.unlink(img)
        e2v.sh(cmd, env=env, timeout=600)
        if open(img, "rb").read() != data1:
            problems.append("two runs of mke2fs -d with the same UUID, hash seed and time differ")
        stat_["repro"] = True
    for p in (img,):
        if os.path.exists(p):
            os.unlink(p)
    shutil.rmtree(outd, ignore_errors=True)
    shutil.rmtree(root, ignore_errors=True)
    stat_["outcome"] = "populated"
    return recipe, problems, stat_


def run(res, replay=None):
    tier, seed = res.tier, res.seed
    os.makedirs(WORK, exist_ok=True)
    src = e2v.ensure_build()
    pr = e2v.coq_property("C18")
    res.add_proof(pr)
    mexe = e2v.build_driver("copychunk", ["theories/Populate/CopyChunk.vo", "theories/Populate/SeekAlign.vo"], ["copychunk_model"])
    res.cov["trusted_base"] = e2v.TRUSTED_COMMON + [
        "lib/extfmt.py tree(): the check's own reader of the populated filesystem; host side: lstat/readlink/listxattr of the generated tree",
        "host filesystem behaviour (sparse files, xattr and mknod support of the sandbox) is an input, not modelled",
    ]
    res.cov["partial"] = ["proved: the copy loop of copy_file_chunk (content exact for every data and block size, all-zero pieces stay holes); directory walking, inode field transfer, hard-link detection, xattr copy and the tar input path are validated per run by the manifest comparison",
                          "inline_data filesystems are judged through debugfs rdump and e2fsck only (outside the independent reader)"]
    n = 18 if tier == "quick" else 1200
    idxs = [json.load(open(replay))["recipe"]["case_index"]] if replay else list(range(n))
    with concurrent.futures.ThreadPoolExecutor(8) as ex:
        outs = list(ex.map(lambda i: one_case(src, mexe, i, seed, tier), idxs))
    bad = []
    nfiles = 0
    for recipe, problems, st in outs:
        res.case(json.dumps(recipe), st.get("outcome") == "populated")
        nfiles += st.get("files_vs_copy_model", 0)
        if len(res.cov["samples"]) < 3:
            res.sample(recipe)
        if problems:
            bad.append((recipe, problems))
    res.cov["correspondence"] = {"files_compared_with_copy_model": nfiles, "mismatches": sum(1 for rc_, p in bad if any("copy loop maps" in x for x in p)),
                                 "compared": "set of mapped logical blocks of each populated regular file vs the extracted mapped_blocks on the source bytes"}
    res.cov["oracle"] = {"evaluations": len(outs), "failures": len(bad),
                         "statement": "host manifest (type, mode, owner, size, link count, content, symlink target, rdev, xattrs, mtime) = the reader's view of the filesystem; e2fsck -fn exit 0; independent reader consistent; source untouched; debugfs rdump returns the same names, types, contents and targets; byte-identical second run"}
    res.cov["rule"] = "generated host trees: depth <= 4, names of 1..255 bytes incl. non-ASCII and spaces, sizes 0..70000 around 60/1024/4096 boundaries, sparse layouts with seek holes, explicit zero blocks and trailing holes, symlinks 1..801 bytes around 60, hard links, fifo/devices, setuid/sticky/000 modes, owners above 65535, xattrs; 6 feature sets"
    res.add_obligation("copy-loop model = mapped blocks of every compared file", not any("copy loop maps" in x for rc_, p in bad for x in p))

    def sig(recipe, problems):
        if "inline_data" in " ".join(recipe["mke2fs"]) and all("rdump" in p or "e2fsck" in p for p in problems):
            return "c18:inline-data-populate"
        return "c18:" + hashlib.sha256(json.dumps(recipe).encode()).hexdigest()[:12]
    bad.sort(key=lambda b: 1 if sig(*b).startswith("c18:inline") else 0)
    for recipe, problems in bad[:3]:
        res.violation("oracle", {"recipe": recipe, "problems": problems[:6]}, signature=sig(recipe, problems))
    if not pr["ok"] and not bad:
        res.violation("proof", {"theorem_file": "coq/theories/Properties_C18.v", "failed_at": pr["failed_at"],
                                "forbidden": pr["forbidden"], "log_tail": pr["log_tail"][-1500:]}, has_input=False)

# C08 - resize2fs preserves every file and leaves a consistent filesystem
import json, os, re, struct, subprocess, hashlib, shutil, concurrent.futures
import e2v, extfmt, mkimg
from extfmt import *
from props import c02

WORK = os.path.join(e2v.SCRATCH, "c08")

CONFIGS = [
    ("ext4_1k", ["-t", "ext4", "-b", "1024"]),
    ("ext4_4k", ["-t", "ext4", "-b", "4096"]),
    ("ext4_1k_g2048", ["-t", "ext4", "-b", "1024", "-g", "2048", "-N", "1024"]),
    ("ext4_metabg", ["-t", "ext4", "-b", "1024", "-O", "meta_bg,^resize_inode", "-g", "1024", "-N", "1024"]),
    ("ext4_64bit_noflex", ["-t", "ext4", "-b", "2048", "-O", "64bit,^flex_bg"]),
    ("ext3", ["-t", "ext3", "-b", "1024"]),
    ("ext2_nosparse", ["-t", "ext2", "-b", "1024", "-O", "^sparse_super,^resize_inode"]),
    ("ext4_ss2", ["-t", "ext4", "-b", "1024", "-O", "sparse_super2"]),
    ("ext4_quota", ["-t", "ext4", "-b", "1024", "-O", "quota"]),
    ("ext4_nocsum", ["-t", "ext4", "-b", "1024", "-O", "^metadata_csum,uninit_bg"]),
    ("ext4_norsz_g256", ["-t", "ext4", "-b", "1024", "-O", "^resize_inode", "-g", "256", "-N", "768"]),     # growing moves inode tables
    ("ext4_fewinodes", ["-t", "ext4", "-b", "1024", "-g", "2048", "-N", "400"]),                             # shrinking renumbers inodes
    ("ext4_fewinodes_linear", ["-t", "ext4", "-b", "1024", "-O", "^dir_index", "-g", "2048", "-N", "400"]),            # linear directories keep their emptied blocks
    ("ext2_norsz_g256", ["-t", "ext2", "-b", "1024", "-O", "^resize_inode", "-g", "256", "-N", "1024"]),               # no flex_bg: growing past the descriptor blocks moves inode tables (move_itables flushes in mid-run)
    ("ext4_inline_fewinodes", ["-t", "ext4", "-b", "1024", "-O", "inline_data", "-g", "2048", "-N", "400"]),  # ... referenced from inline directories
]
KINDS = ["grow", "shrink", "min", "grow", "shrink", "same"]
START = ["12M", "20M", "33M", "64M"]
REFUSALS = ["New size smaller than minimum", "New size too large", "Nothing to do", "is already"]


def setup(src):
    e2v.build_driver("resize", ["theories/Resize/ResizeGeom.vo"], ["resize_model"])
    e2v.build_iotrace()


def same_fs(d0, d1, stride=False):
    """byte identity except the write time, written-kilobytes counter and checksum of the primary superblock
    (stride: and s_raid_stride - a request that is not refused stores the -S value it was given, also when there is nothing to resize)"""
    a, b = bytearray(d0), bytearray(d1[:len(d0)])
    for buf in (a, b):
        for lo, hi in ((0x30, 0x34), (0x178, 0x180), (0x3FC, 0x400)) + (((0x164, 0x166),) if stride else ()):
            buf[1024 + lo:1024 + hi] = bytes(hi - lo)
    return a == b


def tree_of(path):
    try:
        fs = Fs(path)
        fs.inline = True        # inline-data files and directories are read too (names and inode numbers matter after a renumbering)
        return tree(fs)
    except FormatError as ex:
        return {"<error>": str(ex)}


class _Tagged(list):
    """protocol letters; .at[i] is the index (in the raw trace) of the event that produced letter i"""
    def __init__(self):
        super().__init__()
        self.at = []
        self.cur = -1

    def append(self, x):
        super().append(x)
        self.at.append(self.cur)


def classify(base, ev, old_end, where=None):
    """real write trace -> protocol events (E sb write with error flag set, C sb write flag clear,
    O other change inside the old filesystem extent, N other change beyond it, F sync)"""
    disk = bytearray(base)
    s = _Tagged()
    for s.cur, e in enumerate(ev):
        if e[0] == "W":
            off, data = e[1], e[2]
            if off + len(data) > len(disk):
                disk.extend(b"\0" * (off + len(data) - len(disk)))
            changed = bytes(disk[off:off + len(data)]) != data
            disk[off:off + len(data)] = data
            if off < 2048 and off + len(data) > 1024:
                if changed:
                    s.append("E" if struct.unpack_from("<H", disk, 1024 + 0x3A)[0] & 2 else "C")
                if off < 1024 or off + len(data) > 2048:
                    if changed:
                        s.append("O")
            elif changed:
                s.append("O" if off < old_end else "N")
        elif e[0] == "A":
            s.append("O" if e[1] < old_end else "N")
        elif e[0] == "F":
            s.append("F")
    if where is not None:
        where.extend(s.at)
    return "".join(s)


def geom_line(fs, req):
    return "G %d %d %d %d %d %d %d %d %d %d %d %d" % (
        1 if fs.ro_compat & RO_SPARSE_SUPER else 0, 1 if fs.compat & COMPAT_SPARSE_SUPER2 else 0, fs.backup_bgs[0], fs.backup_bgs[1],
        fs.desc_per_block, fs.reserved_gdt, fs.first_data_block, fs.blocks_per_group, fs.bs, fs.inodes_per_group, fs.itb_per_group, req)


def ask(mexe, line):
    p = subprocess.run([mexe], input=(line + "\n").encode(), stdout=subprocess.PIPE, timeout=120)
    return p.stdout.decode().strip()


def pick_target(r, fs, kind):
    bpg, f = fs.blocks_per_group, fs.first_data_block
    cur = fs.blocks_count
    ov = 2 + fs.itb_per_group + 1 + fs.desc_blocks + fs.reserved_gdt
    if kind == "grow":
        g = r.randint(fs.groups_count, fs.groups_count * 4 + 2)
        delta = r.choice([0, 1, bpg - 1, ov + 49, ov + 50, ov + 51, r.randint(0, bpg - 1), ov - 1, 7])
        t = f + g * bpg + delta
        return max(t, cur + 1)
    if kind == "shrink":
        lo = max(cur // 3, 2000)
        t = r.randint(lo, cur - 1)
        if r.random() < 0.5:
            g = max(1, (t - f) // bpg)
            t = f + g * bpg + r.choice([0, 1, ov + 49, ov + 50, ov + 51, bpg - 1])
        return min(t, cur - 1)
    return cur


def one_case(src, mexe, idx, seed, tier):
    r = e2v.rng(seed, "c08", idx)
    name, opts = CONFIGS[idx % len(CONFIGS)]
    start = START[(idx // len(CONFIGS)) % len(START)]
    fill = r.choice([0.15, 0.35, 0.55])
    kw = {}
    if name in ("ext4_fewinodes", "ext4_inline_fewinodes", "ext4_fewinodes_linear") or (idx // len(CONFIGS)) % 5 == 4:
        fill = 0.1
        kw = {"filler_fraction": 0.8, "nfiles": 60}
    eahigh = False
    if not kw and name in ("ext3", "ext4_nocsum", "ext4_1k", "ext2_nosparse") and (idx // len(CONFIGS)) % 2 == 1:
        # attribute blocks high on the device, owned by inodes of the first groups
        fill = 0.1
        kw = {"ea_high_fraction": 0.7, "nfiles": 40}
        eahigh = True
    base = mkimg.cached_fs(src, WORK, name + ("_e" if eahigh else "_f" if kw else ""), opts, start, 1 + int(fill * 100), fill=fill, **kw)
    img = os.path.join(WORK, "r_%d.img" % idx)
    shutil.copy(base, img)
    fs0 = Fs(base)
    kind = KINDS[(idx // len(CONFIGS)) % len(KINDS)] if idx < 4 * len(CONFIGS) else r.choice(KINDS)
    if eahigh:
        kind = r.choice(["shrink", "min", "shrink"])
    if name == "ext2_norsz_g256":
        kind = "grow"
    env = e2v.tool_env(src, RESIZE2FS_FORCE_LAZY_ITABLE_INIT="1") if r.random() < 0.5 else e2v.tool_env(src)
    if kind == "min":
        args = ["-M"]
        req = None
    else:
        req = pick_target(r, fs0, kind)
        if eahigh and kind == "shrink":
            req = fs0.blocks_count // 2 + r.randint(0, fs0.blocks_count // 8)
        elif kw and kind == "shrink" and fs0.groups_count > 2 and (r.random() < 0.7 or "inline" in name or "fewinodes" in name):
            # drop only the last group(s): their block-less inodes are renumbered while no block has to move
            req = fs0.first_data_block + (fs0.groups_count - (2 if ("inline" in name or "fewinodes" in name) else r.choice([1, 1, 2]))) * fs0.blocks_per_group
        args = [str(req)]
    extra = r.choice([[], [], ["-f"], ["-p"]])
    if kind == "grow" and req is not None and not (fs0.incompat & (INCOMPAT_FLEX_BG | INCOMPAT_META_BG)) and r.random() < 0.6:
        # RAID stride without flex_bg: the staggered bitmap position of a new group at (and next to) the last offset of its span
        import math
        f_, bpg_ = fs0.first_data_block, fs0.blocks_per_group
        G2 = -(-(req - f_) // bpg_)
        db2 = -(-G2 // fs0.desc_per_block)
        for g in range(fs0.groups_count, G2):
            gfirst = f_ + g * bpg_
            glast = min(gfirst + bpg_ - 1, req - 1)
            first_free = gfirst + ((1 + db2 + fs0.reserved_gdt) if fs0.bg_has_super(g) else 0)
            span = glast - (first_free + fs0.itb_per_group) + 1
            if span > 2 and math.gcd(g, span) == 1:
                t = (span - 1 + r.choice([0, 0, 0, -1, 1])) % span
                stride = t * pow(g, -1, span) % span
                if stride:
                    extra = extra + ["-S", str(stride)]
                    break
    recipe = {"config": name, "mke2fs": opts, "start": start, "fill": fill, "kind": kind, "args": extra + args, "case_index": idx}
    t0 = tree_of(base)
    data0 = open(base, "rb").read()
    rc, out, ev = e2v.traced([os.path.join(src, "resize/resize2fs")] + extra + [img] + args, img, img + ".trace", env=env, timeout=600)
    problems, stat = [], {"rc": rc, "kind": kind, "events": len(ev)}
    m_req = re.search(r"Resizing the filesystem on \S+ to (\d+) \(", out)
    m_now = re.search(r"is now (\d+) \(", out)
    if rc == 0 and m_req and m_now:
        requested, now = int(m_req.group(1)), int(m_now.group(1))
        stat["outcome"] = "resized"
        # ---- geometry correspondence
        ans = ask(mexe, geom_line(fs0, requested))
        stat["model"] = ans
        try:
            fs1 = Fs(img)
        except FormatError as ex:
            fs1 = None
            problems.append("result unreadable: %s" % ex)
        if fs1:
            if ans.startswith("OK"):
                _, B, G, D = ans.split()
                if (int(B), int(G)) != (fs1.blocks_count, fs1.groups_count) or int(B) != now or fs1.inodes_count != int(G) * fs1.inodes_per_group:
                    problems.append("geometry differs from the model: model blocks=%s groups=%s, observed blocks=%d groups=%d inodes=%d reported=%d"
                                    % (B, G, fs1.blocks_count, fs1.groups_count, fs1.inodes_count, now))
            else:
                problems.append("model says %s for request %d but resize2fs succeeded" % (ans, requested))
            if os.path.getsize(img) < fs1.blocks_count * fs1.bs:
                problems.append("image file shorter than the filesystem")
            if fs1.state & 2:
                problems.append("error flag left set after a successful resize")
        # ---- files and consistency
        t1 = tree_of(img)
        if t1 != t0:
            problems.append("files changed: %s" % sorted(p for p in set(t0) | set(t1) if t0.get(p) != t1.get(p))[:5])
        cons = c02.judge_consistency(img)
        if cons:
            problems.append("result inconsistent: %s" % cons[:3])
        rc2, out2 = e2v.sh([os.path.join(src, "e2fsck/e2fsck"), "-fn", img], env=e2v.tool_env(src), timeout=300)
        if rc2 != 0:
            problems.append("e2fsck -fn exits %d after resize: %s" % (rc2, out2[-300:].replace("\n", " | ")))
        # ---- crash protocol on the real write trace
        at = []
        evs = classify(data0, ev, fs0.blocks_count * fs0.bs, at)
        # the final rewrite of the primary superblock is a run of small writes (write_primary_superblock writes only the
        # changed fields, lowest offset first): the property speaks of the points "until the final rewrite", so the
        # states inside that run are not sampled
        final_rewrite = at[evs.rindex("E") + 1 + evs[evs.rindex("E") + 1:].index("C")] if "E" in evs and "C" in evs[evs.rindex("E") + 1:] else len(ev)
        stat["trace"] = evs[:40] + ("..." if len(evs) > 80 else "") + evs[-40:] if len(evs) > 80 else evs
        pa = ask(mexe, "P " + evs)
        if "O" in evs and pa != "1":
            problems.append("write trace violates the error-flag protocol (model checker): %s" % stat["trace"])
        if "O" in evs:
            first_o = evs.index("O")
            if "E" not in evs[:first_o] or "F" not in evs[evs.index("E"):first_o]:
                problems.append("first modifying write is not preceded by a flushed superblock carrying the error flag")
        # ---- sampled crash images must be repairable and flagged
        nsamp = 2 if tier == "quick" else 6
        widx = [i for i, e in enumerate(ev) if e[0] in ("W", "A") and i < final_rewrite]
        if "O" in evs and len(widx) > 4:
            for k in sorted(r.sample(widx[2:-1], min(nsamp, len(widx) - 3))):
                d = bytearray(data0)
                for e in ev[:k + 1]:
                    if e[0] == "W":
                        if e[1] + len(e[2]) > len(d):
                            d.extend(b"\0" * (e[1] + len(e[2]) - len(d)))
                        d[e[1]:e[1] + len(e[2])] = e[2]
                p = img + ".crash"
                open(p, "wb").write(d)
                try:
                    cfs = Fs(p)
                    flagged = bool(cfs.state & 2)
                except FormatError:
                    flagged = True
                rcn, _ = e2v.sh([os.path.join(src, "e2fsck/e2fsck"), "-n", p], env=e2v.tool_env(src), timeout=300)
                if rcn == 0 and not flagged:
                    tcr = tree_of(p)
                    bad = c02.judge_consistency(p)
                    if tcr != t0 or bad:
                        problems.append("crash after write %d: filesystem passes an unforced e2fsck -n without the error flag but is damaged (%s)" % (
                            k, "; ".join(bad[:3]) if bad else "file tree differs"))
                os.unlink(p)
                stat["crash_samples"] = stat.get("crash_samples", 0) + 1
    elif rc == 0:
        stat["outcome"] = "nothing_to_do"
        if not same_fs(data0, open(img, "rb").read(), stride="-S" in extra):
            problems.append("resize2fs reported nothing to do but changed the image")
    else:
        refused = any(x in out for x in REFUSALS) or not any(e[0] in ("W", "A") for e in ev)
        stat["outcome"] = "refused" if refused else "failed_midway"
        d1 = open(img, "rb").read()
        if refused and not same_fs(data0, d1):
            problems.append("refused request (%s) modified the filesystem" % out.strip().split("\n")[-1][:100])
        if not refused:
            try:
                f1 = Fs(img)
                if not f1.state & 2 and (tree_of(img) != t0 or c02.judge_consistency(img)):
                    problems.append("resize2fs failed (%s) leaving a damaged filesystem without the error flag" % out.strip().split("\n")[-1][:100])
            except FormatError:
                pass
        if req is not None:
            ans = ask(mexe, geom_line(fs0, req))
            stat["model"] = ans
    for p in (img, img + ".trace"):
        if os.path.exists(p):
            os.unlink(p)
    return recipe, problems, stat


def quota_extent_growth_case(src):
    """quota + extents, 1k blocks: a 293-block file in one extent near the end of a 32M filesystem whose low groups have
    200 one-block holes; shrinking to 8M moves the file into the holes, its extent tree grows by index/leaf blocks"""
    img = os.path.join(WORK, "qeg.img")
    T = lambda p_: os.path.join(src, p_)
    env = e2v.tool_env(src, E2FSPROGS_FAKE_TIME="1700000000")
    rr = e2v.rng(1, "c08qeg", 0)
    one, big, filler = (os.path.join(WORK, "qeg_" + n) for n in ("one", "big", "filler"))
    open(one, "wb").write(bytes(rr.getrandbits(8) for _ in range(1024)))
    open(big, "wb").write(bytes(rr.getrandbits(8) for _ in range(300000)))
    open(filler, "wb").write(b"x" * 14000000)
    recipe = {"config": "ext4_quota_holes", "mke2fs": ["-t", "ext4", "-b", "1024", "-O", "quota,^resize_inode"], "start": "32M", "kind": "shrink", "args": ["8M"],
              "case_index": -1, "directed": "quota_extent_growth"}
    e2v.sh([T("misc/mke2fs"), "-q", "-F", "-t", "ext4", "-b", "1024", "-O", "quota,^resize_inode", "-E", "lazy_itable_init=0", img, "32M"], env=env, timeout=120)
    cmds = ["write %s s%d" % (one, i) for i in range(1, 401)] + ["rm s%d" % i for i in range(1, 401, 2)] + ["write %s filler" % filler, "write %s big" % big, "rm filler"]
    e2v.sh([T("debugfs/debugfs"), "-w", "-f", "-", img], input=("\n".join(cmds) + "\n").encode(), env=env, timeout=300)
    e2v.sh([T("e2fsck/e2fsck"), "-fy", img], env=env, timeout=300)       # debugfs does not keep the quota files
    for f in (one, big, filler):
        os.unlink(f)
    stat = {"kind": "shrink"}
    if e2v.sh([T("e2fsck/e2fsck"), "-fn", img], env=env, timeout=300)[0] != 0:
        os.unlink(img)
        return recipe, [], dict(stat, outcome="setup not clean")
    t0 = tree_of(img)
    rc, out = e2v.sh([T("resize/resize2fs"), img, "8M"], env=env, timeout=600)
    stat["rc"] = rc
    problems = []
    if rc == 0:
        stat["outcome"] = "resized"
        if tree_of(img) != t0:
            problems.append("files changed")
        rc2, out2 = e2v.sh([T("e2fsck/e2fsck"), "-fn", img], env=env, timeout=300)
        if rc2 != 0:
            qs = [l for l in out2.split("\n") if l.endswith("? no")]
            only_quota = bool(qs) and all(l.startswith("Update quota info for quota type") for l in qs) and "[QUOTA WARNING] Usage inconsistent" in out2
            m = re.search(r"actual \((\d+), (\d+)\) != expected \((\d+), (\d+)\)", out2)
            if only_quota and m and m.group(2) == m.group(4) and int(m.group(1)) > int(m.group(3)):
                recipe["only_quota_blocks_undercharged"] = True
            problems.append("e2fsck -fn exits %d after a successful resize: %s" % (rc2, " | ".join(l for l in out2.split("\n") if "QUOTA" in l or l.endswith("? no"))[:300]))
    else:
        stat["outcome"] = "refused"
    os.unlink(img)
    return recipe, problems, stat


def run(res, replay=None):
    tier, seed = res.tier, res.seed
    os.makedirs(WORK, exist_ok=True)
    src = e2v.ensure_build()
    e2v.build_iotrace()
    pr = e2v.coq_property("C08")
    res.add_proof(pr)
    mexe = e2v.build_driver("resize", ["theories/Resize/ResizeGeom.vo"], ["resize_model"])
    res.cov["trusted_base"] = e2v.TRUSTED_COMMON + [
        "lib/extfmt.py tree() and consistency(): the check's own reading of files and of the format invariants",
        "harness/iotrace.c: write/fsync trace of the real resize2fs run; crash semantics: writes before a completed fsync are durable, later ones may be lost individually",
        "lib/mkimg.py population scripts (debugfs)",
    ]
    res.cov["partial"] = ["proved: the geometry retry loop of adjust_fs_info and the crash protocol (error flag); the block mover, inode renumbering, inode-table moves and bitmap rebuilding are validated per run by the tree comparison and the independent consistency reader, not modelled",
                          "online resize (mounted filesystem) is out of reach in the sandbox; bigalloc and inline_data are outside the independent reader"]
    n = 60 if tier == "quick" else 2400
    idxs = [json.load(open(replay))["recipe"]["case_index"]] if replay else list(range(n))
    with concurrent.futures.ThreadPoolExecutor(12) as ex:
        outs = list(ex.map(lambda i: one_case(src, mexe, i, seed, tier), idxs))
    if not replay or idxs == [-1]:
        outs = [o for o in outs if o[0].get("case_index") != -1] + [quota_extent_growth_case(src)]
    bad = []
    dist = {"outcome": {}, "kind": {}, "config": {}}
    crash = 0
    for recipe, problems, stat in outs:
        res.case(json.dumps(recipe), stat.get("outcome") == "resized")
        dist["outcome"][stat.get("outcome")] = dist["outcome"].get(stat.get("outcome"), 0) + 1
        dist["kind"][recipe["kind"]] = dist["kind"].get(recipe["kind"], 0) + 1
        dist["config"][recipe["config"]] = dist["config"].get(recipe["config"], 0) + 1
        crash += stat.get("crash_samples", 0)
        if len(res.cov["samples"]) < 3 and stat.get("outcome") == "resized":
            res.sample({"recipe": recipe, "model": stat.get("model"), "trace": stat.get("trace")})
        if problems:
            bad.append((recipe, problems, stat))
    res.cov["correspondence"] = {"resizes": dist["outcome"].get("resized", 0), "mismatches": sum(1 for b in bad if any("model" in p for p in b[1])),
                                 "compared": "blocks count, group count, inode count of the result vs resize_geom on the request printed by resize2fs; the real write trace judged by the extracted protocol_check"}
    res.cov["oracle"] = {"evaluations": len(outs), "failures": len(bad), "distribution": dist, "crash_images": crash,
                         "statement": "after a successful resize: identical tree, independent consistency, e2fsck -fn exit 0, size as reported; refused requests leave the filesystem unchanged; the error flag is on disk while the operation is partial"}
    res.cov["rule"] = "12 feature sets (one whose growth moves inode tables, one populated so that a shrink renumbers block-less inodes) x 4 start sizes x 3 fill levels x {grow, shrink, -M, same}; targets at group boundaries +- {0,1,overhead+49..51}; non-trivial = the filesystem was resized"
    res.add_obligation("geometry and protocol agree with the model on all runs", not any("model" in p for b in bad for p in b[1]))

    def sig(recipe, problems):
        if recipe.get("directed") == "quota_extent_growth" and recipe.get("only_quota_blocks_undercharged") and len(problems) == 1:
            return "c08:quota-not-charged-for-new-extent-blocks"
        return "c08:" + hashlib.sha256(json.dumps(recipe).encode()).hexdigest()[:12]
    bad.sort(key=lambda b: 1 if sig(b[0], b[1]).startswith("c08:quota-") else 0)
    for recipe, problems, stat in bad[:3] + [b for b in bad[3:] if sig(b[0], b[1]).startswith("c08:quota-")]:
        res.violation("oracle", {"recipe": recipe, "problems": problems[:5], "stat": stat}, signature=sig(recipe, problems))
    if not pr["ok"] and not bad:
        res.violation("proof", {"theorem_file": "coq/theories/Properties_C08.v", "failed_at": pr["failed_at"],
                                "forbidden": pr["forbidden"], "log_tail": pr["log_tail"][-1500:]}, has_input=False)

# C10 - directory operations keep the namespace exact, at every directory size
import json, os, re, struct, subprocess, hashlib, shutil, concurrent.futures
import e2v, extfmt
from extfmt import *

WORK = os.path.join(e2v.SCRATCH, "c10")
CONFIGS = [
    ("linear_1k", ["-t", "ext4", "-b", "1024", "-O", "^dir_index"], True),
    ("linear_nocsum_1k", ["-t", "ext4", "-b", "1024", "-O", "^dir_index,^metadata_csum"], True),
    ("ext2_linear_2k", ["-t", "ext2", "-b", "2048", "-O", "^dir_index"], True),
    ("htree_1k", ["-t", "ext4", "-b", "1024"], False),
    ("htree_4k", ["-t", "ext4", "-b", "4096"], False),
    ("htree_nocsum_1k", ["-t", "ext4", "-b", "1024", "-O", "^metadata_csum,^64bit"], False),
    ("nofiletype_1k", ["-t", "ext2", "-b", "1024", "-O", "^dir_index,^filetype"], True),
    ("ext3_linear_1k", ["-t", "ext3", "-b", "1024", "-O", "^dir_index"], True),
]


def setup(src):
    e2v.build_driver("dirblock", ["theories/DirBlock/DirBlock.vo", "theories/DirBlock/DxSearch.vo", "theories/DirBlock/Nlink.vo"], ["dirblock_model"])


def dir_blocks(fs, ino):
    """records of every block of a directory, checksum tail stripped: [[(ino, rec_len, name)]]"""
    inode = fs.inode(ino)
    m, _ = fs.file_map(ino, inode)
    tail = 12 if fs.has_csum else 0
    out = []
    for lblk in sorted(m):
        if lblk * fs.bs >= inode["size"]:
            continue
        blk = fs.block(m[lblk][0])
        out.append([(i, rl, bytes(nm)) for (o, i, rl, nl, ft, nm) in fs.dir_block_entries(blk[:fs.bs - tail])])
    return out


def fmt_block(b):
    return " ".join("%d:%d:%s" % (i, rl, nm.hex()) for i, rl, nm in b)


def parse_block(s):
    if s.strip() == "NONE":
        return None
    out = []
    for x in s.split():
        p = x.split(":")
        out.append((int(p[0]), int(p[1]), bytes.fromhex(p[2]) if len(p) > 2 else b""))
    return out


def ask(mexe, line):
    return subprocess.run([mexe], input=(line + "\n").encode(), stdout=subprocess.PIPE, timeout=60).stdout.decode().strip()


def lookup(fs, path):
    ino = 2
    for comp in [c for c in path.split("/") if c]:
        nxt = [child for name, child, ft in fs.dir_entries(ino) if name == comp.encode("latin1")]
        if not nxt:
            return None
        ino = nxt[0]
    return ino


def listing(fs, ino):
    return {name: child for name, child, ft in fs.dir_entries(ino) if name not in (b".", b"..")}


def dx_index(fs, ino):
    """decode the htree index of a directory: (root entries [(hash, logical block)], {node logical block: entries}, {leaf logical block: [names]});
    None when the directory is not indexed"""
    inode = fs.inode(ino)
    if not inode["flags"] & 0x1000:
        return None
    m, _ = fs.file_map(ino, inode)
    bs = fs.bs

    def entries(raw, off):
        limit, count = struct.unpack_from("<HH", raw, off)
        out = [(0, struct.unpack_from("<I", raw, off + 4)[0])]
        for i in range(1, count):
            h, b = struct.unpack_from("<II", raw, off + 8 * i)
            out.append((h, b))
        return out
    if 0 not in m:
        return None
    root_raw = fs.block(m[0][0])
    info_len, levels = root_raw[0x18 + 5], root_raw[0x18 + 6]
    root = entries(root_raw, 0x18 + info_len)
    nodes = {}
    leaf_blocks = [b for h, b in root]
    if levels:
        leaf_blocks = []
        for h, b in root:
            if b in m:
                nodes[b] = entries(fs.block(m[b][0]), 8)
                leaf_blocks += [bb for hh, bb in nodes[b]]
    leaves = {}
    for lb in leaf_blocks:
        if lb in m:
            leaves[lb] = [nm for (o, i, rl, nl, ft, nm) in fs.dir_block_entries(fs.block(m[lb][0])) if i]
    return root, nodes, leaves


def dx_hashes(src, img, d, names, env):
    """major hash of every name, computed by debugfs dx_hash with the filesystem's own algorithm and seed"""
    script = "".join("dx_hash %s\n" % n for n in names)
    rc, out = e2v.sh([os.path.join(src, "debugfs/debugfs"), "-f", "-", img], input=script.encode(), env=env, timeout=300)
    res = {}
    for m in re.finditer(r"Hash of (\S+) is (0x[0-9a-f]+)", out):
        res[m.group(1)] = int(m.group(2), 16)
    return res


def dx_model_leaf(mexe, idx3, h):
    root, nodes, _ = idx3
    line = "DX %d | %s" % (h, " ".join("%d:%d" % e for e in root))
    for b, ents in sorted(nodes.items()):
        line += " | %d %s" % (b, " ".join("%d:%d" % e for e in ents))
    if not nodes:
        line += " |"
    return ask(mexe, line).strip()


def dx_audit(src, mexe, img, fs, d, env):
    """every name of an indexed directory sits in the leaf that the index search (model) reaches for its hash;
    a leaf whose lower bound has the continuation bit may also hold names of the previous range"""
    di = lookup(fs, d)
    idx3 = dx_index(fs, di)
    if idx3 is None:
        return 0, []
    root, nodes, leaves = idx3
    allnames = [nm.decode("latin1") for lb in leaves for nm in leaves[lb] if nm not in (b".", b"..")]
    simple = [n for n in allnames if re.match(r"^[A-Za-z0-9_.-]+$", n)]
    hs = dx_hashes(src, img, d, simple, env)
    lows = {}
    for ents in [root] + list(nodes.values()):
        for h, b in ents:
            lows[b] = h
    bad, n = [], 0
    for lb, nms in leaves.items():
        for nm in nms:
            s_ = nm.decode("latin1")
            if s_ not in hs:
                continue
            n += 1
            want = dx_model_leaf(mexe, idx3, hs[s_])
            if want != str(lb) and not (lows.get(lb, 0) & 1):
                bad.append({"directory": d, "name": s_, "hash": "0x%08x" % hs[s_], "found in leaf (logical block)": lb, "index search reaches": want})
                if len(bad) >= 3:
                    return n, bad
    return n, bad


def one_case(src, mexe, idx, seed, tier):
    r = e2v.rng(seed, "c10", idx)
    name, opts, linear = CONFIGS[idx % len(CONFIGS)]
    raw_mode = linear and (idx // len(CONFIGS)) % 2 == 0        # raw link/unlink: block-level tie, no e2fsck
    img = os.path.join(WORK, "n_%d.img" % idx)
    env = e2v.tool_env(src)
    T = lambda p: os.path.join(src, p)
    if os.path.exists(img):
        os.unlink(img)
    rc, out = e2v.sh([T("misc/mke2fs"), "-q", "-F"] + opts + ["-N", "2048", img, "16M"], env=env, timeout=120)
    if rc != 0:
        return {"config": name}, ["mke2fs failed"], {}
    e2v.sh([T("debugfs/debugfs"), "-w", "-f", "-", img], input=b"mkdir d\nmkdir e\nwrite /etc/hostname seed\n", env=env, timeout=60)
    dirs = {"/d": {}, "/e": {}}          # spec: directory -> {name: kind}
    # some cases start from a directory of several blocks / an index with several leaves (and a second level)
    bulk = [0, 0, 60, 150, 400, 1200][(idx // len(CONFIGS)) % 6] if not (linear and (idx // len(CONFIGS)) % 2 == 0) else [0, 40, 130][(idx // len(CONFIGS) // 2) % 3]
    blockmapped = name.startswith(("ext2", "ext3", "nofiletype"))
    if blockmapped and linear and (idx // len(CONFIGS)) % 2 == 1:
        bulk = 240          # a block-mapped directory grows past 12 blocks: the expansion allocates an indirect block too
    if bulk:
        nmlen = r.choice([12, 40, 120]) if bulk != 240 else 100
        script = "".join("write /dev/null /d/%s\n" % ("bulk_%04d_" % i).ljust(nmlen, "z") for i in range(bulk))
        e2v.sh([T("debugfs/debugfs"), "-w", "-f", "-", img], input=script.encode(), env=env, timeout=600)
        for i in range(bulk):
            dirs["/d"][("bulk_%04d_" % i).ljust(nmlen, "z")] = "write"
        if not linear:
            # libext2fs builds linear directories; e2fsck -D turns them into indexed ones, later inserts go through dx_link
            e2v.sh([T("e2fsck/e2fsck"), "-fyD", img], env=env, timeout=300)
    fs = Fs(img)
    payload = fs.bs - (12 if fs.has_csum else 0)
    directed = []
    mkdir_burst = 45 if (bulk and not linear) else 0      # sub-directories into an indexed directory until leaves split
    if bulk and linear:
        # remove the first record of a later block, then the record behind it (its predecessor is an unused slot now)
        blks = dir_blocks(fs, lookup(fs, "/d"))
        for b in blks[1:3]:
            livenames = [nm.decode("latin1") for i, rl, nm in b if i and nm not in (b".", b"..")]
            if len(livenames) >= 3:
                directed += [livenames[0], livenames[1]]
    recreate = []
    if bulk and not linear:
        # names whose hash is the lower bound of a leaf: removing and re-creating them exercises the index search at the boundary
        ix = dx_index(fs, lookup(fs, "/d"))
        if ix:
            hs0 = dx_hashes(src, img, "/d", sorted(dirs["/d"]), env)
            bounds = {h & ~1 for ents in [ix[0]] + list(ix[1].values()) for h, b in ents[1:]}
            recreate = [n for n in sorted(hs0) if hs0[n] in bounds][:6]
    ops, problems = [], []
    dx_rows, dx_bad = 0, []
    corr, corr_bad = 0, []
    nops = r.randint(20, 80 if tier == "quick" else 400) + (45 if bulk and not linear else 0)
    burst = None
    for k in range(nops):
        d = "/d" if (directed or mkdir_burst) else r.choice(sorted(dirs))
        names = sorted(dirs[d])
        kind = r.random()
        if mkdir_burst:
            kind = 0.1
        elif burst:
            kind = burst[0]
            burst = (burst[0], burst[1] - 1) if burst[1] > 1 else None
        elif r.random() < 0.05:
            burst = (0.1, r.randint(10, 60))          # many creations in a row: the directory grows by blocks / index levels
        before_blocks = dir_blocks(fs, lookup(fs, d)) if linear else None
        forced = None
        if recreate and not mkdir_burst and k % 3 == 0:
            nm0 = recreate[0]
            if nm0 in dirs["/d"]:
                forced = ("rm", nm0)
            else:
                forced = ("mk", nm0)
                recreate.pop(0)
            d = "/d"
        if forced and forced[0] == "rm":
            nm = forced[1]
            cmd = "rm /d/%s" % nm
            expect = ("del", "/d", nm, dirs["/d"][nm])
        elif forced:
            nm = forced[1]
            cmd = "write /etc/hostname /d/%s" % nm
            expect = ("add", "/d", nm, "write")
        elif kind < 0.55 or not names:
            nl = r.choice([1, 2, 3, 4, 5, 8, 9, 12, 13, 40, 100, 200, 255]) if r.random() < 0.5 else r.randint(1, 30)
            nm = ("%s%d_" % (r.choice("abcxyz"), k)).ljust(nl, r.choice("qrs"))[:nl]
            if nm in dirs[d] or nm in (".", ".."):
                continue
            how = r.choice(["write", "write", "mkdir", "symlink", "mknod", "ln"] if raw_mode else ["write", "write", "mkdir", "symlink", "mknod"])
            if mkdir_burst:
                how = "mkdir"
                mkdir_burst -= 1
            cmd = {"write": "write /etc/hostname %s/%s", "mkdir": "mkdir %s/%s", "symlink": "symlink %s/%s /target/x", "mknod": "mknod %s/%s p",
                   "ln": "ln /seed %s/%s"}[how] % (d, nm)
            expect = ("add", d, nm, how)
        elif kind < 0.9 or directed:
            nm = r.choice(names)
            if directed and d == "/d" and directed[0] in dirs[d]:
                nm = directed.pop(0)
            elif directed and d == "/d":
                directed.pop(0)
            what = dirs[d][nm]
            if what == "mkdir":
                if ("%s/%s" % (d, nm)) in dirs and dirs["%s/%s" % (d, nm)]:
                    continue
                cmd = "rmdir %s/%s" % (d, nm)
            elif raw_mode or what == "ln":
                cmd = "unlink %s/%s" % (d, nm)
            else:
                cmd = "rm %s/%s" % (d, nm)
            expect = ("del", d, nm, what)
        else:
            cmd = "ls -l %s" % d
            expect = ("ls", d, None, None)
        rc, out = e2v.sh([T("debugfs/debugfs"), "-w", "-R", cmd, img], env=env, timeout=120)
        err = "\n".join(l for l in out.split("\n")[1:] if l.strip() and not l.startswith("Allocated inode"))
        ops.append(cmd)
        if expect[0] == "add" and expect[3] in ("write", "symlink", "mknod") and not err and r.random() < 0.25:
            # an attribute too large for the inode body: the object owns an attribute block, which its removal has to release
            big = os.path.join(WORK, "bigval")
            if not os.path.exists(big):
                open(big, "wb").write(b"v" * 600)
            e2v.sh([T("debugfs/debugfs"), "-w", "-R", "ea_set -f %s %s/%s user.big" % (big, expect[1], expect[2]), img], env=env, timeout=120)
            ops.append("ea_set -f <600 bytes> %s/%s user.big" % (expect[1], expect[2]))
        fs = Fs(img)
        dino = lookup(fs, d)
        if expect[0] == "ls":
            continue
        if expect[0] == "add":
            if err and expect[2].encode() not in listing(fs, dino):
                pass                                   # refused (e.g. no space): nothing may have changed
            else:
                dirs[d][expect[2]] = expect[3]
                if expect[3] == "mkdir":
                    dirs["%s/%s" % (d, expect[2])] = {}
        else:
            if not err or expect[2].encode() not in listing(fs, dino):
                dirs[d].pop(expect[2], None)
                dirs.pop("%s/%s" % (d, expect[2]), None)
        # ---- namespace = spec, for every directory
        for dd in sorted(dirs):
            di = lookup(fs, dd)
            if di is None:
                problems.append("op %d (%s): directory %s disappeared" % (k, cmd, dd))
                break
            try:
                have = set(n.decode("latin1") for n in listing(fs, di))
            except FormatError as ex:
                problems.append("op %d (%s): directory %s unreadable: %s" % (k, cmd, dd, ex))
                break
            if have != set(dirs[dd]):
                problems.append("op %d (%s): %s lists %s, expected %s" % (k, cmd, dd, sorted(have ^ set(dirs[dd]))[:4], "the reference set"))
                break
        if problems:
            break
        # ---- block-level tie (linear directories)
        if linear and before_blocks is not None:
            after = dir_blocks(fs, dino)
            nmb = expect[2].encode("latin1")
            pred = None
            if expect[0] == "add" and nmb in listing(fs, dino):
                ino_new = listing(fs, dino)[nmb]
                pred = [list(b) for b in before_blocks]
                for bi, b in enumerate(before_blocks):
                    a = parse_block(ask(mexe, "L %d %d %s | %s" % (payload, ino_new, nmb.hex(), fmt_block(b))))
                    if a is not None:
                        pred[bi] = a
                        break
                else:
                    pred.append([(ino_new, payload, nmb)])       # the directory grows by one block
            elif expect[0] == "del" and nmb not in listing(fs, dino):
                pred = [list(b) for b in before_blocks]
                for bi, b in enumerate(before_blocks):
                    a = parse_block(ask(mexe, "U %s | %s" % (nmb.hex(), fmt_block(b))))
                    if a is not None:
                        pred[bi] = a
                        break
            if pred is not None:
                corr += 1
                norm = lambda bl: [[(i, rl, nm if i else b"") for i, rl, nm in b] for b in bl]
                if norm(pred) != norm([list(b) for b in after]):
                    corr_bad.append({"op": cmd, "model": [fmt_block(b)[:300] for b in norm(pred)][:3], "observed": [fmt_block(b)[:300] for b in norm(after)][:3]})
                    break
    if not linear and not problems:
        for dd in ("/d", "/e"):
            n_, b_ = dx_audit(src, mexe, img, Fs(img), dd, env)
            dx_rows += n_
            dx_bad += b_
    recipe = {"config": name, "mke2fs": opts, "mode": "raw link/unlink" if raw_mode else "whole operations", "ops": ops[-40:], "nops": len(ops), "case_index": idx}
    if not raw_mode and not problems:
        rc, out = e2v.sh([T("e2fsck/e2fsck"), "-fn", img], env=env, timeout=300)
        if rc != 0:
            problems.append("e2fsck -fn exits %d after the sequence: %s" % (rc, " | ".join(l for l in out.split("\n") if "?" in l or "should be" in l)[:300]))
        # link counts
        fs = Fs(img)
        for dd in sorted(dirs):
            di = lookup(fs, dd)
            want = 2 + sum(1 for v in dirs[dd].values() if v == "mkdir")
            if fs.inode(di)["links"] != want:
                problems.append("directory %s has link count %d, expected %d" % (dd, fs.inode(di)["links"], want))
    if os.path.exists(img):
        os.unlink(img)
    return recipe, problems, {"corr": corr, "corr_bad": corr_bad, "nops": len(ops), "maxdir": max(len(v) for v in dirs.values()), "dx_rows": dx_rows, "dx_bad": dx_bad}


def dx_directed_case(src, mexe, which, k):
    """indexed directories in the two shapes that random sequences do not reach:
    wide  - a tree rebuilt by e2fsck -D whose first leaf covers most of the hash space (names more than 2^31 apart in one
            leaf), then insertions through the library until that leaf splits;
    tie   - two names with the same (legacy) hash that e2fsck -D places as the last entry of one leaf and the first of the
            next: the later leaf's bound has to carry the continuation bit"""
    env = e2v.tool_env(src)
    T = lambda p_: os.path.join(src, p_)
    img = os.path.join(WORK, "dxd_%s_%d.img" % (which, k))
    e2v.sh([T("misc/mke2fs"), "-q", "-F", "-t", "ext4", "-b", "1024", "-O", "^metadata_csum", "-N", "1024", "-E", "hash_seed=01234567-89ab-cdef-0123-456789abcdef", img, "8M"], env=env, timeout=120)
    names, later = [], []
    if which == "wide":
        n0 = [58, 66, 74, 90][k % 4]
        names = ["w%02d_%07d" % (k, i) for i in range(n0)]
        later = ["x%02d_%07d" % (k, i) for i in range(70)]
        pre = "mkdir d\n"
    else:
        pair, h = ["c0061817_name", "c0070665_name"], 3469679516
        i, low = 0, []
        while len(low) < (list(range(30, 38)) + list(range(64, 71)))[k]:
            nm = "c%07d_name" % i
            if extfmt.dirhash(0, nm.encode())[0] < h and nm not in pair:
                low.append(nm)
            i += 1
        high = []
        while len(high) < 30:
            nm = "c%07d_name" % i
            if extfmt.dirhash(0, nm.encode())[0] > h:
                high.append(nm)
            i += 1
        names = low + pair + high
        pre = "ssv def_hash_version legacy\nmkdir d\n"
    e2v.sh([T("debugfs/debugfs"), "-w", "-f", "-", img], input=(pre + "".join("write /dev/null /d/%s\n" % n for n in names)).encode(), env=env, timeout=300)
    e2v.sh([T("e2fsck/e2fsck"), "-fyD", img], env=env, timeout=300)
    if later:
        e2v.sh([T("debugfs/debugfs"), "-w", "-f", "-", img], input="".join("write /dev/null /d/%s\n" % n for n in later).encode(), env=env, timeout=300)
    recipe = {"config": "ext4 1k, no metadata_csum" + (", legacy hash" if which == "tie" else ""), "directed": which, "k": k, "case_index": -1,
              "ops": ["%d names, e2fsck -fyD%s" % (len(names), ", %d more names" % len(later) if later else "")]}
    problems = []
    fs = Fs(img)
    have = set(n.decode("latin1") for n in listing(fs, lookup(fs, "/d")))
    if have != set(names + later):
        problems.append("/d lists %s, expected the reference set" % sorted(have ^ set(names + later))[:4])
    n_, b_ = dx_audit(src, mexe, img, fs, "/d", env)
    rc, out = e2v.sh([T("e2fsck/e2fsck"), "-fn", img], env=env, timeout=300)
    if rc != 0:
        problems.append("e2fsck -fn exits %d after the sequence: %s" % (rc, " | ".join(l for l in out.split("\n") if "?" in l or "should be" in l)[:300]))
    shape = None
    ix = dx_index(fs, lookup(fs, "/d"))
    if ix and which == "tie":
        # was the shape reached: the pair split over two leaves
        where = {nm: lb for lb, nms in ix[2].items() for nm in nms}
        shape = where.get(b"c0061817_name") != where.get(b"c0070665_name")
    os.unlink(img)
    return recipe, problems, {"corr": 0, "corr_bad": [], "nops": len(names) + len(later), "maxdir": len(names) + len(later), "dx_rows": n_, "dx_bad": b_, "shape": shape}


def nlink_tie(src, mexe):
    """ext2fs_mkdir's bookkeeping of the parent's link count at and around EXT2_LINK_MAX, with and without dir_nlink, vs
    the extracted mkdir_parent (the proved rule; 65000 real sub-directories take minutes and belong to the thorough tier)"""
    env = e2v.tool_env(src)
    T = lambda p_: os.path.join(src, p_)
    rows, bad = 0, []
    for feat in ("dir_nlink", "^dir_nlink"):
        img = os.path.join(WORK, "nlink_%s.img" % feat.strip("^"))
        e2v.sh([T("misc/mke2fs"), "-q", "-F", "-t", "ext4", "-b", "1024", "-O", feat, "-N", "256", img, "4M"], env=env, timeout=120)
        e2v.sh([T("debugfs/debugfs"), "-w", "-R", "mkdir p", img], env=env, timeout=60)
        for n in (2, 3, 1, 64998, 64999, 65000, 65001, 65535):
            e2v.sh([T("debugfs/debugfs"), "-w", "-f", "-", img], input=("sif p links_count %d\nmkdir p/x%d\n" % (n, n)).encode(), env=env, timeout=60)
            fs = Fs(img)
            pi = lookup(fs, "/p")
            made = ("x%d" % n).encode() in listing(fs, pi)
            got = str(fs.inode(pi)["links"]) if made else "EMLINK"
            if not made and fs.inode(pi)["links"] != n:
                got = "refused, count %d" % fs.inode(pi)["links"]
            want = ask(mexe, "NL %d %d" % (0 if feat.startswith("^") else 1, n)).strip()
            rows += 1
            if got != want:
                bad.append({"feature": feat, "parent_links_count": n, "after ext2fs_mkdir": got, "model": want})
        os.unlink(img)
    return rows, bad


def nlink_real(src):
    """65010 real sub-directories in one directory: the stored count is what e2fsck expects"""
    env = e2v.tool_env(src)
    T = lambda p_: os.path.join(src, p_)
    img = os.path.join(WORK, "nlink_real.img")
    e2v.sh([T("misc/mke2fs"), "-q", "-F", "-t", "ext4", "-b", "4096", "-N", "70000", "-O", "^has_journal,^metadata_csum", img, "600M"], env=env, timeout=300)
    e2v.sh([T("debugfs/debugfs"), "-w", "-f", "-", img], input=("mkdir p\ncd p\n" + "".join("mkdir s%d\n" % i for i in range(65010))).encode(), env=env, timeout=1800)
    rc, out = e2v.sh([T("e2fsck/e2fsck"), "-fn", img], env=env, timeout=1800)
    os.unlink(img)
    return [] if rc == 0 else ["65010 sub-directories in /p, e2fsck -fn exits %d: %s" % (rc, " | ".join(l for l in out.split("\n") if "?" in l or "should be" in l)[:300])]


def hash_tie(src, seed, n):
    """the reader's own directory hashes (lib/extfmt.py dirhash: legacy / half_md4 / tea x signed / unsigned char) against
    debugfs dx_hash, which calls the library's ext2fs_dirhash2 with the filesystem's algorithm, flags and seed"""
    import extfmt as X
    env = e2v.tool_env(src)
    T = lambda p: os.path.join(src, p)
    img = os.path.join(WORK, "hash_tie.img")
    rows, bad = 0, []
    r = e2v.rng(seed, "c10hash")
    for alg in ("legacy", "half_md4", "tea"):
        for flag in (1, 2):
            if os.path.exists(img):
                os.unlink(img)
            e2v.sh([T("misc/mke2fs"), "-q", "-F", "-t", "ext4", "-E", "hash_seed=%08x-89ab-cdef-0123-456789abcdef" % r.getrandbits(32), img, "4M"], env=env, timeout=120)
            e2v.sh([T("debugfs/debugfs"), "-w", "-f", "-", img], input=("ssv def_hash_version %s\nssv flags %d\n" % (alg, flag)).encode(), env=env, timeout=60)
            sb = X.Fs(img).sb_raw
            hseed = struct.unpack_from("<4I", sb, 0xEC)
            names = []
            while len(names) < n:
                nm = bytes(r.choice(b"abcXYZ019_.\xc3\xa9\x80\xff\xe2") for _ in range(r.choice([1, 3, 4, 5, 15, 16, 17, 31, 32, 33, 40, 100, 255])))
                if nm[:1] != b"-" and nm not in names:
                    names.append(nm)
            p = subprocess.run([T("debugfs/debugfs"), "-f", "-", img], input=b"".join(b"dx_hash " + nm + b"\n" for nm in names), env=env,
                               stdout=subprocess.PIPE, stderr=subprocess.DEVNULL, timeout=120)
            got = re.findall(rb"is (0x[0-9a-f]+) \(minor (0x[0-9a-f]+)\)", p.stdout)
            if len(got) != len(names):
                bad.append({"algorithm": alg, "flags": flag, "note": "debugfs answered %d of %d requests" % (len(got), len(names))})
                continue
            for nm, (a, b) in zip(names, got):
                rows += 1
                mine = X.dirhash({"legacy": 0, "half_md4": 1, "tea": 2}[alg], nm, hseed, flag == 2)
                if mine != (int(a, 16), int(b, 16)):
                    bad.append({"algorithm": alg, "flags": flag, "name_hex": nm.hex(), "library": [a.decode(), b.decode()], "reader": ["0x%08x" % mine[0], "0x%08x" % mine[1]]})
    if os.path.exists(img):
        os.unlink(img)
    return rows, bad


def run(res, replay=None):
    tier, seed = res.tier, res.seed
    os.makedirs(WORK, exist_ok=True)
    src = e2v.ensure_build()
    pr = e2v.coq_property("C10")
    res.add_proof(pr)
    mexe = e2v.build_driver("dirblock", ["theories/DirBlock/DirBlock.vo", "theories/DirBlock/DxSearch.vo", "theories/DirBlock/Nlink.vo"], ["dirblock_model"])
    res.cov["trusted_base"] = e2v.TRUSTED_COMMON + [
        "lib/extfmt.py dir_entries()/dir_block_entries(): the check's own linear reading of every directory block (htree interior nodes are read as empty records)",
        "debugfs write/mkdir/symlink/mknod/ln/unlink/rm/rmdir are the front ends to ext2fs_link/ext2fs_unlink/ext2fs_mkdir; the reference is a Python dict per directory",
    ]
    res.cov["partial"] = ["proved: what link and unlink do to the records of one directory block (tiling kept, exactly one entry added / the first match removed, new record large enough); directory expansion, the htree insert path (dx_link: leaf split, index growth), hashing, mkdir/rmdir link-count bookkeeping and inline directories are validated per operation against the dict reference and by e2fsck, not modelled",
                          "the hash lookup of indexed directories is modelled (DxSearch.v: dx_search_covers) and audited per directory (dx_audit: every live entry inside the hash range of the leaf the index sends its hash to); the kernel itself is not run"]
    n = 32 if tier == "quick" else 1200
    idxs = [json.load(open(replay))["recipe"]["case_index"]] if replay else list(range(n))
    with concurrent.futures.ThreadPoolExecutor(12) as ex:
        outs = list(ex.map(lambda i: one_case(src, mexe, i, seed, tier), idxs))
        if not replay or idxs == [-1]:
            outs = [o for o in outs if o[0].get("case_index") != -1]
            outs += list(ex.map(lambda k: dx_directed_case(src, mexe, "wide", k), range(4)))
            tie = list(ex.map(lambda k: dx_directed_case(src, mexe, "tie", k), range(15)))
            outs += tie
            res.cov["directed_tie_shapes_reached"] = sum(1 for t in tie if t[2].get("shape"))
    bad, cbad, xbad = [], [], []
    corr = ops = dxr = 0
    maxdir = 0
    for recipe, problems, st in outs:
        res.case(json.dumps(recipe), st.get("nops", 0) >= 5)
        corr += st.get("corr", 0)
        ops += st.get("nops", 0)
        maxdir = max(maxdir, st.get("maxdir", 0))
        if len(res.cov["samples"]) < 2:
            res.sample({"config": recipe["config"], "mode": recipe.get("mode"), "ops": recipe.get("ops", [])[:6]})
        if problems:
            bad.append((recipe, problems))
        for c in st.get("corr_bad", [])[:1]:
            cbad.append((recipe, c))
        dxr += st.get("dx_rows", 0)
        for c in st.get("dx_bad", [])[:1]:
            xbad.append((recipe, c))
    res.cov["correspondence"] = {"block_updates_compared": corr, "mismatches": len(cbad),
                                 "compared": "records (inode, rec_len, name) of every block of a linear directory after each link/unlink vs the extracted link_block/unlink_block applied to the blocks before"}
    res.cov["oracle"] = {"evaluations": ops, "failures": len(bad), "largest_directory": maxdir,
                         "statement": "after every operation every directory lists exactly the reference set of names; at the end e2fsck -fn exit 0 and directory link counts = 2 + subdirectories"}
    res.cov["rule"] = "8 configurations (linear / htree, 1k-4k blocks, checksums and filetype on/off); names of 1..255 bytes at the rec_len thresholds; creation bursts that grow directories over several blocks and index levels; two directories; non-trivial = at least 5 operations"
    res.cov["correspondence"]["htree_names_checked"] = dxr
    res.cov["correspondence"]["htree_mismatches"] = len(xbad)
    res.cov["correspondence"]["htree_compared"] = "for every name of every indexed directory at the end of a sequence (incl. removed and re-created names whose hash is a leaf's lower bound): the leaf that holds the name vs the leaf the extracted dx_leaf reaches from the decoded index for the name's hash (hash by debugfs dx_hash)"
    res.add_obligation("block model = directory blocks after every link/unlink", not cbad)
    res.add_obligation("every name sits in the leaf the index search model reaches for its hash", not xbad)
    nrows, nbad = nlink_tie(src, mexe)
    res.cov["correspondence"]["link_count_rows"] = nrows
    res.cov["correspondence"]["link_count_mismatches"] = len(nbad)
    res.add_obligation("the parent's link count after ext2fs_mkdir = mkdir_parent (EXT2_LINK_MAX, dir_nlink)", not nbad)
    for c in nbad[:2]:
        res.violation("correspondence", {"link_count": c, "note": "ext2fs_mkdir leaves a parent link count other than the model's (theorems mkdir_link_count_*): e2fsck pass 4 expects 1 beyond EXT2_LINK_MAX links and the 16-bit field wraps at 65536"},
                      has_input=True, signature="c10nlink:%s:%s" % (c["feature"], c["parent_links_count"]))
    if tier != "quick" and not replay:
        for pmsg in nlink_real(src):
            bad.append(({"config": "ext4 4k, 70000 inodes", "ops": ["mkdir p; 65010 x mkdir p/sN"], "case_index": -1}, [pmsg]))
    hrows, hbad = hash_tie(src, seed, 25 if tier == "quick" else 400)
    res.cov["correspondence"]["hash_rows"] = hrows
    res.cov["correspondence"]["hash_mismatches"] = len(hbad)
    res.add_obligation("the reader's directory hashes = ext2fs_dirhash2 (legacy, half_md4, tea; signed and unsigned)", not hbad)
    for c in hbad[:1]:
        res.violation("correspondence", {"hash": c, "note": "the check's own directory hash and the library's differ (the htree clause of the independent reader rests on it)"}, has_input=True,
                      signature="c10hash:%s:%s" % (c.get("algorithm"), c.get("flags")))
    for recipe, problems in bad[:3]:
        res.violation("oracle", {"recipe": recipe, "problems": problems[:5]}, signature="c10:" + hashlib.sha256(json.dumps(recipe.get("ops", [])).encode()).hexdigest()[:12])
    for recipe, c in cbad[:2]:
        res.violation("correspondence", {"recipe": recipe, "drift": c, "note": "directory block records differ from the model of link_proc/unlink_proc"},
                      has_input=True, signature="c10blk:" + hashlib.sha256(json.dumps(c).encode()).hexdigest()[:12])
    for recipe, c in xbad[:2]:
        res.violation("oracle", {"recipe": recipe, "htree": c, "problems": ["a name is stored outside the hash range of its leaf: a lookup through the index (the kernel's) does not find it"]},
                      signature="c10dx:" + hashlib.sha256(json.dumps(recipe.get("ops", [])).encode()).hexdigest()[:12])
    if not pr["ok"] and not bad and not cbad and not xbad:
        res.violation("proof", {"theorem_file": "coq/theories/Properties_C10.v", "failed_at": pr["failed_at"],
                                "forbidden": pr["forbidden"], "log_tail": pr["log_tail"][-1500:]}, has_input=False)

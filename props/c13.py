# C13 - read-only invocations never modify the device
import json, os, hashlib, shutil, struct, concurrent.futures
import e2v, extfmt, corrupt
from props import c03
from jbd2enc import *

WORK = os.path.join(e2v.SCRATCH, "c13")


def setup(src):
    e2v.build_iotrace()


def sha(path):
    return hashlib.sha256(open(path, "rb").read()).hexdigest()


def make_states(src, seed, tier):
    """images in the states the property lists; returns [(label, path)]"""
    os.makedirs(WORK, exist_ok=True)
    out = []
    env = e2v.tool_env(src)
    T = lambda p: os.path.join(src, p)
    cfgs = corrupt.IMG_CONFIGS[:3] if tier == "quick" else corrupt.IMG_CONFIGS
    for name, opts, size in cfgs:
        base = corrupt.build_image(src, WORK, name, opts, size, 1)
        p = os.path.join(WORK, "st_clean_%s.img" % name)
        shutil.copy(base, p)
        out.append(("clean/" + name, p))
    # journal needing recovery
    r = e2v.rng(seed, "c13j")
    nm, op, sz = c03.BASES[1]
    jimg = c03.JImage(c03.base_image(src, nm, op, sz))
    targets = jimg.free_blocks(3, r)
    cfg0 = Cfg(jimg.bs, jimg.first, jimg.maxlen, jimg.uuid, INCOMPAT_CSUM3 | INCOMPAT_64BIT, 9, 0)
    txns, _ = c03.gen_txns(r, cfg0, targets)
    while len(txns) < 2:
        txns, _ = c03.gen_txns(r, cfg0, targets)
    p = os.path.join(WORK, "st_needs_recovery.img")
    c03.prepare(jimg, INCOMPAT_CSUM3 | INCOMPAT_64BIT, 9, 0, txns, p)
    out.append(("needs_recovery", p))
    # orphan list: unlink-while-open simulated by putting an in-use inode on the orphan list
    name, opts, size = corrupt.IMG_CONFIGS[0]
    base = corrupt.build_image(src, WORK, name, opts, size, 1)
    p = os.path.join(WORK, "st_orphan.img")
    shutil.copy(base, p)
    fs = extfmt.Fs(p)
    d = bytearray(fs.d)
    victim = corrupt.regular_files(fs)[3]
    import struct
    struct.pack_into("<I", d, 1024 + 0xE8, victim)                 # s_last_orphan
    a = fs.inode_loc(victim)
    struct.pack_into("<H", d, a + 26, 0)                           # i_links_count = 0
    struct.pack_into("<I", d, a + 20, 0)                           # i_dtime = next orphan (0 = end)
    corrupt.fix_inode_csum(fs, d, victim)
    corrupt.fix_sb_csum(fs, d)
    open(p, "wb").write(d)
    out.append(("orphan_list", p))
    # MMP
    p = os.path.join(WORK, "st_mmp.img")
    if os.path.exists(p):
        os.unlink(p)
    e2v.sh([T("misc/mke2fs"), "-q", "-F", "-t", "ext4", "-O", "mmp", "-b", "4096", p, "24M"], env=env, timeout=120)
    out.append(("mmp", p))
    # quota
    p = os.path.join(WORK, "st_quota.img")
    if os.path.exists(p):
        os.unlink(p)
    e2v.sh([T("misc/mke2fs"), "-q", "-F", "-t", "ext4", "-O", "quota", "-b", "1024", p, "8M"], env=env, timeout=120)
    out.append(("quota", p))
    # corrupted
    for i in range(3 if tier == "quick" else 40):
        rr = e2v.rng(seed, "c13c", i)
        name, opts, size = rr.choice(cfgs)
        base = corrupt.build_image(src, WORK, name, opts, size, 1)
        p = os.path.join(WORK, "st_corrupt_%d.img" % i)
        desc = corrupt.corrupt(base, p, rr)
        out.append(("corrupt:" + "; ".join(desc)[:160], p))
    return out


def invocations(src, img, undo):
    T = lambda p: os.path.join(src, p)
    out = os.path.join(WORK, "out.scratch")
    dbg = lambda cmd: [T("debugfs/debugfs"), "-R", cmd, img]
    return [
        ("e2fsck -n", [T("e2fsck/e2fsck"), "-n", img], True),
        ("e2fsck -fn", [T("e2fsck/e2fsck"), "-fn", img], True),
        ("debugfs ls", dbg("ls -l /"), True),
        ("debugfs stat+ex", dbg("stat /d1/frag"), True),
        ("debugfs htree", dbg("htree_dump /big"), True),
        ("debugfs logdump", dbg("logdump -a"), True),
        ("debugfs stats", dbg("stats"), True),
        ("debugfs icheck/ncheck", dbg("ncheck 12 13 14"), True),
        ("debugfs cat", dbg("cat /d1/plain"), True),
        ("debugfs ea_list", dbg("ea_list /d1/plain"), True),
        ("dumpe2fs", [T("misc/dumpe2fs"), img], True),
        ("dumpe2fs -x -h", [T("misc/dumpe2fs"), "-x", "-h", img], True),
        ("tune2fs -l", [T("misc/tune2fs"), "-l", img], True),
        ("resize2fs -P", [T("resize/resize2fs"), "-P", img], True),
        ("e2image", [T("misc/e2image"), img, out + ".e2i"], True),
        ("e2image -r", [T("misc/e2image"), "-r", img, out + ".raw"], True),
        ("e2image -Q", [T("misc/e2image"), "-Q", img, out + ".qcow"], True),
        ("e2freefrag", [T("misc/e2freefrag"), img], True),
        ("e2undo -n", [T("misc/e2undo"), "-n", undo, img], True),
        ("e2undo -n (incomplete undo record)", [T("misc/e2undo"), "-n", undo + ".unfinished", img], True),
        ("mke2fs -n", [T("misc/mke2fs"), "-n", "-t", "ext4", img], False),   # may open read-write, must not write
        # options that are applied after the command line is parsed must not undo -n
        ("mke2fs -n -E discard", [T("misc/mke2fs"), "-n", "-t", "ext4", "-E", "discard", img], False),
        ("mke2fs -n -E discard,lazy_itable_init=0 -F", [T("misc/mke2fs"), "-n", "-F", "-t", "ext3", "-E", "discard,lazy_itable_init=0,lazy_journal_init=0,root_owner=1:1", "-L", "x", img], False),
        ("mke2fs -n -S", [T("misc/mke2fs"), "-n", "-S", "-t", "ext4", img], False),
        ("mke2fs -n -q", [T("misc/mke2fs"), "-n", "-q", "-t", "ext4", img], False),
        ("mke2fs -q -n -F -L", [T("misc/mke2fs"), "-q", "-n", "-F", "-t", "ext3", "-L", "quiet", img, "4096"], False),
        ("tune2fs -l -O (listing wins)", [T("misc/tune2fs"), "-l", img], True),
        ("e2fsck -n -D", [T("e2fsck/e2fsck"), "-fn", "-E", "journal_only", img], True),
    ]


def run(res, replay=None):
    tier, seed = res.tier, res.seed
    os.makedirs(WORK, exist_ok=True)
    src = e2v.ensure_build()
    e2v.build_iotrace()
    pr = e2v.coq_property("C13")
    res.add_proof(pr)
    res.cov["trusted_base"] = e2v.TRUSTED_COMMON + [
        "operating-system assumption (premise of the theorem): a descriptor opened O_RDONLY cannot change the file",
        "harness/iotrace.c: open flags and write-class calls on the target are observed through an LD_PRELOAD shim",
    ]
    res.cov["partial"] = ["the option->open-mode chain is modelled for e2fsck and as a constant for the other tools; the guarantee on the implementation is the syscall-level observation plus the byte comparison",
                          "mounted-filesystem behaviour and block devices are out of reach in the sandbox"]
    states = make_states(src, seed, tier)
    env = e2v.tool_env(src)
    bad = []
    nruns = 0
    dist = {}
    for label, img in states:
        # an undo file that matches this image (recorded on a copy that is then restored)
        undo = img + ".undo"
        if os.path.exists(undo):
            os.unlink(undo)
        cp = img + ".cp"
        shutil.copy(img, cp)
        e2v.sh([os.path.join(src, "misc/tune2fs"), "-z", undo, "-L", "x", cp], env=env, timeout=120)
        if os.path.exists(cp) and os.path.exists(undo):
            shutil.copy(cp, img + ".forundo")
        # an undo file whose writer never finished (header without the FINISHED state)
        cp2 = img + ".cp2"
        shutil.copy(img, cp2)
        if os.path.exists(undo + ".unfinished"):
            os.unlink(undo + ".unfinished")
        e2v.sh([os.path.join(src, "misc/tune2fs"), "-z", undo + ".unfinished", "-L", "y", cp2],
               env=dict(env, UNDO_IO_SIMULATE_UNFINISHED="1"), timeout=120)
        if os.path.exists(undo + ".unfinished"):
            shutil.copy(cp2, img + ".forundo2")
        before = sha(img)
        for name, cmd, must_rdonly in invocations(src, img, undo):
            target = img
            if name == "e2undo -n":
                if not os.path.exists(img + ".forundo"):
                    continue
                target = img + ".forundo"
                cmd = [cmd[0], "-n", undo, target]
            if name.startswith("e2undo -n (incomplete"):
                if not os.path.exists(img + ".forundo2"):
                    continue
                target = img + ".forundo2"
                cmd = [cmd[0], "-n", undo + ".unfinished", target]
            b4 = sha(target)
            for f in os.listdir(WORK):
                if f.startswith("out.scratch"):
                    os.unlink(os.path.join(WORK, f))
            rc, out, ev = e2v.traced(cmd, target, target + ".trace", env=env, timeout=180)
            nruns += 1
            dist[name] = dist.get(name, 0) + 1
            res.case(label + "|" + name, True)
            writes = [e for e in ev if e[0] in ("W", "T", "A")]
            opens = [e[1] & 3 for e in ev if e[0] == "O"]
            why = None
            if rc == -9:
                why = "timed out"
            elif writes:
                why = "%d write-class system calls on the target (first: %s at %s)" % (len(writes), writes[0][0], writes[0][1])
            elif sha(target) != b4:
                why = "target bytes changed"
            elif must_rdonly and any(m != 0 for m in opens):
                why = "target opened with access mode %s (model: O_RDONLY)" % opens
            if why:
                bad.append({"state": label, "invocation": name, "cmd": " ".join(os.path.basename(c) if "/" in c else c for c in cmd), "why": why})
        for suffix in (".undo", ".cp", ".cp2", ".forundo", ".forundo2", ".undo.unfinished", ".trace", ".forundo.trace", ".forundo2.trace"):
            if os.path.exists(img + suffix):
                os.unlink(img + suffix)
        if sha(img) != before:
            bad.append({"state": label, "invocation": "(whole sequence)", "why": "image changed"})
    # ---- filesystems with an EXTERNAL journal device: neither file may change
    XU = "1db3f677-6832-4adb-bafc-8e4059c30a34"
    T = lambda p_: os.path.join(src, p_)
    for jstate in ("clean", "journal error recorded (s_errno)", "needs recovery"):
        for bs in ((1024,) if tier == "quick" else (1024, 4096)):
            fsimg, jimg, dat = os.path.join(WORK, "xj_fs.img"), os.path.join(WORK, "xj_jnl.img"), os.path.join(WORK, "xj_dat")
            for f in (fsimg, jimg):
                if os.path.exists(f):
                    os.unlink(f)
            e2v.sh([T("misc/mke2fs"), "-q", "-F", "-b", str(bs), "-O", "journal_dev", "-U", XU, jimg, "4096"], env=env, timeout=120)
            e2v.sh([T("misc/mke2fs"), "-q", "-F", "-t", "ext4", "-b", str(bs), "-O", "^has_journal", fsimg, "16384" if bs == 1024 else "8192"], env=env, timeout=120)
            e2v.sh([T("debugfs/debugfs"), "-w", "-f", "-", fsimg], input=("feature has_journal\nssv journal_dev 0x9999\nssv journal_uuid %s\n" % XU).encode(), env=env, timeout=60)
            rc0, _ = e2v.sh([T("e2fsck/e2fsck"), "-fy", "-j", jimg, fsimg], env=env, timeout=120)
            if rc0 & ~1:
                bad.append({"state": "external journal", "invocation": "(setup)", "why": "could not set up the filesystem/journal pair: e2fsck exit %d" % rc0})
                continue
            jsb = (2 if bs == 1024 else 1) * bs
            if jstate.startswith("journal error"):
                with open(jimg, "r+b") as f:
                    f.seek(jsb + 0x20)
                    f.write(struct.pack(">I", 5))
            elif jstate == "needs recovery":
                open(dat, "wb").write(b"C13".ljust(bs, b"#") * 2)
                e2v.sh([T("debugfs/debugfs"), "-w", "-f", "-", fsimg], input=("jo -f %s\njw -b 5001,5002 %s\njc\n" % (jimg, dat)).encode(), env=env, timeout=60)
            xinv = [("e2fsck -n -j", [T("e2fsck/e2fsck"), "-n", "-j", jimg, fsimg]), ("e2fsck -fn -j", [T("e2fsck/e2fsck"), "-fn", "-j", jimg, fsimg]),
                    ("debugfs logdump -f", [T("debugfs/debugfs"), "-R", "logdump -f %s" % jimg, fsimg]), ("dumpe2fs (journal device)", [T("misc/dumpe2fs"), jimg]),
                    ("dumpe2fs", [T("misc/dumpe2fs"), "-h", fsimg])]
            for name, cmd in xinv:
                b4 = (sha(fsimg), sha(jimg))
                rc, out, ev = e2v.traced(cmd, fsimg, fsimg + ".trace", env=env, timeout=180, watch2=jimg)
                nruns += 1
                label = "external journal, %s, %dk blocks" % (jstate, bs // 1024)
                dist[name] = dist.get(name, 0) + 1
                res.case(label + "|" + name, True)
                wfs = [e for e in ev if e[0] in ("W", "T", "A")]
                wj = [e for e in ev if e[0] in ("w", "t", "a")]
                why = None
                if rc == -9:
                    why = "timed out"
                elif wfs:
                    why = "%d write-class system calls on the filesystem file" % len(wfs)
                elif wj:
                    why = "%d write-class system calls on the journal device (first at byte %s)" % (len(wj), wj[0][1])
                elif (sha(fsimg), sha(jimg)) != b4:
                    why = "filesystem or journal device bytes changed"
                elif any(e[1] & 3 for e in ev if e[0] in ("O", "o")):
                    why = "a device was opened with access mode %s (model: O_RDONLY)" % [e[1] & 3 for e in ev if e[0] in ("O", "o")]
                if why:
                    bad.append({"state": label, "invocation": name, "cmd": " ".join(os.path.basename(c) if "/" in c else c for c in cmd), "why": why})
            for f in (fsimg, jimg, dat, fsimg + ".trace"):
                if os.path.exists(f):
                    os.unlink(f)
    res.sample({"states": [s[0][:80] for s in states][:12]})
    res.sample({"invocations": list(dist.keys())})
    res.cov["correspondence"] = {"runs": nruns, "mismatches": len(bad),
                                 "compared": "access mode of every open of the target vs the model (O_RDONLY), absence of write/pwrite/ftruncate/fallocate on it, sha256 before = after"}
    res.cov["oracle"] = {"evaluations": nruns, "failures": len(bad), "by_invocation": dist}
    res.cov["rule"] = "image states (clean x feature sets, journal needing recovery, non-empty orphan list, MMP, quota, structured corruptions) x 26 read-only invocations; filesystem + EXTERNAL journal device pairs (clean, s_errno set, needing recovery) x 5 invocations watching both files; every pair is distinct and non-trivial"
    res.add_obligation("no write-class call, unchanged bytes, read-only open mode on all runs", not bad)
    for b in bad[:3]:
        res.violation("oracle", b, signature="c13:%s:%s" % (b["invocation"], b["state"][:40]))
    if not pr["ok"] and not bad:
        res.violation("proof", {"theorem_file": "coq/theories/Properties_C13.v", "failed_at": pr["failed_at"],
                                "forbidden": pr["forbidden"], "log_tail": pr["log_tail"][-1500:]}, has_input=False)

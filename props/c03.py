# C03 - journal replay applies exactly the committed, unrevoked transactions
import json, os, struct, subprocess, shutil, hashlib, concurrent.futures
import e2v, extfmt, jbd2enc
from jbd2enc import *

WORK = os.path.join(e2v.SCRATCH, "c03")

BASES = [
    ("b1k32", ["-t", "ext4", "-b", "1024", "-O", "^64bit,^metadata_csum", "-J", "size=1"], "10M"),
    ("b1k64c", ["-t", "ext4", "-b", "1024", "-O", "64bit,metadata_csum", "-J", "size=1"], "10M"),
    ("b4k64c", ["-t", "ext4", "-b", "4096", "-O", "64bit,metadata_csum", "-J", "size=4"], "24M"),
    # a journal large enough to carry a fast-commit area behind a log of JBD2_MIN_JOURNAL_BLOCKS
    ("b1k_j2", ["-t", "ext4", "-b", "1024", "-O", "^metadata_csum", "-J", "size=2"], "16M"),
]


def setup(src):
    e2v.build_driver("jbd2", ["theories/Jbd2/Jbd2Model.vo"], ["jbd2_model"])


def base_image(src, name, opts, size):
    os.makedirs(WORK, exist_ok=True)
    img = os.path.join(WORK, "base_%s.img" % name)
    key = os.path.join(WORK, "base_%s.key" % name)
    k = open(os.path.join(e2v.SCRATCH, "std", "KEY")).read()
    if os.path.exists(img) and os.path.exists(key) and open(key).read() == k:
        return img
    if os.path.exists(img):
        os.unlink(img)
    env = e2v.tool_env(src, E2FSPROGS_FAKE_TIME="1700000000")
    rc, out = e2v.sh([os.path.join(src, "misc/mke2fs"), "-q", "-F", "-E", "lazy_journal_init=0"] + opts + [img, size], env=env, timeout=120)
    if rc != 0:
        raise RuntimeError("mke2fs failed: " + out[-300:])
    open(key, "w").write(k)
    return img


class JImage:
    """view of the internal journal of an image"""

    def __init__(self, path):
        self.path = path
        self.fs = extfmt.Fs(path)
        m, _ = self.fs.file_map(self.fs.journal_inum)
        self.map = {l: p for l, (p, u) in m.items()}
        self.jsb = bytearray(self.fs.block(self.map[0])[:1024])
        self.bs, self.maxlen, self.first = struct.unpack_from(">III", self.jsb, 0x0C)
        self.uuid = bytes(self.jsb[0x30:0x40])

    def free_blocks(self, n, r):
        fs = self.fs
        free = []
        for g, gd in enumerate(fs.groups):
            if gd["flags"] & extfmt.BG_BLOCK_UNINIT and fs.has_group_csum():
                base = fs.group_first_block(g)
                # uninit group: skip (its fixed metadata is not enumerated here)
                continue
            bm = fs.block(gd["block_bitmap"])
            base = fs.group_first_block(g)
            for i in range(min(fs.blocks_per_group, fs.blocks_count - base)):
                if not (bm[i >> 3] >> (i & 7)) & 1:
                    free.append(base + i)
        r.shuffle(free)
        return free[:n]


def gen_txns(r, cfg, targets, force_desc_time=None):
    """returns (txns, description); force_desc_time = d: the last descriptor's checksum is bad and its
    commit time is the previous transaction's + d (the stale-vs-corrupt boundary)"""
    ntx = r.choice([0, 1, 1, 2, 3, 5, 8, 12]) if force_desc_time is None else r.choice([2, 3, 5])
    txns = []
    seq = cfg.seq0
    time = 1700000000
    budget = cfg.len - 8
    for i in range(ntx):
        items = []
        nitems = r.randint(1, 3)
        for _ in range(nitems):
            if r.random() < 0.7:
                k = r.randint(1, min(5, max_tags(cfg)))
                tags = []
                for _ in range(k):
                    blk = r.choice(targets)
                    kind = r.random()
                    if kind < 0.12:
                        data = struct.pack(">I", MAGIC) + bytes(r.getrandbits(8) for _ in range(12)) + bytes([seq & 255]) * (cfg.bs - 16)
                    else:
                        data = bytes([r.getrandbits(8)]) * 16 + struct.pack(">II", seq & 0xFFFFFFFF, blk) + bytes(r.getrandbits(8) for _ in range(8)) * ((cfg.bs - 24) // 8)
                    tags.append({"blk": blk, "data": data[:cfg.bs].ljust(cfg.bs, b"\0")})
                items.append(("D", tags))
                budget -= 1 + k
            else:
                items.append(("R", [r.choice(targets) for _ in range(r.randint(1, 4))]))
                budget -= 1
        if budget < 4:
            break
        time += r.randint(0, 5)
        txns.append({"seq": seq, "items": items, "commit": {"time": time}})
        budget -= 1
        seq = (seq + 1) & 0xFFFFFFFF
    # damage / stale suffix
    k = r.random() if force_desc_time is None or len(txns) < 2 or not cfg.csum else 0.25
    note = "clean"
    if txns and k < 0.12:
        txns[-1]["commit"]["missing"] = True
        note = "last commit missing"
    elif txns and k < 0.22 and (cfg.csum or cfg.v1):
        txns[-1]["commit"]["bad_csum"] = True
        note = "last commit csum bad"
    elif txns and k < 0.30 and cfg.csum:
        txns[-1]["bad_desc_csum"] = True
        # commit time relative to the previous transaction decides "stale block of an older journal" vs corruption
        prev = txns[-2]["commit"]["time"] if len(txns) > 1 else None
        if prev is None:
            if r.random() < 0.5:
                txns[-1]["commit"]["time"] -= 1000
            note = "only descriptor csum bad"
        else:
            d = r.choice([-1000, -1, 0, 0, 1, 5]) if force_desc_time is None else force_desc_time
            txns[-1]["commit"]["time"] = prev + d
            note = "last descriptor csum bad, commit time %s (%s)" % ("older" if d < 0 else "equal" if d == 0 else "newer", "stale" if d < 0 else "corruption")
    elif txns and k < 0.40 and cfg.csum:
        x = r.choice(txns)
        ds = [it for it in x["items"] if it[0] == "D"]
        if ds:
            r.choice(r.choice(ds)[1])["bad_tag_csum"] = True
            note = "data block tag csum bad in txn %d" % x["seq"]
    elif k < 0.52:
        # a stale, well-formed transaction with a wrong sequence after the end
        stale_seq = (seq + r.choice([1, 2, 0xFFFFFFF0, 7])) & 0xFFFFFFFF
        txns.append({"seq": stale_seq, "items": [("D", [{"blk": r.choice(targets), "data": b"\x77" * cfg.bs}])],
                     "commit": {"time": time + 1}})
        note = "stale transaction with sequence %d follows" % stale_seq
    elif txns and k < 0.58:
        # middle transaction's commit mis-sequenced
        i = r.randrange(len(txns))
        txns[i]["commit_seq_override"] = True
        note = "commit of txn %d missing (later ones present)" % txns[i]["seq"]
        txns[i]["commit"]["missing"] = True
    elif len(txns) >= 3 and k < 0.72 and (cfg.csum or cfg.v1):
        # two commit blocks in a row fail their checksums: the log ends at the first of them (also under ASYNC_COMMIT)
        i = r.randrange(len(txns) - 2)
        txns[i]["commit"]["bad_csum"] = True
        txns[i + 1]["commit"]["bad_csum"] = True
        note = "two consecutive commit csums bad in the middle of the log"
    elif len(txns) >= 2 and k < 0.66 and (cfg.csum or cfg.v1):
        # a commit block in the middle of the log fails its checksum: the log ends there, also under ASYNC_COMMIT
        i = r.randrange(len(txns) - 1)
        txns[i]["commit"]["bad_csum"] = True
        note = "commit csum bad in the middle of the log"
    return txns, note


def prepare(jimg, cfg_incompat, seq0, start_rel, txns, out_path):
    """write the encoded log into a copy of the image; returns (cfg, views{rel: view})"""
    shutil.copy(jimg.path, out_path)
    fc = bool(cfg_incompat & INCOMPAT_FC)
    NFC = 16
    # with FAST_COMMIT the last s_num_fc_blks blocks of the journal are the fast-commit area: the log ends in front of it
    cfg = Cfg(jimg.bs, jimg.first, jimg.maxlen - (NFC if fc else 0), jimg.uuid, cfg_incompat & ~INCOMPAT_FC, seq0, start_rel)
    enc, endpos = encode_log(cfg, txns)
    fs = jimg.fs
    with open(out_path, "r+b") as f:
        for rel, (b, view) in enc.items():
            f.seek(jimg.map[cfg.first + rel] * fs.bs)
            f.write(b)
        jsb = bytearray(jimg.jsb)
        struct.pack_into(">II", jsb, 0x18, seq0 & 0xFFFFFFFF, cfg.first + start_rel)
        compat, incompat, ro = struct.unpack_from(">III", jsb, 0x24)
        incompat = (incompat & ~(INCOMPAT_64BIT | INCOMPAT_CSUM2 | INCOMPAT_CSUM3 | INCOMPAT_ASYNC | INCOMPAT_FC)) | cfg.incompat | INCOMPAT_REVOKE | (INCOMPAT_FC if fc else 0)
        struct.pack_into(">I", jsb, 0x54, NFC if fc else 0)
        if fc:
            for k in range(jimg.maxlen - NFC, jimg.maxlen):       # an empty fast-commit area
                if k in jimg.map:
                    f.seek(jimg.map[k] * fs.bs)
                    f.write(b"\0" * fs.bs)
        struct.pack_into(">III", jsb, 0x24, (compat | COMPAT_CHECKSUM) if cfg.v1 else (compat & ~COMPAT_CHECKSUM), incompat, ro)
        jsb[0x50] = 4 if cfg.csum else 0
        struct.pack_into(">I", jsb, 0xFC, 0)
        if cfg.csum:
            struct.pack_into(">I", jsb, 0xFC, crc32c(0xFFFFFFFF, bytes(jsb)))
        f.seek(jimg.map[0] * fs.bs)
        f.write(jsb)
        # filesystem superblock: needs_recovery
        sb = bytearray(fs.sb_raw)
        inc = struct.unpack_from("<I", sb, 0x60)[0] | extfmt.INCOMPAT_RECOVER
        struct.pack_into("<I", sb, 0x60, inc)
        if fs.has_csum:
            struct.pack_into("<I", sb, 0x3FC, crc32c(0xFFFFFFFF, bytes(sb[:0x3FC])))
        f.seek(1024)
        f.write(sb)
    return cfg, {rel: v for rel, (b, v) in enc.items()}


def model_run(mexe, cfg, views, async_commit, targets):
    lines = ["J %d %d %d %d" % (cfg.len, cfg.start_rel, cfg.seq0, 1 if async_commit else 0)]
    for rel, v in views.items():
        lines.append("B %d %s" % (rel, v))
    lines.append("T " + ",".join(str(t) for t in targets))
    lines.append("RUN")
    p = subprocess.run([mexe], input=("\n".join(lines) + "\n").encode(), stdout=subprocess.PIPE, stderr=subprocess.DEVNULL, timeout=300)
    out = p.stdout.decode().split("\n")
    verdict = out[0].split()
    blocks = {}
    for l in out[1:]:
        if l.startswith("W "):
            t = l.split()
            blocks[int(t[1])] = bytes.fromhex(t[2]) if len(t) > 2 else b""
    return verdict, blocks


def observe(path, jimg, targets):
    d = open(path, "rb").read()
    bs = jimg.fs.bs
    jsb = d[jimg.map[0] * bs: jimg.map[0] * bs + 1024]
    seq, start = struct.unpack_from(">II", jsb, 0x18)
    inc = struct.unpack_from("<I", d, 1024 + 0x60)[0]
    return {"blocks": {t: d[t * bs:(t + 1) * bs] for t in targets}, "j_start": start, "j_seq": seq,
            "needs_recovery": bool(inc & extfmt.INCOMPAT_RECOVER), "all": d}


def one_case(src, mexe, idx, seed, tier):
    r = e2v.rng(seed, "c03", idx)
    name, opts, size = r.choice(BASES)
    jimg = JImage(base_image(src, name, opts, size))
    mode = r.choice(["none", "v3", "v3", "v2", "v1"])
    force = [-1, 0, 1][idx % 3] if idx < 9 else None        # directed boundary cases run first
    if force is not None:
        mode = ["v3", "v2"][idx % 2]
    inc = {"none": 0, "v2": INCOMPAT_CSUM2, "v3": INCOMPAT_CSUM3, "v1": V1_CHECKSUM}[mode]
    if r.random() < 0.5:
        inc |= INCOMPAT_64BIT
    if mode != "none" and r.random() < 0.3:
        inc |= INCOMPAT_ASYNC            # a failed commit checksum still ends the log, the scan only goes on looking
    fcj = jimg.maxlen - 16 >= 1024 and r.random() < 0.5
    if fcj:
        inc |= INCOMPAT_FC               # fast-commit area (empty) behind the log: the log wraps in front of it
    jlen = jimg.maxlen - jimg.first - (16 if fcj else 0)
    k = r.random()
    start_rel = 0 if k < 0.3 else (jlen - r.randint(1, 12) if k < 0.7 else r.randint(0, jlen - 1))
    seq0 = r.choice([1, 2, 77, 0x7FFFFFFA, 0xFFFFFFF9, r.randint(3, 1 << 31)])
    targets = jimg.free_blocks(r.randint(2, 9), r)
    tmp_cfg = Cfg(jimg.bs, jimg.first, jimg.maxlen - (16 if fcj else 0), jimg.uuid, inc & ~INCOMPAT_FC, seq0, start_rel)
    txns, note = gen_txns(r, tmp_cfg, targets, force)
    if idx in (12, 13, 14):
        # directed: the transaction ids wrap around 2^32 between the logging of a block and its revocation
        seq0 = [0xFFFFFFFE, 0xFFFFFFFF, 0xFFFFFFFD][idx - 12]
        tmp_cfg = Cfg(jimg.bs, jimg.first, jimg.maxlen - (16 if fcj else 0), jimg.uuid, inc & ~INCOMPAT_FC, seq0, start_rel)
        B = (targets * 4)[:4]
        mk = lambda blk, tag: {"blk": blk, "data": (bytes([tag]) * 16 + struct.pack(">II", tag, blk)).ljust(jimg.bs, bytes([tag]))}
        txns, t0 = [], 1700000000
        plan = [[("D", [mk(B[0], 0x41), mk(B[1], 0x42)])], [("D", [mk(B[1], 0x43), mk(B[2], 0x44)])], [("R", [B[1], B[2]]), ("D", [mk(B[3], 0x45)])],
                [("D", [mk(B[2], 0x46)])], [("R", [B[0]])]]
        for j, items in enumerate(plan):
            txns.append({"seq": (seq0 + j) & 0xFFFFFFFF, "items": items, "commit": {"time": t0 + j}})
        note = "clean; transaction ids wrap around 2^32 between log and revoke"
    # half of the logs that have one: the end of the log area falls between the data blocks of one descriptor
    # (every pass, and the v1 checksum accumulation, has to wrap its position per block, not per descriptor)
    straddle = []
    off = 0
    for x in txns:
        for k2, p2 in x["items"]:
            if k2 == "D" and len(p2) >= 2:
                straddle.append((off, len(p2)))
            off += 1 + (len(p2) if k2 == "D" else 0)
        off += 0 if x["commit"].get("missing") else 1
    if straddle and (r.random() < 0.5 or mode == "v1"):
        d_off, ntag = r.choice(straddle)
        start_rel = (jlen - (d_off + 1 + r.randint(1, ntag - 1))) % jlen
        tmp_cfg = Cfg(jimg.bs, jimg.first, jimg.maxlen - (16 if fcj else 0), jimg.uuid, inc & ~INCOMPAT_FC, seq0, start_rel)
        note += " in txn; data blocks of one descriptor straddle the log end"
    recipe = {"base": name, "mke2fs": opts, "journal": {"csum": mode, "64bit": bool(inc & INCOMPAT_64BIT), "async_commit": bool(inc & INCOMPAT_ASYNC), "fast_commit_area": fcj, "start_rel": start_rel, "len": jlen, "seq0": seq0},
              "note": note, "txns": [{"seq": x["seq"], "items": [(k2, [t["blk"] for t in p] if k2 == "D" else p) for k2, p in x["items"]],
                                      "commit": x.get("commit")} for x in txns]}
    a = os.path.join(WORK, "case_%d_a.img" % (idx % 64))
    b = os.path.join(WORK, "case_%d_b.img" % (idx % 64))
    cfg, views = prepare(jimg, inc, seq0, start_rel, txns, a)
    shutil.copy(a, b)
    before = observe(a, jimg, targets)
    env = e2v.tool_env(src)
    rca, outa = e2v.sh([os.path.join(src, "e2fsck/e2fsck"), "-fy", "-E", "journal_only", a], env=env, timeout=120)
    rcb, outb = e2v.sh([os.path.join(src, "debugfs/debugfs"), "-w", "-R", "jr", b], env=env, timeout=120)
    oa, ob = observe(a, jimg, targets), observe(b, jimg, targets)
    verdict, mblocks = model_run(mexe, cfg, views, bool(inc & INCOMPAT_ASYNC), targets)
    problems = []
    if rca == -9 or rcb == -9:
        problems.append("tool timed out (rc e2fsck %s, debugfs %s)" % (rca, rcb))
    if verdict[0] in ("OK", "ERR"):
        exp = {t: (mblocks[t] if mblocks.get(t) else before["blocks"][t]) for t in targets}
        for t in targets:
            if oa["blocks"][t] != exp[t]:
                problems.append("e2fsck: fs block %d differs from the specification of replay" % t)
            if ob["blocks"][t] != exp[t]:
                problems.append("debugfs jr: fs block %d differs from the specification of replay" % t)
        if verdict[0] == "OK":
            if oa["j_start"] != 0 or oa["needs_recovery"]:
                problems.append("e2fsck: journal not empty / needs_recovery still set after successful replay")
            if oa["j_seq"] != int(verdict[1]):
                problems.append("e2fsck: journal sequence %d, expected %s" % (oa["j_seq"], verdict[1]))
            if ob["j_start"] != 0 or ob["needs_recovery"]:
                problems.append("debugfs: journal not empty / needs_recovery still set after successful replay")
    elif verdict[0] == "FAIL":
        for t in targets:
            if oa["blocks"][t] != before["blocks"][t]:
                problems.append("e2fsck: fs block %d written although recovery failed in the scan pass" % t)
    else:
        problems.append("model ran out of fuel")
    for t in targets:
        if oa["blocks"][t] != ob["blocks"][t]:
            problems.append("e2fsck and debugfs disagree on fs block %d" % t)
    # nothing else may change except superblocks / descriptors / journal superblock
    fs = jimg.fs
    allowed = {0, 1 if fs.bs == 1024 else 0, jimg.map[0]} | set(targets)
    for i in range(fs.desc_blocks + 1):
        allowed.add(fs.first_data_block + 1 + i)
    da, db0 = oa["all"], before["all"]
    for blk in range(fs.blocks_count):
        if blk in allowed:
            continue
        if da[blk * fs.bs:(blk + 1) * fs.bs] != db0[blk * fs.bs:(blk + 1) * fs.bs]:
            problems.append("e2fsck changed fs block %d that no committed transaction logs" % blk)
            break
    stat = {"mode": mode, "straddle": "straddle the log end" in note, "ntx": len(txns), "note": note.split(" in txn")[0].split(" of txn")[0].split(" with seq")[0], "verdict": verdict[0],
            "wrap": start_rel + sum(1 + (len(p) if k2 == "D" else 0) for x in txns for k2, p in x["items"]) + len(txns) > jlen}
    return recipe, problems, stat, (rca, rcb)


def run(res, replay=None):
    tier, seed = res.tier, res.seed
    os.makedirs(WORK, exist_ok=True)
    src = e2v.ensure_build()
    pr = e2v.coq_property("C03")
    res.add_proof(pr)
    mexe = e2v.build_driver("jbd2", ["theories/Jbd2/Jbd2Model.vo"], ["jbd2_model"])
    res.cov["trusted_base"] = e2v.TRUSTED_COMMON + [
        "lib/jbd2enc.py: the check's independent JBD2 log writer (tag formats, escapes, checksums v1/v2/v3); it also produces the parsed view of each log block handed to the model",
        "the byte-level decoding done by recovery.c (count_tags, tag walk, checksum verification) is exercised by correspondence, not modelled",
        "tid identifiers within one log span less than 2^31 (hypothesis of the tid theorems)",
    ]
    res.cov["partial"] = ["fast-commit replay and external journals are not generated",
                          "PASS_SCAN of the pinned code does not terminate on a cyclic all-descriptor log (C06 finding); the model uses fuel and the theorem excludes the out-of-fuel case"]
    n = 60 if tier == "quick" else 3000
    if replay:
        idxs = [json.load(open(replay))["case_index"]]
    else:
        idxs = list(range(n))
    for nm, op, sz in BASES:
        base_image(src, nm, op, sz)
    bad = []
    stats = {"mode": {}, "note": {}, "verdict": {}, "ntx": {}, "wrap": 0}
    with concurrent.futures.ThreadPoolExecutor(1) as ex:   # images of one index share scratch names
        outs = [one_case(src, mexe, i, seed, tier) for i in idxs]
    for i, (recipe, problems, stat, rcs) in zip(idxs, outs):
        res.case(json.dumps(recipe, default=str), stat["ntx"] >= 1)
        for k in ("mode", "note", "verdict"):
            stats[k][stat[k]] = stats[k].get(stat[k], 0) + 1
        stats["ntx"][stat["ntx"]] = stats["ntx"].get(stat["ntx"], 0) + 1
        stats["wrap"] += 1 if stat["wrap"] else 0
        if len(res.cov["samples"]) < 3 and stat["ntx"] >= 2:
            res.sample(recipe)
        if problems:
            bad.append((i, recipe, problems, rcs))
    res.cov["correspondence"] = {"cases": len(idxs), "mismatches": len(bad), "distribution": stats,
                                 "compared": "every logged fs block after e2fsck -E journal_only and after debugfs jr vs the model's recover; journal superblock s_start/s_sequence; needs_recovery; all other fs blocks unchanged"}
    res.cov["oracle"] = {"evaluations": len(idxs) * 2, "failures": len(bad),
                         "statement": "blocks equal the last committed unrevoked logged image; nothing from uncommitted / mis-sequenced / checksum-invalid transactions is applied; journal empty afterwards; both front ends agree"}
    res.cov["rule"] = ("seeded random logs written by an independent encoder into the internal journal of prepared images: 0..12 transactions, repeated blocks, revokes before/after/at the same tid, escaped blocks, "
                       "tids near 2^31/2^32, log wrap, tag formats none/v1/v2/v3 x 32/64 bit, descriptors whose data blocks straddle the log end, damaged suffixes (missing/bad commit, bad descriptor csum with older/newer commit time, bad data tag csum, stale transaction); non-trivial = at least one transaction")
    res.add_obligation("model = e2fsck = debugfs on all generated journals", not bad)
    for i, recipe, problems, rcs in bad[:3]:
        res.violation("oracle", {"case_index": i, "recipe": recipe, "problems": problems[:6], "exit_codes": rcs},
                      signature="c03:" + hashlib.sha256(json.dumps(recipe, default=str).encode()).hexdigest()[:12])
    if not pr["ok"] and not bad:
        res.violation("proof", {"theorem_file": "coq/theories/Properties_C03.v", "failed_at": pr["failed_at"],
                                "forbidden": pr["forbidden"], "log_tail": pr["log_tail"][-1500:]}, has_input=False)

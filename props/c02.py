# C02 - a clean e2fsck verdict implies a consistent filesystem      (campaign shared with C01)
import re, json, os, re, struct, subprocess, hashlib, shutil, concurrent.futures
import e2v, extfmt, corrupt
from extfmt import Fs, FormatError

WORK = os.path.join(e2v.SCRATCH, "c02")


def setup(src):
    e2v.build_driver("verdict", ["theories/Verdict/Verdict.vo"], ["verdict_model"])


def judge_consistency(path):
    """the independent reading: [] = consistent, else list of violated clauses"""
    try:
        fs = Fs(path)
        if fs.incompat & (extfmt.INCOMPAT_INLINE_DATA | 0x10000 | 0x20000) or fs.ro_compat & extfmt.RO_BIGALLOC:
            return None
        return extfmt.consistency(fs)
    except FormatError as ex:
        return ["format: %s" % ex]
    except (struct.error, IndexError, ValueError, KeyError, OverflowError, MemoryError, RecursionError) as ex:
        return ["format: unreadable (%s)" % type(ex).__name__]


def fsck(src, img, flags, tag):
    """run e2fsck with the problem log enabled; returns (rc, [(code, answer)], output)"""
    log = img + "." + tag + ".plog"
    cfg = img + "." + tag + ".conf"
    if os.path.exists(log):
        os.unlink(log)
    open(cfg, "w").write("[options]\n\tproblem_log_filename = %s\n" % log)
    env = e2v.tool_env(src, E2FSCK_CONFIG=cfg)
    rc, out = e2v.sh([os.path.join(src, "e2fsck/e2fsck")] + flags + [img], env=env, timeout=120)
    probs = []
    if os.path.exists(log):
        for m in re.finditer(r'<problem code="0x([0-9a-f]+)" answer="(-?\d+)"', open(log, errors="replace").read()):
            probs.append((int(m.group(1), 16), int(m.group(2))))
        os.unlink(log)
    os.unlink(cfg)
    return rc, probs, out


def uninit_shadow(path):
    """clauses of the independent reading that are explained by one phenomenon: the on-disk block bitmap of group g has a
    clear bit for a bitmap / inode-table block that belongs to ANOTHER group carrying BLOCK_UNINIT (flex_bg places it in g).
    libext2fs ORs the metadata of BLOCK_UNINIT groups into the bitmap when loading, so e2fsck never sees the clear bit."""
    try:
        fs = Fs(path)
        if not fs.has_group_csum():
            return set()
        meta = {}
        for g, gd in enumerate(fs.groups):
            if gd["flags"] & extfmt.BG_BLOCK_UNINIT:
                itb = (fs.inodes_per_group * fs.inode_size + fs.bs - 1) // fs.bs
                for b in [gd["block_bitmap"], gd["inode_bitmap"]] + list(range(gd["inode_table"], gd["inode_table"] + itb)):
                    meta[b] = g
        out = set()
        for g, gd in enumerate(fs.groups):
            if gd["flags"] & extfmt.BG_BLOCK_UNINIT:
                continue
            bm = fs.block(gd["block_bitmap"])
            base = fs.group_first_block(g)
            hit = [b for b in meta if meta[b] != g and base <= b < base + fs.blocks_per_group and not (bm[(b - base) >> 3] >> ((b - base) & 7)) & 1]
            if hit:
                out.add("bbitmap: group %d cluster %d: bitmap 0, usage 1" % (g, min(hit) - base))
                out.add("csum_bitmap: group %d block bitmap checksum" % g)
        return out
    except Exception:
        return set()


def only_shadow(path, cons):
    return bool(cons) and isinstance(cons, list) and set(cons) <= uninit_shadow(path)


def only_special_acl(path, cons):
    """is every clause of the independent reading explained by one thing: a special inode (the orphan file or a reserved
    inode - nothing a directory entry leads to) whose i_file_acl lies outside the filesystem?"""
    if not cons or not isinstance(cons, list):
        return False
    try:
        fs = Fs(path)
        orphan = struct.unpack_from("<I", fs.sb_raw, 0x280)[0]
        special = {i for i in range(1, fs.first_ino) if i != 2} | ({orphan} if orphan else set())
        hit = set()
        for c in cons:
            m = re.match(r"range: inode (\d+) xattr block (\d+) invalid$", c) or re.match(r"iblocks: inode (\d+) ", c)
            if not m or int(m.group(1)) not in special:
                return False
            hit.add(int(m.group(1)))
        for i in hit:
            a = fs.inode(i)["file_acl"]
            if fs.first_data_block <= a < fs.blocks_count:
                return False
        return bool(hit)
    except Exception:
        return False


def journal_crosslinked(path):
    """does some other inode map a block of the internal journal?"""
    try:
        fs = Fs(path)
        if not fs.journal_inum:
            return False
        J = {p for p, _ in fs.file_map(fs.journal_inum, fs.inode(fs.journal_inum))[0].values()}
        for ino in corrupt.regular_files(fs) + corrupt.directories(fs):
            try:
                m, _ = fs.file_map(ino, fs.inode(ino))
            except (FormatError, struct.error, IndexError, ValueError, KeyError, RecursionError):
                continue
            if any(p in J for p, _ in m.values()):
                return True
    except Exception:
        return False
    return False


def dir_cycle(src, base, img):
    """two directories that are each other's parent, with consistent link counts, reachable from nowhere"""
    shutil.copy(base, img)
    env = e2v.tool_env(src)
    dbg = os.path.join(src, "debugfs/debugfs")
    e2v.sh([dbg, "-w", "-f", "-", img], input=b"mkdir ZA\nmkdir ZA/ZB\n", env=env, timeout=60)
    fs = Fs(img)
    root = {e[0]: e[1] for e in fs.dir_entries(2)}
    za = root.get(b"ZA") or root.get("ZA")
    zb = {e[0]: e[1] for e in fs.dir_entries(za)}
    zb = zb.get(b"ZB") or zb.get("ZB")
    rl = fs.inode(2)["links"]
    cmds = "ln <%d> <%d>/A2\nunlink ZA\nunlink <%d>/..\nln <%d> <%d>/..\nsif <2> links_count %d\nsif <%d> links_count 3\nsif <%d> links_count 3\n" % (
        za, zb, za, zb, za, rl - 1, za, zb)
    e2v.sh([dbg, "-w", "-f", "-", img], input=cmds.encode(), env=env, timeout=60)
    return ["directories %d and %d made each other's parent and unlinked from the root (link counts consistent)" % (za, zb)]


def dir_cycle_tail(src, base, img):
    """a loop of two directories with a tail: ZC (the lowest inode number) hangs below ZA, ZA and ZB are each other's parent,
    nothing is reachable from the root; link counts and '..' entries are consistent"""
    shutil.copy(base, img)
    env = e2v.tool_env(src)
    dbg = os.path.join(src, "debugfs/debugfs")
    e2v.sh([dbg, "-w", "-f", "-", img], input=b"mkdir ZC\nmkdir ZA\nmkdir ZA/ZB\n", env=env, timeout=60)
    fs = Fs(img)
    root = {e[0]: e[1] for e in fs.dir_entries(2)}
    za, zc = root[b"ZA"], root[b"ZC"]
    zb = {e[0]: e[1] for e in fs.dir_entries(za)}[b"ZB"]
    rl = fs.inode(2)["links"]
    cmds = ("ln <%d> <%d>/ZC\nunlink ZC\nunlink <%d>/..\nln <%d> <%d>/..\n" % (zc, za, zc, za, zc) +
            "ln <%d> <%d>/A2\nunlink ZA\nunlink <%d>/..\nln <%d> <%d>/..\n" % (za, zb, za, zb, za) +
            "sif <2> links_count %d\nsif <%d> links_count 4\nsif <%d> links_count 3\nsif <%d> links_count 2\n" % (rl - 2, za, zb, zc))
    e2v.sh([dbg, "-w", "-f", "-", img], input=cmds.encode(), env=env, timeout=60)
    return ["directories %d and %d made each other's parent, directory %d (lower inode number) hangs below %d; all unlinked from the root (link counts consistent)" % (za, zb, zc, za)]


def dotdot_case(src, base, img):
    """ZY (the higher inode number) holds ZX (the lower one); '..' of ZY names /lost+found instead of the root; link counts
    are what a literal count of the entries gives: only the '..'-names-the-parent clause is broken, and the directory is
    passed through (as an ancestor of ZX) before its own turn in pass 3"""
    shutil.copy(base, img)
    env = e2v.tool_env(src)
    dbg = os.path.join(src, "debugfs/debugfs")
    e2v.sh([dbg, "-w", "-f", "-", img], input=b"mkdir ZX\nmkdir ZY\n", env=env, timeout=60)
    fs = Fs(img)
    root = {e[0]: e[1] for e in fs.dir_entries(2)}
    zx, zy, lf = root[b"ZX"], root[b"ZY"], root[b"lost+found"]
    rl, ll = fs.inode(2)["links"], fs.inode(lf)["links"]
    cmds = ("ln <%d> <%d>/ZX\nunlink ZX\nunlink <%d>/..\nln <%d> <%d>/..\n" % (zx, zy, zx, zy, zx) +
            "unlink <%d>/..\nln <%d> <%d>/..\n" % (zy, lf, zy) +
            "sif <2> links_count %d\nsif <%d> links_count %d\nsif <%d> links_count 3\nsif <%d> links_count 2\n" % (rl - 2, lf, ll + 1, zy, zx))
    e2v.sh([dbg, "-w", "-f", "-", img], input=cmds.encode(), env=env, timeout=60)
    return ["directory %d moved below directory %d (a higher inode number), whose '..' entry is made to name /lost+found (%d) instead of the root; link counts follow the entries" % (zx, zy, lf)]


def quota_unattached_case(src, img):
    """quota; an empty regular file and an empty directory without a name: pass 4 clears them (nothing to reconnect) and has
    to take them off their owner's inode count"""
    env = e2v.tool_env(src)
    T = lambda p_: os.path.join(src, p_)
    e2v.sh([T("misc/mke2fs"), "-q", "-F", "-t", "ext4", "-b", "1024", "-O", "quota", "-N", "512", img, "8M"], env=env, timeout=120)
    e2v.sh([T("debugfs/debugfs"), "-w", "-f", "-", img], input=b"write /dev/null e\nwrite /etc/services s\nmkdir d\nwrite /dev/null d/f\n", env=env, timeout=60)
    e2v.sh([T("e2fsck/e2fsck"), "-fy", img], env=env, timeout=120)        # debugfs does not keep the quota files
    e2v.sh([T("debugfs/debugfs"), "-w", "-f", "-", img], input=b"unlink e\nunlink d/f\n", env=env, timeout=60)
    return ["quota filesystem: two empty regular files lose their only name (debugfs unlink)"]


def no_lostfound_case(src, img, feats):
    """/lost+found removed: e2fsck -fy creates it again, in a form the next run accepts"""
    env = e2v.tool_env(src)
    T = lambda p_: os.path.join(src, p_)
    e2v.sh([T("misc/mke2fs"), "-q", "-F", "-t", "ext4", "-b", "1024", "-O", feats, "-N", "512"] + (["-C", "4096"] if "bigalloc" in feats else []) + [img, "16M"], env=env, timeout=120)
    e2v.sh([T("debugfs/debugfs"), "-w", "-f", "-", img], input=b"write /etc/services s\nrmdir lost+found\n", env=env, timeout=60)
    return ["%s filesystem: rmdir /lost+found" % feats]


def bigalloc_quota_lostfound(src, img):
    """bigalloc + quota, a directory with 2000 fifos whose inode is cleared: the repair has to grow /lost+found by whole
    clusters and charge them to the quota in cluster units"""
    env = e2v.tool_env(src)
    T = lambda p: os.path.join(src, p)
    base = os.path.join(WORK, "base_bigalloc_quota.img")
    with e2v.Lock(base + ".lock"):
        if not os.path.exists(base):
            tmp = base + ".tmp"
            e2v.sh([T("misc/mke2fs"), "-q", "-F", "-t", "ext4", "-b", "1024", "-O", "bigalloc,quota,^resize_inode", "-C", "4096", "-N", "4096", tmp, "32M"], env=env, timeout=120)
            cmds = ["mkdir d", "mkdir keep"] + ["mknod d/p%04d p" % i for i in range(2000)] + ["mknod keep/q%03d p" % i for i in range(40)]
            e2v.sh([T("debugfs/debugfs"), "-w", "-f", "-", tmp], input=("\n".join(cmds) + "\n").encode(), env=env, timeout=600)
            e2v.sh([T("e2fsck/e2fsck"), "-fy", tmp], env=env, timeout=300)
            os.rename(tmp, base)
    shutil.copy(base, img)
    e2v.sh([T("debugfs/debugfs"), "-w", "-R", "clri d", img], env=env, timeout=60)
    return ["bigalloc+quota: the inode of a directory holding 2000 fifos cleared (clri d)"]


def uninit_bit_case(src, base, img):
    """the listed known finding: the on-disk bit of an inode bitmap block that flex_bg placed in an initialised group for a
    BLOCK_UNINIT group is cleared (the bitmap checksum is left as it was)"""
    fs = Fs(base)
    shutil.copy(base, img)
    for g2, gd2 in enumerate(fs.groups):
        b = gd2["inode_bitmap"]
        g = (b - fs.first_data_block) // fs.blocks_per_group
        if gd2["flags"] & extfmt.BG_BLOCK_UNINIT and g != g2 and not fs.groups[g]["flags"] & extfmt.BG_BLOCK_UNINIT:
            bit = b - fs.group_first_block(g)
            with open(img, "r+b") as f:
                f.seek(fs.groups[g]["block_bitmap"] * fs.bs + bit // 8)
                c = f.read(1)[0]
                f.seek(-1, 1)
                f.write(bytes([c & ~(1 << (bit % 8))]))
            return ["block bitmap of group %d, bit %d cleared (inode bitmap of group %d, BLOCK_UNINIT)" % (g, bit, g2)]
    return ["nothing"]


def dup_names_case(src, img):
    """tea hash with the unsigned-char flag, an indexed directory of several leaves whose names contain bytes >= 0x80, and 40
    names made equal to another name of the directory (different inodes): the repair renames the duplicates and has to
    file the new names under the hash the filesystem uses"""
    env = e2v.tool_env(src)
    T = lambda p: os.path.join(src, p)
    e2v.sh([T("misc/mke2fs"), "-q", "-F", "-t", "ext4", "-b", "1024", "-N", "1024", "-O", "^metadata_csum",
            "-E", "hash_seed=01234567-89ab-cdef-0123-456789abcdef", img, "8M"], env=env, timeout=120)
    r = e2v.rng(11, "c02dup")
    stems = set()
    while len(stems) < 200:
        stems.add(bytes(r.choice(b"xy\xc3\xa9\xe2\x82\xac\xf0\x9f0123") for _ in range(r.randint(8, 20))))
    stems = sorted(stems)
    cmds = b"ssv def_hash_version tea\nssv flags 2\nmkdir u\n" + b"".join(b"mknod u/" + s_ + b"a p\nmknod u/" + s_ + b"b p\n" for s_ in stems)
    e2v.sh([T("debugfs/debugfs"), "-w", "-f", "-", img], input=cmds, env=env, timeout=300)
    e2v.sh([T("e2fsck/e2fsck"), "-fyD", img], env=env, timeout=300)
    fs = Fs(img)
    d = bytearray(fs.d)
    u = {e[0]: e[1] for e in fs.dir_entries(2)}[b"u"]
    m, _ = fs.file_map(u)
    want = {s_ + b"b" for s_ in stems[::5]}
    n = 0
    for lb in sorted(m):
        base_ = m[lb][0] * fs.bs
        for (o, ino, rl, nl, ft, name) in fs.dir_block_entries(fs.block(m[lb][0])):
            if ino and name in want:
                d[base_ + o + 8 + nl - 1] = ord("a")
                n += 1
    open(img, "wb").write(d)
    return ["tea / unsigned hash: %d names of an indexed directory (bytes >= 0x80) made equal to another name" % n]


def hash_flag_case(src, img, alg):
    """an indexed directory whose names contain bytes >= 0x80, built under the signed-char hash; then the superblock says
    unsigned (checksum valid): most names now lie outside the hash range of their leaf"""
    env = e2v.tool_env(src)
    T = lambda p: os.path.join(src, p)
    e2v.sh([T("misc/mke2fs"), "-q", "-F", "-t", "ext4", "-b", "1024", "-N", "1024", "-E", "hash_seed=01234567-89ab-cdef-0123-456789abcdef", img, "8M"], env=env, timeout=120)
    r = e2v.rng(7, "c02hash", alg)
    names = set()
    while len(names) < 400:
        names.add(bytes(r.choice(b"ab\xc3\xa9\xe2\x82\xac\xf0\x9f\x98\x80xyz0123") for _ in range(r.randint(6, 30))))
    cmds = b"ssv def_hash_version " + alg.encode() + b"\nssv flags 1\nmkdir u\n" + b"".join(b"mknod u/" + n + b" p\n" for n in sorted(names))
    e2v.sh([T("debugfs/debugfs"), "-w", "-f", "-", img], input=cmds, env=env, timeout=300)
    e2v.sh([T("e2fsck/e2fsck"), "-fyD", img], env=env, timeout=300)
    e2v.sh([T("debugfs/debugfs"), "-w", "-R", "ssv flags 2", img], env=env, timeout=60)
    return ["directory of 400 names with bytes >= 0x80 indexed under the signed %s hash, then s_flags := unsigned_directory_hash (checksum valid)" % alg]


def one_case(src, idx, seed, tier, keep=False):
    r = e2v.rng(seed, "c02", idx)
    name, opts, size = corrupt.IMG_CONFIGS[idx % len(corrupt.IMG_CONFIGS)] if tier == "quick" else r.choice(corrupt.IMG_CONFIGS)
    base = corrupt.build_image(src, WORK, name, opts, size, 1 + (idx // 200) % 3)
    img = os.path.join(WORK, "case_%d.img" % idx)
    # the first cases are the boundary operators, each on a block-mapped and on an extent/checksum configuration
    nd = 2 * len(corrupt.DIRECTED)
    if idx < nd:
        name, opts, size = [c for c in corrupt.IMG_CONFIGS if c[0] == ("ext3" if idx % 2 == 0 else "ext4_1k")][0]
        base = corrupt.build_image(src, WORK, name, opts, size, 1)
        desc = corrupt.corrupt(base, img, r, directed=idx // 2)
    elif idx < nd + 4:
        name, opts, size = [c for c in corrupt.IMG_CONFIGS if c[0] == ("ext3" if idx % 2 == 0 else "ext4_1k")][0]
        base = corrupt.build_image(src, WORK, name, opts, size, 1)
        desc = dir_cycle(src, base, img) if idx < nd + 2 else dir_cycle_tail(src, base, img)
    elif idx < nd + 4 + 2 * len(corrupt.PAIRS):
        k = idx - nd - 4
        name, opts, size = [c for c in corrupt.IMG_CONFIGS if c[0] == ("ext4_metabg48" if k % 2 == 0 else "ext4_1k")][0]
        base = corrupt.build_image(src, WORK, name, opts, size, 1)
        desc = corrupt.corrupt(base, img, r, directed=corrupt.PAIRS[k // 2])
    elif idx < nd + 4 + 2 * len(corrupt.PAIRS) + 4:
        name, opts, size = [c for c in corrupt.IMG_CONFIGS if c[0] == "ext4_itb46"][0]
        base = corrupt.build_image(src, WORK, name, opts, size, 1)
        desc = corrupt.corrupt(base, img, r, directed=[(corrupt.op_inode_csum_late, None)])
    elif idx < nd + 4 + 2 * len(corrupt.PAIRS) + 4 + len(corrupt.ORPHAN_VARIANTS):
        # the orphan file's own inode damaged: the end-of-run "recreate" must either work or be reported as left uncorrected
        name, opts, size = [c for c in corrupt.IMG_CONFIGS if c[0] == "ext4_1k"][0]
        base = corrupt.build_image(src, WORK, name, opts, size, 1)
        desc = corrupt.corrupt(base, img, r, directed=[(corrupt.op_orphan_file, corrupt.ORPHAN_VARIANTS[idx - (nd + 4 + 2 * len(corrupt.PAIRS) + 4)])])
    elif idx == nd + 4 + 2 * len(corrupt.PAIRS) + 4 + len(corrupt.ORPHAN_VARIANTS):
        name, opts, size = "ext4_bigalloc_quota", ["-t", "ext4", "-b", "1024", "-O", "bigalloc,quota,^resize_inode", "-C", "4096", "-N", "4096"], "32M"
        desc = bigalloc_quota_lostfound(src, img)
    elif idx <= nd + 4 + 2 * len(corrupt.PAIRS) + 4 + len(corrupt.ORPHAN_VARIANTS) + 3:
        alg = ["tea", "half_md4", "legacy"][idx - (nd + 4 + 2 * len(corrupt.PAIRS) + 4 + len(corrupt.ORPHAN_VARIANTS) + 1)]
        name, opts, size = "ext4_hash_" + alg, ["-t", "ext4", "-b", "1024", "-N", "1024"], "8M"
        desc = hash_flag_case(src, img, alg)
    elif idx == nd + 4 + 2 * len(corrupt.PAIRS) + 4 + len(corrupt.ORPHAN_VARIANTS) + 4:
        name, opts, size = [c for c in corrupt.IMG_CONFIGS if c[0] == "ext4_metabg48"][0]
        base = corrupt.build_image(src, WORK, name, opts, size, 1)
        desc = uninit_bit_case(src, base, img)
    elif idx == nd + 4 + 2 * len(corrupt.PAIRS) + 4 + len(corrupt.ORPHAN_VARIANTS) + 7:
        name, opts, size = "ext4_tea_unsigned_dup", ["-t", "ext4", "-b", "1024", "-N", "1024", "-O", "^metadata_csum"], "8M"
        desc = dup_names_case(src, img)
    elif idx in (nd + 4 + 2 * len(corrupt.PAIRS) + 4 + len(corrupt.ORPHAN_VARIANTS) + 8, nd + 4 + 2 * len(corrupt.PAIRS) + 4 + len(corrupt.ORPHAN_VARIANTS) + 9):
        name, opts, size = [c for c in corrupt.IMG_CONFIGS if c[0] == ("ext3" if idx % 2 == 0 else "ext4_1k")][0]
        base = corrupt.build_image(src, WORK, name, opts, size, 1)
        desc = dotdot_case(src, base, img)
    elif idx == nd + 4 + 2 * len(corrupt.PAIRS) + 4 + len(corrupt.ORPHAN_VARIANTS) + 10:
        name, opts, size = "ext4_quota_small", ["-t", "ext4", "-b", "1024", "-O", "quota", "-N", "512"], "8M"
        desc = quota_unattached_case(src, img)
    elif idx in (nd + 4 + 2 * len(corrupt.PAIRS) + 4 + len(corrupt.ORPHAN_VARIANTS) + 11, nd + 4 + 2 * len(corrupt.PAIRS) + 4 + len(corrupt.ORPHAN_VARIANTS) + 12):
        feats_ = "bigalloc" if idx % 2 else "^flex_bg"
        name, opts, size = "ext4_no_lostfound_" + feats_.strip("^"), ["-t", "ext4", "-b", "1024", "-O", feats_, "-N", "512"], "16M"
        desc = no_lostfound_case(src, img, feats_)
    elif idx == nd + 4 + 2 * len(corrupt.PAIRS) + 4 + len(corrupt.ORPHAN_VARIANTS) + 5:
        # the listed known finding: i_file_acl of the orphan file inode beyond the end of the filesystem
        name, opts, size = [c for c in corrupt.IMG_CONFIGS if c[0] == "ext4_1k"][0]
        base = corrupt.build_image(src, WORK, name, opts, size, 1)
        desc = corrupt.corrupt(base, img, r, directed=[(corrupt.op_orphan_file, "file_acl")])
    elif idx == nd + 4 + 2 * len(corrupt.PAIRS) + 4 + len(corrupt.ORPHAN_VARIANTS) + 6:
        # the listed known finding (blocks left marked after the repair): thorough-tier case 2009 of seed 1
        rr = e2v.rng(1, "c02", 2009)
        name, opts, size = rr.choice(corrupt.IMG_CONFIGS)
        base = corrupt.build_image(src, WORK, name, opts, size, 1 + (2009 // 200) % 3)
        desc = corrupt.corrupt(base, img, rr)
    else:
        desc = corrupt.corrupt(base, img, r)
    recipe = {"base": name, "mke2fs": opts, "size": size, "build_seed": 1 + (idx // 200) % 3, "case_index": idx, "operators": desc}
    cons0 = judge_consistency(img)
    jx = journal_crosslinked(img) if cons0 else False
    sh0 = only_shadow(img, cons0)
    sp0 = only_special_acl(img, cons0)
    rc_n, probs_n, out_n = fsck(src, img, ["-fn"], "n1")
    before = open(img, "rb").read() if False else None
    owners0 = None
    try:
        f0 = Fs(img)
        owners0 = {i_: f0.inode(i_)["file_acl"] for i_ in f0.in_use_inodes() if (i_ == 2 or i_ >= f0.first_ino) and f0.inode(i_)["file_acl"]}
    except Exception:
        owners0 = None
    if not owners0:
        # the damaged image's own bitmaps may be unreadable (a descriptor location changed): the owners as they were before the damage
        try:
            fb = Fs(base)
            owners0 = {i_: fb.inode(i_)["file_acl"] for i_ in fb.in_use_inodes() if (i_ == 2 or i_ >= fb.first_ino) and fb.inode(i_)["file_acl"]}
        except Exception:
            owners0 = None
    rc_y, probs_y, out_y = fsck(src, img, ["-fy"], "y")
    rc_n2, probs_n2, out_n2 = fsck(src, img, ["-fn"], "n2")
    ea_cleared = False
    if owners0 and probs_n2 and all(c_ == 0x01003C for c_, a_ in probs_n2):
        # is every complaint of the second run about an attribute block that lost an owner because the first run cleared that inode
        # (after having counted its reference)?
        try:
            f2 = Fs(img)
            alive = set(f2.in_use_inodes())
            lines_ = re.findall(r"attribute block (\d+) has reference count (\d+), should be (\d+)", fsck(src, img, ["-fn"], "n3")[2])
            ok_ = bool(lines_)
            for b_, r_, s_ in lines_:
                b_, r_, s_ = int(b_), int(r_), int(s_)
                gone = sum(1 for i_, a_ in owners0.items() if a_ == b_ and (i_ not in alive or f2.inode(i_)["file_acl"] != b_))
                left = sum(1 for i_ in alive if (i_ == 2 or i_ >= f2.first_ino) and f2.inode(i_)["file_acl"] == b_)
                if not (gone >= 1 and r_ - s_ == gone and s_ == left):
                    ok_ = False
            ea_cleared = ok_
        except Exception:
            ea_cleared = False
    cons2 = judge_consistency(img) if rc_n2 == 0 else "skipped"
    sh2 = only_shadow(img, cons2)
    res = {"special0": sp0, "special2": only_special_acl(img, cons2), "ea_cleared": ea_cleared, "shadow0": sh0, "shadow2": sh2, "recipe": recipe, "cons0": cons0, "journal_crosslinked": jx, "rc_n": rc_n, "probs_n": probs_n, "rc_y": rc_y, "probs_y": probs_y,
           "rc_n2": rc_n2, "probs_n2": probs_n2, "cons2": cons2, "out_n": out_n[-400:], "out_n2": out_n2[-600:], "out_y": out_y[-300:]}
    if not keep:
        os.unlink(img)
    return res


class BaseNotClean(Exception):
    """e2fsck -fn found problems on a freshly built, undamaged base image"""
    def __init__(self, name, opts, size, msg):
        Exception.__init__(self, msg)
        self.recipe = {"base": name, "mke2fs": opts, "size": size, "operators": [], "note": "undamaged base image as built by mke2fs + debugfs (+ the sharing step for ext4_sharedea)"}
        self.msg = msg


def campaign(src, seed, tier, n=None):
    os.makedirs(WORK, exist_ok=True)
    n = n or (150 if tier == "quick" else 6000)
    for i, (name, opts, size) in enumerate(corrupt.IMG_CONFIGS):
        try:
            corrupt.build_image(src, WORK, name, opts, size, 1)
        except RuntimeError as ex:
            if "not clean" in str(ex):
                raise BaseNotClean(name, opts, size, str(ex))
            raise
    with concurrent.futures.ThreadPoolExecutor(16) as ex:
        return list(ex.map(lambda i: one_case(src, i, seed, tier), range(n)))


def verdict_model(mexe, mode, probs, direct2=False, changed=False):
    """exit bits the model derives from the problem log (lower bound for the UNCORRECTED bit)"""
    p1 = " ".join(str(c) for c, a in probs if c < 0x010000)
    p2 = " ".join(str(c) for c, a in probs if c >= 0x010000)
    return "%s %d %d | %s | %s" % (mode, 1 if direct2 else 0, 1 if changed else 0, p1, p2)


def run_model(mexe, lines):
    """verdict model on every line; '?' where the model gave no answer"""
    import resource
    def big_stack():
        try:
            resource.setrlimit(resource.RLIMIT_STACK, (resource.RLIM_INFINITY, resource.RLIM_INFINITY))
        except Exception:
            pass
    mv = []
    for i in range(0, len(lines), 200):
        chunk = lines[i:i + 200]
        p = subprocess.run([mexe], input=("\n".join(chunk) + "\n").encode(), stdout=subprocess.PIPE, timeout=600, preexec_fn=big_stack)
        out = p.stdout.decode().split("\n")[:len(chunk)]
        mv += out + ["?"] * (len(chunk) - len(out))
    return mv


def run(res, replay=None):
    tier, seed = res.tier, res.seed
    src = e2v.ensure_build()
    import importlib.util
    spec = importlib.util.spec_from_file_location("gpt", os.path.join(e2v.VERIF, "gen", "gen_problem_table.py"))
    gpt = importlib.util.module_from_spec(spec)
    spec.loader.exec_module(gpt)
    gpt.main(src, os.path.join(e2v.COQ, "theories", "Gen", "ProblemTable.v"))
    res.cov["generated_tables"]["Gen/ProblemTable.v"] = hashlib.sha256(open(os.path.join(e2v.COQ, "theories", "Gen", "ProblemTable.v"), "rb").read()).hexdigest()[:16]
    pr = e2v.coq_property("C02")
    res.add_proof(pr)
    mexe = e2v.build_driver("verdict", ["theories/Verdict/Verdict.vo"], ["verdict_model"])
    res.cov["trusted_base"] = e2v.TRUSTED_COMMON + [
        "gen/gen_problem_table.py (translator of e2fsck/problem.c|h into Gen/ProblemTable.v); Frozen/NoOkFrozen.v is the reviewed list of problems that tolerate 'no'",
        "lib/extfmt.py consistency(): the check's independent reading of the format and of the invariants (validated in both directions against the tools and the f_* images)",
        "lib/corrupt.py: corruption operators; an image counts as inconsistent only when the independent reader says so",
    ]
    res.cov["partial"] = ["passes 1-3 of e2fsck are not modelled: their verdicts are observed on generated corruptions; proved are the verdict layer (fix_problem/exit status over the regenerated problem table)",
                          "inline_data, bigalloc, encryption, casefold images are outside the independent reader and are skipped"]
    if replay:
        rp = json.load(open(replay))
        cases = [one_case(src, rp["recipe"]["case_index"], seed, tier)]
    else:
        try:
            cases = campaign(src, seed, tier)
        except BaseNotClean as ex:
            res.violation("oracle", {"recipe": ex.recipe, "note": "e2fsck -fn reports problems on an undamaged filesystem: " + ex.msg[-400:]}, signature="c02:base:" + ex.recipe["base"])
            res.add_obligation("campaign ran", False)
            return
    bad, verdict_bad = [], []
    stats = {"inconsistent_inputs": 0, "consistent_inputs": 0, "skipped": 0, "rc_n": {}, "clauses": {}}
    lines = [verdict_model(mexe, "n", c["probs_n"]) for c in cases]
    mv = run_model(mexe, lines)
    model_unavailable = sum(1 for x in mv[:len(cases)] if not x.strip().isdigit())
    for c, mexit in zip(cases, mv):
        rec = c["recipe"]
        nontriv = c["cons0"] not in (None, [])
        res.case(json.dumps(rec), nontriv)
        stats["rc_n"][c["rc_n"]] = stats["rc_n"].get(c["rc_n"], 0) + 1
        if c["cons0"] is None:
            stats["skipped"] += 1
            continue
        if c["cons0"]:
            stats["inconsistent_inputs"] += 1
            for cl in {x.split(":")[0] for x in c["cons0"]}:
                stats["clauses"][cl] = stats["clauses"].get(cl, 0) + 1
        else:
            stats["consistent_inputs"] += 1
        if len(res.cov["samples"]) < 3 and c["cons0"]:
            res.sample({"recipe": rec, "independent_reader": c["cons0"][:3], "e2fsck_n_exit": c["rc_n"]})
        if c["rc_n"] == 0 and c["cons0"]:
            bad.append((rec, c["cons0"], c["out_n"], "special" if c.get("special0") else c.get("shadow0")))
        # verdict correspondence: the model's UNCORRECTED bit (from the problem log) must be in the real exit status
        if mexit.strip().isdigit() and int(mexit) & 4 and not (c["rc_n"] & 4) and c["rc_n"] not in (8, 12, -9):
            verdict_bad.append((rec, c["probs_n"][:8], c["rc_n"]))
    res.cov["correspondence"] = {"e2fsck_n_runs": len(cases), "verdict_mismatches": len(verdict_bad), "model_unavailable": model_unavailable,
                                 "compared": "exit status of every e2fsck -fn run vs the verdict model applied to that run's problem log (model's 'uncorrected' bit must be set in the real status)"}
    res.cov["oracle"] = {"evaluations": len(cases), "failures": len(bad), "distribution": stats,
                         "statement": "whenever the independent reader finds an invariant violated, e2fsck -fn exits non-zero"}
    res.cov["rule"] = ("images: 6 feature sets populated (htree dir, fragmented extent file, xattrs, links, special files), 1-3 structured corruption operators (bitmaps, descriptor counts/locations, inode fields, extents, "
                       "dirents, checksum-only, noise), checksums re-computed in 70% so the damage is structural; non-trivial = independent reader judges the image inconsistent")
    res.add_obligation("verdict model consistent with every observed exit status", not verdict_bad)
    bad.sort(key=lambda b: 1 if b[3] else 0)
    shown_, unknown_ = set(), 0
    for rec, cons, out, shadow in bad:
        if shadow:
            if shadow in shown_:
                continue
            shown_.add(shadow)
        else:
            unknown_ += 1
            if unknown_ > 3:
                continue
        res.violation("oracle", {"recipe": rec, "independent_reader": cons[:5], "e2fsck_fn_exit": 0, "e2fsck_output_tail": out[-300:],
                                 "note": "e2fsck -fn exits 0 on an image that violates a consistency invariant"},
                      signature="c02:special-inode-bad-file-acl" if shadow == "special" else "c02:uninit-group-metadata-bit-clear-on-disk" if shadow else "c02:" + hashlib.sha256(json.dumps(rec["operators"]).encode()).hexdigest()[:12])
    for rec, probs, rc in verdict_bad[:2]:
        res.violation("correspondence", {"recipe": rec, "problem_log": probs, "exit": rc,
                                         "note": "problem log contains an unfixed problem but the exit status lacks 'errors left uncorrected'"},
                      signature="c02v:" + hashlib.sha256(json.dumps(rec["operators"]).encode()).hexdigest()[:12])
    if not pr["ok"] and not bad and not verdict_bad:
        res.violation("proof", {"theorem_file": "coq/theories/Properties_C02.v", "failed_at": pr["failed_at"],
                                "forbidden": pr["forbidden"], "log_tail": pr["log_tail"][-1500:]}, has_input=False)

#!/bin/sh
# usage: dbg.sh file.v LINE  -- show goals after LINE
f=$1; n=$2
mkdir -p /var/tmp/e2v/dbg
head -n $n $f > /var/tmp/e2v/dbg/D.v
printf '\nShow.\n' >> /var/tmp/e2v/dbg/D.v
cd /verif/coq && timeout 300 coqc -Q theories E2V -w -notation-overridden /var/tmp/e2v/dbg/D.v 2>&1 | head -${3:-60}

theories/Bitmap/BmGen.vo theories/Bitmap/BmGen.glob theories/Bitmap/BmGen.v.beautified theories/Bitmap/BmGen.required_vo: theories/Bitmap/BmGen.v 
theories/Bitmap/BmGen.vio: theories/Bitmap/BmGen.v 
theories/Bitmap/BmGen.vos theories/Bitmap/BmGen.vok theories/Bitmap/BmGen.required_vos: theories/Bitmap/BmGen.v 
theories/Bitmap/RBModel.vo theories/Bitmap/RBModel.glob theories/Bitmap/RBModel.v.beautified theories/Bitmap/RBModel.required_vo: theories/Bitmap/RBModel.v theories/Bitmap/BmGen.vo
theories/Bitmap/RBModel.vio: theories/Bitmap/RBModel.v theories/Bitmap/BmGen.vio
theories/Bitmap/RBModel.vos theories/Bitmap/RBModel.vok theories/Bitmap/RBModel.required_vos: theories/Bitmap/RBModel.v theories/Bitmap/BmGen.vos
theories/Bitmap/BAModel.vo theories/Bitmap/BAModel.glob theories/Bitmap/BAModel.v.beautified theories/Bitmap/BAModel.required_vo: theories/Bitmap/BAModel.v theories/Bitmap/BmGen.vo
theories/Bitmap/BAModel.vio: theories/Bitmap/BAModel.v theories/Bitmap/BmGen.vio
theories/Bitmap/BAModel.vos theories/Bitmap/BAModel.vok theories/Bitmap/BAModel.required_vos: theories/Bitmap/BAModel.v theories/Bitmap/BmGen.vos
theories/Bitmap/FSetLemmas.vo theories/Bitmap/FSetLemmas.glob theories/Bitmap/FSetLemmas.v.beautified theories/Bitmap/FSetLemmas.required_vo: theories/Bitmap/FSetLemmas.v theories/Bitmap/BmGen.vo
theories/Bitmap/FSetLemmas.vio: theories/Bitmap/FSetLemmas.v theories/Bitmap/BmGen.vio
theories/Bitmap/FSetLemmas.vos theories/Bitmap/FSetLemmas.vok theories/Bitmap/FSetLemmas.required_vos: theories/Bitmap/FSetLemmas.v theories/Bitmap/BmGen.vos
theories/Bitmap/BackendOk.vo theories/Bitmap/BackendOk.glob theories/Bitmap/BackendOk.v.beautified theories/Bitmap/BackendOk.required_vo: theories/Bitmap/BackendOk.v theories/Bitmap/BmGen.vo
theories/Bitmap/BackendOk.vio: theories/Bitmap/BackendOk.v theories/Bitmap/BmGen.vio
theories/Bitmap/BackendOk.vos theories/Bitmap/BackendOk.vok theories/Bitmap/BackendOk.required_vos: theories/Bitmap/BackendOk.v theories/Bitmap/BmGen.vos
theories/Bitmap/RBProofs.vo theories/Bitmap/RBProofs.glob theories/Bitmap/RBProofs.v.beautified theories/Bitmap/RBProofs.required_vo: theories/Bitmap/RBProofs.v theories/Bitmap/RBModel.vo theories/Bitmap/FSetLemmas.vo theories/Bitmap/BackendOk.vo
theories/Bitmap/RBProofs.vio: theories/Bitmap/RBProofs.v theories/Bitmap/RBModel.vio theories/Bitmap/FSetLemmas.vio theories/Bitmap/BackendOk.vio
theories/Bitmap/RBProofs.vos theories/Bitmap/RBProofs.vok theories/Bitmap/RBProofs.required_vos: theories/Bitmap/RBProofs.v theories/Bitmap/RBModel.vos theories/Bitmap/FSetLemmas.vos theories/Bitmap/BackendOk.vos
theories/Bitmap/BAProofs.vo theories/Bitmap/BAProofs.glob theories/Bitmap/BAProofs.v.beautified theories/Bitmap/BAProofs.required_vo: theories/Bitmap/BAProofs.v theories/Bitmap/BAModel.vo theories/Bitmap/FSetLemmas.vo theories/Bitmap/BackendOk.vo
theories/Bitmap/BAProofs.vio: theories/Bitmap/BAProofs.v theories/Bitmap/BAModel.vio theories/Bitmap/FSetLemmas.vio theories/Bitmap/BackendOk.vio
theories/Bitmap/BAProofs.vos theories/Bitmap/BAProofs.vok theories/Bitmap/BAProofs.required_vos: theories/Bitmap/BAProofs.v theories/Bitmap/BAModel.vos theories/Bitmap/FSetLemmas.vos theories/Bitmap/BackendOk.vos
theories/Bitmap/GenProofs.vo theories/Bitmap/GenProofs.glob theories/Bitmap/GenProofs.v.beautified theories/Bitmap/GenProofs.required_vo: theories/Bitmap/GenProofs.v theories/Bitmap/BmGen.vo theories/Bitmap/FSetLemmas.vo theories/Bitmap/BackendOk.vo
theories/Bitmap/GenProofs.vio: theories/Bitmap/GenProofs.v theories/Bitmap/BmGen.vio theories/Bitmap/FSetLemmas.vio theories/Bitmap/BackendOk.vio
theories/Bitmap/GenProofs.vos theories/Bitmap/GenProofs.vok theories/Bitmap/GenProofs.required_vos: theories/Bitmap/GenProofs.v theories/Bitmap/BmGen.vos theories/Bitmap/FSetLemmas.vos theories/Bitmap/BackendOk.vos
theories/Bitmap/BmResize.vo theories/Bitmap/BmResize.glob theories/Bitmap/BmResize.v.beautified theories/Bitmap/BmResize.required_vo: theories/Bitmap/BmResize.v theories/Bitmap/BmGen.vo
theories/Bitmap/BmResize.vio: theories/Bitmap/BmResize.v theories/Bitmap/BmGen.vio
theories/Bitmap/BmResize.vos theories/Bitmap/BmResize.vok theories/Bitmap/BmResize.required_vos: theories/Bitmap/BmResize.v theories/Bitmap/BmGen.vos
theories/Bitmap/BmResizeProofs.vo theories/Bitmap/BmResizeProofs.glob theories/Bitmap/BmResizeProofs.v.beautified theories/Bitmap/BmResizeProofs.required_vo: theories/Bitmap/BmResizeProofs.v theories/Bitmap/BmGen.vo theories/Bitmap/FSetLemmas.vo theories/Bitmap/BackendOk.vo theories/Bitmap/GenProofs.vo theories/Bitmap/BmResize.vo
theories/Bitmap/BmResizeProofs.vio: theories/Bitmap/BmResizeProofs.v theories/Bitmap/BmGen.vio theories/Bitmap/FSetLemmas.vio theories/Bitmap/BackendOk.vio theories/Bitmap/GenProofs.vio theories/Bitmap/BmResize.vio
theories/Bitmap/BmResizeProofs.vos theories/Bitmap/BmResizeProofs.vok theories/Bitmap/BmResizeProofs.required_vos: theories/Bitmap/BmResizeProofs.v theories/Bitmap/BmGen.vos theories/Bitmap/FSetLemmas.vos theories/Bitmap/BackendOk.vos theories/Bitmap/GenProofs.vos theories/Bitmap/BmResize.vos
theories/Properties_C16.vo theories/Properties_C16.glob theories/Properties_C16.v.beautified theories/Properties_C16.required_vo: theories/Properties_C16.v theories/Bitmap/BmGen.vo theories/Bitmap/RBModel.vo theories/Bitmap/BAModel.vo theories/Bitmap/FSetLemmas.vo theories/Bitmap/BackendOk.vo theories/Bitmap/RBProofs.vo theories/Bitmap/BAProofs.vo theories/Bitmap/GenProofs.vo theories/Bitmap/BmResize.vo theories/Bitmap/BmResizeProofs.vo
theories/Properties_C16.vio: theories/Properties_C16.v theories/Bitmap/BmGen.vio theories/Bitmap/RBModel.vio theories/Bitmap/BAModel.vio theories/Bitmap/FSetLemmas.vio theories/Bitmap/BackendOk.vio theories/Bitmap/RBProofs.vio theories/Bitmap/BAProofs.vio theories/Bitmap/GenProofs.vio theories/Bitmap/BmResize.vio theories/Bitmap/BmResizeProofs.vio
theories/Properties_C16.vos theories/Properties_C16.vok theories/Properties_C16.required_vos: theories/Properties_C16.v theories/Bitmap/BmGen.vos theories/Bitmap/RBModel.vos theories/Bitmap/BAModel.vos theories/Bitmap/FSetLemmas.vos theories/Bitmap/BackendOk.vos theories/Bitmap/RBProofs.vos theories/Bitmap/BAProofs.vos theories/Bitmap/GenProofs.vos theories/Bitmap/BmResize.vos theories/Bitmap/BmResizeProofs.vos
theories/IoCache/IoModel.vo theories/IoCache/IoModel.glob theories/IoCache/IoModel.v.beautified theories/IoCache/IoModel.required_vo: theories/IoCache/IoModel.v 
theories/IoCache/IoModel.vio: theories/IoCache/IoModel.v 
theories/IoCache/IoModel.vos theories/IoCache/IoModel.vok theories/IoCache/IoModel.required_vos: theories/IoCache/IoModel.v 
theories/IoCache/IoProofs.vo theories/IoCache/IoProofs.glob theories/IoCache/IoProofs.v.beautified theories/IoCache/IoProofs.required_vo: theories/IoCache/IoProofs.v theories/IoCache/IoModel.vo
theories/IoCache/IoProofs.vio: theories/IoCache/IoProofs.v theories/IoCache/IoModel.vio
theories/IoCache/IoProofs.vos theories/IoCache/IoProofs.vok theories/IoCache/IoProofs.required_vos: theories/IoCache/IoProofs.v theories/IoCache/IoModel.vos
theories/Properties_C17.vo theories/Properties_C17.glob theories/Properties_C17.v.beautified theories/Properties_C17.required_vo: theories/Properties_C17.v theories/IoCache/IoModel.vo theories/IoCache/IoProofs.vo
theories/Properties_C17.vio: theories/Properties_C17.v theories/IoCache/IoModel.vio theories/IoCache/IoProofs.vio
theories/Properties_C17.vos theories/Properties_C17.vok theories/Properties_C17.required_vos: theories/Properties_C17.v theories/IoCache/IoModel.vos theories/IoCache/IoProofs.vos
theories/Undo/UndoModel.vo theories/Undo/UndoModel.glob theories/Undo/UndoModel.v.beautified theories/Undo/UndoModel.required_vo: theories/Undo/UndoModel.v theories/IoCache/IoModel.vo
theories/Undo/UndoModel.vio: theories/Undo/UndoModel.v theories/IoCache/IoModel.vio
theories/Undo/UndoModel.vos theories/Undo/UndoModel.vok theories/Undo/UndoModel.required_vos: theories/Undo/UndoModel.v theories/IoCache/IoModel.vos
theories/Undo/UndoProofs.vo theories/Undo/UndoProofs.glob theories/Undo/UndoProofs.v.beautified theories/Undo/UndoProofs.required_vo: theories/Undo/UndoProofs.v theories/IoCache/IoModel.vo theories/IoCache/IoProofs.vo theories/Undo/UndoModel.vo
theories/Undo/UndoProofs.vio: theories/Undo/UndoProofs.v theories/IoCache/IoModel.vio theories/IoCache/IoProofs.vio theories/Undo/UndoModel.vio
theories/Undo/UndoProofs.vos theories/Undo/UndoProofs.vok theories/Undo/UndoProofs.required_vos: theories/Undo/UndoProofs.v theories/IoCache/IoModel.vos theories/IoCache/IoProofs.vos theories/Undo/UndoModel.vos
theories/Properties_C12.vo theories/Properties_C12.glob theories/Properties_C12.v.beautified theories/Properties_C12.required_vo: theories/Properties_C12.v theories/IoCache/IoModel.vo theories/Undo/UndoModel.vo theories/Undo/UndoProofs.vo
theories/Properties_C12.vio: theories/Properties_C12.v theories/IoCache/IoModel.vio theories/Undo/UndoModel.vio theories/Undo/UndoProofs.vio
theories/Properties_C12.vos theories/Properties_C12.vok theories/Properties_C12.required_vos: theories/Properties_C12.v theories/IoCache/IoModel.vos theories/Undo/UndoModel.vos theories/Undo/UndoProofs.vos
theories/Gen/CrcTables.vo theories/Gen/CrcTables.glob theories/Gen/CrcTables.v.beautified theories/Gen/CrcTables.required_vo: theories/Gen/CrcTables.v 
theories/Gen/CrcTables.vio: theories/Gen/CrcTables.v 
theories/Gen/CrcTables.vos theories/Gen/CrcTables.vok theories/Gen/CrcTables.required_vos: theories/Gen/CrcTables.v 
theories/Crc/Crc.vo theories/Crc/Crc.glob theories/Crc/Crc.v.beautified theories/Crc/Crc.required_vo: theories/Crc/Crc.v 
theories/Crc/Crc.vio: theories/Crc/Crc.v 
theories/Crc/Crc.vos theories/Crc/Crc.vok theories/Crc/Crc.required_vos: theories/Crc/Crc.v 
theories/Crc/Csum.vo theories/Crc/Csum.glob theories/Crc/Csum.v.beautified theories/Crc/Csum.required_vo: theories/Crc/Csum.v theories/Crc/Crc.vo
theories/Crc/Csum.vio: theories/Crc/Csum.v theories/Crc/Crc.vio
theories/Crc/Csum.vos theories/Crc/Csum.vok theories/Crc/Csum.required_vos: theories/Crc/Csum.v theories/Crc/Crc.vos
theories/Crc/CrcProofs.vo theories/Crc/CrcProofs.glob theories/Crc/CrcProofs.v.beautified theories/Crc/CrcProofs.required_vo: theories/Crc/CrcProofs.v theories/Crc/Crc.vo theories/Crc/Csum.vo
theories/Crc/CrcProofs.vio: theories/Crc/CrcProofs.v theories/Crc/Crc.vio theories/Crc/Csum.vio
theories/Crc/CrcProofs.vos theories/Crc/CrcProofs.vok theories/Crc/CrcProofs.required_vos: theories/Crc/CrcProofs.v theories/Crc/Crc.vos theories/Crc/Csum.vos
theories/Properties_C14.vo theories/Properties_C14.glob theories/Properties_C14.v.beautified theories/Properties_C14.required_vo: theories/Properties_C14.v theories/Crc/Crc.vo theories/Crc/CrcProofs.vo theories/Crc/Csum.vo theories/Gen/CrcTables.vo
theories/Properties_C14.vio: theories/Properties_C14.v theories/Crc/Crc.vio theories/Crc/CrcProofs.vio theories/Crc/Csum.vio theories/Gen/CrcTables.vio
theories/Properties_C14.vos theories/Properties_C14.vok theories/Properties_C14.required_vos: theories/Properties_C14.v theories/Crc/Crc.vos theories/Crc/CrcProofs.vos theories/Crc/Csum.vos theories/Gen/CrcTables.vos
theories/Jbd2/Jbd2Model.vo theories/Jbd2/Jbd2Model.glob theories/Jbd2/Jbd2Model.v.beautified theories/Jbd2/Jbd2Model.required_vo: theories/Jbd2/Jbd2Model.v 
theories/Jbd2/Jbd2Model.vio: theories/Jbd2/Jbd2Model.v 
theories/Jbd2/Jbd2Model.vos theories/Jbd2/Jbd2Model.vok theories/Jbd2/Jbd2Model.required_vos: theories/Jbd2/Jbd2Model.v 
theories/Jbd2/Jbd2Proofs.vo theories/Jbd2/Jbd2Proofs.glob theories/Jbd2/Jbd2Proofs.v.beautified theories/Jbd2/Jbd2Proofs.required_vo: theories/Jbd2/Jbd2Proofs.v theories/Jbd2/Jbd2Model.vo
theories/Jbd2/Jbd2Proofs.vio: theories/Jbd2/Jbd2Proofs.v theories/Jbd2/Jbd2Model.vio
theories/Jbd2/Jbd2Proofs.vos theories/Jbd2/Jbd2Proofs.vok theories/Jbd2/Jbd2Proofs.required_vos: theories/Jbd2/Jbd2Proofs.v theories/Jbd2/Jbd2Model.vos
theories/Properties_C03.vo theories/Properties_C03.glob theories/Properties_C03.v.beautified theories/Properties_C03.required_vo: theories/Properties_C03.v theories/Jbd2/Jbd2Model.vo theories/Jbd2/Jbd2Proofs.vo
theories/Properties_C03.vio: theories/Properties_C03.v theories/Jbd2/Jbd2Model.vio theories/Jbd2/Jbd2Proofs.vio
theories/Properties_C03.vos theories/Properties_C03.vok theories/Properties_C03.required_vos: theories/Properties_C03.v theories/Jbd2/Jbd2Model.vos theories/Jbd2/Jbd2Proofs.vos
theories/Properties_C04.vo theories/Properties_C04.glob theories/Properties_C04.v.beautified theories/Properties_C04.required_vo: theories/Properties_C04.v theories/Jbd2/Jbd2Model.vo theories/Jbd2/Jbd2Proofs.vo theories/Properties_C03.vo
theories/Properties_C04.vio: theories/Properties_C04.v theories/Jbd2/Jbd2Model.vio theories/Jbd2/Jbd2Proofs.vio theories/Properties_C03.vio
theories/Properties_C04.vos theories/Properties_C04.vok theories/Properties_C04.required_vos: theories/Properties_C04.v theories/Jbd2/Jbd2Model.vos theories/Jbd2/Jbd2Proofs.vos theories/Properties_C03.vos
theories/Layout/Layout.vo theories/Layout/Layout.glob theories/Layout/Layout.v.beautified theories/Layout/Layout.required_vo: theories/Layout/Layout.v 
theories/Layout/Layout.vio: theories/Layout/Layout.v 
theories/Layout/Layout.vos theories/Layout/Layout.vok theories/Layout/Layout.required_vos: theories/Layout/Layout.v 
theories/Layout/LayoutProofs.vo theories/Layout/LayoutProofs.glob theories/Layout/LayoutProofs.v.beautified theories/Layout/LayoutProofs.required_vo: theories/Layout/LayoutProofs.v theories/Layout/Layout.vo
theories/Layout/LayoutProofs.vio: theories/Layout/LayoutProofs.v theories/Layout/Layout.vio
theories/Layout/LayoutProofs.vos theories/Layout/LayoutProofs.vok theories/Layout/LayoutProofs.required_vos: theories/Layout/LayoutProofs.v theories/Layout/Layout.vos
theories/Resize/ResizeGeom.vo theories/Resize/ResizeGeom.glob theories/Resize/ResizeGeom.v.beautified theories/Resize/ResizeGeom.required_vo: theories/Resize/ResizeGeom.v theories/Layout/Layout.vo
theories/Resize/ResizeGeom.vio: theories/Resize/ResizeGeom.v theories/Layout/Layout.vio
theories/Resize/ResizeGeom.vos theories/Resize/ResizeGeom.vok theories/Resize/ResizeGeom.required_vos: theories/Resize/ResizeGeom.v theories/Layout/Layout.vos
theories/Resize/ResizeProofs.vo theories/Resize/ResizeProofs.glob theories/Resize/ResizeProofs.v.beautified theories/Resize/ResizeProofs.required_vo: theories/Resize/ResizeProofs.v theories/Layout/Layout.vo theories/Resize/ResizeGeom.vo
theories/Resize/ResizeProofs.vio: theories/Resize/ResizeProofs.v theories/Layout/Layout.vio theories/Resize/ResizeGeom.vio
theories/Resize/ResizeProofs.vos theories/Resize/ResizeProofs.vok theories/Resize/ResizeProofs.required_vos: theories/Resize/ResizeProofs.v theories/Layout/Layout.vos theories/Resize/ResizeGeom.vos
theories/Properties_C08.vo theories/Properties_C08.glob theories/Properties_C08.v.beautified theories/Properties_C08.required_vo: theories/Properties_C08.v theories/Layout/Layout.vo theories/Resize/ResizeGeom.vo theories/Resize/ResizeProofs.vo
theories/Properties_C08.vio: theories/Properties_C08.v theories/Layout/Layout.vio theories/Resize/ResizeGeom.vio theories/Resize/ResizeProofs.vio
theories/Properties_C08.vos theories/Properties_C08.vok theories/Properties_C08.required_vos: theories/Properties_C08.v theories/Layout/Layout.vos theories/Resize/ResizeGeom.vos theories/Resize/ResizeProofs.vos
theories/Geometry/InitGeom.vo theories/Geometry/InitGeom.glob theories/Geometry/InitGeom.v.beautified theories/Geometry/InitGeom.required_vo: theories/Geometry/InitGeom.v theories/Layout/Layout.vo theories/Resize/ResizeGeom.vo
theories/Geometry/InitGeom.vio: theories/Geometry/InitGeom.v theories/Layout/Layout.vio theories/Resize/ResizeGeom.vio
theories/Geometry/InitGeom.vos theories/Geometry/InitGeom.vok theories/Geometry/InitGeom.required_vos: theories/Geometry/InitGeom.v theories/Layout/Layout.vos theories/Resize/ResizeGeom.vos
theories/Geometry/InitGeomProofs.vo theories/Geometry/InitGeomProofs.glob theories/Geometry/InitGeomProofs.v.beautified theories/Geometry/InitGeomProofs.required_vo: theories/Geometry/InitGeomProofs.v theories/Layout/Layout.vo theories/Resize/ResizeGeom.vo theories/Resize/ResizeProofs.vo theories/Geometry/InitGeom.vo
theories/Geometry/InitGeomProofs.vio: theories/Geometry/InitGeomProofs.v theories/Layout/Layout.vio theories/Resize/ResizeGeom.vio theories/Resize/ResizeProofs.vio theories/Geometry/InitGeom.vio
theories/Geometry/InitGeomProofs.vos theories/Geometry/InitGeomProofs.vok theories/Geometry/InitGeomProofs.required_vos: theories/Geometry/InitGeomProofs.v theories/Layout/Layout.vos theories/Resize/ResizeGeom.vos theories/Resize/ResizeProofs.vos theories/Geometry/InitGeom.vos
theories/Properties_C07.vo theories/Properties_C07.glob theories/Properties_C07.v.beautified theories/Properties_C07.required_vo: theories/Properties_C07.v theories/Layout/Layout.vo theories/Resize/ResizeGeom.vo theories/Geometry/InitGeom.vo theories/Geometry/InitGeomProofs.vo
theories/Properties_C07.vio: theories/Properties_C07.v theories/Layout/Layout.vio theories/Resize/ResizeGeom.vio theories/Geometry/InitGeom.vio theories/Geometry/InitGeomProofs.vio
theories/Properties_C07.vos theories/Properties_C07.vok theories/Properties_C07.required_vos: theories/Properties_C07.v theories/Layout/Layout.vos theories/Resize/ResizeGeom.vos theories/Geometry/InitGeom.vos theories/Geometry/InitGeomProofs.vos
theories/Properties_C20.vo theories/Properties_C20.glob theories/Properties_C20.v.beautified theories/Properties_C20.required_vo: theories/Properties_C20.v theories/Layout/Layout.vo theories/Layout/LayoutProofs.vo
theories/Properties_C20.vio: theories/Properties_C20.v theories/Layout/Layout.vio theories/Layout/LayoutProofs.vio
theories/Properties_C20.vos theories/Properties_C20.vok theories/Properties_C20.required_vos: theories/Properties_C20.v theories/Layout/Layout.vos theories/Layout/LayoutProofs.vos
theories/Gen/ProblemTable.vo theories/Gen/ProblemTable.glob theories/Gen/ProblemTable.v.beautified theories/Gen/ProblemTable.required_vo: theories/Gen/ProblemTable.v 
theories/Gen/ProblemTable.vio: theories/Gen/ProblemTable.v 
theories/Gen/ProblemTable.vos theories/Gen/ProblemTable.vok theories/Gen/ProblemTable.required_vos: theories/Gen/ProblemTable.v 
theories/Frozen/NoOkFrozen.vo theories/Frozen/NoOkFrozen.glob theories/Frozen/NoOkFrozen.v.beautified theories/Frozen/NoOkFrozen.required_vo: theories/Frozen/NoOkFrozen.v 
theories/Frozen/NoOkFrozen.vio: theories/Frozen/NoOkFrozen.v 
theories/Frozen/NoOkFrozen.vos theories/Frozen/NoOkFrozen.vok theories/Frozen/NoOkFrozen.required_vos: theories/Frozen/NoOkFrozen.v 
theories/Verdict/Verdict.vo theories/Verdict/Verdict.glob theories/Verdict/Verdict.v.beautified theories/Verdict/Verdict.required_vo: theories/Verdict/Verdict.v theories/Gen/ProblemTable.vo theories/Frozen/NoOkFrozen.vo
theories/Verdict/Verdict.vio: theories/Verdict/Verdict.v theories/Gen/ProblemTable.vio theories/Frozen/NoOkFrozen.vio
theories/Verdict/Verdict.vos theories/Verdict/Verdict.vok theories/Verdict/Verdict.required_vos: theories/Verdict/Verdict.v theories/Gen/ProblemTable.vos theories/Frozen/NoOkFrozen.vos
theories/Verdict/VerdictProofs.vo theories/Verdict/VerdictProofs.glob theories/Verdict/VerdictProofs.v.beautified theories/Verdict/VerdictProofs.required_vo: theories/Verdict/VerdictProofs.v theories/Verdict/Verdict.vo
theories/Verdict/VerdictProofs.vio: theories/Verdict/VerdictProofs.v theories/Verdict/Verdict.vio
theories/Verdict/VerdictProofs.vos theories/Verdict/VerdictProofs.vok theories/Verdict/VerdictProofs.required_vos: theories/Verdict/VerdictProofs.v theories/Verdict/Verdict.vos
theories/Properties_C02.vo theories/Properties_C02.glob theories/Properties_C02.v.beautified theories/Properties_C02.required_vo: theories/Properties_C02.v theories/Verdict/Verdict.vo theories/Verdict/VerdictProofs.vo
theories/Properties_C02.vio: theories/Properties_C02.v theories/Verdict/Verdict.vio theories/Verdict/VerdictProofs.vio
theories/Properties_C02.vos theories/Properties_C02.vok theories/Properties_C02.required_vos: theories/Properties_C02.v theories/Verdict/Verdict.vos theories/Verdict/VerdictProofs.vos
theories/Verdict/ICache.vo theories/Verdict/ICache.glob theories/Verdict/ICache.v.beautified theories/Verdict/ICache.required_vo: theories/Verdict/ICache.v 
theories/Verdict/ICache.vio: theories/Verdict/ICache.v 
theories/Verdict/ICache.vos theories/Verdict/ICache.vok theories/Verdict/ICache.required_vos: theories/Verdict/ICache.v 
theories/Verdict/ICacheProofs.vo theories/Verdict/ICacheProofs.glob theories/Verdict/ICacheProofs.v.beautified theories/Verdict/ICacheProofs.required_vo: theories/Verdict/ICacheProofs.v theories/Verdict/ICache.vo
theories/Verdict/ICacheProofs.vio: theories/Verdict/ICacheProofs.v theories/Verdict/ICache.vio
theories/Verdict/ICacheProofs.vos theories/Verdict/ICacheProofs.vok theories/Verdict/ICacheProofs.required_vos: theories/Verdict/ICacheProofs.v theories/Verdict/ICache.vos
theories/Properties_C01.vo theories/Properties_C01.glob theories/Properties_C01.v.beautified theories/Properties_C01.required_vo: theories/Properties_C01.v theories/Verdict/Verdict.vo theories/Verdict/VerdictProofs.vo theories/Verdict/ICache.vo theories/Verdict/ICacheProofs.vo
theories/Properties_C01.vio: theories/Properties_C01.v theories/Verdict/Verdict.vio theories/Verdict/VerdictProofs.vio theories/Verdict/ICache.vio theories/Verdict/ICacheProofs.vio
theories/Properties_C01.vos theories/Properties_C01.vok theories/Properties_C01.required_vos: theories/Properties_C01.v theories/Verdict/Verdict.vos theories/Verdict/VerdictProofs.vos theories/Verdict/ICache.vos theories/Verdict/ICacheProofs.vos
theories/Rehash/Pack.vo theories/Rehash/Pack.glob theories/Rehash/Pack.v.beautified theories/Rehash/Pack.required_vo: theories/Rehash/Pack.v 
theories/Rehash/Pack.vio: theories/Rehash/Pack.v 
theories/Rehash/Pack.vos theories/Rehash/Pack.vok theories/Rehash/Pack.required_vos: theories/Rehash/Pack.v 
theories/Rehash/PackProofs.vo theories/Rehash/PackProofs.glob theories/Rehash/PackProofs.v.beautified theories/Rehash/PackProofs.required_vo: theories/Rehash/PackProofs.v theories/Rehash/Pack.vo
theories/Rehash/PackProofs.vio: theories/Rehash/PackProofs.v theories/Rehash/Pack.vio
theories/Rehash/PackProofs.vos theories/Rehash/PackProofs.vok theories/Rehash/PackProofs.required_vos: theories/Rehash/PackProofs.v theories/Rehash/Pack.vos
theories/Properties_C05.vo theories/Properties_C05.glob theories/Properties_C05.v.beautified theories/Properties_C05.required_vo: theories/Properties_C05.v theories/Rehash/Pack.vo theories/Rehash/PackProofs.vo
theories/Properties_C05.vio: theories/Properties_C05.v theories/Rehash/Pack.vio theories/Rehash/PackProofs.vio
theories/Properties_C05.vos theories/Properties_C05.vok theories/Properties_C05.required_vos: theories/Properties_C05.v theories/Rehash/Pack.vos theories/Rehash/PackProofs.vos
theories/OpenMode/OpenMode.vo theories/OpenMode/OpenMode.glob theories/OpenMode/OpenMode.v.beautified theories/OpenMode/OpenMode.required_vo: theories/OpenMode/OpenMode.v 
theories/OpenMode/OpenMode.vio: theories/OpenMode/OpenMode.v 
theories/OpenMode/OpenMode.vos theories/OpenMode/OpenMode.vok theories/OpenMode/OpenMode.required_vos: theories/OpenMode/OpenMode.v 
theories/Properties_C13.vo theories/Properties_C13.glob theories/Properties_C13.v.beautified theories/Properties_C13.required_vo: theories/Properties_C13.v theories/OpenMode/OpenMode.vo
theories/Properties_C13.vio: theories/Properties_C13.v theories/OpenMode/OpenMode.vio
theories/Properties_C13.vos theories/Properties_C13.vok theories/Properties_C13.required_vos: theories/Properties_C13.v theories/OpenMode/OpenMode.vos
theories/Gen/FeatureMasks.vo theories/Gen/FeatureMasks.glob theories/Gen/FeatureMasks.v.beautified theories/Gen/FeatureMasks.required_vo: theories/Gen/FeatureMasks.v 
theories/Gen/FeatureMasks.vio: theories/Gen/FeatureMasks.v 
theories/Gen/FeatureMasks.vos theories/Gen/FeatureMasks.vok theories/Gen/FeatureMasks.required_vos: theories/Gen/FeatureMasks.v 
theories/Tune/FeatureEdit.vo theories/Tune/FeatureEdit.glob theories/Tune/FeatureEdit.v.beautified theories/Tune/FeatureEdit.required_vo: theories/Tune/FeatureEdit.v theories/Gen/FeatureMasks.vo
theories/Tune/FeatureEdit.vio: theories/Tune/FeatureEdit.v theories/Gen/FeatureMasks.vio
theories/Tune/FeatureEdit.vos theories/Tune/FeatureEdit.vok theories/Tune/FeatureEdit.required_vos: theories/Tune/FeatureEdit.v theories/Gen/FeatureMasks.vos
theories/Tune/FeatureEditProofs.vo theories/Tune/FeatureEditProofs.glob theories/Tune/FeatureEditProofs.v.beautified theories/Tune/FeatureEditProofs.required_vo: theories/Tune/FeatureEditProofs.v theories/Gen/FeatureMasks.vo theories/Tune/FeatureEdit.vo
theories/Tune/FeatureEditProofs.vio: theories/Tune/FeatureEditProofs.v theories/Gen/FeatureMasks.vio theories/Tune/FeatureEdit.vio
theories/Tune/FeatureEditProofs.vos theories/Tune/FeatureEditProofs.vok theories/Tune/FeatureEditProofs.required_vos: theories/Tune/FeatureEditProofs.v theories/Gen/FeatureMasks.vos theories/Tune/FeatureEdit.vos
theories/Properties_C11.vo theories/Properties_C11.glob theories/Properties_C11.v.beautified theories/Properties_C11.required_vo: theories/Properties_C11.v theories/Gen/FeatureMasks.vo theories/Tune/FeatureEdit.vo theories/Tune/FeatureEditProofs.vo
theories/Properties_C11.vio: theories/Properties_C11.v theories/Gen/FeatureMasks.vio theories/Tune/FeatureEdit.vio theories/Tune/FeatureEditProofs.vio
theories/Properties_C11.vos theories/Properties_C11.vok theories/Properties_C11.required_vos: theories/Properties_C11.v theories/Gen/FeatureMasks.vos theories/Tune/FeatureEdit.vos theories/Tune/FeatureEditProofs.vos
theories/Populate/CopyChunk.vo theories/Populate/CopyChunk.glob theories/Populate/CopyChunk.v.beautified theories/Populate/CopyChunk.required_vo: theories/Populate/CopyChunk.v 
theories/Populate/CopyChunk.vio: theories/Populate/CopyChunk.v 
theories/Populate/CopyChunk.vos theories/Populate/CopyChunk.vok theories/Populate/CopyChunk.required_vos: theories/Populate/CopyChunk.v 
theories/Populate/CopyChunkProofs.vo theories/Populate/CopyChunkProofs.glob theories/Populate/CopyChunkProofs.v.beautified theories/Populate/CopyChunkProofs.required_vo: theories/Populate/CopyChunkProofs.v theories/Populate/CopyChunk.vo
theories/Populate/CopyChunkProofs.vio: theories/Populate/CopyChunkProofs.v theories/Populate/CopyChunk.vio
theories/Populate/CopyChunkProofs.vos theories/Populate/CopyChunkProofs.vok theories/Populate/CopyChunkProofs.required_vos: theories/Populate/CopyChunkProofs.v theories/Populate/CopyChunk.vos
theories/Properties_C18.vo theories/Properties_C18.glob theories/Properties_C18.v.beautified theories/Properties_C18.required_vo: theories/Properties_C18.v theories/Populate/CopyChunk.vo theories/Populate/CopyChunkProofs.vo
theories/Properties_C18.vio: theories/Properties_C18.v theories/Populate/CopyChunk.vio theories/Populate/CopyChunkProofs.vio
theories/Properties_C18.vos theories/Properties_C18.vok theories/Properties_C18.required_vos: theories/Properties_C18.v theories/Populate/CopyChunk.vos theories/Populate/CopyChunkProofs.vos
theories/Qcow2/QcowIndex.vo theories/Qcow2/QcowIndex.glob theories/Qcow2/QcowIndex.v.beautified theories/Qcow2/QcowIndex.required_vo: theories/Qcow2/QcowIndex.v 
theories/Qcow2/QcowIndex.vio: theories/Qcow2/QcowIndex.v 
theories/Qcow2/QcowIndex.vos theories/Qcow2/QcowIndex.vok theories/Qcow2/QcowIndex.required_vos: theories/Qcow2/QcowIndex.v 
theories/Qcow2/QcowProofs.vo theories/Qcow2/QcowProofs.glob theories/Qcow2/QcowProofs.v.beautified theories/Qcow2/QcowProofs.required_vo: theories/Qcow2/QcowProofs.v theories/Qcow2/QcowIndex.vo
theories/Qcow2/QcowProofs.vio: theories/Qcow2/QcowProofs.v theories/Qcow2/QcowIndex.vio
theories/Qcow2/QcowProofs.vos theories/Qcow2/QcowProofs.vok theories/Qcow2/QcowProofs.required_vos: theories/Qcow2/QcowProofs.v theories/Qcow2/QcowIndex.vos
theories/Properties_C19.vo theories/Properties_C19.glob theories/Properties_C19.v.beautified theories/Properties_C19.required_vo: theories/Properties_C19.v theories/Qcow2/QcowIndex.vo theories/Qcow2/QcowProofs.vo
theories/Properties_C19.vio: theories/Properties_C19.v theories/Qcow2/QcowIndex.vio theories/Qcow2/QcowProofs.vio
theories/Properties_C19.vos theories/Properties_C19.vok theories/Properties_C19.required_vos: theories/Properties_C19.v theories/Qcow2/QcowIndex.vos theories/Qcow2/QcowProofs.vos
theories/Xattr/XattrPack.vo theories/Xattr/XattrPack.glob theories/Xattr/XattrPack.v.beautified theories/Xattr/XattrPack.required_vo: theories/Xattr/XattrPack.v 
theories/Xattr/XattrPack.vio: theories/Xattr/XattrPack.v 
theories/Xattr/XattrPack.vos theories/Xattr/XattrPack.vok theories/Xattr/XattrPack.required_vos: theories/Xattr/XattrPack.v 
theories/Xattr/XattrProofs.vo theories/Xattr/XattrProofs.glob theories/Xattr/XattrProofs.v.beautified theories/Xattr/XattrProofs.required_vo: theories/Xattr/XattrProofs.v theories/Xattr/XattrPack.vo
theories/Xattr/XattrProofs.vio: theories/Xattr/XattrProofs.v theories/Xattr/XattrPack.vio
theories/Xattr/XattrProofs.vos theories/Xattr/XattrProofs.vok theories/Xattr/XattrProofs.required_vos: theories/Xattr/XattrProofs.v theories/Xattr/XattrPack.vos
theories/Xattr/XattrSort.vo theories/Xattr/XattrSort.glob theories/Xattr/XattrSort.v.beautified theories/Xattr/XattrSort.required_vo: theories/Xattr/XattrSort.v 
theories/Xattr/XattrSort.vio: theories/Xattr/XattrSort.v 
theories/Xattr/XattrSort.vos theories/Xattr/XattrSort.vok theories/Xattr/XattrSort.required_vos: theories/Xattr/XattrSort.v 
theories/Xattr/XattrSortProofs.vo theories/Xattr/XattrSortProofs.glob theories/Xattr/XattrSortProofs.v.beautified theories/Xattr/XattrSortProofs.required_vo: theories/Xattr/XattrSortProofs.v theories/Xattr/XattrSort.vo
theories/Xattr/XattrSortProofs.vio: theories/Xattr/XattrSortProofs.v theories/Xattr/XattrSort.vio
theories/Xattr/XattrSortProofs.vos theories/Xattr/XattrSortProofs.vok theories/Xattr/XattrSortProofs.required_vos: theories/Xattr/XattrSortProofs.v theories/Xattr/XattrSort.vos
theories/Properties_C15.vo theories/Properties_C15.glob theories/Properties_C15.v.beautified theories/Properties_C15.required_vo: theories/Properties_C15.v theories/Xattr/XattrPack.vo theories/Xattr/XattrProofs.vo theories/Xattr/XattrSort.vo theories/Xattr/XattrSortProofs.vo
theories/Properties_C15.vio: theories/Properties_C15.v theories/Xattr/XattrPack.vio theories/Xattr/XattrProofs.vio theories/Xattr/XattrSort.vio theories/Xattr/XattrSortProofs.vio
theories/Properties_C15.vos theories/Properties_C15.vok theories/Properties_C15.required_vos: theories/Properties_C15.v theories/Xattr/XattrPack.vos theories/Xattr/XattrProofs.vos theories/Xattr/XattrSort.vos theories/Xattr/XattrSortProofs.vos
theories/DirBlock/DirBlock.vo theories/DirBlock/DirBlock.glob theories/DirBlock/DirBlock.v.beautified theories/DirBlock/DirBlock.required_vo: theories/DirBlock/DirBlock.v 
theories/DirBlock/DirBlock.vio: theories/DirBlock/DirBlock.v 
theories/DirBlock/DirBlock.vos theories/DirBlock/DirBlock.vok theories/DirBlock/DirBlock.required_vos: theories/DirBlock/DirBlock.v 
theories/DirBlock/DirBlockProofs.vo theories/DirBlock/DirBlockProofs.glob theories/DirBlock/DirBlockProofs.v.beautified theories/DirBlock/DirBlockProofs.required_vo: theories/DirBlock/DirBlockProofs.v theories/DirBlock/DirBlock.vo
theories/DirBlock/DirBlockProofs.vio: theories/DirBlock/DirBlockProofs.v theories/DirBlock/DirBlock.vio
theories/DirBlock/DirBlockProofs.vos theories/DirBlock/DirBlockProofs.vok theories/DirBlock/DirBlockProofs.required_vos: theories/DirBlock/DirBlockProofs.v theories/DirBlock/DirBlock.vos
theories/Properties_C10.vo theories/Properties_C10.glob theories/Properties_C10.v.beautified theories/Properties_C10.required_vo: theories/Properties_C10.v theories/DirBlock/DirBlock.vo theories/DirBlock/DirBlockProofs.vo
theories/Properties_C10.vio: theories/Properties_C10.v theories/DirBlock/DirBlock.vio theories/DirBlock/DirBlockProofs.vio
theories/Properties_C10.vos theories/Properties_C10.vok theories/Properties_C10.required_vos: theories/Properties_C10.v theories/DirBlock/DirBlock.vos theories/DirBlock/DirBlockProofs.vos
theories/FileIO/Chunks.vo theories/FileIO/Chunks.glob theories/FileIO/Chunks.v.beautified theories/FileIO/Chunks.required_vo: theories/FileIO/Chunks.v 
theories/FileIO/Chunks.vio: theories/FileIO/Chunks.v 
theories/FileIO/Chunks.vos theories/FileIO/Chunks.vok theories/FileIO/Chunks.required_vos: theories/FileIO/Chunks.v 
theories/FileIO/ChunksProofs.vo theories/FileIO/ChunksProofs.glob theories/FileIO/ChunksProofs.v.beautified theories/FileIO/ChunksProofs.required_vo: theories/FileIO/ChunksProofs.v theories/FileIO/Chunks.vo
theories/FileIO/ChunksProofs.vio: theories/FileIO/ChunksProofs.v theories/FileIO/Chunks.vio
theories/FileIO/ChunksProofs.vos theories/FileIO/ChunksProofs.vok theories/FileIO/ChunksProofs.required_vos: theories/FileIO/ChunksProofs.v theories/FileIO/Chunks.vos
theories/FileIO/FileSpec.vo theories/FileIO/FileSpec.glob theories/FileIO/FileSpec.v.beautified theories/FileIO/FileSpec.required_vo: theories/FileIO/FileSpec.v 
theories/FileIO/FileSpec.vio: theories/FileIO/FileSpec.v 
theories/FileIO/FileSpec.vos theories/FileIO/FileSpec.vok theories/FileIO/FileSpec.required_vos: theories/FileIO/FileSpec.v 
theories/FileIO/FileSpecProofs.vo theories/FileIO/FileSpecProofs.glob theories/FileIO/FileSpecProofs.v.beautified theories/FileIO/FileSpecProofs.required_vo: theories/FileIO/FileSpecProofs.v theories/FileIO/FileSpec.vo
theories/FileIO/FileSpecProofs.vio: theories/FileIO/FileSpecProofs.v theories/FileIO/FileSpec.vio
theories/FileIO/FileSpecProofs.vos theories/FileIO/FileSpecProofs.vok theories/FileIO/FileSpecProofs.required_vos: theories/FileIO/FileSpecProofs.v theories/FileIO/FileSpec.vos
theories/FileIO/FileBuf.vo theories/FileIO/FileBuf.glob theories/FileIO/FileBuf.v.beautified theories/FileIO/FileBuf.required_vo: theories/FileIO/FileBuf.v 
theories/FileIO/FileBuf.vio: theories/FileIO/FileBuf.v 
theories/FileIO/FileBuf.vos theories/FileIO/FileBuf.vok theories/FileIO/FileBuf.required_vos: theories/FileIO/FileBuf.v 
theories/FileIO/FileBufProofs.vo theories/FileIO/FileBufProofs.glob theories/FileIO/FileBufProofs.v.beautified theories/FileIO/FileBufProofs.required_vo: theories/FileIO/FileBufProofs.v theories/FileIO/FileBuf.vo
theories/FileIO/FileBufProofs.vio: theories/FileIO/FileBufProofs.v theories/FileIO/FileBuf.vio
theories/FileIO/FileBufProofs.vos theories/FileIO/FileBufProofs.vok theories/FileIO/FileBufProofs.required_vos: theories/FileIO/FileBufProofs.v theories/FileIO/FileBuf.vos
theories/Properties_C09.vo theories/Properties_C09.glob theories/Properties_C09.v.beautified theories/Properties_C09.required_vo: theories/Properties_C09.v theories/FileIO/Chunks.vo theories/FileIO/ChunksProofs.vo theories/FileIO/FileSpec.vo theories/FileIO/FileSpecProofs.vo theories/FileIO/FileBuf.vo theories/FileIO/FileBufProofs.vo
theories/Properties_C09.vio: theories/Properties_C09.v theories/FileIO/Chunks.vio theories/FileIO/ChunksProofs.vio theories/FileIO/FileSpec.vio theories/FileIO/FileSpecProofs.vio theories/FileIO/FileBuf.vio theories/FileIO/FileBufProofs.vio
theories/Properties_C09.vos theories/Properties_C09.vok theories/Properties_C09.required_vos: theories/Properties_C09.v theories/FileIO/Chunks.vos theories/FileIO/ChunksProofs.vos theories/FileIO/FileSpec.vos theories/FileIO/FileSpecProofs.vos theories/FileIO/FileBuf.vos theories/FileIO/FileBufProofs.vos
theories/Parsers/DirWalk.vo theories/Parsers/DirWalk.glob theories/Parsers/DirWalk.v.beautified theories/Parsers/DirWalk.required_vo: theories/Parsers/DirWalk.v 
theories/Parsers/DirWalk.vio: theories/Parsers/DirWalk.v 
theories/Parsers/DirWalk.vos theories/Parsers/DirWalk.vok theories/Parsers/DirWalk.required_vos: theories/Parsers/DirWalk.v 
theories/Parsers/DirWalkProofs.vo theories/Parsers/DirWalkProofs.glob theories/Parsers/DirWalkProofs.v.beautified theories/Parsers/DirWalkProofs.required_vo: theories/Parsers/DirWalkProofs.v theories/Parsers/DirWalk.vo
theories/Parsers/DirWalkProofs.vio: theories/Parsers/DirWalkProofs.v theories/Parsers/DirWalk.vio
theories/Parsers/DirWalkProofs.vos theories/Parsers/DirWalkProofs.vok theories/Parsers/DirWalkProofs.required_vos: theories/Parsers/DirWalkProofs.v theories/Parsers/DirWalk.vos
theories/Properties_C06.vo theories/Properties_C06.glob theories/Properties_C06.v.beautified theories/Properties_C06.required_vo: theories/Properties_C06.v theories/Parsers/DirWalk.vo theories/Parsers/DirWalkProofs.vo
theories/Properties_C06.vio: theories/Properties_C06.v theories/Parsers/DirWalk.vio theories/Parsers/DirWalkProofs.vio
theories/Properties_C06.vos theories/Properties_C06.vok theories/Properties_C06.required_vos: theories/Properties_C06.v theories/Parsers/DirWalk.vos theories/Parsers/DirWalkProofs.vos

(* C10 - directory operations keep the namespace exact: the proved part is what ext2fs_link and
   ext2fs_unlink do to the records of one directory block *)
From E2V Require Import DirBlock.DirBlock DirBlock.DirBlockProofs DirBlock.DxSearch DirBlock.DxSearchProofs DirBlock.Nlink DirBlock.NlinkProofs.
Local Open Scope N_scope.

(* link: the records still tile the block exactly, the live entries are the old ones plus exactly the
   new one, and the new entry sits in a record large enough for its name - for every block content *)
Theorem link_adds_exactly : forall payload ino name l l',
  ino <> 0 -> link_block payload ino name l = Some l' ->
  sumrl l' = sumrl l /\ Permutation (live l') ((ino, name) :: live l) /\
  exists e, In e l' /\ e_ino e = ino /\ e_name e = name /\ reclen (N.of_nat (length name)) <= e_rl e.
Proof.
  intros payload ino name l l' Hi H. unfold link_block in H.
  destruct (link_walk_spec _ _ _ _ _ _ _ Hi H) as [A B]. split; [assumption|]. split; [assumption|].
  exact (link_walk_fits _ _ _ _ _ _ _ H).
Qed.
Print Assumptions link_adds_exactly.

(* unlink: the records still tile the block, and exactly the first live entry with that name is gone *)
Theorem unlink_removes_exactly : forall name l l',
  unlink_block name l = Some l' -> sumrl l' = sumrl l /\ live l' = remove_first name (live l).
Proof. exact unlink_block_spec. Qed.
Print Assumptions unlink_removes_exactly.

Definition ex_block := [mkEnt 2 12 [46]; mkEnt 2 12 [46; 46]; mkEnt 11 20 [108; 111; 115; 116]; mkEnt 0 40 []; mkEnt 12 928 [97]].
Example link_example :
  link_block 1012 77 [120; 121] ex_block =
  Some [mkEnt 2 12 [46]; mkEnt 2 12 [46; 46]; mkEnt 11 12 [108; 111; 115; 116]; mkEnt 77 48 [120; 121]; mkEnt 12 928 [97]] /\
  unlink_block [97] ex_block = Some [mkEnt 2 12 [46]; mkEnt 2 12 [46; 46]; mkEnt 11 20 [108; 111; 115; 116]; mkEnt 0 968 []].
Proof. vm_compute. split; reflexivity. Qed.

(* htree: the binary search of one index node (dx_search_entry) returns the entry that covers the hash - every
   entry up to it starts at or below the hash and every later one above it - for every sorted node and every hash;
   a name is therefore put into (and looked for in) the one leaf whose hash range contains it *)
Theorem htree_search_covers : forall e h, (1 <= length e)%nat -> sorted_from1 e ->
  let a := dx_search e h in
  (a < length e)%nat /\
  (forall i, (1 <= i)%nat -> (i <= a)%nat -> nth i e 0 <= h) /\
  (forall i, (a < i)%nat -> (i < length e)%nat -> h < nth i e 0).
Proof. exact dx_search_covers. Qed.
Print Assumptions htree_search_covers.

(* a hash equal to a leaf's lower bound belongs to that leaf, not to the one before it *)
Example htree_boundary : dx_search [0; 100; 200; 300] 200 = 2%nat /\ dx_search [0; 100; 200; 300] 199 = 1%nat /\
  dx_search [0; 100; 200; 300] 5 = 0%nat /\ dx_search [0] 77 = 0%nat /\
  dx_leaf [(0, 1); (100, 7); (200, 9)] [(7, [(0, 3); (150, 4)])] 160 = 4.
Proof. vm_compute. repeat split; reflexivity. Qed.

(* link counts: after any number k of sub-directories made in a directory, its stored count is what pass 4 expects of
   2 + k links - also past EXT2_LINK_MAX, where the count becomes 1 (dir_nlink) ... *)
Theorem mkdir_link_count_dir_nlink : forall k,
  mkdirs (mkdir_parent true) k 2 = Some (expected (2 + N.of_nat k)).
Proof. intro k. change 2 with (expected 2) at 1. apply mkdirs_dir_nlink. lia. Qed.
Print Assumptions mkdir_link_count_dir_nlink.

(* ... and without dir_nlink the request that does not fit is refused: a count that was written is the number of links *)
Theorem mkdir_link_count_plain : forall k n,
  mkdirs (mkdir_parent false) k 2 = Some n -> n = 2 + N.of_nat k /\ n = expected n.
Proof.
  intros k n H. destruct (mkdirs_plain k 2 n ltac:(lia) ltac:(unfold LINK_MAX; lia) H) as [A B].
  split; [assumption|]. unfold expected. destruct (LINK_MAX <? n) eqn:E; [apply N.ltb_lt in E; lia|reflexivity].
Qed.
Print Assumptions mkdir_link_count_plain.

(* the code before the repair (an unconditional increment): the 64999th sub-directory leaves 65001 where 1 is expected *)
Theorem mkdir_link_count_old_refuted :
  exists k n, mkdirs mkdir_parent_old k 2 = Some n /\ n <> expected (2 + N.of_nat k).
Proof. exists (N.to_nat 64999), 65001. split; [exact (proj1 old_refuted)|]. vm_compute. discriminate. Qed.
Print Assumptions mkdir_link_count_old_refuted.

From E2V Require Import Tune.MntOpts.
Local Open Scope N_scope.

(* setting a journal mode yields exactly that mode, whatever mode was stored before *)
Lemma set_jmode_exact cur m : N.land m JMODE = m -> m <> 0 -> N.land (mnt_step cur false m) JMODE = m.
Proof.
  intros H Hm. unfold mnt_step. destruct (N.eqb_spec (N.land m JMODE) 0) as [E|E]; [congruence|].
  rewrite N.land_lor_distr_l. rewrite N.land_ldiff. rewrite H. apply N.lor_0_l.
Qed.

(* bits that belong neither to the item nor (for a journal mode item) to the mode field keep their value *)
Lemma other_bits_kept cur neg m i :
  N.testbit m i = false -> (N.land m JMODE <> 0 -> N.testbit JMODE i = false) ->
  N.testbit (mnt_step cur neg m) i = N.testbit cur i.
Proof.
  intros Hm Hj. unfold mnt_step.
  destruct (N.eqb_spec (N.land m JMODE) 0) as [E|E]; destruct neg;
    rewrite ?N.ldiff_spec, ?N.lor_spec, ?N.ldiff_spec, ?Hm, ?(Hj E); cbn; rewrite ?andb_true_r, ?orb_false_r; reflexivity.
Qed.

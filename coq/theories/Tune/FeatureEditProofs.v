From Coq Require Import Arith PeanoNat.
From E2V Require Import Gen.FeatureMasks Tune.FeatureEdit.
Local Open Scope N_scope.

Lemma word_set_same : forall l w v, (w < length l)%nat -> word (set_word l w v) w = v.
Proof.
  induction l as [|x l IH]; intros w v H; cbn in H; [lia|].
  destruct w as [|w]; cbn; [reflexivity|]. apply IH. lia.
Qed.

Lemma word_set_other : forall l w w' v, w <> w' -> word (set_word l w v) w' = word l w'.
Proof.
  induction l as [|x l IH]; intros [|w] [|w'] v H; cbn; try reflexivity; try congruence.
  apply IH. congruence.
Qed.

Lemma set_word_length : forall l w v, length (set_word l w v) = length l.
Proof. induction l as [|x l IH]; intros [|w] v; cbn; try reflexivity. f_equal. apply IH. Qed.

Lemma apply_edit_length cur e : length (apply_edit cur e) = length cur.
Proof. destruct e; cbn; apply set_word_length. Qed.

(* one edit changes exactly the bits of its mask in its word *)
Lemma apply_edit_bit cur e w b : (edit_word e < length cur)%nat ->
  N.testbit (word (apply_edit cur e) w) b =
  if Nat.eqb (edit_word e) w && N.testbit (edit_mask e) b
  then (match e with ESet _ _ => true | EClear _ _ => false end)
  else N.testbit (word cur w) b.
Proof.
  intros H. destruct e as [w0 m|w0 m]; cbn [apply_edit edit_word edit_mask] in *.
  - destruct (Nat.eqb_spec w0 w) as [->|Hne]; cbn [andb].
    + rewrite word_set_same by assumption. rewrite N.lor_spec. destruct (N.testbit m b); [apply Bool.orb_true_r|apply Bool.orb_false_r].
    + rewrite word_set_other by assumption. reflexivity.
  - destruct (Nat.eqb_spec w0 w) as [->|Hne]; cbn [andb].
    + rewrite word_set_same by assumption. rewrite N.ldiff_spec. destruct (N.testbit m b); [apply Bool.andb_false_r|apply Bool.andb_true_r].
    + rewrite word_set_other by assumption. reflexivity.
Qed.

Lemma edit_untouched_lemma : forall es ok clr cur new w b,
  Forall (fun e => (edit_word e < length cur)%nat) es ->
  edit_features ok clr cur es = Some new -> touches es w b = false ->
  N.testbit (word new w) b = N.testbit (word cur w) b.
Proof.
  induction es as [|e es IH]; intros ok clr cur new w b F H T; cbn [edit_features] in H.
  - inversion H. reflexivity.
  - destruct (allowed ok clr e); [|discriminate].
    cbn [touches existsb] in T. apply Bool.orb_false_iff in T as [T1 T2].
    inversion F as [|? ? F1 F2]; subst.
    rewrite (IH ok clr (apply_edit cur e) new w b); [| |assumption|exact T2].
    + rewrite apply_edit_bit by assumption. rewrite T1. reflexivity.
    + rewrite apply_edit_length. assumption.
Qed.

Lemma edit_allowed_lemma : forall es ok clr cur new,
  edit_features ok clr cur es = Some new -> forallb (allowed ok clr) es = true.
Proof.
  induction es as [|e es IH]; intros ok clr cur new H; cbn in *; [reflexivity|].
  destruct (allowed ok clr e); [|discriminate]. cbn. eapply IH. eassumption.
Qed.

Lemma edit_refused_lemma : forall es ok clr cur,
  forallb (allowed ok clr) es = true -> exists new, edit_features ok clr cur es = Some new.
Proof.
  induction es as [|e es IH]; intros ok clr cur H; cbn in *; [eexists; reflexivity|].
  apply Bool.andb_true_iff in H as [H1 H2]. rewrite H1. apply IH. assumption.
Qed.

(* the last edit touching a bit decides its value *)
Lemma edit_last_wins_lemma : forall es ok clr cur new e w b,
  Forall (fun e => (edit_word e < length cur)%nat) (es ++ [e]) ->
  edit_features ok clr cur (es ++ [e]) = Some new ->
  edit_word e = w -> N.testbit (edit_mask e) b = true ->
  N.testbit (word new w) b = match e with ESet _ _ => true | EClear _ _ => false end.
Proof.
  induction es as [|e0 es IH]; intros ok clr cur new e w b F H Hw Hm; cbn [app edit_features] in H.
  - destruct (allowed ok clr e); [|discriminate]. inversion H; subst new.
    inversion F as [|? ? F1 F2]; subst.
    rewrite apply_edit_bit by assumption. rewrite Nat.eqb_refl, Hm. reflexivity.
  - destruct (allowed ok clr e0); [|discriminate].
    inversion F as [|? ? F1 F2]; subst.
    eapply IH; [|exact H|reflexivity|exact Hm].
    rewrite Forall_forall in *. intros x Hx. rewrite apply_edit_length. apply F2. exact Hx.
Qed.

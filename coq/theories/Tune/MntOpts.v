(* lib/e2p/mntopts.c e2p_edit_mntopts: one item of "tune2fs -o": the two-bit journal mode field is cleared whenever
   the item names a journal mode (set or negated), then the item's bits are cleared or set *)
From Coq Require Export NArith Bool Lia.
Local Open Scope N_scope.

Definition JMODE : N := 96.         (* EXT3_DEFM_JMODE 0x60 *)

Definition mnt_step (cur : N) (neg : bool) (mask : N) : N :=
  let c := if N.land mask JMODE =? 0 then cur else N.ldiff cur JMODE in
  if neg then N.ldiff c mask else N.lor c mask.

Definition mnt_run (cur : N) (items : list (bool * N)) : N :=
  List.fold_left (fun c it => mnt_step c (fst it) (snd it)) items cur.

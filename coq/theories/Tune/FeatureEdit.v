(* tune2fs -O: the feature edit (lib/e2p/feature.c e2p_edit_feature2) against the
   masks of misc/tune2fs.c (regenerated into Gen/FeatureMasks.v on every run). *)
From Coq Require Export List NArith Bool Lia.
From E2V Require Import Gen.FeatureMasks.
Export ListNotations.
Local Open Scope N_scope.

(* one item of the -O list: set or clear mask [m] in word [w] (0 compat, 1 incompat, 2 ro_compat) *)
Inductive edit := ESet (w : nat) (m : N) | EClear (w : nat) (m : N).

Definition word (l : list N) (w : nat) : N := nth w l 0.
Fixpoint set_word (l : list N) (w : nat) (v : N) : list N :=
  match l, w with
  | [], _ => []
  | _ :: r, O => v :: r
  | x :: r, S k => x :: set_word r k v
  end.

Definition allowed (ok clr : list N) (e : edit) : bool :=
  match e with
  | ESet w m => negb (N.land (word ok w) m =? 0)
  | EClear w m => negb (N.land (word clr w) m =? 0)
  end.

Definition apply_edit (cur : list N) (e : edit) : list N :=
  match e with
  | ESet w m => set_word cur w (N.lor (word cur w) m)
  | EClear w m => set_word cur w (N.ldiff (word cur w) m)
  end.

(* None = refused (tune2fs prints "Setting/Clearing filesystem feature not supported" and exits) *)
Fixpoint edit_features (ok clr cur : list N) (es : list edit) : option (list N) :=
  match es with
  | [] => Some cur
  | e :: r => if allowed ok clr e then edit_features ok clr (apply_edit cur e) r else None
  end.

Definition tune2fs_edit := edit_features src_ok_features src_clear_ok_features.

Definition edit_word (e : edit) := match e with ESet w _ | EClear w _ => w end.
Definition edit_mask (e : edit) := match e with ESet _ m | EClear _ m => m end.
(* a bit (word w, position b) is touched by the edit list *)
Definition touches (es : list edit) (w : nat) (b : N) : bool :=
  existsb (fun e => Nat.eqb (edit_word e) w && N.testbit (edit_mask e) b) es.

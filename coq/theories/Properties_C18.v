(* C18 - populating from a directory tree is exact: the proved part is the copy loop *)
From E2V Require Import Populate.CopyChunk Populate.CopyChunkProofs Populate.SeekAlign Populate.SeekAlignProofs.
Local Open Scope N_scope.

(* for every data, block size and offset: after the copy loop the file holds exactly the source bytes
   in the range (which read zero before: a fresh file), and nothing outside the range changed *)
Theorem copy_chunk_content : forall bs start data d,
  (0 < bs)%nat -> (forall o, start <= o < start + len data -> d o = 0) ->
  forall o, apply_writes d (copy_chunk bs start data) o =
            if (start <=? o) && (o <? start + len data) then nth (N.to_nat (o - start)) data 0 else d o.
Proof. exact copy_chunk_content_lemma. Qed.
Print Assumptions copy_chunk_content.

(* pieces that are all zero are never written: they stay holes *)
Theorem zero_pieces_stay_holes : forall bs start data w,
  In w (copy_chunk bs start data) -> all_zero (snd w) = false.
Proof. intros bs start data w H. exact (copy_pieces_nonzero (pieces bs data) start w H). Qed.
Print Assumptions zero_pieces_stay_holes.

(* sparse sources: a data extent reported by SEEK_DATA / SEEK_HOLE is widened to block boundaries with 64-bit masks;
   the widened extent is aligned, covers every byte of the extent and adds less than a block at either end, for
   every offset an off_t can hold - and not with a 32-bit mask, which sends offsets at or above 4 GiB back below it *)
Theorem sparse_extent_alignment_covers : forall k data hole, (k <= 16)%N -> (data <= hole)%N -> (hole + 2 ^ k < W64)%N ->
  let bs := (2 ^ k)%N in
  (data_blk bs data mod bs = 0 /\ hole_blk bs hole mod bs = 0 /\
   data_blk bs data <= data /\ data < data_blk bs data + bs /\
   hole <= hole_blk bs hole /\ hole_blk bs hole < hole + bs)%N.
Proof. exact aligned_extent_covers. Qed.
Print Assumptions sparse_extent_alignment_covers.

Theorem sparse_extent_alignment_32bit_refuted : exists data, (data < W64 /\ data_blk32 4096 data + 4096 <= data)%N.
Proof. exact mask32_refuted. Qed.
Print Assumptions sparse_extent_alignment_32bit_refuted.

Example copy_example :
  copy_chunk 4 8 [1; 2; 0; 0;  0; 0; 0; 0;  0; 7; 0] = [(8, [1; 2; 0; 0]); (16, [0; 7; 0])] /\
  mapped_blocks 4 8 [1; 2; 0; 0;  0; 0; 0; 0;  0; 7; 0] = [2; 4].
Proof. vm_compute. split; reflexivity. Qed.

(* C18 - populating from a directory tree is exact: the proved part is the copy loop *)
From E2V Require Import Populate.CopyChunk Populate.CopyChunkProofs.
Local Open Scope N_scope.

(* for every data, block size and offset: after the copy loop the file holds exactly the source bytes
   in the range (which read zero before: a fresh file), and nothing outside the range changed *)
Theorem copy_chunk_content : forall bs start data d,
  (0 < bs)%nat -> (forall o, start <= o < start + len data -> d o = 0) ->
  forall o, apply_writes d (copy_chunk bs start data) o =
            if (start <=? o) && (o <? start + len data) then nth (N.to_nat (o - start)) data 0 else d o.
Proof. exact copy_chunk_content_lemma. Qed.
Print Assumptions copy_chunk_content.

(* pieces that are all zero are never written: they stay holes *)
Theorem zero_pieces_stay_holes : forall bs start data w,
  In w (copy_chunk bs start data) -> all_zero (snd w) = false.
Proof. intros bs start data w H. exact (copy_pieces_nonzero (pieces bs data) start w H). Qed.
Print Assumptions zero_pieces_stay_holes.

Example copy_example :
  copy_chunk 4 8 [1; 2; 0; 0;  0; 0; 0; 0;  0; 7; 0] = [(8, [1; 2; 0; 0]); (16, [0; 7; 0])] /\
  mapped_blocks 4 8 [1; 2; 0; 0;  0; 0; 0; 0;  0; 7; 0] = [2; 4].
Proof. vm_compute. split; reflexivity. Qed.

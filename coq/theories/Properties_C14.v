(* C14 - metadata checksums: the CRC primitives equal their mathematical
   definitions, and a changed covered byte changes a full-width checksum.
   Statements only. *)
From E2V Require Import Crc.Crc Crc.CrcProofs Crc.Csum Gen.CrcTables.
Local Open Scope N_scope.

(* the tables compiled into libext2fs (regenerated from the source tree on
   every run) are the ones the polynomials define *)
Theorem src_tables_match :
  src_CRC32C_POLY_LE = CRC32C_POLY_LE /\ src_CRCPOLY_BE = CRCPOLY_BE /\
  src_crc32ctable_le = tabs8 CRC32C_POLY_LE /\ src_crc16_table = table_k CRC16_POLY_LE 0.
Proof. vm_compute. repeat split; reflexivity. Qed.
Print Assumptions src_tables_match.

(* slicing-by-8 over the source tables, for every buffer, every alignment of
   the buffer and every 32-bit seed, is the bit-serial Castagnoli CRC *)
Theorem crc32c_slice8_eq : forall al c m,
  fits 32 c -> Forall isbyte m -> crc_body src_crc32ctable_le al c m = crc32c_spec c m.
Proof.
  exact (fun al c m Hc F =>
           eq_ind_r (fun t => crc_body t al c m = crc32c_spec c m)
                    (crc_body_eq CRC32C_POLY_LE good_crc32c al c m Hc F)
                    (proj1 (proj2 (proj2 src_tables_match)))).
Qed.
Print Assumptions crc32c_slice8_eq.

(* the byte loop of crc16.c over the source table is the bit-serial CRC-16 *)
Theorem crc16_table_eq : forall m c,
  fits 16 c -> Forall isbyte m -> crc16_tab src_crc16_table c m = crc16_spec c m.
Proof.
  exact (fun m c Hc F =>
           eq_ind_r (fun t => crc16_tab t c m = crc16_spec c m) (crc16_tab_eq m c Hc F)
                    (proj2 (proj2 (proj2 src_tables_match)))).
Qed.
Print Assumptions crc16_table_eq.

(* equal-length inputs that differ in exactly one byte have different CRCs *)
Theorem crc32c_single_byte : forall c pre post b1 b2,
  fits 32 c -> Forall (fits 32) pre -> Forall (fits 32) post -> fits 32 b1 -> fits 32 b2 -> b1 <> b2 ->
  crc32c_spec c (pre ++ b1 :: post) <> crc32c_spec c (pre ++ b2 :: post).
Proof. exact (fun c pre post b1 b2 => crc_single_byte 32 CRC32C_POLY_LE c pre post b1 b2 good_crc32c). Qed.
Print Assumptions crc32c_single_byte.

Theorem crc16_single_byte : forall c pre post b1 b2,
  fits 16 c -> Forall (fits 16) pre -> Forall (fits 16) post -> fits 16 b1 -> fits 16 b2 -> b1 <> b2 ->
  crc16_spec c (pre ++ b1 :: post) <> crc16_spec c (pre ++ b2 :: post).
Proof. exact (fun c pre post b1 b2 => crc_single_byte 16 CRC16_POLY_LE c pre post b1 b2 good_crc16). Qed.
Print Assumptions crc16_single_byte.

(* every chained metadata checksum (inode, dirent tail, htree tail, extent
   tail, xattr block, group descriptor before truncation, ...): changing one
   byte of one covered chunk changes the 32-bit value *)
Theorem checksum_chain_detects : forall seed pre post a1 a2 b1 b2 c1 c2,
  fits 32 seed -> Forall (Forall isbyte) pre -> Forall (Forall isbyte) post ->
  Forall isbyte c1 -> Forall isbyte c2 -> isbyte b1 -> isbyte b2 -> b1 <> b2 ->
  a1 = c1 ++ b1 :: c2 -> a2 = c1 ++ b2 :: c2 ->
  chain seed (pre ++ a1 :: post) <> chain seed (pre ++ a2 :: post).
Proof. exact chain_single_byte. Qed.
Print Assumptions checksum_chain_detects.

(* Non-vacuity: the standard check values *)
Example crc32c_check : N.lxor (crc32c_spec 0xffffffff [49;50;51;52;53;54;55;56;57]) 0xffffffff = 0xE3069283.
Proof. vm_compute. reflexivity. Qed.
Example crc16_check : crc16_spec 0 [49;50;51;52;53;54;55;56;57] = 0xBB3D.
Proof. vm_compute. reflexivity. Qed.
Example crc32c_slice_example :
  crc_body src_crc32ctable_le 3 0xffffffff (map N.of_nat (seq 0 37)) = crc32c_spec 0xffffffff (map N.of_nat (seq 0 37)).
Proof. vm_compute. reflexivity. Qed.

(* C13 - read-only invocations never modify the device.  Statements only. *)
From E2V Require Import OpenMode.OpenMode.

(* e2fsck -n either refuses the option combination before opening anything, or
   opens the device O_RDONLY - for every combination of -p -y -D -c -l *)
Theorem e2fsck_n_is_rdonly : forall o m, o_n o = true -> e2fsck_open o = Some m -> m = O_RDONLY.
Proof. exact e2fsck_n_opens_rdonly. Qed.
Print Assumptions e2fsck_n_is_rdonly.

Theorem e2fsck_writes_only_without_n : forall o m, e2fsck_open o = Some m -> (m = O_RDWR <-> o_n o = false).
Proof. exact e2fsck_rw_iff_not_n. Qed.
Print Assumptions e2fsck_writes_only_without_n.

(* under the operating-system assumption that a read-only descriptor cannot
   change a file, no documented read-only invocation modifies the device *)
Theorem read_only_invocations_do_not_modify :
  forall (file : Type) (write_through : open_mode -> file -> file -> Prop),
    (forall f f', write_through O_RDONLY f f' -> f' = f) ->
    (forall t f f', write_through (tool_open t) f f' -> f' = f) /\
    (forall o m f f', o_n o = true -> e2fsck_open o = Some m -> write_through m f f' -> f' = f).
Proof.
  exact (fun file wt H => conj (ro_tool_no_modification file wt H) (e2fsck_n_no_modification file wt H)).
Qed.
Print Assumptions read_only_invocations_do_not_modify.

Example ex_e2fsck_n : e2fsck_open (mkO true false false false false false) = Some O_RDONLY /\
                      e2fsck_open (mkO true false false true false false) = None /\
                      e2fsck_open (mkO false false true false false false) = Some O_RDWR.
Proof. repeat split. Qed.

(* CRC proofs: linearity of the LFSR, the byte-table (Sarwate) algorithm equals
   the bit-serial definition for every buffer, and two equal-length messages
   that differ in exactly one byte never have the same CRC. *)
From E2V Require Import Crc.Crc.
Local Open Scope N_scope.

(* ---- bit facts ---- *)
Lemma odd_lxor x y : N.odd (N.lxor x y) = xorb (N.odd x) (N.odd y).
Proof. rewrite <- !N.bit0_odd. apply N.lxor_spec. Qed.

Lemma lxor_cancel a b : N.lxor (N.lxor a b) b = a.
Proof. rewrite N.lxor_assoc, N.lxor_nilpotent, N.lxor_0_r. reflexivity. Qed.

Lemma step1_lxor P x y : step1 P (N.lxor x y) = N.lxor (step1 P x) (step1 P y).
Proof.
  unfold step1. rewrite N.shiftr_lxor, odd_lxor.
  set (a := N.shiftr x 1). set (b := N.shiftr y 1).
  destruct (N.odd x), (N.odd y); cbn [xorb]; rewrite ?N.lxor_0_r.
  - rewrite (N.lxor_comm b P), N.lxor_assoc, <- (N.lxor_assoc P P b), N.lxor_nilpotent, N.lxor_0_l. reflexivity.
  - rewrite !N.lxor_assoc. f_equal. apply N.lxor_comm.
  - rewrite N.lxor_assoc. reflexivity.
  - reflexivity.
Qed.

Lemma step1_0 P : step1 P 0 = 0.
Proof. reflexivity. Qed.

Lemma steps_lxor P : forall n x y, steps P n (N.lxor x y) = N.lxor (steps P n x) (steps P n y).
Proof. induction n; intros x y; cbn [steps]; [reflexivity|]. rewrite step1_lxor. apply IHn. Qed.

Lemma steps_0 P : forall n, steps P n 0 = 0.
Proof. induction n; cbn [steps]; auto. Qed.

Lemma steps_add P : forall n m x, steps P (n + m) x = steps P m (steps P n x).
Proof. induction n; intros m x; cbn [steps Nat.add]; auto. Qed.

(* while the low bits are zero the register just shifts *)
Lemma steps_shift P : forall n x, (forall i, i < N.of_nat n -> N.testbit x i = false) ->
  steps P n x = N.shiftr x (N.of_nat n).
Proof.
  induction n; intros x H; cbn [steps].
  - rewrite N.shiftr_0_r. reflexivity.
  - assert (Ho : N.odd x = false) by (rewrite <- N.bit0_odd; apply H; lia).
    unfold step1. rewrite Ho, N.lxor_0_r. rewrite IHn.
    + rewrite N.shiftr_shiftr. f_equal. lia.
    + intros i Hi. rewrite N.shiftr_spec by lia. apply H. lia.
Qed.

Lemma split_low x n : N.lxor (N.land x (N.ones n)) (N.shiftl (N.shiftr x n) n) = x.
Proof.
  apply N.bits_inj. intros i. rewrite N.lxor_spec, N.land_spec.
  destruct (N.lt_ge_cases i n) as [H|H].
  - rewrite N.ones_spec_low by auto. rewrite N.shiftl_spec_low by auto.
    rewrite andb_true_r, xorb_false_r. reflexivity.
  - rewrite N.ones_spec_high by auto. rewrite N.shiftl_spec_high' by auto.
    rewrite N.shiftr_spec by lia. rewrite andb_false_r, xorb_false_l. f_equal. lia.
Qed.

Lemma shiftl_low_zero x n i : i < n -> N.testbit (N.shiftl x n) i = false.
Proof. intros. apply N.shiftl_spec_low. auto. Qed.

(* 8 steps on a value = table entry of the low byte xor the rest shifted *)
Lemma steps8_split P x :
  steps P 8 x = N.lxor (steps P 8 (N.land x 255)) (N.shiftr x 8).
Proof.
  rewrite <- (split_low x 8) at 1. change (N.ones 8) with 255.
  rewrite steps_lxor. f_equal.
  rewrite (steps_shift P 8) by (intros i Hi; apply shiftl_low_zero; exact Hi).
  change (N.of_nat 8) with 8. rewrite N.shiftr_shiftl_l by lia. rewrite N.sub_diag. apply N.shiftl_0_r.
Qed.

(* ---- tables ---- *)
Lemma nth_tab_from (f : N -> N) : forall n i k, (k < n)%nat ->
  nth k (tab_from f n i) 0 = f (i + N.of_nat k).
Proof.
  induction n; intros i k H; [lia|]. destruct k; cbn [tab_from nth].
  - f_equal. lia.
  - rewrite IHn by lia. f_equal. lia.
Qed.

Lemma table_k_nth P k i : i < 256 -> nth (N.to_nat i) (table_k P k) 0 = steps P (8 * S k) i.
Proof.
  intros H. unfold table_k. rewrite nth_tab_from by lia. f_equal. lia.
Qed.

Lemma land255_lt x : N.land x 255 < 256.
Proof. change 255 with (N.ones 8). rewrite N.land_ones. apply N.mod_lt. discriminate. Qed.

Lemma shiftr_small b n : b < 2 ^ n -> N.shiftr b n = 0.
Proof. intros H. rewrite N.shiftr_div_pow2. apply N.div_small. exact H. Qed.

(* Sarwate byte step = 8 bit-serial steps *)
Theorem byte_tab_eq P c b : b < 256 -> byte_tab (table_k P 0) c b = byte_bit P c b.
Proof.
  intros Hb. unfold byte_tab, byte_bit. rewrite (steps8_split P (N.lxor c b)).
  rewrite table_k_nth by apply land255_lt. change (8 * 1)%nat with 8%nat. f_equal.
  rewrite N.shiftr_lxor, (shiftr_small b 8) by exact Hb. symmetry. apply N.lxor_0_r.
Qed.

Theorem crc_tab_eq P : forall m c, Forall (fun b => b < 256) m ->
  crc_tab (table_k P 0) c m = crc_bit P c m.
Proof.
  induction m as [|b r IH]; intros c F; cbn [crc_tab crc_bit]; [reflexivity|].
  inversion F; subst. rewrite byte_tab_eq by auto. apply IH; auto.
Qed.

(* ---- width-bounded registers ---- *)
Definition fits (w x : N) : Prop := N.shiftr x w = 0.

Lemma fits_lt w x : fits w x <-> x < 2 ^ w.
Proof.
  unfold fits. rewrite N.shiftr_div_pow2. split.
  - intros H. apply N.div_small_iff in H; auto. apply N.pow_nonzero. discriminate.
  - intros H. apply N.div_small. exact H.
Qed.

Lemma fits_lxor w x y : fits w x -> fits w y -> fits w (N.lxor x y).
Proof. unfold fits. intros H1 H2. rewrite N.shiftr_lxor, H1, H2. reflexivity. Qed.

Lemma fits_shiftr w x n : fits w x -> fits w (N.shiftr x n).
Proof.
  unfold fits. intros H. rewrite N.shiftr_shiftr, N.add_comm, <- N.shiftr_shiftr, H. apply N.shiftr_0_l.
Qed.

Lemma fits_step1 w P x : fits w P -> fits w x -> fits w (step1 P x).
Proof.
  intros HP Hx. unfold step1. apply fits_lxor; [apply fits_shiftr; auto|].
  destruct (N.odd x); auto. unfold fits. apply N.shiftr_0_l.
Qed.

Lemma fits_steps w P : fits w P -> forall n x, fits w x -> fits w (steps P n x).
Proof. intros HP. induction n; intros x Hx; cbn [steps]; auto. apply IHn. apply fits_step1; auto. Qed.

Lemma fits_mono w w' x : w <= w' -> fits w x -> fits w' x.
Proof.
  unfold fits. intros H Hx. replace w' with (w + (w' - w)) by lia.
  rewrite <- N.shiftr_shiftr, Hx. apply N.shiftr_0_l.
Qed.

(* a polynomial whose top bit (w-1) is set makes the step injective *)
Definition good_poly (w P : N) : Prop := 0 < w /\ fits w P /\ N.testbit P (w - 1) = true.

Lemma step1_kernel w P x : good_poly w P -> fits w x -> step1 P x = 0 -> x = 0.
Proof.
  intros (Hw & HP & Htop) Hx H. unfold step1 in H. destruct (N.odd x) eqn:O.
  - exfalso. apply N.lxor_eq in H.
    assert (N.testbit (N.shiftr x 1) (w - 1) = true) by (rewrite H; exact Htop).
    rewrite N.shiftr_spec in H0 by lia. replace (w - 1 + 1) with w in H0 by lia.
    assert (N.testbit x w = false).
    { rewrite <- (N.add_0_l w) at 1. rewrite <- N.shiftr_spec by lia. rewrite Hx. apply N.bits_0. }
    congruence.
  - rewrite N.lxor_0_r in H. apply N.bits_inj. intros i. rewrite N.bits_0.
    destruct (N.eq_dec i 0) as [->|Hi].
    + rewrite N.bit0_odd. exact O.
    + replace i with (i - 1 + 1) by lia. rewrite <- N.shiftr_spec by lia. rewrite H. apply N.bits_0.
Qed.

Lemma step1_inj w P x y : good_poly w P -> fits w x -> fits w y -> step1 P x = step1 P y -> x = y.
Proof.
  intros G Hx Hy H. apply N.lxor_eq. apply (step1_kernel w P); auto; [apply fits_lxor; auto|].
  rewrite step1_lxor, H. apply N.lxor_nilpotent.
Qed.

Lemma steps_inj w P : good_poly w P -> forall n x y, fits w x -> fits w y ->
  steps P n x = steps P n y -> x = y.
Proof.
  intros G. destruct G as (Hw & HP & Htop). induction n; intros x y Hx Hy H; cbn [steps] in H; auto.
  apply (step1_inj w P); auto; [split; auto|]. apply IHn; auto; apply fits_step1; auto.
Qed.

Lemma byte_bit_inj_c w P b c1 c2 : good_poly w P -> fits w c1 -> fits w c2 -> fits w b ->
  byte_bit P c1 b = byte_bit P c2 b -> c1 = c2.
Proof.
  intros G H1 H2 Hb H. unfold byte_bit in H. apply (steps_inj w P G) in H; try (apply fits_lxor; auto).
  rewrite <- (lxor_cancel c1 b), H. apply lxor_cancel.
Qed.

Lemma byte_bit_inj_b w P c b1 b2 : good_poly w P -> fits w c -> fits w b1 -> fits w b2 ->
  byte_bit P c b1 = byte_bit P c b2 -> b1 = b2.
Proof.
  intros G Hc H1 H2 H. unfold byte_bit in H. apply (steps_inj w P G) in H; try (apply fits_lxor; auto).
  rewrite <- (lxor_cancel b1 c), (N.lxor_comm b1 c), H, (N.lxor_comm c b2). apply lxor_cancel.
Qed.

Lemma fits_byte_bit w P c b : good_poly w P -> fits w c -> fits w b -> fits w (byte_bit P c b).
Proof. intros (Hw & HP & _) Hc Hb. apply fits_steps; auto. apply fits_lxor; auto. Qed.

Lemma crc_bit_fits w P : good_poly w P -> forall m c, fits w c -> Forall (fits w) m -> fits w (crc_bit P c m).
Proof.
  intros G. induction m as [|b r IH]; intros c Hc F; cbn [crc_bit]; auto.
  inversion F; subst. apply IH; auto. apply fits_byte_bit; auto.
Qed.

Lemma crc_bit_inj_c w P : good_poly w P -> forall m c1 c2, fits w c1 -> fits w c2 -> Forall (fits w) m ->
  crc_bit P c1 m = crc_bit P c2 m -> c1 = c2.
Proof.
  intros G. induction m as [|b r IH]; intros c1 c2 H1 H2 F H; cbn [crc_bit] in H; auto.
  inversion F; subst. apply IH in H; auto; try (apply fits_byte_bit; auto).
  apply (byte_bit_inj_c w P b); auto.
Qed.

Lemma crc_bit_app P : forall a b c, crc_bit P c (a ++ b) = crc_bit P (crc_bit P c a) b.
Proof. induction a; intros; cbn [crc_bit app]; auto. Qed.

(* two messages that differ in exactly one byte have different CRCs *)
Theorem crc_single_byte w P c pre post b1 b2 :
  good_poly w P -> fits w c -> Forall (fits w) pre -> Forall (fits w) post -> fits w b1 -> fits w b2 ->
  b1 <> b2 -> crc_bit P c (pre ++ b1 :: post) <> crc_bit P c (pre ++ b2 :: post).
Proof.
  intros G Hc Fp Fq H1 H2 Hne H. rewrite !crc_bit_app in H. cbn [crc_bit] in H.
  set (c' := crc_bit P c pre) in *. assert (Hc' : fits w c') by (apply (crc_bit_fits w P); auto).
  apply (crc_bit_inj_c w P G) in H; auto; try (apply fits_byte_bit; auto).
  apply Hne. apply (byte_bit_inj_b w P c'); auto.
Qed.

Lemma good_crc32c : good_poly 32 CRC32C_POLY_LE.
Proof. split; [reflexivity|]. split; reflexivity. Qed.

Lemma good_crc16 : good_poly 16 CRC16_POLY_LE.
Proof. split; [reflexivity|]. split; reflexivity. Qed.

Lemma byte_fits w b : 8 <= w -> b < 256 -> fits w b.
Proof. intros Hw Hb. apply (fits_mono 8); auto. apply fits_lt. exact Hb. Qed.

(* ---- crc16.c's masked byte step ---- *)
Lemma land_ones_fits x n : fits n x -> N.land x (N.ones n) = x.
Proof. intros H. rewrite N.land_ones. apply N.mod_small. apply fits_lt. exact H. Qed.

Theorem crc16_byte_eq c b : fits 16 c -> b < 256 ->
  crc16_byte (table_k CRC16_POLY_LE 0) c b = byte_bit CRC16_POLY_LE c b.
Proof.
  intros Hc Hb. unfold crc16_byte. rewrite <- (byte_tab_eq CRC16_POLY_LE c b Hb). unfold byte_tab.
  change 255 with (N.ones 8) at 1. change 0xffff with (N.ones 16).
  assert (H8 : fits 8 (N.shiftr c 8)).
  { unfold fits in *. rewrite N.shiftr_shiftr. exact Hc. }
  rewrite (land_ones_fits _ 8 H8).
  rewrite (N.lxor_comm (N.shiftr c 8)). apply land_ones_fits.
  change (fits 16 (byte_tab (table_k CRC16_POLY_LE 0) c b)).
  rewrite byte_tab_eq by auto. apply (fits_byte_bit 16); auto; [apply good_crc16|apply byte_fits; auto; lia].
Qed.

Theorem crc16_tab_eq : forall m c, fits 16 c -> Forall (fun b => b < 256) m ->
  crc16_tab (table_k CRC16_POLY_LE 0) c m = crc_bit CRC16_POLY_LE c m.
Proof.
  induction m as [|b r IH]; intros c Hc F; cbn [crc16_tab crc_bit]; [reflexivity|].
  inversion F; subst. rewrite crc16_byte_eq by auto. apply IH; auto.
  apply (fits_byte_bit 16); auto; [apply good_crc16|apply byte_fits; auto; lia].
Qed.

(* ======================================================================== *)
(* slicing-by-8 *)
Section SliceProofs.
  Variable P : N.
  Definition S (n : nat) := steps P (8 * n).

  Lemma S_succ n x : S (Datatypes.S n) x = S n (steps P 8 x).
  Proof. unfold S. replace (8 * Datatypes.S n)%nat with (8 + 8 * n)%nat by lia. apply steps_add. Qed.

  Lemma S_lxor n x y : S n (N.lxor x y) = N.lxor (S n x) (S n y).
  Proof. apply steps_lxor. Qed.

  Lemma S_split n y : S (Datatypes.S n) y = N.lxor (S (Datatypes.S n) (N.land y 255)) (S n (N.shiftr y 8)).
  Proof. rewrite !S_succ, (steps8_split P y), S_lxor. reflexivity. Qed.

  (* a byte placed in lane k is consumed by k extra rounds *)
  Lemma S_lane n k b : S (n + k) (N.shiftl b (8 * N.of_nat k)) = S n b.
  Proof.
    unfold S. replace (8 * (n + k))%nat with (8 * k + 8 * n)%nat by lia. rewrite steps_add. f_equal.
    rewrite steps_shift.
    - replace (N.of_nat (8 * k)) with (8 * N.of_nat k) by lia.
      rewrite N.shiftr_shiftl_l by lia. rewrite N.sub_diag. apply N.shiftl_0_r.
    - intros i Hi. apply N.shiftl_spec_low. lia.
  Qed.

  Lemma S_S a b x : S a (S b x) = S (b + a) x.
  Proof. unfold S. rewrite <- steps_add. f_equal. lia. Qed.

  Lemma byte_bit_S c b : byte_bit P c b = S 1 (N.lxor c b).
  Proof. reflexivity. Qed.

  (* four message bytes = xor the word, then 32 steps *)
  Lemma crc4_word c b0 b1 b2 b3 :
    crc_bit P c [b0; b1; b2; b3] = S 4 (N.lxor c (le32 b0 b1 b2 b3)).
  Proof.
    cbn [crc_bit]. rewrite !byte_bit_S. unfold le32.
    rewrite !S_lxor.
    rewrite <- (S_lane 1 1 b1), <- (S_lane 1 2 b2), <- (S_lane 1 3 b3).
    change (8 * N.of_nat 1) with 8. change (8 * N.of_nat 2) with 16. change (8 * N.of_nat 3) with 24.
    rewrite !S_S. cbn [Nat.add]. rewrite !N.lxor_assoc. reflexivity.
  Qed.

  Lemma crc_bit_app4 c b0 b1 b2 b3 r :
    crc_bit P c (b0 :: b1 :: b2 :: b3 :: r) = crc_bit P (crc_bit P c [b0; b1; b2; b3]) r.
  Proof. cbn [crc_bit]. reflexivity. Qed.

  Lemma bytek_lt q k : bytek q k < 256.
  Proof. unfold bytek. apply land255_lt. Qed.

  (* a 32-bit value run through n+3 byte rounds splits into its four bytes *)
  Lemma S_bytes n x : fits 32 x ->
    S (n + 4) x = N.lxor (N.lxor (S (n + 4) (bytek x 0)) (S (n + 3) (bytek x 1)))
                         (N.lxor (S (n + 2) (bytek x 2)) (S (n + 1) (bytek x 3))).
  Proof.
    intros Hx. unfold bytek. change (8 * 0) with 0. change (8 * 1) with 8. change (8 * 2) with 16. change (8 * 3) with 24.
    rewrite N.shiftr_0_r.
    replace (n + 4)%nat with (Datatypes.S (n + 3)) by lia. rewrite (S_split (n + 3) x).
    replace (n + 3)%nat with (Datatypes.S (n + 2)) at 2 by lia. rewrite (S_split (n + 2) (N.shiftr x 8)).
    replace (n + 2)%nat with (Datatypes.S (n + 1)) at 2 by lia. rewrite (S_split (n + 1) (N.shiftr (N.shiftr x 8) 8)).
    rewrite !N.shiftr_shiftr. change (8 + 8) with 16. change (16 + 8) with 24.
    assert (H3 : N.land (N.shiftr x 24) 255 = N.shiftr x 24).
    { change 255 with (N.ones 8). apply land_ones_fits. unfold fits in *. rewrite N.shiftr_shiftr. exact Hx. }
    rewrite H3. replace (Datatypes.S (n + 3)) with (n + 4)%nat by lia.
    replace (Datatypes.S (n + 2)) with (n + 3)%nat by lia. replace (Datatypes.S (n + 1)) with (n + 2)%nat by lia.
    rewrite !N.lxor_assoc. reflexivity.
  Qed.

  Definition tabs8 : list (list N) := map (table_k P) [0; 1; 2; 3; 4; 5; 6; 7]%nat.

  Lemma tk_eq k i : (k < 8)%nat -> i < 256 -> tk tabs8 k i = S (Datatypes.S k) i.
  Proof.
    intros Hk Hi. unfold tk.
    assert (E : nth k tabs8 [] = table_k P k).
    { unfold tabs8. do 8 (destruct k as [|k]; [reflexivity|]). lia. }
    rewrite E. apply table_k_nth; auto.
  Qed.

  Lemma fits_shiftl b k : b < 256 -> k <= 24 -> fits 32 (N.shiftl b k).
  Proof.
    intros Hb Hk. unfold fits. rewrite N.shiftr_shiftl_r by lia.
    apply (fits_mono 8); [lia|]. apply fits_lt. exact Hb.
  Qed.

  Lemma fits_le32 b0 b1 b2 b3 : b0 < 256 -> b1 < 256 -> b2 < 256 -> b3 < 256 -> fits 32 (le32 b0 b1 b2 b3).
  Proof.
    intros H0 H1 H2 H3. unfold le32.
    apply fits_lxor; [apply (byte_fits 32); auto; lia|].
    apply fits_lxor; [apply fits_shiftl; auto; lia|].
    apply fits_lxor; apply fits_shiftl; auto; lia.
  Qed.

  Theorem do_crc8_eq c b0 b1 b2 b3 b4 b5 b6 b7 :
    fits 32 c -> b0 < 256 -> b1 < 256 -> b2 < 256 -> b3 < 256 -> b4 < 256 -> b5 < 256 -> b6 < 256 -> b7 < 256 ->
    do_crc8 tabs8 c b0 b1 b2 b3 b4 b5 b6 b7 = crc_bit P c [b0; b1; b2; b3; b4; b5; b6; b7].
  Proof.
    intros Hc H0 H1 H2 H3 H4 H5 H6 H7.
    rewrite crc_bit_app4, crc4_word, crc4_word. rewrite S_lxor.
    set (q := N.lxor c (le32 b0 b1 b2 b3)). set (q2 := le32 b4 b5 b6 b7).
    assert (Fq : fits 32 q) by (apply fits_lxor; auto; apply fits_le32; auto).
    assert (Fq2 : fits 32 q2) by (apply fits_le32; auto).
    rewrite (S_S 4 4 q).
    rewrite (S_bytes 4 q Fq). change (S 4 q2) with (S (0 + 4) q2). rewrite (S_bytes 0 q2 Fq2).
    unfold do_crc8. fold q q2. rewrite !tk_eq by (try lia; apply bytek_lt). reflexivity.
  Qed.

  Hypothesis GP : good_poly 32 P.
  Definition isbyte (b : N) := b < 256.

  Lemma t0_eq : nth 0 tabs8 [] = table_k P 0.
  Proof. reflexivity. Qed.

  Lemma head_ok : forall fuel al c m c1 m1 al1,
    fits 32 c -> Forall isbyte m -> head tabs8 al c m fuel = (c1, m1, al1) ->
    crc_bit P c m = crc_bit P c1 m1 /\ fits 32 c1 /\ Forall isbyte m1.
  Proof.
    induction fuel; intros al c m c1 m1 al1 Hc F H; destruct m as [|b r]; cbn [head] in H;
      try (inversion H; subst; repeat split; auto; fail).
    destruct (al mod 4 =? 0); [inversion H; subst; repeat split; auto|].
    inversion F as [|? ? Hb Hr]; subst. rewrite t0_eq, byte_tab_eq in H by exact Hb.
    assert (Hf : fits 32 (byte_bit P c b)) by (apply (fits_byte_bit 32); auto; apply byte_fits; auto; lia).
    apply (IHfuel _ _ _ _ _ _ Hf Hr) in H. cbn [crc_bit]. exact H.
  Qed.

  Lemma words_ok : forall n c m c2 m2,
    fits 32 c -> Forall isbyte m -> words tabs8 n c m = (c2, m2) ->
    crc_bit P c m = crc_bit P c2 m2 /\ fits 32 c2 /\ Forall isbyte m2.
  Proof.
    induction n; intros c m c2 m2 Hc F H.
    - destruct m; cbn [words] in H; inversion H; subst; repeat split; auto.
    - cbn [words] in H. destruct m as [|b0 [|b1 [|b2 [|b3 [|b4 [|b5 [|b6 [|b7 r]]]]]]]]; try (inversion H; subst; repeat split; auto; fail).
      repeat match goal with Hf : Forall isbyte (_ :: _) |- _ => inversion Hf; clear Hf; subst end.
      rewrite do_crc8_eq in H by auto.
      assert (Hf : fits 32 (crc_bit P c [b0; b1; b2; b3; b4; b5; b6; b7])).
      { apply (crc_bit_fits 32); auto. repeat constructor; apply byte_fits; auto; lia. }
      match goal with Hr : Forall isbyte r |- _ => apply (IHn _ _ _ _ Hf Hr) in H end.
      destruct H as (E & R). split; [|exact R]. rewrite <- E.
      change (b0 :: b1 :: b2 :: b3 :: b4 :: b5 :: b6 :: b7 :: r) with ([b0; b1; b2; b3; b4; b5; b6; b7] ++ r).
      apply crc_bit_app.
  Qed.

  Theorem crc_body_eq al c m : fits 32 c -> Forall isbyte m ->
    crc_body tabs8 al c m = crc_bit P c m.
  Proof.
    intros Hc F. unfold crc_body.
    destruct (head tabs8 al c m 4) as [[c1 m1] al1] eqn:H1.
    destruct (head_ok _ _ _ _ _ _ _ Hc F H1) as (E1 & F1 & B1).
    destruct (words tabs8 (length m1 / 8) c1 m1) as [c2 m2] eqn:H2.
    destruct (words_ok _ _ _ _ _ F1 B1 H2) as (E2 & F2 & B2).
    rewrite t0_eq, crc_tab_eq by exact B2. congruence.
  Qed.
End SliceProofs.

(* ======================================================================== *)
(* checksum chains: one changed byte in any chunk changes the checksum *)
From E2V Require Import Crc.Csum.

Lemma chain_flat : forall chunks seed, chain seed chunks = crc32c_spec seed (concat chunks).
Proof.
  unfold chain, crc32c_spec.
  induction chunks as [|a r IH]; intros seed; cbn [fold_left concat]; [reflexivity|].
  rewrite crc_bit_app. apply IH.
Qed.

Theorem chain_single_byte seed pre post a1 a2 b1 b2 c1 c2 :
  fits 32 seed -> Forall (Forall isbyte) pre -> Forall (Forall isbyte) post ->
  Forall isbyte c1 -> Forall isbyte c2 -> isbyte b1 -> isbyte b2 -> b1 <> b2 ->
  a1 = c1 ++ b1 :: c2 -> a2 = c1 ++ b2 :: c2 ->
  chain seed (pre ++ a1 :: post) <> chain seed (pre ++ a2 :: post).
Proof.
  intros Hs Fp Fq F1 F2 B1 B2 Hne -> ->. rewrite !chain_flat, !concat_app. cbn [concat].
  rewrite <- !app_assoc. cbn [app].
  assert (FB : forall l, Forall isbyte l -> Forall (fits 32) l).
  { intros l H. eapply Forall_impl; [|exact H]. intros x Hx. apply byte_fits; auto. lia. }
  assert (FC : forall ll, Forall (Forall isbyte) ll -> Forall isbyte (concat ll)).
  { induction ll; intros H; cbn; [constructor|]. inversion H; subst. apply Forall_app. auto. }
  rewrite !app_assoc.
  apply (crc_single_byte 32 CRC32C_POLY_LE); auto; try apply good_crc32c.
  - apply FB. apply Forall_app. split; auto.
  - apply FB. apply Forall_app. split; auto.
  - apply byte_fits; auto; lia.
  - apply byte_fits; auto; lia.
Qed.

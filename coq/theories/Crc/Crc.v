(* CRC definitions: the mathematical (bit-serial LFSR) definitions of crc32c
   (Castagnoli, reflected), crc16 (0x8005, reflected) and the big-endian
   crc32 (0x04c11db7, not reflected), and the table-driven algorithms of
   lib/ext2fs/crc32c.c (Sarwate byte loop, slicing-by-8 body) and crc16.c. *)
From Coq Require Export List NArith Arith Bool Lia.
Export ListNotations.
Local Open Scope N_scope.

Definition CRC32C_POLY_LE := 0x82F63B78.
Definition CRC16_POLY_LE := 0xA001.
Definition CRCPOLY_BE := 0x04c11db7.

(* ---- reflected (little-endian) LFSR ---- *)
Definition step1 (P x : N) : N := N.lxor (N.shiftr x 1) (if N.odd x then P else 0).
Fixpoint steps (P : N) (n : nat) (x : N) : N :=
  match n with O => x | S k => steps P k (step1 P x) end.

(* one message byte, bit-serial: crc ^= b; 8 times crc = (crc >> 1) ^ (crc & 1 ? P : 0) *)
Definition byte_bit (P c b : N) : N := steps P 8 (N.lxor c b).
Fixpoint crc_bit (P c : N) (m : list N) : N :=
  match m with [] => c | b :: r => crc_bit P (byte_bit P c b) r end.

Definition crc32c_spec := crc_bit CRC32C_POLY_LE.
Definition crc16_spec := crc_bit CRC16_POLY_LE.

(* table for the byte-at-a-time algorithm, computed from the polynomial *)
Fixpoint tab_from (f : N -> N) (n : nat) (i : N) : list N :=
  match n with O => [] | S k => f i :: tab_from f k (i + 1) end.
Definition table_k (P : N) (k : nat) : list N := tab_from (steps P (8 * S k)) 256 0.

(* Sarwate: crc = t0[(crc ^ b) & 255] ^ (crc >> 8) *)
Definition byte_tab (t0 : list N) (c b : N) : N :=
  N.lxor (nth (N.to_nat (N.land (N.lxor c b) 255)) t0 0) (N.shiftr c 8).
Fixpoint crc_tab (t0 : list N) (c : N) (m : list N) : N :=
  match m with [] => c | b :: r => crc_tab t0 (byte_tab t0 c b) r end.

(* crc16.c: (((crc >> 8) & 0xff) ^ table[(crc ^ b) & 0xff]) & 0xffff *)
Definition crc16_byte (t : list N) (c b : N) : N :=
  N.land (N.lxor (N.land (N.shiftr c 8) 255) (nth (N.to_nat (N.land (N.lxor c b) 255)) t 0)) 0xffff.
Fixpoint crc16_tab (t : list N) (c : N) (m : list N) : N :=
  match m with [] => c | b :: r => crc16_tab t (crc16_byte t c b) r end.

(* ---- slicing-by-8 body of crc32_body (little-endian host) ---- *)
(* the 32-bit word the little-endian host loads from 4 consecutive bytes; the
   byte lanes are disjoint, so xor, or and + all give the same number *)
Definition le32 (b0 b1 b2 b3 : N) : N :=
  N.lxor b0 (N.lxor (N.shiftl b1 8) (N.lxor (N.shiftl b2 16) (N.shiftl b3 24))).
Definition bytek (q : N) (k : N) : N := N.land (N.shiftr q (8 * k)) 255.

Section Slice.
  Variable tabs : list (list N).          (* t0 .. t7 *)
  Definition tk (k : nat) (i : N) : N := nth (N.to_nat i) (nth k tabs []) 0.

  Definition do_crc8 (c : N) (b0 b1 b2 b3 b4 b5 b6 b7 : N) : N :=
    let q := N.lxor c (le32 b0 b1 b2 b3) in
    let q2 := le32 b4 b5 b6 b7 in
    N.lxor (N.lxor (N.lxor (tk 7 (bytek q 0)) (tk 6 (bytek q 1))) (N.lxor (tk 5 (bytek q 2)) (tk 4 (bytek q 3))))
           (N.lxor (N.lxor (tk 3 (bytek q2 0)) (tk 2 (bytek q2 1))) (N.lxor (tk 1 (bytek q2 2)) (tk 0 (bytek q2 3)))).

  (* "Align it": bytes one at a time while the address is not 4-aligned *)
  Fixpoint head (al : N) (c : N) (m : list N) (fuel : nat) : N * list N * N :=
    match fuel, m with
    | S f, b :: r => if al mod 4 =? 0 then (c, m, al) else head (al + 1) (byte_tab (nth 0 tabs []) c b) r f
    | _, _ => (c, m, al)
    end.

  Fixpoint words (n : nat) (c : N) (m : list N) : N * list N :=
    match n, m with
    | S k, b0 :: b1 :: b2 :: b3 :: b4 :: b5 :: b6 :: b7 :: r => words k (do_crc8 c b0 b1 b2 b3 b4 b5 b6 b7) r
    | _, _ => (c, m)
    end.

  Definition crc_body (al : N) (c : N) (m : list N) : N :=
    (* the C test is "(buf & 3) && len", then do-while: at least one byte when misaligned *)
    let '(c1, m1, _) := head al c m 4 in
    let '(c2, m2) := words (length m1 / 8) c1 m1 in
    crc_tab (nth 0 tabs []) c2 m2.
End Slice.

(* ---- big-endian crc32 (jbd2 v1 checksums), bit-serial definition ---- *)
Definition step1_be (P x : N) : N :=
  N.lxor (N.land (N.shiftl x 1) 0xffffffff) (if N.testbit x 31 then P else 0).
Fixpoint steps_be (P : N) (n : nat) (x : N) : N :=
  match n with O => x | S k => steps_be P k (step1_be P x) end.
Definition byte_bit_be (P c b : N) : N := steps_be P 8 (N.lxor c (N.shiftl b 24)).
Fixpoint crc_bit_be (P c : N) (m : list N) : N :=
  match m with [] => c | b :: r => crc_bit_be P (byte_bit_be P c b) r end.
Definition crc32_be_spec := crc_bit_be CRCPOLY_BE.

(* Metadata checksum definitions of the ext4 on-disk format, written from the
   format (not from csum.c): which bytes of which object, chained from which
   seed.  All functions take raw little-endian object bytes. *)
From E2V Require Export Crc.Crc.
Local Open Scope N_scope.

Fixpoint le_bytes (n : nat) (v : N) : list N :=
  match n with O => [] | S k => (v mod 256) :: le_bytes k (v / 256) end.

Definition INIT32 := 0xffffffff.

(* crc32c over a sequence of chunks, chained *)
Definition chain (seed : N) (chunks : list (list N)) : N := fold_left crc32c_spec chunks seed.

(* replace [len] bytes at [off] by zeros *)
Definition zero_at (off len : nat) (b : list N) : list N :=
  firstn off b ++ repeat 0 (min len (length b - off)) ++ skipn (off + len) b.

Definition lo16 (x : N) := N.land x 0xffff.
Definition hi16 (x : N) := N.shiftr x 16.

(* fs-wide seed: s_checksum_seed if the csum_seed feature is set, else crc32c(~0, uuid) *)
Definition seed_of_uuid (uuid : list N) : N := crc32c_spec INIT32 uuid.

(* superblock: bytes 0..0x3FB, stored at 0x3FC *)
Definition sb_csum (sb : list N) : N := crc32c_spec INIT32 (firstn 1020 sb).

(* group descriptor, metadata_csum: seed, le32 group, descriptor with bg_checksum (0x1E..0x1F) zeroed; low 16 bits *)
Definition gd_csum (seed group : N) (desc : list N) : N :=
  lo16 (chain seed [le_bytes 4 group; zero_at 30 2 desc]).

(* group descriptor, uninit_bg (gdt_csum): crc16 over uuid, le32 group, descriptor without the checksum field *)
Definition gd_crc16 (uuid : list N) (group : N) (desc : list N) : N :=
  fold_left crc16_spec [uuid; le_bytes 4 group; firstn 30 desc; skipn 32 desc] 0xffff.

(* block / inode bitmap: [size] bytes of the bitmap block *)
Definition bitmap_csum (seed : N) (bitmap : list N) : N := crc32c_spec seed bitmap.

(* inode: seed, le32 inum, le32 generation (bytes 0x64..0x67), whole inode with
   i_checksum_lo (0x7C..0x7D) and, if present, i_checksum_hi (0x82..0x83) zeroed *)
Definition inode_csum (seed inum : N) (inode : list N) (has_hi : bool) : N :=
  let gen := firstn 4 (skipn 100 inode) in
  let body := zero_at 124 2 inode in
  let body := if has_hi then zero_at 130 2 body else body in
  chain seed [le_bytes 4 inum; gen; body].

(* directory leaf block: seed, inum, generation, block without its 12-byte tail *)
Definition dirent_csum (seed inum gen : N) (blk : list N) : N :=
  chain seed [le_bytes 4 inum; le_bytes 4 gen; firstn (length blk - 12) blk].

(* htree node: count_offset + 8*count bytes, then the tail's reserved word and a zero checksum *)
Definition dx_csum (seed inum gen : N) (blk : list N) (count_offset count limit : nat) : N :=
  let toff := (count_offset + 8 * limit)%nat in
  chain seed [le_bytes 4 inum; le_bytes 4 gen; firstn (count_offset + 8 * count) blk;
              firstn 4 (skipn toff blk); [0; 0; 0; 0]].

(* extent tree block: header + eh_max entries *)
Definition extent_csum (seed inum gen : N) (blk : list N) (eh_max : nat) : N :=
  chain seed [le_bytes 4 inum; le_bytes 4 gen; firstn (12 + 12 * eh_max) blk].

(* xattr block: le64 block number, block with h_checksum (0x10..0x13) zeroed *)
Definition xattr_csum (seed blocknr : N) (blk : list N) : N :=
  chain seed [le_bytes 8 blocknr; zero_at 16 4 blk].

(* MMP block: bytes before mmp_checksum (offset 1020) *)
Definition mmp_csum (seed : N) (blk : list N) : N := crc32c_spec seed (firstn 1020 blk).

(* jbd2 superblock (csum v2/v3): 1024 bytes with s_checksum (0xFC..0xFF) zeroed, init ~0 *)
Definition jsb_csum (jsb : list N) : N := crc32c_spec INIT32 (zero_at 252 4 (firstn 1024 jsb)).

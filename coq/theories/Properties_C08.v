(* C08 - resize2fs preserves every file and leaves a consistent filesystem:
   the proved part is the new geometry and the crash protocol *)
From E2V Require Import Layout.Layout Resize.ResizeGeom Resize.ResizeProofs.
Local Open Scope N_scope.

(* the retry loop of adjust_fs_info ends within three rounds for every request *)
Theorem geom_fuel_enough : forall s ipg ibpg blocks,
  0 < blocks_per_group s -> ipg <= U32MAX -> first_data_block s <= blocks ->
  resize_geom s ipg ibpg blocks <> ROutOfFuel.
Proof. exact geom_fuel_enough_lemma. Qed.
Print Assumptions geom_fuel_enough.

(* every granted size: groups tile the device exactly, the inode count fits 32 bits,
   the last group is either full or large enough for its metadata *)
Theorem new_geometry_ok : forall s ipg ibpg blocks B G db,
  0 < blocks_per_group s -> first_data_block s <= blocks ->
  resize_geom s ipg ibpg blocks = ROk B G db -> geom_good s ipg ibpg blocks B G db.
Proof. intros s ipg ibpg blocks B G db Hb Hf H. exact (geom_ok_gen 3 s ipg ibpg Hb blocks B G db Hf H). Qed.
Print Assumptions new_geometry_ok.

Theorem geom_no_needless_trim : forall s ipg ibpg blocks,
  let f := first_data_block s in let bpg := blocks_per_group s in
  let G := div_ceil (blocks - f) bpg in
  let rem := (blocks - f) mod bpg in
  1 <= G -> (rem = 0 \/ overhead s ibpg G + 50 <= rem) -> ipg * G <= U32MAX ->
  resize_geom s ipg ibpg blocks = ROk blocks G (div_ceil G (desc_per_block s)).
Proof. exact geom_no_needless_trim_lemma. Qed.
Print Assumptions geom_no_needless_trim.

(* the trace checker applied to real write traces decides crash safety *)
Theorem protocol_check_sound : forall t, protocol_check t = true <-> crash_safe t.
Proof. exact protocol_check_sound_lemma. Qed.
Print Assumptions protocol_check_sound.

(* resize_fs: superblock field updates and writes beyond the old end, flag set and flushed, any body that never clears it,
   flush, then only superblock writes: at every crash point the superblock carries the error
   flag unless nothing or all of the operation is on disk *)
Theorem error_flag_protocol : forall pre body post,
  forallb harmless pre = true -> forallb no_clear body = true -> forallb not_other post = true ->
  crash_safe (resize_trace pre body post).
Proof. exact resize_protocol_safe_lemma. Qed.
Print Assumptions error_flag_protocol.

(* non-vacuity: a 24M/1k request on an 8192-blocks-per-group layout; a protocol trace with two body
   writes; a trace that clears the flag before the body is durable is rejected *)
Example geom_example :
  resize_geom (mkSb true false 0 0 false 0 32 1 95 1 8192 1024) 2048 256 24577 = ROk 24577 3 1.
Proof. vm_compute. reflexivity. Qed.
Example protocol_example : protocol_check (resize_trace [WOther false; WSb false] [WOther true; Sync; WSb true; WOther false] [WSb true; WSb false; Sync]) = true
                           /\ protocol_check [WSb true; WOther true; Sync; WSb false] = false
                           /\ protocol_check [WSb true; Sync; WOther true; WOther false; WSb false; Sync] = false.
Proof. vm_compute. repeat split; reflexivity. Qed.

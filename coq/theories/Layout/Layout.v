(* Which block groups carry backup superblocks / descriptors
   (lib/ext2fs/closefs.c test_root, ext2fs_bg_has_super,
    ext2fs_super_and_bgd_loc2; lib/ext2fs/res_gdt.c ext2fs_list_backups). *)
From Coq Require Export List NArith Arith Bool Lia.
Export ListNotations.
Local Open Scope N_scope.

(* test_root(a, b): is a a power (>= 1) of b?  The C loop divides while it can;
   64 rounds suffice for any 64-bit a (fuel is part of the model, the theorem
   shows it is never exhausted below 2^64). *)
Fixpoint test_root_f (fuel : nat) (a b : N) : bool :=
  match fuel with
  | O => false
  | S f =>
    if a <? b then false
    else if a =? b then true
    else if negb (a mod b =? 0) then false
    else test_root_f f (a / b) b
  end.
Definition test_root (a b : N) : bool := test_root_f 64 a b.

Record sbinfo := mkSb {
  sparse_super : bool;
  sparse_super2 : bool;
  backup_bg0 : N; backup_bg1 : N;
  meta_bg : bool;
  first_meta_bg : N;
  desc_per_block : N;
  desc_blocks : N;         (* fs->desc_blocks *)
  reserved_gdt : N;
  first_data_block : N;
  blocks_per_group : N;
  blocksize : N;
}.

Definition bg_has_super (s : sbinfo) (g : N) : bool :=
  if g =? 0 then true
  else if sparse_super2 s then (g =? backup_bg0 s) || (g =? backup_bg1 s)
  else if (g <=? 1) || negb (sparse_super s) then true
  else if N.even g then false
  else test_root g 3 || test_root g 5 || test_root g 7.

(* ext2fs_super_and_bgd_loc2: (super_blk, old_desc_blk, new_desc_blk, used_blks); 0 = none *)
Definition group_first_block (s : sbinfo) (g : N) := first_data_block s + g * blocks_per_group s.

Definition super_and_bgd_loc (s : sbinfo) (g : N) : N * N * N * N :=
  let gb0 := group_first_block s g in
  let gb := if (gb0 =? 0) && (blocksize s =? 1024) then 1 else gb0 in
  let old_desc_blocks := if meta_bg s then first_meta_bg s else desc_blocks s + reserved_gdt s in
  let hs := bg_has_super s g in
  let super_blk := if hs then gb else 0 in
  let n0 := if hs then 1 else 0 in
  let mbs := desc_per_block s in
  let mb := g / mbs in
  if negb (meta_bg s) || (mb <? first_meta_bg s) then
    if hs then (super_blk, gb + 1, 0, n0 + old_desc_blocks) else (super_blk, 0, 0, n0)
  else if (g mod mbs =? 0) || (g mod mbs =? 1) || (g mod mbs =? mbs - 1) then
    (super_blk, 0, gb + (if hs then 1 else 0), n0 + 1)
  else (super_blk, 0, 0, n0).

(* ext2fs_descriptor_block_loc2 (lib/ext2fs/openfs.c): where descriptor block i is read from when the
   superblock in use sits at group_block (the primary one at first_data_block, or a backup);
   bigalloc's group-zero adjustment is outside the model *)
Definition descriptor_block_loc (s : sbinfo) (blocks_count group_block i : N) : N :=
  if negb (meta_bg s) || (i <? first_meta_bg s) then group_block + i + 1
  else
    let bg := desc_per_block s * i in
    let hs0 := if bg_has_super s bg then 1 else 0 in
    let ret := group_first_block s bg in
    if negb (group_block =? first_data_block s) && (ret + hs0 + blocks_per_group s <? blocks_count)
    then ret + blocks_per_group s + (if bg_has_super s (bg + 1) then 1 else 0)
    else ret + hs0.

(* the same with bigalloc's group-zero adjustment, as repaired: with 1k blocks and a cluster ratio above 1 (big)
   s_first_data_block is 0 although the primary superblock sits in block 1; the old-style descriptor blocks follow their
   superblock - all of them one block further when that is the primary one (group_block = 0), none when it is a backup -
   and in the meta_bg part only the copy in group 0 (i = 0, no jump to the second group) is shifted *)
Definition descriptor_block_loc_big (big : bool) (s : sbinfo) (blocks_count group_block i : N) : N :=
  let adj := if (blocksize s =? 1024) && big then 1 else 0 in
  if negb (meta_bg s) || (i <? first_meta_bg s) then group_block + i + 1 + (if group_block =? 0 then adj else 0)
  else
    let bg := desc_per_block s * i in
    let hs0 := if bg_has_super s bg then 1 else 0 in
    let ret := group_first_block s bg in
    if negb (group_block =? first_data_block s) && (ret + hs0 + blocks_per_group s <? blocks_count)
    then ret + blocks_per_group s + (if bg_has_super s (bg + 1) then 1 else 0)
    else ret + hs0 + (if i =? 0 then adj else 0).

(* as the code was: the old-style part shifted block 0 only, whatever superblock was in use *)
Definition descriptor_block_loc_big_old (big : bool) (s : sbinfo) (blocks_count group_block i : N) : N :=
  let adj := if (i =? 0) && (blocksize s =? 1024) && big then 1 else 0 in
  if negb (meta_bg s) || (i <? first_meta_bg s) then group_block + i + 1 + adj
  else
    let bg := desc_per_block s * i in
    let hs0 := if bg_has_super s bg then 1 else 0 in
    let ret := group_first_block s bg in
    if negb (group_block =? first_data_block s) && (ret + hs0 + blocks_per_group s <? blocks_count)
    then ret + blocks_per_group s + (if bg_has_super s (bg + 1) then 1 else 0)
    else ret + hs0 + adj.

(* what e2fsck's superblock check enforces (PR_0_FIRST_DATA_BLOCK): with 1k blocks s_first_data_block is 0 exactly
   when the cluster ratio is above 1 *)
Definition big_wf (big : bool) (s : sbinfo) : Prop :=
  blocksize s = 1024 -> (big = true <-> first_data_block s = 0).

(* ext2fs_list_backups for sparse_super: state (three, five, seven); dgrp_t saturates at 2^32-1 *)
Definition DGRP_MAX := 4294967295.
Definition list_backups_step (st : N * N * N) : N * (N * N * N) :=
  let '(three, five, seven) := st in
  let sat x m := if DGRP_MAX <? m * x then DGRP_MAX else m * x in
  if (seven <? three) && (seven <? five) then (seven, (three, five, sat seven 7))
  else if five <? three then (five, (three, sat five 5, seven))
  else (three, (sat three 3, five, seven)).

Fixpoint list_backups_n (n : nat) (st : N * N * N) : list N :=
  match n with
  | O => []
  | S k => let '(g, st') := list_backups_step st in g :: list_backups_n k st'
  end.

(* ext2fs_list_backups for sparse_super2: state = *three (1 at the start); returns (group, new state) *)
Definition list_backups_ss2_step (b0 b1 gdc st : N) : N * N :=
  if st =? 1 then
    (if negb (b0 =? 0) then (b0, 2) else if negb (b1 =? 0) then (b1, 3) else (gdc, 3))
  else if st =? 2 then
    (if negb (b1 =? 0) then (b1, 3) else (gdc, 3))
  else (gdc, st).

Fixpoint list_backups_ss2_n (n : nat) (b0 b1 gdc st : N) : list N :=
  match n with
  | O => []
  | S k => let '(g, st') := list_backups_ss2_step b0 b1 gdc st in g :: list_backups_ss2_n k b0 b1 gdc st'
  end.

(* C20/C08: what resize2fs does to the second sparse_super2 backup group (s_backup_bgs[1]) when the number of groups
   grows (resize/resize2fs.c adjust_fs_info), and which old backup clear_sparse_super2_last_group() releases. *)
From Coq Require Export NArith Bool Lia.
Local Open Scope N_scope.

(* grow: old_n -> new_n groups (old_n < new_n); b1 = s_backup_bgs[1] before *)
Definition grow_b1_new (old_n new_n b1 : N) : N :=
  if ((old_n <? 3) && (2 <? new_n)) || (negb (b1 =? 0) && (b1 =? old_n - 1)) then new_n - 1 else b1.
(* before the repair: any non-zero second backup was taken for the last-group one *)
Definition grow_b1_old (old_n new_n b1 : N) : N :=
  if ((old_n <? 3) && (2 <? new_n)) || negb (b1 =? 0) then new_n - 1 else b1.

(* clear_sparse_super2_last_group: the blocks of an old backup are released only if it sat in the old last group *)
Definition released (old_n b : N) : bool := b =? old_n - 1.

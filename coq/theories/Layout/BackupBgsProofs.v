From E2V Require Import Layout.BackupBgs.
Local Open Scope N_scope.

(* a backup that is given up is one whose blocks are released *)
Lemma grow_new_releases_what_it_abandons : forall old_n new_n b1,
  1 <= old_n -> old_n < new_n -> b1 < old_n -> b1 <> 0 ->
  grow_b1_new old_n new_n b1 <> b1 -> released old_n b1 = true.
Proof.
  intros old_n new_n b1 H1 Hg Hb Hnz Hmv. unfold grow_b1_new, released in *.
  destruct (b1 =? old_n - 1) eqn:E; [reflexivity|]. exfalso.
  apply N.eqb_neq in E.
  destruct ((old_n <? 3) && (2 <? new_n)) eqn:A.
  - apply andb_prop in A. destruct A as [A _]. apply N.ltb_lt in A.
    (* old_n is 1 or 2, 0 < b1 < old_n: b1 = 1 = old_n - 1 *)
    lia.
  - cbn [orb] in Hmv. rewrite andb_false_r in Hmv. apply Hmv. reflexivity.
Qed.

Lemma grow_new_in_range : forall old_n new_n b1,
  1 <= old_n -> old_n < new_n -> b1 < old_n -> grow_b1_new old_n new_n b1 < new_n.
Proof.
  intros old_n new_n b1 H1 Hg Hb. unfold grow_b1_new.
  destruct (((old_n <? 3) && (2 <? new_n)) || (negb (b1 =? 0) && (b1 =? old_n - 1))); lia.
Qed.

Lemma grow_old_refuted :
  grow_b1_old 5 8 1 = 7 /\ released 5 1 = false.
Proof. vm_compute. split; reflexivity. Qed.

From E2V Require Import Layout.Layout.
Local Open Scope N_scope.

Lemma pow_succ_nat b k : b ^ N.of_nat (S k) = b * b ^ N.of_nat k.
Proof. rewrite Nat2N.inj_succ, N.pow_succ_r'. reflexivity. Qed.

Lemma pow_pos b k : 2 <= b -> 1 <= b ^ N.of_nat k.
Proof. intros Hb. assert (b ^ N.of_nat k <> 0) by (apply N.pow_nonzero; lia). lia. Qed.

Lemma test_root_f_spec b : 2 <= b -> forall fuel a, a < 2 ^ N.of_nat fuel ->
  (test_root_f fuel a b = true <-> exists k, (1 <= k)%nat /\ a = b ^ N.of_nat k).
Proof.
  intros Hb. induction fuel; intros a Ha; cbn [test_root_f].
  - cbn in Ha. assert (a = 0) by lia. subst. split; [discriminate|].
    intros (k & Hk & E). pose proof (pow_pos b k Hb). lia.
  - destruct (N.ltb_spec a b) as [Hlt|Hge].
    + split; [discriminate|]. intros (k & Hk & E). exfalso.
      destruct k; [lia|]. rewrite pow_succ_nat in E.
      pose proof (pow_pos b k Hb). nia.
    + destruct (N.eqb_spec a b) as [->|Hne].
      * split; auto. intros _. exists 1%nat. split; auto. change (N.of_nat 1) with 1. rewrite N.pow_1_r. reflexivity.
      * destruct (N.eqb_spec (a mod b) 0) as [Hm|Hm]; cbn [negb].
        -- assert (Ea : a = b * (a / b)) by (pose proof (N.div_mod a b ltac:(lia)); lia).
           assert (Hq : a / b < 2 ^ N.of_nat fuel).
           { rewrite pow_succ_nat in Ha. apply N.div_lt_upper_bound; [lia|].
             apply N.lt_le_trans with (2 * 2 ^ N.of_nat fuel); auto. apply N.mul_le_mono_r. exact Hb. }
           rewrite (IHfuel (a / b) Hq). split.
           ++ intros (k & Hk & E). exists (S k). split; [lia|]. rewrite pow_succ_nat, <- E. exact Ea.
           ++ intros (k & Hk & E). destruct k; [lia|]. rewrite pow_succ_nat in E.
              destruct k.
              ** change (N.of_nat 0) with 0 in E. rewrite N.pow_0_r, N.mul_1_r in E. contradiction.
              ** exists (S k). split; [lia|]. rewrite E. rewrite N.mul_comm, N.div_mul by lia. reflexivity.
        -- split; [discriminate|]. intros (k & Hk & E). exfalso. apply Hm. subst a.
           destruct k; [lia|]. rewrite pow_succ_nat, N.mul_comm. apply N.mod_mul. lia.
Qed.

Theorem test_root_pow a b : 2 <= b -> a < 2 ^ 64 ->
  (test_root a b = true <-> exists k, (1 <= k)%nat /\ a = b ^ N.of_nat k).
Proof. intros Hb Ha. apply test_root_f_spec; auto. Qed.

Definition is_pow (b g : N) : Prop := exists k, (1 <= k)%nat /\ g = b ^ N.of_nat k.

Theorem has_super_sparse s g : sparse_super s = true -> sparse_super2 s = false -> g < 2 ^ 64 ->
  (bg_has_super s g = true <-> g = 0 \/ g = 1 \/ is_pow 3 g \/ is_pow 5 g \/ is_pow 7 g).
Proof.
  intros S1 S2 Hg. unfold bg_has_super. rewrite S1, S2. cbn [negb orb].
  destruct (N.eqb_spec g 0) as [->|H0]; [split; auto|].
  destruct (N.leb_spec g 1) as [H1|H1]; cbn [orb].
  - split; auto. intros _. right. left. lia.
  - assert (Odd : forall b k, N.odd b = true -> N.odd (b ^ N.of_nat k) = true).
    { intros b k Hb. induction k; [reflexivity|]. rewrite pow_succ_nat, N.odd_mul, Hb, IHk. reflexivity. }
    destruct (N.even g) eqn:Ev.
    + split; [discriminate|]. intros [?|[?|H]]; try lia. exfalso.
      assert (N.odd g = true).
      { destruct H as [(k & _ & ->)|[(k & _ & ->)|(k & _ & ->)]]; apply Odd; reflexivity. }
      rewrite <- N.negb_even, Ev in H2. discriminate.
    + rewrite !orb_true_iff, !test_root_pow by (auto; lia). unfold is_pow. split.
      * intros [[H|H]|H]; auto.
      * intros [?|[?|[H|[H|H]]]]; try lia; auto.
Qed.

Theorem has_super_sparse2 s g : sparse_super2 s = true ->
  (bg_has_super s g = true <-> g = 0 \/ g = backup_bg0 s \/ g = backup_bg1 s).
Proof.
  intros S2. unfold bg_has_super. rewrite S2.
  destruct (N.eqb_spec g 0); [split; auto|].
  rewrite orb_true_iff, !N.eqb_eq. split; [intros [?|?]; auto|intros [?|[?|?]]; auto; lia].
Qed.

Theorem has_super_all s g : sparse_super s = false -> sparse_super2 s = false -> bg_has_super s g = true.
Proof.
  intros S1 S2. unfold bg_has_super. rewrite S1, S2. destruct (g =? 0); auto. rewrite orb_true_r. reflexivity.
Qed.

(* the iterator used for reserved-GDT backups and by e2fsck's search for a backup
   superblock: its first 45 results are exactly 1 and the powers of 3, 5, 7 below 2^32,
   in increasing order (finite, complete enumeration) *)
Definition powers_below (b : N) (n : nat) : list N := map (fun k => b ^ N.of_nat k) (seq 1 n).

Fixpoint insert_sorted (x : N) (l : list N) : list N :=
  match l with [] => [x] | y :: r => if x <=? y then x :: l else y :: insert_sorted x r end.
Definition sort (l : list N) := fold_right insert_sorted [] l.

Theorem list_backups_enum :
  list_backups_n 45 (1, 5, 7) =
  sort (1 :: powers_below 3 20 ++ powers_below 5 13 ++ powers_below 7 11).
Proof. vm_compute. reflexivity. Qed.

Lemma powers_cover : 3 ^ 21 > DGRP_MAX /\ 5 ^ 14 > DGRP_MAX /\ 7 ^ 12 > DGRP_MAX.
Proof. vm_compute. repeat split; reflexivity. Qed.

From Coq Require Import ZifyBool ZifyN.
(* the reader's location for descriptor block i equals the place where the writer
   (ext2fs_super_and_bgd_loc2, used by ext2fs_flush) puts that block's copy:
   the first group of the meta group when the primary superblock is used, the second when a backup is *)
Lemma desc_loc_primary_lemma s bc i : meta_bg s = true -> first_meta_bg s <= i -> 1 < desc_per_block s ->
  0 < blocks_per_group s \/ 0 < first_data_block s \/ blocksize s <> 1024 \/ 0 < i ->
  let g := desc_per_block s * i in
  (group_first_block s g = 0 -> blocksize s <> 1024) ->
  descriptor_block_loc s bc (first_data_block s) i = snd (fst (super_and_bgd_loc s g)).
Proof.
  intros Hm Hi Hd _ g Hz. unfold descriptor_block_loc, super_and_bgd_loc. fold g.
  rewrite Hm. cbn [negb orb].
  replace (i <? first_meta_bg s) with false by lia.
  rewrite N.eqb_refl. cbn [negb andb].
  assert (Hdiv : g / desc_per_block s = i) by (unfold g; rewrite N.mul_comm; apply N.div_mul; lia).
  rewrite Hdiv. replace (i <? first_meta_bg s) with false by lia.
  assert (Hmod : g mod desc_per_block s = 0) by (unfold g; rewrite N.mul_comm; apply N.mod_mul; lia).
  rewrite Hmod. rewrite N.eqb_refl. cbn [orb].
  destruct ((group_first_block s g =? 0) && (blocksize s =? 1024)) eqn:E.
  - apply Bool.andb_true_iff in E as [E1 E2]. apply N.eqb_eq in E1, E2. exfalso. exact (Hz E1 E2).
  - destruct (bg_has_super s g); reflexivity.
Qed.

Lemma desc_loc_backup_lemma s bc gb i : meta_bg s = true -> first_meta_bg s <= i -> 2 < desc_per_block s ->
  0 < blocks_per_group s -> gb <> first_data_block s ->
  let g := desc_per_block s * i in
  group_first_block s g + (if bg_has_super s g then 1 else 0) + blocks_per_group s < bc ->
  descriptor_block_loc s bc gb i = snd (fst (super_and_bgd_loc s (g + 1))).
Proof.
  intros Hm Hi Hd Hb Hg g Hlt. unfold descriptor_block_loc, super_and_bgd_loc. fold g.
  rewrite Hm. cbn [negb orb].
  replace (i <? first_meta_bg s) with false by lia.
  replace (gb =? first_data_block s) with false by lia. cbn [negb andb].
  replace (group_first_block s g + (if bg_has_super s g then 1 else 0) + blocks_per_group s <? bc) with true by lia.
  assert (Hdiv : (g + 1) / desc_per_block s = i).
  { unfold g. rewrite N.mul_comm, N.add_comm. rewrite N.div_add by lia. rewrite N.div_small by lia. lia. }
  rewrite Hdiv. replace (i <? first_meta_bg s) with false by lia.
  assert (Hmod : (g + 1) mod desc_per_block s = 1).
  { unfold g. rewrite N.mul_comm, N.add_comm. rewrite N.mod_add by lia. apply N.mod_small. lia. }
  rewrite Hmod. cbn [N.eqb Pos.eqb orb].
  replace (1 =? 0) with false by reflexivity. cbn [orb].
  assert (Hg1 : group_first_block s (g + 1) = group_first_block s g + blocks_per_group s) by (unfold group_first_block; lia).
  replace ((group_first_block s (g + 1) =? 0) && (blocksize s =? 1024)) with false by lia.
  rewrite Hg1. destruct (bg_has_super s (g + 1)); reflexivity.
Qed.

(* ---- with the group-zero adjustment: no geometry is excluded any more *)
Definition old_desc_blk (s : sbinfo) (g : N) : N := snd (fst (fst (super_and_bgd_loc s g))).
Definition new_desc_blk (s : sbinfo) (g : N) : N := snd (fst (super_and_bgd_loc s g)).
Definition super_blk (s : sbinfo) (g : N) : N := fst (fst (fst (super_and_bgd_loc s g))).

Lemma has_super_0 s : bg_has_super s 0 = true.
Proof. reflexivity. Qed.

Lemma desc_loc_big_oldstyle_primary big s bc i : big_wf big s ->
  (meta_bg s = false \/ i < first_meta_bg s) -> 0 < desc_per_block s ->
  descriptor_block_loc_big big s bc (first_data_block s) i = old_desc_blk s 0 + i.
Proof.
  intros Hw Hb Hd. unfold descriptor_block_loc_big, old_desc_blk, super_and_bgd_loc.
  rewrite has_super_0. rewrite N.div_0_l by lia.
  assert (E1 : negb (meta_bg s) || (i <? first_meta_bg s) = true) by (destruct Hb as [Hb|Hb]; [rewrite Hb; reflexivity|destruct (meta_bg s); cbn [negb orb]; lia]).
  assert (E2 : negb (meta_bg s) || (0 <? first_meta_bg s) = true) by (destruct Hb as [Hb|Hb]; [rewrite Hb; reflexivity|destruct (meta_bg s); cbn [negb orb]; lia]).
  rewrite E1, E2. cbn [fst snd]. unfold group_first_block. rewrite N.mul_0_l, N.add_0_r.
  unfold big_wf in Hw.
  destruct (N.eqb_spec (blocksize s) 1024) as [B|B].
  - destruct (N.eqb_spec (first_data_block s) 0) as [F|F]; cbn [andb].
    + assert (big = true) by (apply Hw; assumption). subst big. rewrite F. lia.
    + lia.
  - rewrite Bool.andb_false_r. cbn [andb]. destruct (first_data_block s =? 0); lia.
Qed.

Lemma desc_loc_big_oldstyle_backup big s bc g i :
  (meta_bg s = false \/ g / desc_per_block s < first_meta_bg s) -> (meta_bg s = false \/ i < first_meta_bg s) ->
  bg_has_super s g = true -> 0 < g -> 0 < blocks_per_group s ->
  descriptor_block_loc_big big s bc (super_blk s g) i = old_desc_blk s g + i.
Proof.
  intros Hg Hb Hs Hpos Hbpg. unfold descriptor_block_loc_big, old_desc_blk, super_blk, super_and_bgd_loc.
  rewrite Hs.
  assert (E1 : negb (meta_bg s) || (i <? first_meta_bg s) = true) by (destruct Hb as [Hb|Hb]; [rewrite Hb; reflexivity|destruct (meta_bg s); cbn [negb orb]; lia]).
  assert (E2 : negb (meta_bg s) || (g / desc_per_block s <? first_meta_bg s) = true) by (destruct Hg as [Hg|Hg]; [rewrite Hg; reflexivity|destruct (meta_bg s); cbn [negb orb]; lia]).
  rewrite E1, E2. cbn [fst snd].
  assert (Hz : group_first_block s g <> 0) by (unfold group_first_block; nia).
  replace (group_first_block s g =? 0) with false by lia. cbn [andb].
  replace (group_first_block s g =? 0) with false by lia. lia.
Qed.

Lemma desc_loc_big_primary big s bc i : big_wf big s ->
  meta_bg s = true -> first_meta_bg s <= i -> 1 < desc_per_block s -> 0 < blocks_per_group s ->
  descriptor_block_loc_big big s bc (first_data_block s) i = new_desc_blk s (desc_per_block s * i).
Proof.
  intros Hw Hm Hi Hd Hbpg. set (g := desc_per_block s * i).
  unfold descriptor_block_loc_big, new_desc_blk, super_and_bgd_loc. fold g.
  rewrite Hm. cbn [negb orb].
  replace (i <? first_meta_bg s) with false by lia.
  rewrite N.eqb_refl. cbn [negb andb].
  assert (Hdiv : g / desc_per_block s = i) by (unfold g; rewrite N.mul_comm; apply N.div_mul; lia).
  rewrite Hdiv. replace (i <? first_meta_bg s) with false by lia.
  assert (Hmod : g mod desc_per_block s = 0) by (unfold g; rewrite N.mul_comm; apply N.mod_mul; lia).
  rewrite Hmod. rewrite N.eqb_refl. cbn [orb fst snd].
  unfold big_wf in Hw.
  destruct (N.eqb_spec (blocksize s) 1024) as [B|B].
  - destruct (N.eqb_spec (group_first_block s g) 0) as [Z|Z]; cbn [andb].
    + assert (F : first_data_block s = 0) by (unfold group_first_block in Z; lia).
      assert (I0 : i = 0) by (unfold group_first_block, g in Z; nia).
      assert (big = true) by (apply Hw; assumption). subst big.
      rewrite Z, I0. cbn [N.eqb]. destruct (bg_has_super s g); lia.
    + destruct (N.eqb_spec i 0) as [I0|I0].
      * assert (G0 : g = 0) by (unfold g; lia).
        assert (F : first_data_block s <> 0) by (unfold group_first_block in Z; rewrite G0 in Z; lia).
        assert (big = false) by (destruct big; [exfalso; apply F, Hw; auto|reflexivity]). subst big.
        destruct (bg_has_super s g); lia.
      * destruct (bg_has_super s g); lia.
  - rewrite Bool.andb_false_r. cbn [andb]. destruct (i =? 0); destruct (bg_has_super s g); lia.
Qed.

Lemma desc_loc_big_backup big s bc gb i : meta_bg s = true -> first_meta_bg s <= i -> 2 < desc_per_block s ->
  0 < blocks_per_group s -> gb <> first_data_block s ->
  let g := desc_per_block s * i in
  group_first_block s g + (if bg_has_super s g then 1 else 0) + blocks_per_group s < bc ->
  descriptor_block_loc_big big s bc gb i = new_desc_blk s (g + 1).
Proof.
  intros Hm Hi Hd Hb Hg g Hlt.
  assert (E : descriptor_block_loc_big big s bc gb i = descriptor_block_loc s bc gb i).
  { unfold descriptor_block_loc_big, descriptor_block_loc. fold g. rewrite Hm. cbn [negb orb].
    replace (i <? first_meta_bg s) with false by lia.
    replace (gb =? first_data_block s) with false by lia. cbn [negb andb].
    replace (group_first_block s g + (if bg_has_super s g then 1 else 0) + blocks_per_group s <? bc) with true by lia. reflexivity. }
  rewrite E. unfold new_desc_blk. apply desc_loc_backup_lemma; assumption.
Qed.

(* the code as it was: second old-style descriptor block of a 1k-block bigalloc filesystem *)
Lemma desc_loc_big_old_refuted : exists s bc i, big_wf true s /\ meta_bg s = false /\ 0 < blocks_per_group s /\
  descriptor_block_loc_big_old true s bc (first_data_block s) i <> old_desc_blk s 0 + i.
Proof.
  exists (mkSb true false 0 0 false 0 16 3 0 0 8192 1024), 307200, 1.
  split; [intros _; split; reflexivity|]. split; [reflexivity|]. split; [reflexivity|]. vm_compute. discriminate.
Qed.

(* sparse_super2: the iterator yields the recorded backup groups (those that are not 0), each once,
   in order, and the group count from then on *)
Lemma ss2_tail : forall n b0 b1 gdc, list_backups_ss2_n n b0 b1 gdc 3 = repeat gdc n.
Proof. induction n as [|n IH]; intros; cbn [list_backups_ss2_n repeat]; [reflexivity|]. unfold list_backups_ss2_step. cbn. f_equal. apply IH. Qed.

Lemma ss2_enum_lemma b0 b1 gdc n :
  list_backups_ss2_n (3 + n) b0 b1 gdc 1 =
  firstn 3 ((if b0 =? 0 then [] else [b0]) ++ (if b1 =? 0 then [] else [b1]) ++ [gdc; gdc; gdc]) ++
  repeat gdc n.
Proof.
  change (3 + n)%nat with (S (S (S n))). cbn [list_backups_ss2_n]. unfold list_backups_ss2_step.
  destruct (b0 =? 0) eqn:E0; destruct (b1 =? 0) eqn:E1; cbn [N.eqb Pos.eqb negb app firstn];
    rewrite ?E0, ?E1; cbn [N.eqb Pos.eqb negb app firstn]; rewrite ?ss2_tail; reflexivity.
Qed.

(* Proofs about the bit-array bitmap model: every operation agrees with the
   reference set whose membership function is N.testbit, for every alignment
   of the array. *)
From E2V Require Import Bitmap.BAModel Bitmap.FSetLemmas Bitmap.BackendOk.
From Coq Require Import ZArith ZifyN ZifyNat ZifyBool.
Local Open Scope N_scope.
Ltac Zify.zify_post_hook ::= Z.div_mod_to_equations.

Lemma bits_from_forallb (P : N -> bool) : forall k i,
  forallb P (bits_from i k) = true <-> (forall x, i <= x < i + N.of_nat k -> P x = true).
Proof.
  induction k; intros i; simpl.
  - split; auto. intros _ x H. lia.
  - rewrite andb_true_iff, IHk. split.
    + intros [H1 H2] x Hx. destruct (N.eq_dec x i); [subst; auto|]. apply H2. lia.
    + intros H. split; [apply H; lia|]. intros x Hx. apply H. lia.
Qed.

Lemma tb_set b i j : tb (N.setbit b i) j = (j =? i) || tb b j.
Proof. unfold tb. rewrite N.setbit_eqb, (N.eqb_sym i j). reflexivity. Qed.

Lemma tb_clr b i j : tb (N.clearbit b i) j = negb (j =? i) && tb b j.
Proof. unfold tb. rewrite N.clearbit_eqb, (N.eqb_sym i j). apply andb_comm. Qed.

Lemma set_loop_spec : forall k b i j, tb (set_loop b i k) j = f_rng i (N.of_nat k) j || tb b j.
Proof.
  induction k; intros b i j; simpl.
  - unfold f_rng. destruct (N.leb_spec i j), (N.ltb_spec j (i + 0)); simpl; try reflexivity; lia.
  - rewrite IHk, tb_set. unfold f_rng.
    destruct (N.leb_spec (i + 1) j), (N.ltb_spec j (i + 1 + N.of_nat k)), (N.eqb_spec j i),
             (N.leb_spec i j), (N.ltb_spec j (i + N.pos (Pos.of_succ_nat k))); simpl; try reflexivity; lia.
Qed.

Lemma clr_loop_spec : forall k b i j, tb (clr_loop b i k) j = negb (f_rng i (N.of_nat k) j) && tb b j.
Proof.
  induction k; intros b i j; simpl.
  - unfold f_rng. destruct (N.leb_spec i j), (N.ltb_spec j (i + 0)); simpl; try reflexivity; lia.
  - rewrite IHk, tb_clr. unfold f_rng.
    destruct (N.leb_spec (i + 1) j), (N.ltb_spec j (i + 1 + N.of_nat k)), (N.eqb_spec j i),
             (N.leb_spec i j), (N.ltb_spec j (i + N.pos (Pos.of_succ_nat k))); simpl; try reflexivity; lia.
Qed.

(* ---- find first ---- *)
Section FindProofs.
  Variable al : N.
  Variable b : ba.
  Variable want : bool.
  Variables a tot : N.

  Definition Skip (pos : N) := forall x, a <= x < pos -> hit b want x = false.
  Definition good (pc : N * N) := a <= fst pc /\ fst pc + snd pc = a + tot /\ Skip (fst pc).

  Lemma skip_ext pos k : Skip pos -> (forall x, pos <= x < pos + k -> hit b want x = false) -> Skip (pos + k).
  Proof. intros S H x Hx. destruct (N.lt_ge_cases x pos); [apply S; lia|apply H; lia]. Qed.

  Lemma ph1_spec : forall fuel pos cnt, good (pos, cnt) ->
    match ph1 b want fuel pos cnt with
    | inl p => a <= p < a + tot /\ Skip p /\ hit b want p = true
    | inr pc => good pc
    end.
  Proof.
    induction fuel; intros pos cnt G; simpl; [exact G|].
    destruct G as (G1 & G2 & G3); simpl in *.
    destruct (negb (pos mod 8 =? 0) && (0 <? cnt)) eqn:C; [|split3; auto].
    apply andb_true_iff in C. destruct C as [_ C]. apply N.ltb_lt in C.
    destruct (hit b want pos) eqn:H.
    - split3; auto. lia.
    - apply IHfuel. split3; simpl; try lia.
      apply (skip_ext pos 1); auto. intros x Hx. replace x with pos by lia. exact H.
  Qed.

  Lemma byte_skip_spec pos : byte_skip b want pos = true ->
    forall x, pos <= x < pos + 8 -> hit b want x = false.
  Proof.
    unfold byte_skip. rewrite bits_from_forallb. intros H x Hx.
    specialize (H x ltac:(simpl; lia)). apply negb_true_iff in H. exact H.
  Qed.

  Lemma word_skip_spec pos : word_skip b want pos = true ->
    forall x, pos <= x < pos + 64 -> hit b want x = false.
  Proof.
    unfold word_skip. rewrite bits_from_forallb. intros H x Hx.
    specialize (H x ltac:(simpl; lia)). apply negb_true_iff in H. exact H.
  Qed.

  Lemma ph2_spec : forall fuel pos cnt, good (pos, cnt) -> good (snd (ph2 al b want fuel pos cnt)).
  Proof.
    induction fuel; intros pos cnt G; simpl; [exact G|].
    destruct ((8 <=? cnt) && negb ((al + pos / 8) mod 8 =? 0)) eqn:C; [|exact G].
    apply andb_true_iff in C. destruct C as [C _]. apply N.leb_le in C.
    destruct (byte_skip b want pos) eqn:S; [|exact G].
    apply IHfuel. destruct G as (G1 & G2 & G3); simpl in *. split3; simpl; try lia.
    apply skip_ext; auto. apply byte_skip_spec; auto.
  Qed.

  Lemma ph3w_spec : forall i pos, let '(i', _) := ph3w b want i pos in
    (i' <= i)%nat /\ forall x, pos <= x < pos + 64 * N.of_nat (i - i') -> hit b want x = false.
  Proof.
    induction i; intros pos; cbn [ph3w].
    - split; auto. intros x Hx. lia.
    - destruct (word_skip b want pos) eqn:S.
      + specialize (IHi (pos + 64)). destruct (ph3w b want i (pos + 64)) as [i' p'].
        destruct IHi as [I1 I2]. split; [lia|]. intros x Hx.
        destruct (N.lt_ge_cases x (pos + 64)); [apply (word_skip_spec pos); auto; lia|].
        apply I2. lia.
      + split; auto. intros x Hx. lia.
  Qed.

  Lemma ph3b_spec : forall i pos, let '(i', _) := ph3b b want i pos in
    (i' <= i)%nat /\ forall x, pos <= x < pos + 8 * N.of_nat (i - i') -> hit b want x = false.
  Proof.
    induction i; intros pos; cbn [ph3b].
    - split; auto. intros x Hx. lia.
    - destruct (byte_skip b want pos) eqn:S.
      + specialize (IHi (pos + 8)). destruct (ph3b b want i (pos + 8)) as [i' p'].
        destruct IHi as [I1 I2]. split; [lia|]. intros x Hx.
        destruct (N.lt_ge_cases x (pos + 8)); [apply (byte_skip_spec pos); auto; lia|].
        apply I2. lia.
      + split; auto. intros x Hx. lia.
  Qed.

  Lemma ph4_scan : forall cnt pos, ph4 b want cnt pos = f_scan (tb b) want pos cnt.
  Proof. induction cnt; intros pos; simpl; [reflexivity|]. unfold hit. rewrite IHcnt. reflexivity. Qed.

  Lemma good_scan pos cnt : good (pos, cnt) ->
    f_scan (tb b) want a (N.to_nat tot) = f_scan (tb b) want pos (N.to_nat cnt).
  Proof.
    intros (G1 & G2 & G3); simpl in *.
    replace (N.to_nat tot) with (N.to_nat (pos - a) + N.to_nat cnt)%nat by lia.
    rewrite f_scan_skip; [f_equal; lia|].
    intros x Hx. specialize (G3 x ltac:(lia)). unfold hit in G3.
    intro E. rewrite E, eqb_reflx in G3. discriminate.
  Qed.
End FindProofs.

Lemma ba_find_ok al b want a e : a <= e ->
  ba_find al b want a e = f_scan (tb b) want a (N.to_nat (e + 1 - a)).
Proof.
  intros Hae. unfold ba_find. set (tot := e + 1 - a).
  assert (G0 : good b want a tot (a, tot)).
  { split3; simpl; try lia. intros x Hx. lia. }
  pose proof (ph1_spec b want a tot 8 a tot G0) as P1.
  destruct (ph1 b want 8 a tot) as [p|[pos cnt]].
  - destruct P1 as (A & B & C). symmetry. apply f_scan_first; try lia.
    + intros x Hx. specialize (B x Hx). unfold hit in B. intro E. rewrite E, eqb_reflx in B. discriminate.
    + unfold hit in C. apply eqb_prop. exact C.
  - destruct (N.eqb_spec cnt 0) as [->|Hc].
    + fold tot. rewrite (good_scan b want a tot pos 0 P1). reflexivity.
    + pose proof (ph2_spec al b want a tot 8 pos cnt P1) as P2.
      destruct (ph2 al b want 8 pos cnt) as [found [pos2 cnt2]]. simpl in P2.
      destruct found.
      * rewrite ph4_scan. symmetry. apply (good_scan b want a tot pos2 cnt2 P2).
      * pose proof (ph3w_spec b want (N.to_nat (cnt2 / 64)) pos2) as W.
        destruct (ph3w b want (N.to_nat (cnt2 / 64)) pos2) as [iw pw]. destruct W as [W1 W2].
        set (advw := N.of_nat (N.to_nat (cnt2 / 64) - iw)) in *.
        set (cnt3 := cnt2 - 64 * advw). set (pos3 := pos2 + 64 * advw).
        pose proof (ph3b_spec b want (N.to_nat (cnt3 / 8)) pos3) as Bq.
        destruct (ph3b b want (N.to_nat (cnt3 / 8)) pos3) as [ib pb]. destruct Bq as [B1 B2].
        set (advb := N.of_nat (N.to_nat (cnt3 / 8) - ib)) in *.
        rewrite ph4_scan. symmetry. apply (good_scan b want a tot).
        destruct P2 as (Q1 & Q2 & Q3); cbn [fst snd] in *.
        assert (64 * advw <= cnt2) by (unfold advw; lia).
        assert (8 * advb <= cnt3) by (unfold advb; lia).
        split3; cbn [fst snd]; try (unfold pos3, cnt3 in *; lia).
        replace (pos3 + 8 * advb) with (pos2 + (64 * advw + 8 * advb)) by (unfold pos3; lia).
        apply skip_ext; auto. intros x Hx.
        destruct (N.lt_ge_cases x pos3); [apply W2; unfold pos3 in *; lia|apply B2; unfold pos3 in *; lia].
Qed.

(* ---- test clear ---- *)
Lemma all_clr_iff b i k : all_clr b i k = true <-> (forall x, i <= x < i + N.of_nat k -> tb b x = false).
Proof.
  unfold all_clr. rewrite bits_from_forallb. split; intros H x Hx; specialize (H x Hx).
  - apply negb_true_iff in H; auto.
  - rewrite H; reflexivity.
Qed.

Lemma ba_test_clear_ok b start len :
  ba_test_clear b start len = f_all_clear (tb b) start (N.to_nat len).
Proof.
  apply eq_iff_eq_true. rewrite f_all_clear_iff, N2Nat.id.
  unfold ba_test_clear.
  assert (GO : forall sb lb lbit, lbit < 8 ->
     ((if negb (lbit =? 0) && negb (all_clr b (8 * (sb + lb)) (N.to_nat lbit)) then false
       else if negb (lbit =? 0) && (lb =? 0) then true
       else all_clr b (8 * sb) (N.to_nat (8 * lb))) = true
      <-> forall x, 8 * sb <= x < 8 * sb + 8 * lb + lbit -> tb b x = false)).
  { intros sb lb lbit Hl.
    destruct (N.eqb_spec lbit 0) as [->|Hz]; cbn [negb andb].
    - rewrite all_clr_iff, N2Nat.id. split; intros H x Hx; apply H; lia.
    - destruct (all_clr b (8 * (sb + lb)) (N.to_nat lbit)) eqn:L; cbn [negb andb].
      + pose proof (proj1 (all_clr_iff _ _ _) L) as L'; clear L; rename L' into L. rewrite N2Nat.id in L.
        destruct (N.eqb_spec lb 0) as [->|Hb].
        * split; auto. intros _ x Hx. apply L. lia.
        * rewrite all_clr_iff, N2Nat.id. split; intros H x Hx.
          -- destruct (N.lt_ge_cases x (8 * sb + 8 * lb)); [apply H; lia|apply L; lia].
          -- apply H; lia.
      + split; [discriminate|]. intros H.
        assert (all_clr b (8 * (sb + lb)) (N.to_nat lbit) = true); [|congruence].
        apply (proj2 (all_clr_iff _ _ _)). rewrite N2Nat.id. intros x Hx. apply H. lia. }
  destruct (N.eqb_spec (start mod 8) 0) as [Hs|Hs]; cbn [negb andb].
  - rewrite GO by (apply N.mod_lt; lia).
    split; intros H x Hx; apply H; lia.
  - set (sbit := start mod 8) in *. set (sb := start / 8).
    assert (Es : start = 8 * sb + sbit) by (unfold sb, sbit; lia).
    assert (Hsb : sbit < 8) by (unfold sbit; lia).
    set (mc := if len <? 8 - sbit then len else 8 - sbit).
    destruct (all_clr b (8 * sb + sbit) (N.to_nat mc)) eqn:F; cbn [negb andb].
    + pose proof (proj1 (all_clr_iff _ _ _) F) as F'; clear F; rename F' into F. rewrite N2Nat.id in F.
      destruct (N.leb_spec len (8 - sbit)) as [H1|H1].
      * split; auto. intros _ x Hx. apply F. unfold mc. destruct (N.ltb_spec len (8 - sbit)); lia.
      * assert (Emc : mc = 8 - sbit) by (unfold mc; destruct (N.ltb_spec len (8 - sbit)); lia).
        rewrite GO by (apply N.mod_lt; lia).
        split; intros H x Hx.
        -- destruct (N.lt_ge_cases x (8 * (sb + 1))); [apply F; lia|apply H; lia].
        -- apply H. lia.
    + split; [discriminate|]. intros H.
      assert (all_clr b (8 * sb + sbit) (N.to_nat mc) = true); [|congruence].
      apply (proj2 (all_clr_iff _ _ _)). rewrite N2Nat.id. intros x Hx. apply H.
      unfold mc in Hx. destruct (N.ltb_spec len (8 - sbit)); lia.
Qed.

(* ---- bulk get/set ---- *)
Lemma get_bits_spec b : forall k i, get_bits b i k = f_bits (tb b) i k.
Proof. induction k; intros i; simpl; [reflexivity|]. rewrite IHk. reflexivity. Qed.

Lemma put_bits_spec : forall bits b i j,
  tb (put_bits b i bits) j =
  if f_rng i (N.of_nat (length bits)) j then nth (N.to_nat (j - i)) bits false else tb b j.
Proof.
  induction bits as [|x r IH]; intros b i j; cbn [put_bits length].
  - rewrite f_rng_0. reflexivity.
  - rewrite IH, Nat2N.inj_succ. set (L := N.of_nat (length r)). unfold f_rng.
    assert (Hx : tb (if x then N.setbit b i else N.clearbit b i) j = if j =? i then x else tb b j).
    { destruct x; [rewrite tb_set|rewrite tb_clr]; destruct (j =? i); reflexivity. }
    rewrite Hx.
    destruct (N.eqb_spec j i) as [->|Hj].
    + replace (N.to_nat (i - i)) with O by lia. cbn [nth].
      destruct (N.leb_spec (i + 1) i); [lia|]. cbn [andb].
      destruct (N.leb_spec i i); [|lia]. destruct (N.ltb_spec i (i + N.succ L)); [|lia]. reflexivity.
    + destruct (N.leb_spec (i + 1) j); destruct (N.ltb_spec j (i + 1 + L));
        destruct (N.leb_spec i j); destruct (N.ltb_spec j (i + N.succ L)); cbn [andb]; try lia; try reflexivity.
      replace (N.to_nat (j - i)) with (S (N.to_nat (j - (i + 1)))) by lia. reflexivity.
Qed.

Lemma byte_pos p : p mod 8 = 0 -> 8 * (p / 8) = p.
Proof. intros H. pose proof (N.div_mod p 8 ltac:(lia)). lia. Qed.

Lemma BA_ok al : backend_ok (BA al) (fun _ => True) tb.
Proof.
  constructor.
  - split; [exact I|]. intros j. cbn. unfold tb. destruct j; reflexivity.
  - intros t i _. cbn. split3; auto. intros j. apply tb_set.
  - intros t i _. cbn. split3; auto. intros j. apply tb_clr.
  - intros t i _. cbn. split3; auto.
  - intros t a n _. cbn. split; auto. intros j. rewrite set_loop_spec, N2Nat.id. reflexivity.
  - intros t a n _. cbn. split; auto. intros j. rewrite clr_loop_spec, N2Nat.id. reflexivity.
  - intros. apply ba_test_clear_ok.
  - intros. apply ba_find_ok; auto.
  - intros. apply ba_find_ok; auto.
  - intros t gs a n _. cbn. unfold ba_get. destruct (N.eqb_spec ((a - gs) mod 8) 0) as [E|E]; rewrite get_bits_spec; [rewrite (byte_pos _ E)|]; reflexivity.
  - intros t gs a bits _. cbn. split; auto. intros j. unfold ba_set.
    destruct (N.eqb_spec ((a - gs) mod 8) 0) as [E|E]; cbn [andb]; [destruct (N.of_nat (length bits) mod 8 =? 0)|];
      rewrite put_bits_spec; [rewrite (byte_pos _ E)| |]; reflexivity.
  - intros t _. cbn. split; [exact I|]. intros j. unfold tb. destruct j; reflexivity.
  - intros t _. cbn. split3; auto.
Qed.

From E2V Require Import Bitmap.RBModel Bitmap.BAModel.

(* Proofs about the rbtree bitmap model: the node sequence stays sorted,
   disjoint and non-adjacent, cursors stay valid, and every operation has the
   effect on the membership function that a set of integers prescribes. *)
From E2V Require Import Bitmap.RBModel Bitmap.FSetLemmas Bitmap.BackendOk.
Local Open Scope N_scope.

Ltac split3 := split; [|split].
Ltac split4 := split; [|split; [|split]].
Ltac split5 := split; [|split; [|split; [|split]]].
Ltac bd :=
  repeat match goal with
  | |- context [?a <=? ?b] => destruct (N.leb_spec a b)
  | |- context [?a <? ?b] => destruct (N.ltb_spec a b)
  | |- context [?a =? ?b] => destruct (N.eqb_spec a b)
  | H : context [?a <=? ?b] |- _ => destruct (N.leb_spec a b)
  | H : context [?a <? ?b] |- _ => destruct (N.ltb_spec a b)
  | H : context [?a =? ?b] |- _ => destruct (N.eqb_spec a b)
  end.

(* ---- well-formed node sequences ---- *)
Fixpoint wf_from (lo : N) (l : list node) : Prop :=
  match l with
  | [] => True
  | e :: t => lo <= ns e /\ 0 < nc e /\ wf_from (nend e + 1) t
  end.

Lemma wf_from_weaken lo lo' l : wf_from lo l -> lo' <= lo -> wf_from lo' l.
Proof. destruct l as [|e t]; simpl; [auto|]. intros (A & B & C) H. split3; auto; lia. Qed.

Lemma mem_cons e t b : mem_nodes (e :: t) b = inside e b || mem_nodes t b.
Proof. unfold mem_nodes; simpl. destruct (inside e b); reflexivity. Qed.

Lemma mem_nil b : mem_nodes [] b = false.
Proof. reflexivity. Qed.

Lemma mem_below lo l b : wf_from lo l -> b < lo -> mem_nodes l b = false.
Proof.
  revert lo; induction l as [|e t IH]; intros lo W Hb; [reflexivity|].
  destruct W as (A & B & C). rewrite mem_cons.
  rewrite (IH (nend e + 1)); auto; [|unfold nend; lia].
  unfold inside, nend. bd; simpl; try reflexivity; lia.
Qed.

Lemma find_cont_inside b l e : find_cont b l = Some e -> In e l /\ inside e b = true.
Proof.
  induction l as [|x t IH]; simpl; [discriminate|].
  destruct (inside x b) eqn:E; intros H.
  - inversion H; subst. auto.
  - destruct (IH H). auto.
Qed.

Lemma find_cont_none b l : find_cont b l = None -> mem_nodes l b = false.
Proof. unfold mem_nodes. intros ->. reflexivity. Qed.

Lemma find_cont_some b l e : find_cont b l = Some e -> mem_nodes l b = true.
Proof. unfold mem_nodes. intros ->. reflexivity. Qed.

Lemma in_wf_inside lo l e b : wf_from lo l -> In e l -> inside e b = true -> mem_nodes l b = true.
Proof.
  revert lo; induction l as [|x t IH]; intros lo W HI Hin; [destruct HI|].
  rewrite mem_cons. destruct HI as [->|HI]; [rewrite Hin; reflexivity|].
  destruct W as (_ & _ & C). rewrite (IH _ C HI Hin). apply orb_true_r.
Qed.

(* ---- merge_right ---- *)
Lemma merge_right_spec start count : forall post lo c p f,
  wf_from lo post -> start < lo -> 0 < count ->
  merge_right start count post = (c, p, f) ->
  count <= c /\ wf_from (start + c + 1) p /\
  (forall b, f_rng start c b || mem_nodes p b = f_rng start count b || mem_nodes post b).
Proof.
  induction post as [|e t IH]; intros lo c p f W Hlo Hc M.
  - simpl in M. inversion M; subst. split; [lia|]. split; [exact I|]. reflexivity.
  - simpl in M. destruct W as (A & B & C).
    destruct (N.leb_spec (nend e) start) as [H1|H1]; [unfold nend in H1; lia|].
    destruct (N.ltb_spec (start + count) (ns e)) as [H2|H2].
    + inversion M; subst. split3; [lia| |reflexivity].
      simpl. split3; auto; lia.
    + destruct (N.leb_spec (nend e) (start + count)) as [H3|H3].
      * destruct (merge_right start count t) as [[c' p'] f'] eqn:E. inversion M; subst.
        destruct (IH (nend e + 1) c p f' C) as (I1 & I2 & I3); auto; [unfold nend; lia|].
        split3; auto. intros b. rewrite I3, mem_cons.
        unfold f_rng, inside, nend in *. bd; simpl; try reflexivity; try lia;
          destruct (mem_nodes t b); reflexivity.
      * inversion M; subst. split3; [lia| |].
        -- replace (start + (count + (nend e - (start + count))) + 1) with (nend e + 1) by (unfold nend in *; lia). exact C.
        -- intros b. rewrite mem_cons. unfold f_rng, inside, nend in *.
           bd; simpl; try reflexivity; try lia; destruct (mem_nodes t b); reflexivity.
Qed.

(* ---- ins_nodes ---- *)
Lemma ins_nodes_spec fr start count : forall l lo l' r f n,
  wf_from lo l -> lo <= start -> 0 < count ->
  ins_nodes fr start count l = (l', r, f, n) ->
  wf_from lo l' /\
  (forall b, mem_nodes l' b = f_rng start count b || mem_nodes l b) /\
  (count = 1 -> r = b2n (mem_nodes l start)).
Proof.
  induction l as [|e t IH]; intros lo l' r f n W Hlo Hc I.
  - cbn [ins_nodes] in I. inversion I; subst. split3.
    + simpl; split3; auto.
    + intros b. rewrite mem_cons, mem_nil. unfold inside, nend, f_rng. simpl. reflexivity.
    + reflexivity.
  - cbn [ins_nodes] in I. destruct W as (A & B & C).
    destruct (N.ltb_spec start (ns e)) as [H1|H1].
    + (* new node in front *)
      destruct (merge_right start count (e :: t)) as [[c p] f'] eqn:M. inversion I; subst.
      destruct (merge_right_spec start count (e :: t) (start + 1) c p f) as (M1 & M2 & M3); auto.
      { simpl. split3; auto; lia. } { lia. }
      split3.
      * simpl; split3; auto; try lia; try (unfold nend; simpl; exact M2).
      * intros b. rewrite mem_cons. unfold inside, nend; simpl. fold (f_rng start c b). apply M3.
      * intros _. rewrite (mem_below (start + 1) (e :: t)); [reflexivity| |lia].
        simpl; split3; auto; lia.
    + destruct (N.leb_spec start (nend e)) as [H2|H2].
      * destruct (N.leb_spec (start + count) (nend e)) as [H3|H3].
        -- inversion I; subst. split3; [simpl; auto| |].
           ++ intros b. rewrite mem_cons. unfold f_rng, inside in *.
              bd; simpl; try reflexivity; lia.
           ++ intros _. rewrite mem_cons. unfold inside. bd; simpl; try reflexivity; lia.
        -- destruct (merge_right (ns e) (count + (start - ns e)) t) as [[c p] f'] eqn:M.
           inversion I; subst.
           destruct (merge_right_spec (ns e) (count + (start - ns e)) t (nend e + 1) c p f) as (M1 & M2 & M3); auto;
             [unfold nend; lia|lia|].
           split3.
           ++ simpl; split3; auto; try lia; try (unfold nend; simpl; exact M2).
           ++ intros b. rewrite !mem_cons. unfold inside at 1. unfold nend at 1. simpl.
              fold (f_rng (ns e) c b). rewrite M3.
              unfold f_rng, inside, nend in *. bd; simpl; try reflexivity; try lia;
                destruct (mem_nodes t b); reflexivity.
           ++ intros ->. rewrite mem_cons.
              rewrite (mem_below (nend e + 1) t); auto; [|unfold nend in *; lia].
              unfold inside. bd; simpl; try reflexivity; unfold nend in *; lia.
      * destruct (ins_nodes fr start count t) as [[[l2 r2] f2] n2] eqn:E. inversion I; subst.
        destruct (IH (nend e + 1) l2 r f n C) as (I1 & I2 & I3); auto; [lia|].
        split3; [simpl; auto| |].
        -- intros b. rewrite !mem_cons, I2. destruct (inside e b), (f_rng start count b); reflexivity.
        -- intros H. rewrite (I3 H), mem_cons.
           replace (inside e start) with false; [reflexivity|].
           unfold inside. bd; simpl; try reflexivity; lia.
Qed.

(* the wcursor shortcut lands where the descent would *)
Lemma ins_at_eq fr start count : forall l lo w,
  wf_from lo l -> In w l -> ns w <= start <= nend w ->
  (forall x y, In x l -> In y l -> nid x = nid y -> x = y) ->
  ins_nodes fr start count l =
  (let '(l', r, f) := ins_at (nid w) start count l in (l', r, f, None)).
Proof.
  induction l as [|e t IH]; intros lo w W HI Hr U; [destruct HI|].
  destruct W as (A & B & C). cbn [ins_nodes ins_at].
  destruct (N.eqb_spec (nid e) (nid w)) as [Heq|Hne].
  - assert (e = w) by (apply U; simpl; auto). subst e.
    destruct (N.ltb_spec start (ns w)); [lia|].
    destruct (N.leb_spec start (nend w)); [|lia].
    destruct (start + count <=? nend w); [reflexivity|].
    destruct (merge_right (ns w) (count + (start - ns w)) t) as [[c p] f]. reflexivity.
  - destruct HI as [->|HI]; [congruence|].
    assert (Hlt : nend e + 1 <= ns w).
    { clear - C HI. revert C. generalize (nend e + 1). induction t as [|x t IHt]; intros lo' C; [destruct HI|].
      destruct C as (A & B & C). destruct HI as [->|HI]; [exact A|].
      specialize (IHt HI _ C). unfold nend in *. lia. }
    destruct (N.ltb_spec start (ns e)); [unfold nend in *; lia|].
    destruct (N.leb_spec start (nend e)); [unfold nend in *; lia|].
    rewrite (IH (nend e + 1) w C HI Hr).
    + destruct (ins_at (nid w) start count t) as [[l' r] f]. reflexivity.
    + intros x y Hx Hy. apply U; simpl; auto.
Qed.

(* ---- scan_right / rm_nodes ---- *)
Lemma scan_right_spec start count : forall l lo ret p r f,
  wf_from lo l -> start < lo ->
  scan_right start count l ret = (p, r, f) ->
  wf_from lo p /\
  (forall b, mem_nodes p b = negb (f_rng start count b) && mem_nodes l b) /\
  (r = ret \/ r = 1) /\ (start + count <= lo -> r = ret).
Proof.
  induction l as [|e t IH]; intros lo ret p r f W Hlo S.
  - simpl in S. inversion S; subst. split4; auto. intros b. rewrite mem_nil. apply eq_sym, andb_false_r.
  - simpl in S. destruct W as (A & B & C).
    destruct (N.leb_spec (nend e) start) as [H1|H1]; [unfold nend in H1; lia|].
    destruct (N.leb_spec (start + count) (ns e)) as [H2|H2].
    + inversion S; subst. split4; auto; [simpl; auto|].
      intros b. destruct (f_rng start count b) eqn:F; [|reflexivity]. simpl.
      apply (mem_below (start + count)); [simpl; split3; auto|].
      unfold f_rng in F. bd; simpl in F; try discriminate; lia.
    + destruct (N.leb_spec (nend e) (start + count)) as [H3|H3].
      * destruct (scan_right start count t 1) as [[p' r'] f'] eqn:E. inversion S; subst.
        destruct (IH (nend e + 1) 1 p r f' C) as (I1 & I2 & I3 & I4); auto; [unfold nend; lia|].
        split4.
        -- eapply wf_from_weaken; [exact I1|unfold nend; lia].
        -- intros b. rewrite I2, mem_cons. unfold f_rng, inside, nend in *.
           bd; simpl; try reflexivity; lia.
        -- destruct I3; subst; auto.
        -- intros; lia.
      * inversion S; subst. split4; auto; [| |intros; lia].
        -- unfold nend in *; simpl. split3; try (simpl; lia). unfold nend; simpl.
           replace (start + count + (nc e - (start + count - ns e)) + 1) with (ns e + nc e + 1) by lia. exact C.
        -- intros b. rewrite !mem_cons. unfold f_rng, inside, nend in *; simpl.
           destruct (f_rng start count b) eqn:F; unfold f_rng in F.
           ++ simpl. rewrite (mem_below (ns e + nc e + 1) t); auto;
              bd; simpl in *; try reflexivity; try discriminate; lia.
           ++ simpl. bd; simpl in *; try reflexivity; try discriminate; try lia;
                rewrite (mem_below (ns e + nc e + 1) t); auto; lia.
Qed.

Definition rm_ok (start count lo : N) (l : list node) (o : rm_out) : Prop :=
  match o with
  | RmDone l' r f =>
    wf_from lo l' /\
    (forall b, mem_nodes l' b = negb (f_rng start count b) && mem_nodes l b) /\
    (count = 1 -> r = b2n (mem_nodes l start))
  | RmSplit l' a k =>
    wf_from lo l' /\ 0 < k /\
    (forall b, f_rng a k b || mem_nodes l' b = negb (f_rng start count b) && mem_nodes l b) /\
    mem_nodes l start = true
  end.

Lemma rm_nodes_spec start count : forall l lo,
  wf_from lo l -> rm_ok start count lo l (rm_nodes start count l).
Proof.
  induction l as [|e t IH]; intros lo W.
  - simpl. split3; auto. intros b. rewrite mem_nil. apply eq_sym, andb_false_r.
  - destruct W as (A & B & C). cbn [rm_nodes].
    destruct (inside e start) eqn:Hin.
    + assert (Hs : ns e <= start < nend e) by (unfold inside in Hin; bd; simpl in *; try discriminate; lia).
      assert (Hm : mem_nodes (e :: t) start = true) by (rewrite mem_cons, Hin; reflexivity).
      destruct (N.ltb_spec (ns e) start) as [H1|H1]; destruct (N.ltb_spec (start + count) (nend e)) as [H2|H2]; simpl.
      * (* split *)
        split4; auto; try (unfold nend in *; lia).
        -- simpl. split3; auto; try lia. unfold nend in *; simpl.
           eapply wf_from_weaken; [exact C|lia].
        -- intros b. rewrite !mem_cons. unfold f_rng, inside, nend in *; simpl.
           bd; simpl; try reflexivity; try lia;
             try (rewrite (mem_below (ns e + nc e + 1) t); auto; lia);
             destruct (mem_nodes t b); reflexivity.
      * (* truncate e, then look right *)
        destruct (N.leb_spec (nend e) (start + count)) as [H3|H3]; [|lia].
        destruct (N.eqb_spec (start - ns e) 0) as [H4|H4]; [lia|].
        destruct (N.eqb_spec start (ns e)) as [H5|H5]; [lia|].
        destruct (scan_right start count t 1) as [[p r] f] eqn:S.
        destruct (scan_right_spec start count t (nend e + 1) 1 p r f C) as (S1 & S2 & S3 & S4); auto; [lia|].
        split3.
        -- simpl. split3; auto; try lia. unfold nend in *; simpl.
           eapply wf_from_weaken; [exact S1|lia].
        -- intros b. rewrite !mem_cons, S2. unfold f_rng, inside, nend in *; simpl.
           bd; simpl; try reflexivity; lia.
        -- intros _. rewrite Hm. destruct S3; subst; reflexivity.
      * (* start = ns e, range ends inside e *)
        destruct (N.leb_spec (nend e) (start + count)) as [H3|H3]; [lia|].
        destruct (N.eqb_spec (nc e) 0) as [H4|H4]; [lia|].
        destruct (N.eqb_spec start (ns e)) as [H5|H5]; [|lia].
        split3.
        -- simpl. split3; auto; try (unfold nend in *; lia). unfold nend in *; simpl.
           replace (ns e + count + (nc e - count) + 1) with (ns e + nc e + 1) by lia. exact C.
        -- intros b. rewrite !mem_cons. unfold f_rng, inside, nend in *; simpl.
           bd; simpl; try reflexivity; try lia;
             rewrite (mem_below (ns e + nc e + 1) t); auto; lia.
        -- intros _. rewrite Hm. reflexivity.
      * (* start = ns e, whole extent goes *)
        destruct (N.leb_spec (nend e) (start + count)) as [H3|H3]; [|lia].
        destruct (N.eqb_spec (start - ns e) 0) as [H4|H4]; [|lia].
        destruct (scan_right start count t 1) as [[p r] f] eqn:S.
        destruct (scan_right_spec start count t (nend e + 1) 1 p r f C) as (S1 & S2 & S3 & S4); auto; [lia|].
        split3.
        -- eapply wf_from_weaken; [exact S1|unfold nend; lia].
        -- intros b. rewrite mem_cons, S2. unfold f_rng, inside, nend in *.
           bd; simpl; try reflexivity; lia.
        -- intros _. rewrite Hm. destruct S3; subst; reflexivity.
    + destruct (N.ltb_spec start (ns e)) as [H1|H1].
      * destruct (scan_right start count (e :: t) 0) as [[p r] f] eqn:S.
        destruct (scan_right_spec start count (e :: t) (N.max lo (start + 1)) 0 p r f) as (S1 & S2 & S3 & S4); auto.
        { simpl; split3; auto; lia. } { lia. }
        split3.
        -- eapply wf_from_weaken; [exact S1|lia].
        -- exact S2.
        -- intros ->. rewrite S4 by lia.
           rewrite (mem_below (start + 1) (e :: t)); [reflexivity| |lia].
           simpl; split3; auto; lia.
      * assert (Hge : nend e <= start) by (unfold inside in Hin; bd; simpl in *; try discriminate; lia).
        specialize (IH (nend e + 1) C).
        destruct (rm_nodes start count t) as [p r f|p a k]; simpl in *.
        -- destruct IH as (I1 & I2 & I3). split3; [simpl; auto| |].
           ++ intros b. rewrite !mem_cons, I2.
              unfold f_rng, inside in *. bd; simpl; try reflexivity; lia.
           ++ intros H. rewrite (I3 H), mem_cons, Hin. reflexivity.
        -- destruct IH as (I1 & I2 & I4 & I5). split4; [simpl; auto|auto| |].
           ++ intros b. rewrite !mem_cons.
              replace (f_rng a k b || (inside e b || mem_nodes p b))
                with (inside e b || (f_rng a k b || mem_nodes p b))
                by (destruct (f_rng a k b), (inside e b); reflexivity).
              rewrite I4. unfold f_rng, inside in *.
              destruct (mem_nodes t b); bd; simpl; try reflexivity; lia.
           ++ rewrite mem_cons, I5. apply orb_true_r.
Qed.

(* ======================================================================== *)
(* state level: identities, cursors                                          *)

Definition ids (l : list node) := map nid l.

Inductive subseq {A} : list A -> list A -> Prop :=
| ss_nil : subseq [] []
| ss_keep x l1 l2 : subseq l1 l2 -> subseq (x :: l1) (x :: l2)
| ss_drop x l1 l2 : subseq l1 l2 -> subseq l1 (x :: l2).

Lemma subseq_refl {A} (l : list A) : subseq l l.
Proof. induction l; constructor; auto. Qed.

Lemma subseq_In {A} (l1 l2 : list A) x : subseq l1 l2 -> In x l1 -> In x l2.
Proof. induction 1; simpl; intros H'; auto. destruct H'; auto. Qed.

Lemma subseq_NoDup {A} (l1 l2 : list A) : subseq l1 l2 -> NoDup l2 -> NoDup l1.
Proof.
  induction 1; intros N; auto.
  - inversion N; subst. constructor; auto. intro. apply H2. eapply subseq_In; eauto.
  - inversion N; subst. auto.
Qed.

Definition adj {A} (i j : A) (l : list A) := exists l1 l2, l = l1 ++ i :: j :: l2.

Lemma subseq_adj {A} (l' l : list A) i j :
  subseq l' l -> NoDup l -> adj i j l -> In i l' -> In j l' -> adj i j l'.
Proof.
  induction 1 as [|x l1 l2 S IH|x l1 l2 S IH]; intros ND (p & q & E) Hi Hj.
  - destruct Hi.
  - inversion ND as [|? ? Hx ND']; subst.
    destruct p as [|y p]; simpl in E; inversion E; subst.
    + (* x = i, l2 = j :: q *)
      inversion S as [| ? l1' ? S' | ? ? ? S']; subst.
      * exists [], l1'. reflexivity.
      * exfalso. inversion ND' as [|? ? Hj' _]; subst.
        destruct Hj as [->|Hj]; [apply Hx; simpl; auto|].
        apply Hj'. eapply subseq_In; eauto.
    + destruct Hi as [->|Hi]; [exfalso; apply Hx; apply in_or_app; simpl; auto|].
      destruct Hj as [->|Hj]; [exfalso; apply Hx; apply in_or_app; simpl; auto|].
      destruct (IH ND') as (p' & q' & E'); auto; [exists p, q; reflexivity|].
      exists (y :: p'), q'. simpl. f_equal. exact E'.
  - inversion ND as [|? ? Hx ND']; subst.
    destruct p as [|y p]; simpl in E; inversion E; subst.
    + exfalso. apply Hx. eapply subseq_In; eauto.
    + apply IH; auto. exists p, q; reflexivity.
Qed.

Lemma lookup_In i l e : lookup i l = Some e -> In e l /\ nid e = i.
Proof.
  induction l as [|x t IH]; simpl; [discriminate|].
  destruct (N.eqb_spec (nid x) i); intros H.
  - inversion H; subst; auto.
  - destruct (IH H); auto.
Qed.

Lemma lookup_split i l e : lookup i l = Some e ->
  exists l1 l2, l = l1 ++ e :: l2 /\ ~ In i (ids l1).
Proof.
  induction l as [|x t IH]; simpl; [discriminate|].
  destruct (N.eqb_spec (nid x) i); intros H.
  - inversion H; subst. exists [], t. simpl; auto.
  - destruct (IH H) as (l1 & l2 & -> & N). exists (x :: l1), l2. split; [reflexivity|].
    simpl. intros [?|?]; auto.
Qed.

Lemma succ_of_split i l r x : lookup i l = Some r -> succ_of i l = Some x ->
  exists l1 l2, l = l1 ++ r :: x :: l2.
Proof.
  induction l as [|y t IH]; simpl; [discriminate|].
  destruct (N.eqb_spec (nid y) i); intros H1 H2.
  - inversion H1; subst. destruct t as [|z t']; simpl in H2; [discriminate|].
    inversion H2; subst. exists [], t'. reflexivity.
  - destruct (IH H1 H2) as (l1 & l2 & ->). exists (y :: l1), l2. reflexivity.
Qed.

Lemma adj_ids_nodes l i j r x :
  NoDup (ids l) -> adj i j (ids l) -> lookup i l = Some r -> lookup j l = Some x ->
  exists l1 l2, l = l1 ++ r :: x :: l2.
Proof.
  intros ND (p & q & E) Hr Hx.
  unfold ids in E. apply map_eq_app in E. destruct E as (l1 & l2 & -> & E1 & E2).
  destruct l2 as [|r' [|x' l2]]; simpl in E2; try discriminate.
  injection E2 as Ei Ej E4.
  exists l1, l2.
  assert (Hnd : NoDup (ids (l1 ++ r' :: x' :: l2))) by exact ND.
  unfold ids in Hnd. rewrite map_app in Hnd. simpl in Hnd.
  assert (Hi1 : ~ In i (map nid l1)).
  { apply NoDup_remove_2 in Hnd. intro. apply Hnd. apply in_or_app. left. congruence. }
  assert (lookup_app : forall k a b, ~ In k (map nid a) -> lookup k (a ++ b) = lookup k b).
  { clear. induction a as [|y a IHa]; simpl; intros b N; auto.
    destruct (N.eqb_spec (nid y) k); [exfalso; apply N; auto|]. apply IHa. intro; apply N; auto. }
  rewrite lookup_app in Hr by exact Hi1. simpl in Hr. rewrite Ei, N.eqb_refl in Hr. inversion Hr; subst r'.
  assert (Hj1 : ~ In j (map nid l1) /\ j <> i).
  { apply NoDup_remove in Hnd. destruct Hnd as [Hnd Hni].
    assert (Hj' : In j (map nid l1 ++ nid x' :: map nid l2)) by (apply in_or_app; right; left; exact Ej).
    split.
    - intro Hc. apply NoDup_remove_2 in Hnd. apply Hnd. apply in_or_app. left. rewrite Ej. exact Hc.
    - intro Hji. apply Hni. rewrite Ei, <- Hji. exact Hj'. }
  destruct Hj1 as [Hj1 Hji].
  rewrite lookup_app in Hx by exact Hj1. simpl in Hx.
  rewrite Ei in Hx. destruct (N.eqb_spec i j); [congruence|].
  rewrite Ej, N.eqb_refl in Hx. inversion Hx; subst. reflexivity.
Qed.

Lemma gap_empty : forall l1 lo r x l2 b,
  wf_from lo (l1 ++ r :: x :: l2) -> nend r <= b -> b < ns x ->
  mem_nodes (l1 ++ r :: x :: l2) b = false.
Proof.
  induction l1 as [|y l1 IH]; intros lo r x l2 b W H1 H2.
  - simpl in W. destruct W as (A & B & C & D & E). cbn [app].
    rewrite !mem_cons. rewrite (mem_below _ _ _ E); [|unfold nend; lia].
    unfold inside, nend in *. bd; simpl; try reflexivity; lia.
  - simpl in W. destruct W as (A & B & C). simpl. rewrite mem_cons, (IH _ _ _ _ _ C H1 H2).
    replace (inside y b) with false; [reflexivity|].
    assert (nend y + 1 <= ns r).
    { clear - C. revert C. generalize (nend y + 1). induction l1 as [|z l1 IHl]; intros lo C.
      - simpl in C. tauto.
      - simpl in C. destruct C as (A & B & C). specialize (IHl _ C). unfold nend in *. lia. }
    unfold inside, nend in *. bd; simpl; try reflexivity; lia.
Qed.

Record inv (st : rb) : Prop := {
  inv_wf : wf_from 0 (nodes st);
  inv_nodup : NoDup (ids (nodes st));
  inv_fresh : forall i, In i (ids (nodes st)) -> i < fresh st;
  inv_rn : forall i j, rc st = Some i -> rn st = Some j ->
           In i (ids (nodes st)) -> In j (ids (nodes st)) -> adj i j (ids (nodes st));
}.

Lemma inv_empty : inv rb_empty.
Proof. constructor; simpl; auto; try constructor; intros; try tauto; discriminate. Qed.

Lemma in_ids_lookup i l : In i (ids l) -> exists e, lookup i l = Some e.
Proof.
  induction l as [|x t IH]; simpl; [tauto|]. intros [<-|H].
  - rewrite N.eqb_refl. eauto.
  - destruct (nid x =? i); eauto.
Qed.

Lemma lookup_in_ids i l e : lookup i l = Some e -> In i (ids l).
Proof. intros H. destruct (lookup_In _ _ _ H) as [H1 <-]. apply in_map. exact H1. Qed.

(* ---- rb_test_bit ---- *)
Lemma search_test_ok st bit st' r :
  inv st -> rb_search_test st bit = (st', r) ->
  inv st' /\ r = rb_mem st bit /\ nodes st' = nodes st.
Proof.
  intros I. unfold rb_search_test, rb_mem, mem_nodes.
  destruct (find_cont bit (nodes st)) as [e|]; intros H; inversion H; subst; [|auto].
  split3; auto. destruct I. constructor; simpl; auto. intros; discriminate.
Qed.

Lemma test_bit_ok st bit st' r :
  inv st -> rb_test_bit st bit = (st', r) ->
  inv st' /\ r = rb_mem st bit /\ nodes st' = nodes st.
Proof.
  intros I. unfold rb_test_bit.
  destruct (cursor (rc st) (nodes st)) as [rr|] eqn:Hrc; [|apply search_test_ok; auto].
  assert (Hrc' : exists i, rc st = Some i /\ lookup i (nodes st) = Some rr).
  { unfold cursor in Hrc. destruct (rc st) as [i|]; [eauto|discriminate]. }
  destruct Hrc' as (i & Ei & Li).
  destruct (lookup_In _ _ _ Li) as [Hin Hid].
  destruct (inside rr bit) eqn:Hins.
  { intros H; inversion H; subst. split3; auto.
    unfold rb_mem. symmetry. eapply in_wf_inside; eauto. apply (inv_wf _ I). }
  set (nx := match cursor (rn st) (nodes st) with
             | Some x => Some x
             | None => match rc st with Some i0 => succ_of i0 (nodes st) | None => None end
             end).
  assert (Hnx : forall x, nx = Some x -> exists l1 l2, nodes st = l1 ++ rr :: x :: l2).
  { intros x Hx. unfold nx in Hx. destruct (cursor (rn st) (nodes st)) as [y|] eqn:Hrn.
    - inversion Hx; subst y. unfold cursor in Hrn. destruct (rn st) as [j|] eqn:Ej; [|discriminate].
      eapply adj_ids_nodes; eauto; [apply (inv_nodup _ I)|].
      apply (inv_rn _ I); auto; eapply lookup_in_ids; eauto.
    - rewrite Ei in Hx. eapply succ_of_split; eauto. }
  destruct nx as [x|] eqn:Enx.
  - destruct ((nend rr <=? bit) && (bit <? ns x)) eqn:G.
    + intros H; inversion H; subst. destruct (Hnx x eq_refl) as (l1 & l2 & E).
      split3; auto.
      * destruct I as [W ND F RN]. constructor; simpl; auto.
        intros i0 j0 Hi0 Hj0 _ _. rewrite Ei in Hi0. inversion Hi0; inversion Hj0; subst.
        rewrite E. unfold ids. rewrite map_app. simpl. exists (map nid l1), (map nid l2). reflexivity.
      * unfold rb_mem. rewrite E. symmetry. apply (gap_empty l1 0).
        -- rewrite <- E. apply (inv_wf _ I).
        -- bd; simpl in G; try discriminate; lia.
        -- bd; simpl in G; try discriminate; lia.
    + set (st2 := mkRB (nodes st) (wc st) None None (fresh st)).
      assert (I2 : inv st2).
      { destruct I. constructor; simpl; auto. intros; discriminate. }
      destruct (cursor (wc st) (nodes st)) as [w|] eqn:Hw.
      * destruct (inside w bit) eqn:Hiw.
        -- intros H; inversion H; subst. split3; auto.
           unfold cursor in Hw. destruct (wc st) as [k|]; [|discriminate].
           destruct (lookup_In _ _ _ Hw). unfold rb_mem. symmetry.
           eapply in_wf_inside; eauto. apply (inv_wf _ I).
        -- intros H. apply (search_test_ok st2) in H; auto.
      * intros H. apply (search_test_ok st2) in H; auto.
  - set (st2 := mkRB (nodes st) (wc st) None None (fresh st)).
    assert (I2 : inv st2).
    { destruct I. constructor; simpl; auto. intros; discriminate. }
    destruct (cursor (wc st) (nodes st)) as [w|] eqn:Hw.
    + destruct (inside w bit) eqn:Hiw.
      * intros H; inversion H; subst. split3; auto.
        unfold cursor in Hw. destruct (wc st) as [k|]; [|discriminate].
        destruct (lookup_In _ _ _ Hw). unfold rb_mem. symmetry.
        eapply in_wf_inside; eauto. apply (inv_wf _ I).
      * intros H. apply (search_test_ok st2) in H; auto.
    + intros H. apply (search_test_ok st2) in H; auto.
Qed.

(* ---- free_ids ---- *)
Lemma free_ids_props : forall f st l,
  let s := free_ids st f l in
  nodes s = l /\ fresh s = fresh st /\
  (forall i, wc s = Some i -> wc st = Some i /\ ~ In i f) /\
  (forall i, rc s = Some i -> rc st = Some i /\ ~ In i f) /\
  (forall i, rn s = Some i -> rn st = Some i /\ ~ In i f).
Proof.
  unfold free_ids. intros f st l.
  set (s0 := mkRB l (wc st) (rc st) (rn st) (fresh st)).
  assert (G : forall f s1, let s := fold_left (fun s i => mkRB (nodes s) (clear_if (wc s) i) (clear_if (rc s) i)
                             (clear_if (rn s) i) (fresh s)) f s1 in
             nodes s = nodes s1 /\ fresh s = fresh s1 /\
             (forall i, wc s = Some i -> wc s1 = Some i /\ ~ In i f) /\
             (forall i, rc s = Some i -> rc s1 = Some i /\ ~ In i f) /\
             (forall i, rn s = Some i -> rn s1 = Some i /\ ~ In i f)).
  { clear. induction f as [|k f IH]; intros s1; simpl.
    - repeat split; auto.
    - specialize (IH (mkRB (nodes s1) (clear_if (wc s1) k) (clear_if (rc s1) k) (clear_if (rn s1) k) (fresh s1))).
      simpl in IH. destruct IH as (A & B & C & D & E).
      assert (CI : forall c i, clear_if c k = Some i -> c = Some i /\ k <> i).
      { intros c i. unfold clear_if. destruct c as [j|]; [|discriminate].
        destruct (N.eqb_spec j k); [discriminate|]. intros H; inversion H; subst. auto. }
      repeat split; auto.
      + apply C in H. destruct H as [H _]. apply CI in H. tauto.
      + apply C in H. destruct H as [H1 H2]. apply CI in H1. intros [?|?]; tauto.
      + apply D in H. destruct H as [H _]. apply CI in H. tauto.
      + apply D in H. destruct H as [H1 H2]. apply CI in H1. intros [?|?]; tauto.
      + apply E in H. destruct H as [H _]. apply CI in H. tauto.
      + apply E in H. destruct H as [H1 H2]. apply CI in H1. intros [?|?]; tauto. }
  apply (G f s0).
Qed.

(* ---- identities through the list functions ---- *)
Lemma merge_right_ids start count : forall post c p f,
  merge_right start count post = (c, p, f) -> subseq (ids p) (ids post).
Proof.
  induction post as [|e t IH]; intros c p f M; simpl in M.
  - inversion M; subst. constructor.
  - destruct (nend e <=? start).
    + destruct (merge_right start count t) as [[c' p'] f'] eqn:E. inversion M; subst.
      simpl. constructor. eapply IH; eauto.
    + destruct (start + count <? ns e).
      * inversion M; subst. apply subseq_refl.
      * destruct (nend e <=? start + count).
        -- destruct (merge_right start count t) as [[c' p'] f'] eqn:E. inversion M; subst.
           simpl. constructor. eapply IH; eauto.
        -- inversion M; subst. simpl. constructor. apply subseq_refl.
Qed.

Lemma ins_nodes_ids fr start count : forall l l' r f n,
  NoDup (ids l) -> (forall i, In i (ids l) -> i < fr) ->
  ins_nodes fr start count l = (l', r, f, n) ->
  NoDup (ids l') /\
  (forall i, In i (ids l') -> In i (ids l) \/ (i = fr /\ n = Some fr)).
Proof.
  induction l as [|e t IH]; intros l' r f n ND F I; cbn [ins_nodes] in I.
  - inversion I; subst. simpl. split; [repeat constructor; auto|]. intros i [<-|[]]; auto.
  - destruct (start <? ns e).
    + destruct (merge_right start count (e :: t)) as [[c p] f'] eqn:M. inversion I; subst.
      pose proof (merge_right_ids _ _ _ _ _ _ M) as S.
      split.
      * simpl. constructor; [|eapply subseq_NoDup; eauto].
        intro H. apply (subseq_In _ _ _ S) in H. apply F in H. lia.
      * intros i Hi. simpl in Hi. destruct Hi as [<-|H]; auto. left. eapply subseq_In; eauto.
    + destruct (start <=? nend e).
      * destruct (start + count <=? nend e).
        -- inversion I; subst. auto.
        -- destruct (merge_right (ns e) (count + (start - ns e)) t) as [[c p] f'] eqn:M. inversion I; subst.
           pose proof (merge_right_ids _ _ _ _ _ _ M) as S.
           simpl in ND. inversion ND as [|? ? Hn ND']; subst.
           split.
           ++ simpl. constructor; [|eapply subseq_NoDup; eauto].
              intro H. apply Hn. eapply subseq_In; eauto.
           ++ intros i Hi. simpl in Hi. destruct Hi as [<-|H]; [left; simpl; auto|]. left. simpl. right. eapply subseq_In; eauto.
      * destruct (ins_nodes fr start count t) as [[[l2 r2] f2] n2] eqn:E. inversion I; subst.
        simpl in ND. inversion ND as [|? ? Hn ND']; subst.
        destruct (IH l2 r f n ND') as (I1 & I2); auto.
        { intros i Hi. apply F. simpl. auto. }
        split.
        -- simpl. constructor; auto. intro H. destruct (I2 _ H) as [H'|[H' _]]; [auto|].
           assert (nid e < fr) by (apply F; simpl; auto). lia.
        -- intros i Hi. simpl in Hi. destruct Hi as [<-|H]; [left; simpl; auto|]. destruct (I2 _ H) as [H'|H']; auto. left; simpl; auto.
Qed.

Lemma scan_right_ids start count : forall l ret p r f,
  scan_right start count l ret = (p, r, f) -> subseq (ids p) (ids l).
Proof.
  induction l as [|e t IH]; intros ret p r f S; simpl in S.
  - inversion S; subst. constructor.
  - destruct (nend e <=? start).
    + destruct (scan_right start count t ret) as [[p' r'] f'] eqn:E. inversion S; subst.
      simpl. constructor. eapply IH; eauto.
    + destruct (start + count <=? ns e).
      * inversion S; subst. apply subseq_refl.
      * destruct (nend e <=? start + count).
        -- destruct (scan_right start count t 1) as [[p' r'] f'] eqn:E. inversion S; subst.
           simpl. constructor. eapply IH; eauto.
        -- inversion S; subst. simpl. constructor. apply subseq_refl.
Qed.

Lemma rm_nodes_ids start count : forall l,
  match rm_nodes start count l with
  | RmDone l' _ _ => subseq (ids l') (ids l)
  | RmSplit l' _ _ => subseq (ids l') (ids l)
  end.
Proof.
  induction l as [|e t IH]; cbn [rm_nodes]; [constructor|].
  destruct (inside e start).
  - destruct ((ns e <? start) && (start + count <? nend e)); [simpl; constructor; apply subseq_refl|].
    destruct ((if nend e <=? start + count then start - ns e else nc e) =? 0).
    + destruct (scan_right start count t _) as [[p r] f] eqn:S. simpl. constructor. eapply scan_right_ids; eauto.
    + destruct (start =? ns e); [simpl; constructor; apply subseq_refl|].
      destruct (scan_right start count t _) as [[p r] f] eqn:S. simpl. constructor. eapply scan_right_ids; eauto.
  - destruct (start <? ns e).
    + destruct (scan_right start count (e :: t) 0) as [[p r] f] eqn:S. eapply scan_right_ids; eauto.
    + destruct (rm_nodes start count t); simpl; constructor; auto.
Qed.

Lemma nodup_ids_inj l : NoDup (ids l) -> forall x y, In x l -> In y l -> nid x = nid y -> x = y.
Proof.
  induction l as [|e t IH]; intros ND x y Hx Hy E; [destruct Hx|].
  simpl in ND. inversion ND as [|? ? Hn ND']; subst.
  destruct Hx as [->|Hx], Hy as [->|Hy]; auto.
  - exfalso. apply Hn. rewrite E. apply in_map. auto.
  - exfalso. apply Hn. rewrite <- E. apply in_map. auto.
Qed.

(* ---- rb_insert_extent ---- *)
Lemma insert_ok st start count st' r :
  inv st -> rb_insert_extent st start count = (st', r) ->
  inv st' /\ (forall b, rb_mem st' b = f_rng start count b || rb_mem st b) /\
  (count = 1 -> r = b2n (rb_mem st start)).
Proof.
  intros I. unfold rb_insert_extent.
  destruct (N.eqb_spec count 0) as [->|Hc].
  { intros H; inversion H; subst. split3; auto; [|intros; lia]. intros b. rewrite f_rng_0. reflexivity. }
  set (st0 := mkRB (nodes st) (wc st) (rc st) None (fresh st)).
  assert (I0 : inv st0) by (destruct I; constructor; simpl; auto; intros; discriminate).
  assert (Main : forall l r f n stx,
            ins_nodes (fresh st) start count (nodes st) = (l, r, f, n) ->
            nodes stx = nodes st -> rn stx = None ->
            fresh stx = (match n with Some _ => fresh st + 1 | None => fresh st end) ->
            inv (free_ids stx f l) /\
            (forall b, rb_mem (free_ids stx f l) b = f_rng start count b || rb_mem st b) /\
            (count = 1 -> r = b2n (rb_mem st start))).
  { intros l r0 f n stx E En Ern Efr.
    assert (H0s : 0 <= start) by lia. assert (H0c : 0 < count) by lia.
    destruct (ins_nodes_spec _ _ _ _ 0 _ _ _ _ (inv_wf _ I) H0s H0c E) as (S1 & S2 & S3).
    destruct (ins_nodes_ids _ _ _ _ _ _ _ _ (inv_nodup _ I) (inv_fresh _ I) E) as (D1 & D2).
    destruct (free_ids_props f stx l) as (P1 & P2 & P3 & P4 & P5).
    split3.
    - constructor.
      + rewrite P1. exact S1.
      + rewrite P1. exact D1.
      + rewrite P1, P2, Efr. intros i Hi. destruct (D2 _ Hi) as [H|[-> ->]]; [|lia].
        apply (inv_fresh _ I) in H. destruct n; lia.
      + intros i j _ Hj. apply P5 in Hj. rewrite Ern in Hj. destruct Hj; discriminate.
    - intros b. unfold rb_mem. rewrite P1. apply S2.
    - exact S3. }
  destruct (cursor (wc st0) (nodes st0)) as [w|] eqn:Hw.
  - destruct ((ns w <=? start) && (start <=? nend w)) eqn:Hr.
    + (* shortcut *)
      assert (Hw' : In w (nodes st)).
      { unfold cursor in Hw. simpl in Hw. destruct (wc st); [|discriminate]. apply lookup_In in Hw. tauto. }
      pose proof (ins_at_eq (fresh st) start count (nodes st) 0 w (inv_wf _ I) Hw'
                   ltac:(bd; simpl in Hr; try discriminate; lia)
                   (nodup_ids_inj _ (inv_nodup _ I))) as E.
      simpl. destruct (ins_at (nid w) start count (nodes st)) as [[l r0] f] eqn:Ea.
      intros H; inversion H; subst.
      apply (Main l r f None st0); auto.
    + simpl. destruct (ins_nodes (fresh st) start count (nodes st)) as [[[l r0] f] n] eqn:E.
      intros H; inversion H; subst.
      destruct n as [i|]; apply (Main l r f _ _ eq_refl); auto.
  - simpl. destruct (ins_nodes (fresh st) start count (nodes st)) as [[[l r0] f] n] eqn:E.
    intros H; inversion H; subst.
    destruct n as [i|]; apply (Main l r f _ _ eq_refl); auto.
Qed.

(* ---- rb_remove_extent ---- *)
Lemma remove_ok st start count st' r :
  inv st -> rb_remove_extent st start count = (st', r) ->
  inv st' /\ (forall b, rb_mem st' b = negb (f_rng start count b) && rb_mem st b) /\
  (count = 1 -> r = b2n (rb_mem st start)).
Proof.
  intros I. unfold rb_remove_extent.
  destruct (nodes st) as [|e0 t0] eqn:En.
  { intros H; inversion H; subst. split3; auto.
    - intros b. unfold rb_mem. rewrite En, mem_nil. symmetry. apply andb_false_r.
    - intros _. unfold rb_mem. rewrite En. reflexivity. }
  rewrite <- En.
  pose proof (rm_nodes_spec start count (nodes st) 0 (inv_wf _ I)) as RS.
  pose proof (rm_nodes_ids start count (nodes st)) as RI.
  assert (Sub : forall l stx, subseq (ids l) (ids (nodes st)) -> wf_from 0 l ->
                 nodes stx = l -> fresh stx = fresh st ->
                 (forall i, rc stx = Some i -> rc st = Some i) ->
                 (forall i, rn stx = Some i -> rn st = Some i) -> inv stx).
  { intros l stx S W E1 E2 E3 E4. constructor.
    - rewrite E1; auto.
    - rewrite E1. eapply subseq_NoDup; eauto. apply (inv_nodup _ I).
    - rewrite E1, E2. intros i Hi. apply (inv_fresh _ I). eapply subseq_In; eauto.
    - rewrite E1. intros i j Hi Hj Ii Ij. apply E3 in Hi. apply E4 in Hj.
      eapply subseq_adj; eauto; [apply (inv_nodup _ I)|].
      apply (inv_rn _ I); auto; eapply subseq_In; eauto. }
  destruct (rm_nodes start count (nodes st)) as [l r0 f|l a k].
  - intros H; inversion H; subst. destruct RS as (S1 & S2 & S3).
    destruct (free_ids_props f st l) as (P1 & P2 & P3 & P4 & P5).
    split3; auto.
    + apply (Sub l); auto; intros i Hi; [apply P4 in Hi|apply P5 in Hi]; tauto.
    + intros b. unfold rb_mem. rewrite P1. apply S2.
  - destruct RS as (S1 & S2 & S3 & S4).
    set (st1 := mkRB l (wc st) (rc st) (rn st) (fresh st)).
    assert (I1 : inv st1) by (apply (Sub l); auto).
    destruct (rb_insert_extent st1 a k) as [st2 r2] eqn:Ei.
    intros H; inversion H; subst.
    destruct (insert_ok _ _ _ _ _ I1 Ei) as (J1 & J2 & _).
    split3; auto.
    + intros b. rewrite J2. unfold rb_mem at 1. simpl. apply S3.
    + intros _. unfold rb_mem. rewrite S4. reflexivity.
Qed.

(* ---- rb_test_clear_bmap_extent ---- *)
Lemma find_cont_none_iff b l : find_cont b l = None <-> mem_nodes l b = false.
Proof. unfold mem_nodes. destruct (find_cont b l); split; intros; auto; discriminate. Qed.

Lemma tc_scan_spec a n : forall l lo,
  wf_from lo l -> mem_nodes l a = false -> 0 < n ->
  (tc_scan a n l = true <-> forall b, a <= b < a + n -> mem_nodes l b = false).
Proof.
  induction l as [|e t IH]; intros lo W Ha Hn; simpl.
  - split; auto.
  - destruct W as (A & B & C). rewrite mem_cons in Ha. apply orb_false_elim in Ha. destruct Ha as [Ha1 Ha2].
    destruct (N.leb_spec (nend e) a) as [H1|H1].
    + rewrite (IH _ C Ha2 Hn). split; intros H b Hb.
      * rewrite mem_cons, (H b Hb). replace (inside e b) with false; [reflexivity|].
        unfold inside. bd; simpl; try reflexivity; lia.
      * specialize (H b Hb). rewrite mem_cons in H. apply orb_false_elim in H. tauto.
    + assert (Hlt : a < ns e) by (unfold inside in Ha1; bd; simpl in *; try discriminate; lia).
      split.
      * intros H b Hb. apply (mem_below (ns e)); [simpl; split3; auto; lia|].
        bd; try discriminate; lia.
      * intros H. destruct (N.leb_spec (a + n) (ns e)); [reflexivity|].
        specialize (H (ns e) ltac:(lia)). rewrite mem_cons in H.
        unfold inside, nend in H. bd; simpl in *; try discriminate; lia.
Qed.

Lemma test_clear_ok st a n : inv st ->
  rb_test_clear st a n = f_all_clear (rb_mem st) a (N.to_nat n).
Proof.
  intros I. unfold rb_test_clear.
  destruct (N.eqb_spec n 0) as [->|Hn]; [reflexivity|].
  apply eq_iff_eq_true. rewrite f_all_clear_iff, N2Nat.id.
  destruct (nodes st) as [|e0 t0] eqn:En.
  { split; auto. intros _ b _. unfold rb_mem. rewrite En. reflexivity. }
  rewrite <- En. unfold rb_mem.
  destruct (find_cont a (nodes st)) as [e|] eqn:F.
  - split; [discriminate|]. intros H. specialize (H a ltac:(lia)).
    apply find_cont_some in F. congruence.
  - apply (tc_scan_spec a n _ 0); [apply (inv_wf _ I)|apply find_cont_none_iff; auto|lia].
Qed.

(* ---- find first zero / set ---- *)
Lemma mem_at_end : forall l lo e, wf_from lo l -> In e l -> mem_nodes l (nend e) = false.
Proof.
  induction l as [|x t IH]; intros lo e W HI; [destruct HI|].
  destruct W as (A & B & C). rewrite mem_cons. destruct HI as [->|HI].
  - rewrite (mem_below _ _ _ C); [|lia]. unfold inside. bd; simpl; try reflexivity; lia.
  - rewrite (IH _ _ C HI).
    assert (nend x + 1 <= ns e).
    { clear - C HI. revert C. generalize (nend x + 1). induction t as [|z t IHt]; intros lo C; [destruct HI|].
      destruct C as (A & B & C). destruct HI as [->|HI]; auto. specialize (IHt HI _ C). unfold nend in *. lia. }
    unfold inside, nend in *. bd; simpl; try reflexivity; lia.
Qed.

Lemma ffz_ok st a b : inv st -> a <= b ->
  rb_ffz st a b = f_scan (rb_mem st) false a (N.to_nat (b + 1 - a)).
Proof.
  intros I Hab. unfold rb_ffz, rb_mem.
  destruct (find_cont a (nodes st)) as [e|] eqn:F.
  - destruct (find_cont_inside _ _ _ F) as [HI Hin].
    assert (Hr : ns e <= a < nend e) by (unfold inside in Hin; bd; simpl in *; try discriminate; lia).
    assert (Hall : forall x, a <= x < nend e -> mem_nodes (nodes st) x <> false).
    { intros x Hx. rewrite (in_wf_inside 0 _ e x (inv_wf _ I) HI); [discriminate|].
      unfold inside. bd; simpl; try reflexivity; lia. }
    destruct (N.leb_spec (nend e) b).
    + symmetry. apply f_scan_first; try lia; auto.
      eapply mem_at_end; eauto. apply (inv_wf _ I).
    + symmetry. apply f_scan_none. intros x Hx. apply Hall. lia.
  - symmetry. replace (N.to_nat (b + 1 - a)) with (S (N.to_nat (b - a))) by lia.
    apply f_scan_hit. apply find_cont_none_iff. exact F.
Qed.

Lemma first_after_spec a : forall l lo,
  wf_from lo l -> mem_nodes l a = false ->
  match first_after a l with
  | Some e => In e l /\ a < ns e /\ forall x, a <= x < ns e -> mem_nodes l x = false
  | None => forall x, a <= x -> mem_nodes l x = false
  end.
Proof.
  induction l as [|e t IH]; intros lo W Ha; simpl.
  - intros; reflexivity.
  - destruct W as (A & B & C). rewrite mem_cons in Ha. apply orb_false_elim in Ha. destruct Ha as [Ha1 Ha2].
    destruct (N.ltb_spec a (ns e)).
    + split3; auto. intros x Hx. apply (mem_below (ns e)); [simpl; split3; auto; lia|lia].
    + assert (nend e <= a) by (unfold inside in Ha1; bd; simpl in *; try discriminate; lia).
      specialize (IH _ C Ha2). destruct (first_after a t) as [e'|].
      * destruct IH as (I1 & I2 & I3). split3; auto. intros x Hx. rewrite mem_cons, (I3 x Hx).
        unfold inside. bd; simpl; try reflexivity; lia.
      * intros x Hx. rewrite mem_cons, (IH x Hx). unfold inside. bd; simpl; try reflexivity; lia.
Qed.

Lemma wf_in_pos : forall l lo e, wf_from lo l -> In e l -> 0 < nc e.
Proof.
  induction l as [|z t IH]; intros lo e W HI; [destruct HI|].
  destruct W as (A & B & C). destruct HI as [->|HI]; eauto.
Qed.

Lemma ffs_ok st a b : inv st -> a <= b ->
  rb_ffs st a b = f_scan (rb_mem st) true a (N.to_nat (b + 1 - a)).
Proof.
  intros I Hab. unfold rb_ffs, rb_mem.
  destruct (nodes st) as [|e0 t0] eqn:En.
  { symmetry. apply f_scan_none. intros x _. rewrite mem_nil. discriminate. }
  rewrite <- En.
  destruct (find_cont a (nodes st)) as [e|] eqn:F.
  - symmetry. replace (N.to_nat (b + 1 - a)) with (S (N.to_nat (b - a))) by lia.
    apply f_scan_hit. eapply find_cont_some; eauto.
  - pose proof (first_after_spec a (nodes st) 0 (inv_wf _ I) (proj1 (find_cont_none_iff _ _) F)) as FA.
    destruct (first_after a (nodes st)) as [e|].
    + destruct FA as (F1 & F2 & F3).
      destruct (N.leb_spec (ns e) b).
      * symmetry. apply f_scan_first; try lia.
        -- intros x Hx. rewrite F3 by lia. discriminate.
        -- apply (in_wf_inside 0 _ e); auto; [apply (inv_wf _ I)|].
           assert (0 < nc e) by (eapply wf_in_pos; eauto; apply (inv_wf _ I)).
           unfold inside, nend. bd; simpl; try reflexivity; lia.
      * symmetry. apply f_scan_none. intros x Hx. rewrite F3 by lia. discriminate.
    + symmetry. apply f_scan_none. intros x Hx. rewrite FA by lia. discriminate.
Qed.

(* ---- bulk get ---- *)
Lemma paint_spec l start : forall out pos,
  paint l start out pos = f_bits (mem_nodes l) (start + pos) (length out).
Proof.
  induction out as [|x r IH]; intros pos; simpl; [reflexivity|].
  rewrite IH. f_equal. f_equal. lia.
Qed.

Lemma get_ok st gs a n : rb_get st gs a n = f_bits (rb_mem st) (a - gs) (N.to_nat n).
Proof.
  unfold rb_get. rewrite paint_spec, repeat_length. f_equal. lia.
Qed.

(* ---- bulk set ---- *)
Definition pend (first : option N) (base i : N) (j : N) : bool :=
  match first with Some f => (base + f <=? j) && (j <? base + i) | None => false end.

Definition win (base i : N) (bits : list bool) (j : N) : bool :=
  (base + i <=? j) && (j <? base + i + N.of_nat (length bits)) &&
  nth (N.to_nat (j - (base + i))) bits false.

Lemma win_nil base i j : win base i [] j = false.
Proof. unfold win. simpl. destruct (N.to_nat (j - (base + i))); rewrite andb_false_r; reflexivity. Qed.

Lemma win_cons base i x r j :
  win base i (x :: r) j = ((j =? base + i) && x) || win base (i + 1) r j.
Proof.
  unfold win. cbn [length].
  destruct (N.eqb_spec j (base + i)) as [->|Hj].
  - replace (N.to_nat (base + i - (base + i))) with O by lia. simpl.
    destruct x; bd; simpl; try reflexivity; lia.
  - destruct (N.ltb_spec j (base + i)).
    + bd; simpl; try reflexivity; lia.
    + replace (N.to_nat (j - (base + i))) with (S (N.to_nat (j - (base + (i + 1))))) by lia.
      simpl. bd; simpl; try reflexivity; lia.
Qed.

Lemma set_runs_ok base : forall bits st i first,
  inv st -> (match first with Some f => f < i | None => True end) ->
  inv (set_runs st base bits i first) /\
  forall j, rb_mem (set_runs st base bits i first) j =
            pend first base i j || win base i bits j || rb_mem st j.
Proof.
  induction bits as [|x r IH]; intros st i first I Hf.
  - cbn [set_runs]. destruct first as [f|].
    + destruct (rb_insert_extent st (base + f) (i - f)) as [st' r'] eqn:E.
      destruct (insert_ok _ _ _ _ _ I E) as (J1 & J2 & _). simpl. split; auto.
      intros j. rewrite J2, win_nil. unfold pend, f_rng.
      replace (base + f + (i - f)) with (base + i) by lia.
      rewrite orb_false_r. reflexivity.
    + split; auto. intros j. rewrite win_nil. reflexivity.
  - cbn [set_runs]. destruct x.
    + set (first' := match first with Some f => Some f | None => Some i end).
      destruct (IH st (i + 1) first' I) as (J1 & J2).
      { unfold first'. destruct first; lia. }
      split; auto. intros j. rewrite J2, win_cons.
      assert (P : pend first' base (i + 1) j = pend first base i j || (j =? base + i)).
      { unfold first', pend. destruct first as [f|]; bd; simpl; try reflexivity; lia. }
      rewrite P, andb_true_r.
      destruct (pend first base i j), (j =? base + i), (win base (i + 1) r j); reflexivity.
    + destruct first as [f|].
      * destruct (rb_insert_extent st (base + f) (i - f)) as [st' r'] eqn:E.
        destruct (insert_ok _ _ _ _ _ I E) as (K1 & K2 & _). simpl.
        destruct (IH st' (i + 1) None K1 Logic.I) as (J1 & J2).
        split; auto. intros j. rewrite J2, K2, win_cons. unfold pend, f_rng.
        replace (base + f + (i - f)) with (base + i) by lia.
        rewrite andb_false_r. simpl.
        destruct ((base + f <=? j) && (j <? base + i)), (win base (i + 1) r j); reflexivity.
      * destruct (IH st (i + 1) None I Logic.I) as (J1 & J2).
        split; auto. intros j. rewrite J2, win_cons, andb_false_r. reflexivity.
Qed.

Lemma RB_ok : backend_ok RB inv rb_mem.
Proof.
  constructor.
  - split; [apply inv_empty|reflexivity].
  - intros t i I. simpl. destruct (rb_insert_extent t i 1) as [s r] eqn:E.
    destruct (insert_ok _ _ _ _ _ I E) as (A & B & C). simpl. split3; auto.
    + rewrite (C eq_refl). destruct (rb_mem t i); reflexivity.
    + intros j. rewrite B, f_rng_1. reflexivity.
  - intros t i I. simpl. destruct (rb_remove_extent t i 1) as [s r] eqn:E.
    destruct (remove_ok _ _ _ _ _ I E) as (A & B & C). simpl. split3; auto.
    + rewrite (C eq_refl). destruct (rb_mem t i); reflexivity.
    + intros j. rewrite B, f_rng_1. reflexivity.
  - intros t i I. simpl. destruct (rb_test_bit t i) as [s r] eqn:E.
    destruct (test_bit_ok _ _ _ _ I E) as (A & B & C). simpl. split3; auto.
    intros j. unfold rb_mem. rewrite C. reflexivity.
  - intros t a n I. simpl. destruct (rb_insert_extent t a n) as [s r] eqn:E.
    destruct (insert_ok _ _ _ _ _ I E) as (A & B & C). simpl. auto.
  - intros t a n I. simpl. destruct (rb_remove_extent t a n) as [s r] eqn:E.
    destruct (remove_ok _ _ _ _ _ I E) as (A & B & C). simpl. auto.
  - intros. apply test_clear_ok; auto.
  - intros. apply ffz_ok; auto.
  - intros. apply ffs_ok; auto.
  - intros. apply get_ok.
  - intros t gs a bits I. simpl. unfold rb_set.
    destruct (rb_remove_extent t (a - gs) (N.of_nat (length bits))) as [s r] eqn:E.
    destruct (remove_ok _ _ _ _ _ I E) as (A & B & _). simpl.
    destruct (set_runs_ok (a - gs) bits s 0 None A Logic.I) as (J1 & J2).
    split; auto. intros j. rewrite J2, B. unfold pend, win, f_rng. simpl.
    rewrite !N.add_0_r.
    destruct ((a - gs <=? j) && (j <? a - gs + N.of_nat (length bits))); simpl.
    + destruct (nth (N.to_nat (j - (a - gs))) bits false); reflexivity.
    + reflexivity.
  - intros t I. simpl. split; [|reflexivity].
    constructor; simpl; auto; try constructor; intros; try tauto; discriminate.
  - intros t I. simpl. split3.
    + destruct I. constructor; simpl; auto. intros; discriminate.
    + destruct I. constructor; simpl; auto. intros; discriminate.
    + intros j. split; reflexivity.
Qed.

Lemma rb_inv_step st a n : inv st ->
  inv (fst (rb_insert_extent st a n)) /\ inv (fst (rb_remove_extent st a n)) /\ inv (fst (rb_test_bit st a)).
Proof.
  intros I. split3.
  - destruct (rb_insert_extent st a n) as [s r] eqn:E. apply (insert_ok _ _ _ _ _ I E).
  - destruct (rb_remove_extent st a n) as [s r] eqn:E. apply (remove_ok _ _ _ _ _ I E).
  - destruct (rb_test_bit st a) as [s r] eqn:E. apply (test_bit_ok _ _ _ _ I E).
Qed.

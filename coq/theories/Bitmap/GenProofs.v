(* The generic bitmap layer over any correct back end refines the same layer
   over the reference set of integers: identical results for every operation
   sequence. *)
From E2V Require Import Bitmap.BmGen Bitmap.FSetLemmas Bitmap.BackendOk.
Local Open Scope N_scope.

Definition op_pre (g : geom) (o : op) : Prop :=
  match o with
  | SetRange a n bits => n <= N.of_nat (length bits)      (* the caller's buffer holds the n bits it asks to store *)
  | _ => True
  end.

Section Sim.
  Variable B : backend.
  Variable Inv : T B -> Prop.
  Variable mem : T B -> N -> bool.
  Hypothesis OK : backend_ok B Inv mem.
  Variable g : geom.

  Definition R (t : T B) (m : fset) := Inv t /\ forall j, mem t j = m j.

  Definition Rg (s : gstate B) (r : gstate FSet) :=
    R (fst s) (fst r) /\
    match snd s, snd r with
    | Some a, Some b => R a b
    | None, None => True
    | _, _ => False
    end.

  Lemma cmp_loop_sim : forall fuel i t1 t2 m1 m2,
    R t1 m1 -> R t2 m2 ->
    let '(t1', t2', e) := cmp_loop B g fuel i t1 t2 in
    let '(m1', m2', e') := cmp_loop FSet g fuel i m1 m2 in
    R t1' m1' /\ R t2' m2' /\ e = e'.
  Proof.
    induction fuel; intros i t1 t2 m1 m2 R1 R2; cbn [cmp_loop].
    - auto.
    - destruct R1 as [I1 E1], R2 as [I2 E2].
      destruct (ok_test _ _ _ OK t1 (i - g_start g) I1) as (A1 & A2 & A3).
      destruct (ok_test _ _ _ OK t2 (i - g_start g) I2) as (B1 & B2 & B3).
      destruct (b_test B t1 (i - g_start g)) as [t1' r1]. destruct (b_test B t2 (i - g_start g)) as [t2' r2].
      cbn [fst snd] in *. subst r1 r2. cbn [b_test FSet].
      rewrite E1, E2. destruct (Bool.eqb (m1 (i - g_start g)) (m2 (i - g_start g))).
      + apply IHfuel; split; auto; intros j; [rewrite A3|rewrite B3]; auto.
      + split3; [split|split|]; auto; intros j; [rewrite A3|rewrite B3]; auto.
  Qed.

  Lemma shr_mono a b : a <= b -> shr g a <= shr g b.
  Proof.
    intros H. unfold shr. rewrite !N.shiftr_div_pow2. apply N.div_le_mono; auto.
    apply N.pow_nonzero. lia.
  Qed.

  Theorem gen_step_sim s r o :
    Rg s r -> op_pre g o ->
    Rg (fst (gen_step B g s o)) (fst (gen_step FSet g r o)) /\
    snd (gen_step B g s o) = snd (gen_step FSet g r o).
  Proof.
    destruct s as [t snap], r as [m msnap]. intros [[I E] RS] P. cbn [fst snd] in *.
    assert (RT : R t m) by (split; auto).
    destruct o; cbn [gen_step].
    - (* Mark *)
      destruct (in_range g (shr g a)); [|split; [split; auto|reflexivity]].
      destruct (ok_mark _ _ _ OK t (shr g a - g_start g) I) as (A1 & A2 & A3).
      destruct (b_mark B t (shr g a - g_start g)) as [t' r']. cbn [fst snd b_mark FSet] in *.
      split; [split; cbn [fst snd]; auto|rewrite A2, E; reflexivity].
      split; auto. intros j. rewrite A3, E. reflexivity.
    - (* Unmark *)
      destruct (in_range g (shr g a)); [|split; [split; auto|reflexivity]].
      destruct (ok_unmark _ _ _ OK t (shr g a - g_start g) I) as (A1 & A2 & A3).
      destruct (b_unmark B t (shr g a - g_start g)) as [t' r']. cbn [fst snd b_unmark FSet] in *.
      split; [split; cbn [fst snd]; auto|rewrite A2, E; reflexivity].
      split; auto. intros j. rewrite A3, E. reflexivity.
    - (* Test *)
      destruct (in_range g (shr g a)); [|split; [split; auto|reflexivity]].
      destruct (ok_test _ _ _ OK t (shr g a - g_start g) I) as (A1 & A2 & A3).
      destruct (b_test B t (shr g a - g_start g)) as [t' r']. cbn [fst snd b_test FSet] in *.
      split; [split; cbn [fst snd]; auto|rewrite A2, E; reflexivity].
      split; auto. intros j. rewrite A3, E. reflexivity.
    - (* MarkRange *)
      destruct (conv_range g a n) as [c k]. destruct (range_ok g c k); [|split; [split; auto|reflexivity]].
      destruct (ok_mark_ext _ _ _ OK t (c - g_start g) k I) as (A1 & A3).
      split; [split; cbn [fst snd b_mark_ext FSet]; auto|reflexivity].
      split; auto. intros j. rewrite A3, E. reflexivity.
    - (* UnmarkRange *)
      destruct (conv_range g a n) as [c k]. destruct (range_ok g c k); [|split; [split; auto|reflexivity]].
      destruct (ok_unmark_ext _ _ _ OK t (c - g_start g) k I) as (A1 & A3).
      split; [split; cbn [fst snd b_unmark_ext FSet]; auto|reflexivity].
      split; auto. intros j. rewrite A3, E. reflexivity.
    - (* TestRange *)
      destruct (n =? 1).
      + destruct (in_range g (shr g a)); [|split; [split; auto|reflexivity]].
        destruct (ok_test _ _ _ OK t (shr g a - g_start g) I) as (A1 & A2 & A3).
        destruct (b_test B t (shr g a - g_start g)) as [t' r']. cbn [fst snd b_test FSet] in *.
        split; [split; cbn [fst snd]; auto|rewrite A2, E; reflexivity].
        split; auto. intros j. rewrite A3, E. reflexivity.
      + destruct (conv_range g a n) as [c k]. destruct (range_ok g c k); [|split; [split; auto|reflexivity]].
        split; [split; auto|]. cbn [snd b_test_clear FSet].
        rewrite (ok_test_clear _ _ _ OK t _ _ I), (f_all_clear_ext _ _ E). reflexivity.
    - (* FindZero *)
      destruct ((shr g a <? g_start g) || (g_end g <? shr g b) || (b <? a)) eqn:C;
        [split; [split; auto|reflexivity]|].
      apply orb_false_elim in C. destruct C as [C C3]. apply orb_false_elim in C. destruct C as [C1 C2].
      apply N.ltb_ge in C1, C2, C3. pose proof (shr_mono _ _ C3).
      rewrite (ok_ffz _ _ _ OK t _ _ I) by lia. cbn [b_ffz FSet].
      rewrite (f_scan_ext _ _ false E).
      destruct (f_scan m false _ _); (split; [split; auto|reflexivity]).
    - (* FindSet *)
      destruct ((shr g a <? g_start g) || (g_end g <? shr g b) || (b <? a)) eqn:C;
        [split; [split; auto|reflexivity]|].
      apply orb_false_elim in C. destruct C as [C C3]. apply orb_false_elim in C. destruct C as [C1 C2].
      apply N.ltb_ge in C1, C2, C3. pose proof (shr_mono _ _ C3).
      rewrite (ok_ffs _ _ _ OK t _ _ I) by lia. cbn [b_ffs FSet].
      rewrite (f_scan_ext _ _ true E).
      destruct (f_scan m true _ _); (split; [split; auto|reflexivity]).
    - (* GetRange *)
      split; [split; auto|]. cbn [snd b_get FSet].
      rewrite (ok_get _ _ _ OK t _ _ n I), (f_bits_ext _ _ E). reflexivity.
    - (* SetRange *)
      cbn [op_pre] in P.
      assert (L : N.of_nat (length (firstn (N.to_nat n) bits)) = n) by (rewrite firstn_length; lia).
      destruct (ok_set _ _ _ OK t (g_start g) a (firstn (N.to_nat n) bits) I) as (A1 & A3).
      split; [split; cbn [fst snd b_set FSet]; auto|reflexivity].
      split; auto. intros j. rewrite A3, E. reflexivity.
    - (* Clear *)
      destruct (ok_clear _ _ _ OK t I) as (A1 & A3).
      split; [split; cbn [fst snd b_clear FSet]; auto|reflexivity]. split; auto.
    - (* SetPadding *)
      destruct (ok_mark_ext _ _ _ OK t (g_end g + 1 - g_start g) (g_real_end g - g_end g) I) as (A1 & A3).
      split; [split; cbn [fst snd b_mark_ext FSet]; auto|reflexivity].
      split; auto. intros j. rewrite A3, E. reflexivity.
    - (* Snapshot *)
      destruct (ok_copy _ _ _ OK t I) as (A1 & A2 & A3).
      destruct (b_copy B t) as [t' c]. cbn [fst snd b_copy FSet] in *.
      split; [|reflexivity]. split; cbn [fst snd].
      + split; auto. intros j. rewrite (proj1 (A3 j)). auto.
      + split; auto. intros j. rewrite (proj2 (A3 j)). auto.
    - (* Compare *)
      destruct snap as [sn|], msnap as [ms|]; try tauto; [|split; [split; auto|reflexivity]].
      pose proof (cmp_loop_sim (N.to_nat (g_end g + 1 - g_start g)) (g_start g) t sn m ms RT RS) as CL.
      destruct (cmp_loop B g _ _ t sn) as [[t1 t2] e]. destruct (cmp_loop FSet g _ _ m ms) as [[m1 m2] e'].
      destruct CL as (C1 & C2 & ->). split; [split; auto|reflexivity].
  Qed.

  Theorem run_sim : forall ops s r,
    Rg s r -> Forall (op_pre g) ops -> run B g s ops = run FSet g r ops.
  Proof.
    induction ops as [|o ops IH]; intros s r RG F; cbn [run]; [reflexivity|].
    inversion F as [|? ? P F']; subst.
    destruct (gen_step_sim s r o RG P) as [RG' E].
    destruct (gen_step B g s o) as [s' x]. destruct (gen_step FSet g r o) as [r' y].
    cbn [fst snd] in *. subst. f_equal. apply IH; auto.
  Qed.

  Corollary run0_sim ops : Forall (op_pre g) ops -> run0 B g ops = run0 FSet g ops.
  Proof.
    intros F. apply run_sim; auto. destruct (ok_empty _ _ _ OK) as [A1 A2].
    split; cbn [fst snd]; auto. split; auto.
  Qed.
End Sim.

(* Generic bitmap layer (lib/ext2fs/gen_bitmap64.c) over an abstract back-end,
   the operation/result vocabulary shared by all back-ends, and the reference
   back-end "a set of integers" (membership function N -> bool).
   Definitions only; proofs live in *Proofs.v. *)
From Coq Require Export List NArith Arith Bool Lia.
Export ListNotations.
Local Open Scope N_scope.

(* ---- back-end interface: bit positions are relative to bitmap->start ---- *)
Record backend := mkBackend {
  T : Type;
  b_empty : T;
  b_mark : T -> N -> T * bool;          (* returns old bit *)
  b_unmark : T -> N -> T * bool;
  b_test : T -> N -> T * bool;          (* rb test moves cursors *)
  b_mark_ext : T -> N -> N -> T;        (* pos, count *)
  b_unmark_ext : T -> N -> N -> T;
  b_test_clear : T -> N -> N -> bool;   (* true iff all clear *)
  b_ffz : T -> N -> N -> option N;      (* first zero in [a,b], a <= b; None = ENOENT *)
  b_ffs : T -> N -> N -> option N;
  (* bulk get/set: g_start, absolute start, count *)
  b_get : T -> N -> N -> N -> list bool;
  b_set : T -> N -> N -> list bool -> T;
  b_clear : T -> T;
  b_copy : T -> T * T;                  (* rb copy resets the source's rcursor *)
}.

(* ---- geometry of a 64-bit generic bitmap ---- *)
Record geom := mkGeom { g_start : N; g_end : N; g_real_end : N; g_cbits : N }.

Inductive op :=
| Mark (a : N) | Unmark (a : N) | Test (a : N)
| MarkRange (a n : N) | UnmarkRange (a n : N) | TestRange (a n : N)
| FindZero (a b : N) | FindSet (a b : N)
| GetRange (a n : N) | SetRange (a n : N) (bits : list bool)
| Clear | SetPadding
| Snapshot            (* ext2fs_copy_generic_bmap into the second slot *)
| Compare.            (* ext2fs_compare_generic_bmap(neq, current, snapshot) *)

Inductive res :=
| RVoid
| RInt (v : N)          (* C int result, normalised: 0 / 1 *)
| RErr (e : N)          (* errcode: 22 = EINVAL, 2 = ENOENT, 1 = neq *)
| RPos (p : N)          (* find-first: success, position *)
| RBits (l : list bool).

Definition EINVAL := 22.
Definition ENOENT := 2.
Definition NEQ := 1.

Definition b2n (b : bool) : N := if b then 1 else 0.

Section Gen.
  Variable B : backend.
  Variable g : geom.

  Definition shr (x : N) := N.shiftr x (g_cbits g).
  Definition in_range (c : N) := (g_start g <=? c) && (c <=? g_end g).

  (* convert [block, block+num) to clusters as *_block_bitmap_range2 do:
     num is an unsigned int in C (mod 2^32). *)
  Definition conv_range (block num : N) : N * N :=
    let e := shr (block + num + (N.shiftl 1 (g_cbits g) - 1)) in
    let c := shr block in
    (c, (e - c) mod 2^32).

  Definition range_ok (c n : N) : bool :=
    (g_start g <=? c) && (c <=? g_end g) &&
    (* block+num-1 > end, computed in u64: num = 0 and c = 0 wraps to 2^64-1 *)
    (if (c + n =? 0) then false else (c + n - 1 <=? g_end g)).

  (* state: current bitmap, optional snapshot *)
  Definition gstate := (T B * option (T B))%type.

  Fixpoint cmp_loop (fuel : nat) (i : N) (t1 t2 : T B) : T B * T B * bool :=
    match fuel with
    | O => (t1, t2, true)
    | S f =>
      let '(t1', r1) := b_test B t1 (i - g_start g) in
      let '(t2', r2) := b_test B t2 (i - g_start g) in
      if Bool.eqb r1 r2 then cmp_loop f (i + 1) t1' t2' else (t1', t2', false)
    end.

  Definition gen_step (st : gstate) (o : op) : gstate * res :=
    let '(t, snap) := st in
    match o with
    | Mark a =>
      let c := shr a in
      if in_range c then let '(t', r) := b_mark B t (c - g_start g) in ((t', snap), RInt (b2n r))
      else (st, RInt 0)
    | Unmark a =>
      let c := shr a in
      if in_range c then let '(t', r) := b_unmark B t (c - g_start g) in ((t', snap), RInt (b2n r))
      else (st, RInt 0)
    | Test a =>
      let c := shr a in
      if in_range c then let '(t', r) := b_test B t (c - g_start g) in ((t', snap), RInt (b2n r))
      else (st, RInt 0)
    | MarkRange a n =>
      let '(c, k) := conv_range a n in
      if range_ok c k then ((b_mark_ext B t (c - g_start g) k, snap), RVoid) else (st, RVoid)
    | UnmarkRange a n =>
      let '(c, k) := conv_range a n in
      if range_ok c k then ((b_unmark_ext B t (c - g_start g) k, snap), RVoid) else (st, RVoid)
    | TestRange a n =>
      if n =? 1 then
        (* num == 1: !ext2fs_test_generic_bmap *)
        let c := shr a in
        if in_range c then let '(t', r) := b_test B t (c - g_start g) in ((t', snap), RInt (b2n (negb r)))
        else (st, RInt 1)
      else
      let '(c, k) := conv_range a n in
      if range_ok c k then (st, RInt (b2n (b_test_clear B t (c - g_start g) k))) else (st, RErr EINVAL)
    | FindZero a b =>
      let ca := shr a in let cb := shr b in
      if (ca <? g_start g) || (g_end g <? cb) || (b <? a) then (st, RErr EINVAL)
      else match b_ffz B t (ca - g_start g) (cb - g_start g) with
           | None => (st, RErr ENOENT)
           | Some p => let out := N.shiftl (p + g_start g) (g_cbits g) in
                       (st, RPos (if a <=? out then out else a))
           end
    | FindSet a b =>
      let ca := shr a in let cb := shr b in
      if (ca <? g_start g) || (g_end g <? cb) || (b <? a) then (st, RErr EINVAL)
      else match b_ffs B t (ca - g_start g) (cb - g_start g) with
           | None => (st, RErr ENOENT)
           | Some p => let out := N.shiftl (p + g_start g) (g_cbits g) in
                       (st, RPos (if a <=? out then out else a))
           end
    | GetRange a n => (st, RBits (b_get B t (g_start g) a n))
    | SetRange a n bits => ((b_set B t (g_start g) a (firstn (N.to_nat n) bits), snap), RVoid)
    | Clear => ((b_clear B t, snap), RVoid)
    | SetPadding =>
      ((b_mark_ext B t (g_end g + 1 - g_start g) (g_real_end g - g_end g), snap), RVoid)
    | Snapshot => let '(t', c) := b_copy B t in ((t', Some c), RVoid)
    | Compare =>
      match snap with
      | None => (st, RErr EINVAL)
      | Some s =>
        let '(t', s', eq) := cmp_loop (N.to_nat (g_end g + 1 - g_start g)) (g_start g) t s in
        ((t', Some s'), if eq then RInt 0 else RErr NEQ)
      end
    end.

  Fixpoint run (st : gstate) (ops : list op) : list res :=
    match ops with
    | [] => []
    | o :: r => let '(st', x) := gen_step st o in x :: run st' r
    end.

  Definition run0 (ops : list op) := run (b_empty B, None) ops.
End Gen.

(* ---- the reference: a set of integers as its membership function ---- *)
Definition fset := N -> bool.

Definition f_rng (a n j : N) : bool := (a <=? j) && (j <? a + n).

(* least position in [a, a+cnt) where membership equals [want] *)
Fixpoint f_scan (m : fset) (want : bool) (a : N) (cnt : nat) : option N :=
  match cnt with
  | O => None
  | S k => if Bool.eqb (m a) want then Some a else f_scan m want (a + 1) k
  end.

Fixpoint f_all_clear (m : fset) (a : N) (cnt : nat) : bool :=
  match cnt with
  | O => true
  | S k => negb (m a) && f_all_clear m (a + 1) k
  end.

Fixpoint f_bits (m : fset) (a : N) (cnt : nat) : list bool :=
  match cnt with
  | O => []
  | S k => m a :: f_bits m (a + 1) k
  end.

Definition FSet : backend := {|
  T := fset;
  b_empty := fun _ => false;
  b_mark := fun m i => ((fun j => (j =? i) || m j), m i);
  b_unmark := fun m i => ((fun j => negb (j =? i) && m j), m i);
  b_test := fun m i => (m, m i);
  b_mark_ext := fun m a n => (fun j => f_rng a n j || m j);
  b_unmark_ext := fun m a n => (fun j => negb (f_rng a n j) && m j);
  b_test_clear := fun m a n => f_all_clear m a (N.to_nat n);
  b_ffz := fun m a b => f_scan m false a (N.to_nat (b + 1 - a));
  b_ffs := fun m a b => f_scan m true a (N.to_nat (b + 1 - a));
  b_get := fun m gs a n => f_bits m (a - gs) (N.to_nat n);
  b_set := fun m gs a bits =>
             (fun j => if f_rng (a - gs) (N.of_nat (length bits)) j
                       then nth (N.to_nat (j - (a - gs))) bits false else m j);
  b_clear := fun _ => (fun _ => false);
  b_copy := fun m => (m, m);
|}.

From E2V Require Import Bitmap.BmGen Bitmap.FSetLemmas Bitmap.BackendOk Bitmap.GenProofs Bitmap.BmResize.
Local Open Scope N_scope.

Fixpoint seg_pre (g : geom) (ops : list sop) : Prop :=
  match ops with
  | [] => True
  | SOp o :: r => op_pre g o /\ seg_pre g r
  | SResize ne nre :: r => seg_pre (resize_geom g ne nre) r
  end.

Section SegSim.
  Variable B : backend.
  Variable Inv : T B -> Prop.
  Variable mem : T B -> N -> bool.
  Hypothesis OK : backend_ok B Inv mem.

  Lemma copy_bits_sim : forall n i t m d md,
    R B Inv mem t m -> R B Inv mem d md ->
    R B Inv mem (copy_bits B n i t d) (copy_bits FSet n i m md).
  Proof.
    induction n as [|n IH]; intros i t m d md Rt Rd; cbn [copy_bits]; [assumption|].
    destruct Rt as [It Et].
    destruct (ok_test _ _ _ OK t i It) as (A1 & A2 & A3).
    destruct (b_test B t i) as [t' r]. cbn [fst snd] in *. subst r.
    cbn [b_test FSet]. rewrite Et.
    apply IH.
    - split; [assumption|]. intros j. rewrite A3. apply Et.
    - destruct (m i); [|assumption].
      destruct Rd as [Id Ed]. destruct (ok_mark _ _ _ OK d i Id) as (M1 & M2 & M3).
      split; [assumption|]. intros j. rewrite M3. cbn [b_mark FSet fst]. rewrite Ed. reflexivity.
  Qed.

  Theorem run_seg_sim : forall ops g s r,
    Rg B Inv mem s r -> seg_pre g ops -> run_seg B g s ops = run_seg FSet g r ops.
  Proof.
    induction ops as [|o ops IH]; intros g s r RG P; cbn [run_seg]; [reflexivity|].
    destruct o as [o|ne nre]; cbn [seg_pre] in P.
    - destruct P as [P0 P].
      destruct (gen_step_sim B Inv mem OK g s r o RG P0) as [RG' E].
      destruct (gen_step B g s o) as [s' x]. destruct (gen_step FSet g r o) as [r' y].
      cbn [fst snd] in *. subst. f_equal. apply IH; assumption.
    - f_equal. apply IH; [|assumption].
      unfold resize_state. split; cbn [fst snd]; [|exact I].
      apply copy_bits_sim; [exact (proj1 RG)|].
      destruct (ok_empty _ _ _ OK) as [E1 E2]. split; [assumption|]. intros j. rewrite E2. reflexivity.
  Qed.

  Corollary run_seg0_sim g ops : seg_pre g ops -> run_seg0 B g ops = run_seg0 FSet g ops.
  Proof.
    intros P. apply run_seg_sim; [|assumption]. destruct (ok_empty _ _ _ OK) as [A1 A2].
    split; cbn [fst snd]; [|exact I]. split; [assumption|]. intros j. rewrite A2. reflexivity.
  Qed.
End SegSim.

(* what a resize means for the set *)
From Coq Require Import ZifyBool ZifyN ZifyNat.
Lemma copy_bits_fset : forall n i (m d : fset) j,
  copy_bits FSet n i m d j = if (i <=? j) && (j <? i + N.of_nat n) then m j || d j else d j.
Proof.
  induction n as [|n IH]; intros i m d j; cbn [copy_bits].
  - replace ((i <=? j) && (j <? i + N.of_nat 0)) with false by lia. reflexivity.
  - cbn [b_test FSet]. rewrite IH. rewrite Nnat.Nat2N.inj_succ.
    destruct (N.eq_dec j i) as [->|Hne].
    + replace ((i + 1 <=? i) && (i <? i + 1 + N.of_nat n)) with false by lia.
      replace ((i <=? i) && (i <? i + N.succ (N.of_nat n))) with true by lia.
      destruct (m i) eqn:Hm; cbn [b_mark FSet fst orb]; [rewrite N.eqb_refl; reflexivity|reflexivity].
    + replace ((i <=? j) && (j <? i + N.succ (N.of_nat n))) with ((i + 1 <=? j) && (j <? i + 1 + N.of_nat n)) by lia.
      destruct ((i + 1 <=? j) && (j <? i + 1 + N.of_nat n)); destruct (m i); cbn [b_mark FSet fst];
        try reflexivity; replace (j =? i) with false by lia; reflexivity.
Qed.

Lemma resize_fset_lemma g ne (st : gstate FSet) j :
  fst (resize_state FSet g ne st) j = (j <? N.min (g_end g) ne + 1 - g_start g) && fst st j.
Proof.
  unfold resize_state. cbn [fst]. rewrite copy_bits_fset. rewrite Nnat.N2Nat.id.
  cbn [b_empty FSet]. rewrite Bool.orb_false_r.
  replace (0 <=? j) with true by lia. cbn [andb]. rewrite N.add_0_l.
  destruct (j <? N.min (g_end g) ne + 1 - g_start g); reflexivity.
Qed.

(* Facts about the reference set operations (scans over a membership function) *)
From E2V Require Import Bitmap.BmGen.
Local Open Scope N_scope.

Ltac split3 := split; [|split].
Ltac split4 := split; [|split; [|split]].
Ltac split5 := split; [|split; [|split; [|split]]].

Lemma f_rng_1 i j : f_rng i 1 j = (j =? i).
Proof. unfold f_rng. destruct (N.leb_spec i j), (N.ltb_spec j (i + 1)), (N.eqb_spec j i); simpl; try reflexivity; lia. Qed.

Lemma f_rng_0 a j : f_rng a 0 j = false.
Proof. unfold f_rng. destruct (N.leb_spec a j), (N.ltb_spec j (a + 0)); simpl; try reflexivity; lia. Qed.

Lemma f_scan_ext m1 m2 w : (forall j, m1 j = m2 j) -> forall n a, f_scan m1 w a n = f_scan m2 w a n.
Proof. intros E. induction n; intros a; simpl; [reflexivity|]. rewrite E, IHn. reflexivity. Qed.

Lemma f_all_clear_ext m1 m2 : (forall j, m1 j = m2 j) -> forall n a, f_all_clear m1 a n = f_all_clear m2 a n.
Proof. intros E. induction n; intros a; simpl; [reflexivity|]. rewrite E, IHn. reflexivity. Qed.

Lemma f_bits_ext m1 m2 : (forall j, m1 j = m2 j) -> forall n a, f_bits m1 a n = f_bits m2 a n.
Proof. intros E. induction n; intros a; simpl; [reflexivity|]. rewrite E, IHn. reflexivity. Qed.

Lemma f_all_clear_iff m : forall n a,
  f_all_clear m a n = true <-> (forall b, a <= b < a + N.of_nat n -> m b = false).
Proof.
  induction n; intros a; simpl.
  - split; auto. intros _ b H. lia.
  - rewrite andb_true_iff, IHn, negb_true_iff. split.
    + intros [H1 H2] b Hb. destruct (N.eq_dec b a); [subst; auto|]. apply H2. lia.
    + intros H. split; [apply H; lia|]. intros b Hb. apply H. lia.
Qed.

(* skipping a prefix that contains no hit *)
Lemma f_scan_skip m w : forall k a r,
  (forall b, a <= b < a + N.of_nat k -> m b <> w) ->
  f_scan m w a (k + r) = f_scan m w (a + N.of_nat k) r.
Proof.
  induction k; intros a r H.
  - simpl. f_equal. lia.
  - simpl. destruct (Bool.eqb (m a) w) eqn:E.
    + exfalso. apply (H a); [lia|]. apply eqb_prop. exact E.
    + rewrite IHk; [f_equal; lia|]. intros b Hb. apply H. lia.
Qed.

Lemma f_scan_none m w : forall k a,
  (forall b, a <= b < a + N.of_nat k -> m b <> w) -> f_scan m w a k = None.
Proof.
  intros k a H. rewrite <- (Nat.add_0_r k), f_scan_skip; auto.
Qed.

Lemma f_scan_hit m w a k : m a = w -> f_scan m w a (S k) = Some a.
Proof. intros <-. simpl. rewrite eqb_reflx. reflexivity. Qed.

(* a scan that skips k misses and then hits *)
Lemma f_scan_first m w a p n :
  a <= p -> p < a + N.of_nat n ->
  (forall b, a <= b < p -> m b <> w) -> m p = w ->
  f_scan m w a n = Some p.
Proof.
  intros H1 H2 H3 H4.
  replace n with (N.to_nat (p - a) + S (n - N.to_nat (p - a) - 1))%nat by lia.
  rewrite f_scan_skip.
  - replace (a + N.of_nat (N.to_nat (p - a))) with p by lia. apply f_scan_hit; auto.
  - intros b Hb. apply H3. lia.
Qed.

Lemma f_bits_length m : forall n a, length (f_bits m a n) = n.
Proof. induction n; intros; simpl; auto. Qed.

(* the reference scan returns the least position with the wanted value *)
Lemma f_scan_some m w : forall n a p, f_scan m w a n = Some p ->
  a <= p < a + N.of_nat n /\ m p = w /\ forall x, a <= x < p -> m x <> w.
Proof.
  induction n; intros a p H; simpl in H; [discriminate|].
  destruct (Bool.eqb (m a) w) eqn:E.
  - inversion H; subst. apply eqb_prop in E. split3; auto; [lia|]. intros x Hx. lia.
  - apply IHn in H. destruct H as (H1 & H2 & H3). split3; auto; [lia|].
    intros x Hx. destruct (N.eq_dec x a) as [->|]; [|apply H3; lia].
    intro Hc. rewrite Hc, eqb_reflx in E. discriminate.
Qed.

Lemma f_scan_none_inv m w : forall n a, f_scan m w a n = None ->
  forall x, a <= x < a + N.of_nat n -> m x <> w.
Proof.
  induction n; intros a H x Hx; simpl in H; [lia|].
  destruct (Bool.eqb (m a) w) eqn:E; [discriminate|].
  destruct (N.eq_dec x a) as [->|]; [|apply (IHn _ H); lia].
  intro Hc. rewrite Hc, eqb_reflx in E. discriminate.
Qed.

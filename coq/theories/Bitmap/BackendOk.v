(* What a back end must satisfy to implement a set of integers: every
   operation, run from a state satisfying the invariant, returns what the
   membership function prescribes and updates the membership function as the
   reference set does. *)
From E2V Require Import Bitmap.BmGen.
Local Open Scope N_scope.

(* the precondition under which bulk get/set are defined (see DESIGN C16) *)
Definition aligned (gs a : N) : Prop := gs <= a /\ gs < 8 /\ (a - gs) mod 8 = 0.

Record backend_ok (B : backend) (Inv : T B -> Prop) (mem : T B -> N -> bool) : Prop := {
  ok_empty : Inv (b_empty B) /\ forall j, mem (b_empty B) j = false;
  ok_mark : forall t i, Inv t ->
      Inv (fst (b_mark B t i)) /\ snd (b_mark B t i) = mem t i /\
      forall j, mem (fst (b_mark B t i)) j = (j =? i) || mem t j;
  ok_unmark : forall t i, Inv t ->
      Inv (fst (b_unmark B t i)) /\ snd (b_unmark B t i) = mem t i /\
      forall j, mem (fst (b_unmark B t i)) j = negb (j =? i) && mem t j;
  ok_test : forall t i, Inv t ->
      Inv (fst (b_test B t i)) /\ snd (b_test B t i) = mem t i /\
      forall j, mem (fst (b_test B t i)) j = mem t j;
  ok_mark_ext : forall t a n, Inv t ->
      Inv (b_mark_ext B t a n) /\ forall j, mem (b_mark_ext B t a n) j = f_rng a n j || mem t j;
  ok_unmark_ext : forall t a n, Inv t ->
      Inv (b_unmark_ext B t a n) /\ forall j, mem (b_unmark_ext B t a n) j = negb (f_rng a n j) && mem t j;
  ok_test_clear : forall t a n, Inv t ->
      b_test_clear B t a n = f_all_clear (mem t) a (N.to_nat n);
  ok_ffz : forall t a b, Inv t -> a <= b ->
      b_ffz B t a b = f_scan (mem t) false a (N.to_nat (b + 1 - a));
  ok_ffs : forall t a b, Inv t -> a <= b ->
      b_ffs B t a b = f_scan (mem t) true a (N.to_nat (b + 1 - a));
  ok_get : forall t gs a n, Inv t ->
      b_get B t gs a n = f_bits (mem t) (a - gs) (N.to_nat n);
  ok_set : forall t gs a bits, Inv t ->
      Inv (b_set B t gs a bits) /\
      forall j, mem (b_set B t gs a bits) j =
                if f_rng (a - gs) (N.of_nat (length bits)) j
                then nth (N.to_nat (j - (a - gs))) bits false else mem t j;
  ok_clear : forall t, Inv t -> Inv (b_clear B t) /\ forall j, mem (b_clear B t) j = false;
  ok_copy : forall t, Inv t ->
      Inv (fst (b_copy B t)) /\ Inv (snd (b_copy B t)) /\
      forall j, mem (fst (b_copy B t)) j = mem t j /\ mem (snd (b_copy B t)) j = mem t j;
}.

(* Model of lib/ext2fs/blkmap64_rb.c: the red-black tree of extents is
   represented by its in-order node sequence (rbtree.c itself - rebalancing,
   ext2fs_rb_next/prev/first/last - is taken as implementing an ordered
   sequence; that assumption is exercised by the correspondence check).
   Nodes carry an identity so that the three cursor pointers (wcursor, rcursor,
   rcursor_next) can be modelled as pointers; rb_free_extent clears them. *)
From E2V Require Export Bitmap.BmGen.
Local Open Scope N_scope.

Record node := mkN { nid : N; ns : N; nc : N }.
Definition nend (e : node) := ns e + nc e.

Record rb := mkRB {
  nodes : list node;
  wc : option N;       (* wcursor *)
  rc : option N;       (* rcursor *)
  rn : option N;       (* rcursor_next *)
  fresh : N;
}.

Definition rb_empty := mkRB [] None None None 0.

Fixpoint lookup (i : N) (l : list node) : option node :=
  match l with
  | [] => None
  | e :: t => if nid e =? i then Some e else lookup i t
  end.

Fixpoint succ_of (i : N) (l : list node) : option node :=
  match l with
  | [] => None
  | e :: t => if nid e =? i then hd_error t else succ_of i t
  end.

Definition cursor (c : option N) (l : list node) : option node :=
  match c with Some i => lookup i l | None => None end.

Definition inside (e : node) (b : N) := (ns e <=? b) && (b <? nend e).

(* BST descent "bit < start -> left; bit >= end -> right; else found" *)
Fixpoint find_cont (b : N) (l : list node) : option node :=
  match l with
  | [] => None
  | e :: t => if inside e b then Some e else find_cont b t
  end.

Definition mem_nodes (l : list node) (b : N) : bool :=
  match find_cont b l with Some _ => true | None => false end.

Definition rb_mem (st : rb) := mem_nodes (nodes st).

Definition clear_if (c : option N) (i : N) : option N :=
  match c with Some j => if j =? i then None else c | None => None end.

(* rb_free_extent for a list of freed node ids *)
Definition free_ids (st : rb) (ids : list N) (l : list node) : rb :=
  fold_left (fun s i => mkRB (nodes s) (clear_if (wc s) i) (clear_if (rc s) i)
                             (clear_if (rn s) i) (fresh s))
            ids (mkRB l (wc st) (rc st) (rn st) (fresh st)).

(* ---- rb_test_bit ---- *)
Definition rb_search_test (st : rb) (bit : N) : rb * bool :=
  match find_cont bit (nodes st) with
  | Some e => (mkRB (nodes st) (wc st) (Some (nid e)) None (fresh st), true)
  | None => (st, false)
  end.

Definition rb_test_bit (st : rb) (bit : N) : rb * bool :=
  match cursor (rc st) (nodes st) with
  | None => rb_search_test st bit
  | Some r =>
    if inside r bit then (st, true) else
    let nx := match cursor (rn st) (nodes st) with
              | Some x => Some x
              | None => match rc st with Some i => succ_of i (nodes st) | None => None end
              end in
    let st1 := mkRB (nodes st) (wc st) (rc st)
                    (match nx with Some x => Some (nid x) | None => None end) (fresh st) in
    let gap := match nx with
               | Some x => (nend r <=? bit) && (bit <? ns x)
               | None => false
               end in
    if gap then (st1, false) else
    let st2 := mkRB (nodes st) (wc st) None None (fresh st) in
    match cursor (wc st) (nodes st) with
    | Some w => if inside w bit then (st2, true) else rb_search_test st2 bit
    | None => rb_search_test st2 bit
    end
  end.

(* ---- rb_insert_extent ---- *)
(* "See if we can merge extent to the right": returns new count, remaining
   successors, freed ids *)
Fixpoint merge_right (start count : N) (post : list node) : N * list node * list N :=
  match post with
  | [] => (count, [], [])
  | e :: t =>
    if nend e <=? start then
      let '(c, p, f) := merge_right start count t in (c, e :: p, f)
    else if start + count <? ns e then (count, post, [])
    else if nend e <=? start + count then
      let '(c, p, f) := merge_right start count t in (c, p, nid e :: f)
    else (count + (nend e - (start + count)), t, [nid e])
  end.

(* result of the descent + got_extent/skip_insert part on the node sequence:
   new sequence, retval, freed ids, id of a newly linked node (if any) *)
Fixpoint ins_nodes (fr start count : N) (l : list node)
  : list node * N * list N * option N :=
  match l with
  | [] => ([mkN fr start count], 0, [], Some fr)
  | e :: t =>
    if start <? ns e then
      let '(c, p, f) := merge_right start count l in
      (mkN fr start c :: p, 0, f, Some fr)
    else if start <=? nend e then
      (* got_extent *)
      if start + count <=? nend e then (l, 1, [], None)
      else
        let '(c, p, f) := merge_right (ns e) (count + (start - ns e)) t in
        (mkN (nid e) (ns e) c :: p, (if nend e =? start then 0 else 1), f, None)
    else
      let '(l', r, f, n) := ins_nodes fr start count t in (e :: l', r, f, n)
  end.

(* the wcursor shortcut jumps to got_extent with ext = wcursor *)
Fixpoint ins_at (i start count : N) (l : list node) : list node * N * list N :=
  match l with
  | [] => ([], 0, [])
  | e :: t =>
    if nid e =? i then
      if start + count <=? nend e then (l, 1, [])
      else
        let '(c, p, f) := merge_right (ns e) (count + (start - ns e)) t in
        (mkN (nid e) (ns e) c :: p, (if nend e =? start then 0 else 1), f)
    else let '(l', r, f) := ins_at i start count t in (e :: l', r, f)
  end.

Definition rb_insert_extent (st : rb) (start count : N) : rb * N :=
  if count =? 0 then (st, 0) else
  let st := mkRB (nodes st) (wc st) (rc st) None (fresh st) in
  let short := match cursor (wc st) (nodes st) with
               | Some w => if (ns w <=? start) && (start <=? nend w) then Some (nid w) else None
               | None => None
               end in
  match short with
  | Some i =>
    let '(l, r, f) := ins_at i start count (nodes st) in
    (free_ids st f l, r)
  | None =>
    let '(l, r, f, n) := ins_nodes (fresh st) start count (nodes st) in
    let st' := match n with
               | Some i => mkRB (nodes st) (Some i) (rc st) (rn st) (fresh st + 1)
               | None => st
               end in
    (free_ids st' f l, r)
  end.

(* ---- rb_remove_extent ---- *)
(* "See if we should delete or truncate extent on the right".  [fixed] selects
   the comparison in the "no more extents" test: the pinned upstream code has
   (start+count) < ext->start, the repaired code <=. *)
Fixpoint scan_right (start count : N) (l : list node) (ret : N)
  : list node * N * list N :=
  match l with
  | [] => ([], ret, [])
  | e :: t =>
    if nend e <=? start then
      let '(p, r, f) := scan_right start count t ret in (e :: p, r, f)
    else if start + count <=? ns e then (l, ret, [])
    else if nend e <=? start + count then
      let '(p, r, f) := scan_right start count t 1 in (p, r, nid e :: f)
    else (mkN (nid e) (start + count) (nc e - (start + count - ns e)) :: t, 1, [])
  end.

Inductive rm_out :=
| RmDone (l : list node) (ret : N) (freed : list N)
| RmSplit (l : list node) (new_start new_count : N).

Fixpoint rm_nodes (start count : N) (l : list node) : rm_out :=
  match l with
  | [] => RmDone [] 0 []
  | e :: t =>
    if inside e start then
      if (ns e <? start) && (start + count <? nend e) then
        RmSplit (mkN (nid e) (ns e) (start - ns e) :: t) (start + count) (nend e - (start + count))
      else
        let trunc := nend e <=? start + count in
        let c' := if trunc then start - ns e else nc e in
        let ret := if trunc then 1 else 0 in
        if c' =? 0 then
          let '(p, r, f) := scan_right start count t ret in RmDone p r (nid e :: f)
        else if start =? ns e then
          RmDone (mkN (nid e) (ns e + count) (c' - count) :: t) 1 []
        else
          let '(p, r, f) := scan_right start count t ret in
          RmDone (mkN (nid e) (ns e) c' :: p) r f
    else if start <? ns e then
      (* not found: descent ends next to this position *)
      let '(p, r, f) := scan_right start count l 0 in RmDone p r f
    else
      match rm_nodes start count t with
      | RmDone p r f => RmDone (e :: p) r f
      | RmSplit p a b => RmSplit (e :: p) a b
      end
  end.

Definition rb_remove_extent (st : rb) (start count : N) : rb * N :=
  match nodes st with
  | [] => (st, 0)
  | _ =>
    match rm_nodes start count (nodes st) with
    | RmDone l r f => (free_ids st f l, r)
    | RmSplit l a b =>
      let '(st', _) := rb_insert_extent (mkRB l (wc st) (rc st) (rn st) (fresh st)) a b in
      (st', 1)
    end
  end.

(* ---- rb_test_clear_bmap_extent ---- *)
Fixpoint tc_scan (start len : N) (l : list node) : bool :=
  match l with
  | [] => true
  | e :: t =>
    if nend e <=? start then tc_scan start len t
    else (start + len <=? ns e)
  end.

Definition rb_test_clear (st : rb) (start len : N) : bool :=
  if (len =? 0) then true else
  match nodes st with
  | [] => true
  | _ => match find_cont start (nodes st) with
         | Some _ => false
         | None => tc_scan start len (nodes st)
         end
  end.

(* ---- rb_find_first_zero / rb_find_first_set (repaired empty-tree case) ---- *)
Definition rb_ffz (st : rb) (a b : N) : option N :=
  match find_cont a (nodes st) with
  | Some e => if nend e <=? b then Some (nend e) else None
  | None => Some a
  end.

Fixpoint first_after (a : N) (l : list node) : option node :=
  match l with
  | [] => None
  | e :: t => if a <? ns e then Some e else first_after a t
  end.

Definition rb_ffs (st : rb) (a b : N) : option N :=
  match nodes st with
  | [] => None
  | _ =>
    match find_cont a (nodes st) with
    | Some _ => Some a
    | None => match first_after a (nodes st) with
              | Some e => if ns e <=? b then Some (ns e) else None
              | None => None
              end
    end
  end.

(* ---- rb_get_bmap_range: memset 0 then paint the extents ---- *)
Fixpoint paint (l : list node) (start : N) (out : list bool) (pos : N) : list bool :=
  match out with
  | [] => []
  | _ :: r => mem_nodes l (start + pos) :: paint l start r (pos + 1)
  end.

Definition rb_get (st : rb) (gs a n : N) : list bool :=
  paint (nodes st) (a - gs) (repeat false (N.to_nat n)) 0.

(* ---- rb_set_bmap_range: runs of set bits are inserted (byte fast paths are
   an optimisation of the same run detection); the repaired code first
   removes [start, start+num) so that zero bits in the buffer clear. ---- *)
Fixpoint set_runs (st : rb) (base : N) (bits : list bool) (i : N) (first : option N) : rb :=
  match bits with
  | [] => match first with
          | Some f => fst (rb_insert_extent st (base + f) (i - f))
          | None => st
          end
  | true :: r => set_runs st base r (i + 1) (match first with Some f => Some f | None => Some i end)
  | false :: r =>
    match first with
    | Some f => set_runs (fst (rb_insert_extent st (base + f) (i - f))) base r (i + 1) None
    | None => set_runs st base r (i + 1) None
    end
  end.

Definition rb_set (st : rb) (gs a : N) (bits : list bool) : rb :=
  let st1 := fst (rb_remove_extent st (a - gs) (N.of_nat (length bits))) in
  set_runs st1 (a - gs) bits 0 None.

Definition rb_clear (st : rb) : rb := mkRB [] None None None (fresh st).

Definition rb_copy (st : rb) : rb * rb :=
  (mkRB (nodes st) (wc st) None (rn st) (fresh st),
   mkRB (nodes st) None None None (fresh st)).

Definition RB : backend := {|
  T := rb;
  b_empty := rb_empty;
  b_mark := fun st i => let '(s, r) := rb_insert_extent st i 1 in (s, negb (r =? 0));
  b_unmark := fun st i => let '(s, r) := rb_remove_extent st i 1 in (s, negb (r =? 0));
  b_test := rb_test_bit;
  b_mark_ext := fun st a n => fst (rb_insert_extent st a n);
  b_unmark_ext := fun st a n => fst (rb_remove_extent st a n);
  b_test_clear := rb_test_clear;
  b_ffz := rb_ffz;
  b_ffs := rb_ffs;
  b_get := rb_get;
  b_set := rb_set;
  b_clear := rb_clear;
  b_copy := rb_copy;
|}.

(* Model of lib/ext2fs/blkmap64_ba.c.  The byte array is an N used as a bit
   set: bit i of the N is bit (i mod 8) of byte (i / 8), which is exactly the
   little-endian bit numbering of ext2fs_set_bit64/ext2fs_test_bit64.
   The tests byte != 0xff, word != ~0 and (mask AND byte) are expressed through
   the bits they inspect.  [al] is the address of the array modulo 8 (the
   scan loops of ba_find_first_* depend on it). *)
From E2V Require Export Bitmap.BmGen.
Local Open Scope N_scope.

Definition ba := N.

Definition tb (b : ba) (i : N) := N.testbit b i.

Fixpoint bits_from (i : N) (k : nat) : list N :=
  match k with O => [] | S k' => i :: bits_from (i + 1) k' end.

Definition all_set (b : ba) (i : N) (k : nat) := forallb (tb b) (bits_from i k).
Definition all_clr (b : ba) (i : N) (k : nat) := forallb (fun j => negb (tb b j)) (bits_from i k).

Fixpoint set_loop (b : ba) (i : N) (k : nat) : ba :=
  match k with O => b | S k' => set_loop (N.setbit b i) (i + 1) k' end.
Fixpoint clr_loop (b : ba) (i : N) (k : nat) : ba :=
  match k with O => b | S k' => clr_loop (N.clearbit b i) (i + 1) k' end.

(* ---- ba_find_first_zero / ba_find_first_set; want = the bit value searched *)
Section Find.
  Variable al : N.          (* ((uintptr_t) bitarray) & 7 *)
  Variable b : ba.
  Variable want : bool.

  Definition hit (i : N) := Bool.eqb (tb b i) want.
  (* byte at bit position i (i multiple of 8) contains no wanted bit *)
  Definition byte_skip (i : N) := forallb (fun j => negb (hit j)) (bits_from i 8).
  Definition word_skip (i : N) := forallb (fun j => negb (hit j)) (bits_from i 64).

  (* phase 1: bits until a byte boundary. returns inl found | inr (bitpos,count) *)
  Fixpoint ph1 (fuel : nat) (pos cnt : N) : N + (N * N) :=
    match fuel with
    | O => inr (pos, cnt)
    | S f =>
      if negb (pos mod 8 =? 0) && (0 <? cnt) then
        if hit pos then inl pos else ph1 f (pos + 1) (cnt - 1)
      else inr (pos, cnt)
    end.

  (* phase 2: bytes until the pointer is 8-byte aligned *)
  Fixpoint ph2 (fuel : nat) (pos cnt : N) : bool * (N * N) :=
    match fuel with
    | O => (false, (pos, cnt))
    | S f =>
      if (8 <=? cnt) && negb ((al + pos / 8) mod 8 =? 0) then
        if byte_skip pos then ph2 f (pos + 8) (cnt - 8) else (true, (pos, cnt))
      else (false, (pos, cnt))
    end.

  (* phase 3a: 8-byte words *)
  Fixpoint ph3w (i : nat) (pos : N) : nat * N :=
    match i with
    | O => (O, pos)
    | S i' => if word_skip pos then ph3w i' (pos + 64) else (i, pos)
    end.
  (* phase 3b: bytes *)
  Fixpoint ph3b (i : nat) (pos : N) : nat * N :=
    match i with
    | O => (O, pos)
    | S i' => if byte_skip pos then ph3b i' (pos + 8) else (i, pos)
    end.

  Fixpoint ph4 (cnt : nat) (pos : N) : option N :=
    match cnt with
    | O => None
    | S c => if hit pos then Some pos else ph4 c (pos + 1)
    end.

  Definition ba_find (a e : N) : option N :=
    match ph1 8 a (e + 1 - a) with
    | inl p => Some p
    | inr (pos, cnt) =>
      if cnt =? 0 then None else
      let '(found, (pos, cnt)) := ph2 8 pos cnt in
      let '(pos, cnt) :=
          if found then (pos, cnt) else
          let mw := N.to_nat (cnt / 64) in
          let '(iw, _) := ph3w mw pos in
          let adv := N.of_nat (mw - iw) in
          let cnt := cnt - 64 * adv in
          let pos := pos + 64 * adv in
          let mb := N.to_nat (cnt / 8) in
          let '(ib, _) := ph3b mb pos in
          let adv := N.of_nat (mb - ib) in
          (pos + 8 * adv, cnt - 8 * adv) in
      ph4 (N.to_nat cnt) pos
    end.
End Find.

(* ---- ba_test_clear_bmap_extent ---- *)
Definition ba_test_clear (b : ba) (start len : N) : bool :=
  let start_byte := start / 8 in
  let start_bit := start mod 8 in
  let go (start_byte len_byte len_bit : N) :=
      (* "start is the first bit in a byte" part *)
      if negb (len_bit =? 0) && negb (all_clr b (8 * (start_byte + len_byte)) (N.to_nat len_bit))
      then false
      else if negb (len_bit =? 0) && (len_byte =? 0) then true
      else all_clr b (8 * start_byte) (N.to_nat (8 * len_byte)) in
  if negb (start_bit =? 0) then
    let mark_count := if len <? 8 - start_bit then len else 8 - start_bit in
    (* first_bit covers bits start_bit .. start_bit+mark_count-1 of the byte *)
    if negb (all_clr b (8 * start_byte + start_bit) (N.to_nat mark_count)) then false
    else if len <=? 8 - start_bit then true
    else go (start_byte + 1) ((len - mark_count) / 8) ((len - mark_count) mod 8)
  else go start_byte (len / 8) (len mod 8).

(* ---- bulk get/set (repaired code): the position is taken relative to the start of the bitmap; ranges on byte
   boundaries are copied bytewise (memcpy at byte pos >> 3), all others bit by bit ---- *)
Fixpoint get_bits (b : ba) (i : N) (k : nat) : list bool :=
  match k with O => [] | S k' => tb b i :: get_bits b (i + 1) k' end.

Fixpoint put_bits (b : ba) (i : N) (bits : list bool) : ba :=
  match bits with
  | [] => b
  | x :: r => put_bits (if x then N.setbit b i else N.clearbit b i) (i + 1) r
  end.

Definition ba_get (b : ba) (gs a n : N) : list bool :=
  let pos := a - gs in
  if pos mod 8 =? 0 then get_bits b (8 * (pos / 8)) (N.to_nat n) else get_bits b pos (N.to_nat n).

(* the buffer handed to memcpy has (num+7)/8 bytes; [bits] holds all of them *)
Definition ba_set (b : ba) (gs a : N) (bits : list bool) : ba :=
  let pos := a - gs in
  if (pos mod 8 =? 0) && (N.of_nat (length bits) mod 8 =? 0) then put_bits b (8 * (pos / 8)) bits else put_bits b pos bits.

Definition BA (al : N) : backend := {|
  T := ba;
  b_empty := 0;
  b_mark := fun b i => (N.setbit b i, tb b i);
  b_unmark := fun b i => (N.clearbit b i, tb b i);
  b_test := fun b i => (b, tb b i);
  b_mark_ext := fun b a n => set_loop b a (N.to_nat n);
  b_unmark_ext := fun b a n => clr_loop b a (N.to_nat n);
  b_test_clear := ba_test_clear;
  b_ffz := fun b a e => ba_find al b false a e;
  b_ffs := fun b a e => ba_find al b true a e;
  b_get := ba_get;
  b_set := ba_set;
  b_clear := fun _ => 0;
  b_copy := fun b => (b, b);
|}.

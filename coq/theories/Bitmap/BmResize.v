(* ext2fs_resize_generic_bmap: the bitmap keeps the bits of [start, min(end, new_end)],
   everything beyond (including padding between end and real_end) is clear afterwards;
   the model expresses this with the back end's own single-bit operations, so every
   back end is compared with the reference set through the same definition.
   Operation sequences with resizes are runs over changing geometries. *)
From E2V Require Import Bitmap.BmGen.
Local Open Scope N_scope.

Fixpoint copy_bits (B : backend) (n : nat) (i : N) (src dst : T B) : T B :=
  match n with
  | O => dst
  | S k => let '(src', r) := b_test B src i in
           copy_bits B k (i + 1) src' (if r then fst (b_mark B dst i) else dst)
  end.

Definition resize_geom (g : geom) (ne nre : N) : geom := mkGeom (g_start g) ne nre (g_cbits g).

Definition resize_state (B : backend) (g : geom) (ne : N) (st : gstate B) : gstate B :=
  let keep := N.min (g_end g) ne in
  (copy_bits B (N.to_nat (keep + 1 - g_start g)) 0 (fst st) (b_empty B), None).

Inductive sop := SOp (o : op) | SResize (new_end new_real_end : N).

Fixpoint run_seg (B : backend) (g : geom) (st : gstate B) (ops : list sop) : list res :=
  match ops with
  | [] => []
  | SOp o :: r => let '(st', x) := gen_step B g st o in x :: run_seg B g st' r
  | SResize ne nre :: r => RVoid :: run_seg B (resize_geom g ne nre) (resize_state B g ne st) r
  end.

Definition run_seg0 (B : backend) (g : geom) (ops : list sop) := run_seg B g (b_empty B, None) ops.

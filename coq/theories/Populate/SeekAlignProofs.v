From E2V Require Import Populate.SeekAlign.
From Coq Require Import ZifyBool ZifyN ZifyNat.
Local Open Scope N_scope.

(* for x below 2^w and bs = 2^k (k <= w): x & ~(bs-1) within w bits = x - x mod bs *)
Lemma mask_down_spec w k x : k <= w -> x < 2 ^ w ->
  mask_down (2 ^ w) (2 ^ k) x = x - x mod 2 ^ k.
Proof.
  intros Hk Hx. unfold mask_down.
  assert (P : 2 ^ k <> 0) by (apply N.pow_nonzero; lia).
  apply N.bits_inj. intros i.
  rewrite N.land_spec, N.ldiff_spec.
  replace (2 ^ w - 1) with (N.ones w) by (rewrite N.ones_equiv, N.sub_1_r; reflexivity).
  replace (2 ^ k - 1) with (N.ones k) by (rewrite N.ones_equiv, N.sub_1_r; reflexivity).
  assert (E : x - x mod 2 ^ k = (x / 2 ^ k) * 2 ^ k).
  { pose proof (N.div_mod x (2 ^ k) P) as D. rewrite D at 1. rewrite N.add_sub. apply N.mul_comm. }
  rewrite E. rewrite <- N.shiftl_mul_pow2, <- N.shiftr_div_pow2.
  destruct (N.lt_ge_cases i k) as [Lk|Gk].
  - rewrite N.shiftl_spec_low by exact Lk. rewrite (N.ones_spec_low k i Lk). cbn [negb]. rewrite andb_false_r, andb_false_r. reflexivity.
  - rewrite N.shiftl_spec_high' by exact Gk. rewrite N.shiftr_spec'. replace (i - k + k) with i by lia.
    rewrite (N.ones_spec_high k i Gk). cbn [negb]. rewrite andb_true_r.
    destruct (N.lt_ge_cases i w) as [Lw|Gw].
    + rewrite (N.ones_spec_low w i Lw). rewrite andb_true_r. reflexivity.
    + rewrite (N.ones_spec_high w i Gw). rewrite andb_false_r.
      symmetry. destruct (N.eq_dec x 0) as [->|Nz]; [apply N.bits_0|]. apply N.bits_above_log2.
      apply N.log2_lt_pow2; [lia|]. eapply N.lt_le_trans; [exact Hx|]. apply N.pow_le_mono_r; lia.
Qed.

Lemma sub_mod_mul x b : b <> 0 -> x - x mod b = x / b * b.
Proof. intros P. pose proof (N.div_mod x b P) as D. rewrite D at 1. rewrite N.add_sub. apply N.mul_comm. Qed.

Lemma W64_pow : W64 = 2 ^ 64. Proof. reflexivity. Qed.
Lemma W32_pow : W32 = 2 ^ 32. Proof. reflexivity. Qed.

(* the widened extent is block aligned and covers every byte of [data, hole) *)
Theorem aligned_extent_covers k data hole : k <= 16 -> data <= hole -> hole + 2 ^ k < W64 ->
  let bs := 2 ^ k in
  data_blk bs data mod bs = 0 /\ hole_blk bs hole mod bs = 0 /\
  data_blk bs data <= data /\ data < data_blk bs data + bs /\
  hole <= hole_blk bs hole /\ hole_blk bs hole < hole + bs.
Proof.
  intros Hk Hd Hh. cbv zeta. unfold data_blk, hole_blk. rewrite W64_pow in *.
  assert (P : 2 ^ k <> 0) by (apply N.pow_nonzero; lia).
  assert (B1 : 1 <= 2 ^ k) by lia.
  rewrite (mask_down_spec 64 k data) by lia. rewrite (mask_down_spec 64 k (hole + (2 ^ k - 1))) by lia.
  set (bs := 2 ^ k) in *.
  pose proof (N.mod_lt data bs P). pose proof (N.mod_lt (hole + (bs - 1)) bs P).
  pose proof (N.div_mod data bs P) as D1. pose proof (N.div_mod (hole + (bs - 1)) bs P) as D2.
  assert (M1 : (data - data mod bs) mod bs = 0).
  { rewrite (sub_mod_mul data bs P). apply N.mod_mul. exact P. }
  assert (M2 : (hole + (bs - 1) - (hole + (bs - 1)) mod bs) mod bs = 0).
  { rewrite (sub_mod_mul (hole + (bs - 1)) bs P). apply N.mod_mul. exact P. }
  repeat split; try assumption; lia.
Qed.

(* with the mask computed in 32 bits (the casts dropped) a data offset at or above 4 GiB is sent back below 4 GiB *)
Theorem mask32_refuted : exists data, data < W64 /\ data_blk32 4096 data + 4096 <= data.
Proof. exists (4294967296 + 12288). vm_compute. split; [reflexivity|discriminate]. Qed.

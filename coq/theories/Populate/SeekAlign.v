(* misc/create_inode.c try_lseek_copy: a data extent [data, hole) reported by SEEK_DATA / SEEK_HOLE is widened to
   block boundaries before it is copied:
     data_blk = data & ~(off_t)(blocksize - 1);   hole_blk = (hole + blocksize - 1) & ~(off_t)(blocksize - 1);
   off_t is 64 bits wide; the cast keeps the mask 64 bits wide although fs->blocksize is a 32-bit unsigned. *)
From Coq Require Export NArith Bool Lia.
Local Open Scope N_scope.

Definition W64 : N := 18446744073709551616.
Definition W32 : N := 4294967296.

(* x & ~(bs - 1) for a power of two bs, the mask [width] bits wide (zero-extended when narrower than x) *)
Definition mask_down (width bs x : N) : N := N.land x (N.ldiff (width - 1) (bs - 1)).

Definition data_blk (bs data : N) : N := mask_down W64 bs data.
Definition hole_blk (bs hole : N) : N := mask_down W64 bs (hole + (bs - 1)).

(* the variant with the casts dropped: ~(blocksize - 1) is computed in 32 bits and zero-extended *)
Definition data_blk32 (bs data : N) : N := mask_down W32 bs data.

From E2V Require Import Populate.CopyChunk.
From Coq Require Import ZifyBool ZifyN ZifyNat.
Local Open Scope N_scope.

Lemma all_zero_nth b i : all_zero b = true -> nth i b 0 = 0.
Proof.
  revert i. induction b as [|x b IH]; intros i H; destruct i; cbn [nth]; try reflexivity;
    unfold all_zero in *; cbn [forallb] in H; apply Bool.andb_true_iff in H as [H1 H2].
  - apply N.eqb_eq in H1. symmetry. exact H1.
  - apply IH. exact H2.
Qed.

Lemma len_app a b : len (a ++ b) = len a + len b.
Proof. unfold len. rewrite app_length. lia. Qed.

(* one step keeps everything outside its piece *)
Lemma wr_outside d off b o : o < off \/ off + len b <= o -> wr d off b o = d o.
Proof. intros H. unfold wr. replace ((off <=? o) && (o <? off + len b)) with false by lia. reflexivity. Qed.

Lemma wr_inside d off b o : off <= o < off + len b -> wr d off b o = nth (N.to_nat (o - off)) b 0.
Proof. intros H. unfold wr. replace ((off <=? o) && (o <? off + len b)) with true by lia. reflexivity. Qed.

Lemma apply_app d w1 w2 : apply_writes d (w1 ++ w2) = apply_writes (apply_writes d w1) w2.
Proof. unfold apply_writes. apply fold_left_app. Qed.

(* the loop on a list of pieces whose concatenation is the data: afterwards the range holds the data
   (given that it read zero before), everything else is unchanged *)
Lemma copy_pieces_spec : forall ps off d,
  (forall o, off <= o < off + len (concat ps) -> d o = 0) ->
  forall o, apply_writes d (copy_pieces off ps) o =
            if (off <=? o) && (o <? off + len (concat ps)) then nth (N.to_nat (o - off)) (concat ps) 0 else d o.
Proof.
  induction ps as [|p ps IH]; intros off d Hz o; cbn [copy_pieces concat].
  - unfold apply_writes. cbn [fold_left]. change (len []) with 0.
    replace ((off <=? o) && (o <? off + 0)) with false by lia. reflexivity.
  - rewrite apply_app. cbn [concat] in Hz. rewrite len_app in Hz. rewrite len_app.
    set (d1 := apply_writes d (if all_zero p then [] else [(off, p)])).
    assert (D1 : forall x, d1 x = if (off <=? x) && (x <? off + len p) then nth (N.to_nat (x - off)) p 0 else d x).
    { intros x. unfold d1. destruct (all_zero p) eqn:Z.
      - cbn. destruct ((off <=? x) && (x <? off + len p)) eqn:E; [|reflexivity].
        rewrite (all_zero_nth p _ Z). change (apply_writes d [] x) with (d x). apply Hz. lia.
      - cbn. unfold wr. cbn [fst snd]. reflexivity. }
    rewrite IH.
    + destruct ((off + len p <=? o) && (o <? off + len p + len (concat ps))) eqn:E2.
      * replace ((off <=? o) && (o <? off + (len p + len (concat ps)))) with true by lia.
        rewrite app_nth2 by (unfold len in *; lia).
        f_equal. unfold len in *. lia.
      * rewrite D1. destruct ((off <=? o) && (o <? off + len p)) eqn:E1.
        -- replace ((off <=? o) && (o <? off + (len p + len (concat ps)))) with true by lia.
           rewrite app_nth1 by (unfold len in *; lia). reflexivity.
        -- replace ((off <=? o) && (o <? off + (len p + len (concat ps)))) with false by lia. reflexivity.
    + intros x Hx. rewrite D1. replace ((off <=? x) && (x <? off + len p)) with false by lia. apply Hz. lia.
Qed.

Lemma pieces_f_concat : forall fuel n l, (0 < n)%nat -> (length l <= fuel)%nat -> concat (pieces_f fuel n l) = l.
Proof.
  induction fuel as [|f IH]; intros n l Hn Hl.
  - destruct l; [reflexivity|cbn in Hl; lia].
  - cbn [pieces_f]. destruct l as [|x l]; [reflexivity|].
    cbn [concat]. rewrite IH; [apply firstn_skipn|assumption|].
    rewrite skipn_length. cbn [length] in *. lia.
Qed.

Lemma copy_chunk_content_lemma bs start data d :
  (0 < bs)%nat -> (forall o, start <= o < start + len data -> d o = 0) ->
  forall o, apply_writes d (copy_chunk bs start data) o =
            if (start <=? o) && (o <? start + len data) then nth (N.to_nat (o - start)) data 0 else d o.
Proof.
  intros Hb Hz o. unfold copy_chunk.
  pose proof (pieces_f_concat (length data) bs data Hb (le_n _)) as C. fold (pieces bs data) in C.
  pose proof (copy_pieces_spec (pieces bs data) start d) as S. rewrite C in S. apply S. exact Hz.
Qed.

(* no write consists of zeros only: all-zero pieces stay holes *)
Lemma copy_pieces_nonzero : forall ps off w, In w (copy_pieces off ps) -> all_zero (snd w) = false.
Proof.
  induction ps as [|p ps IH]; intros off w H; cbn [copy_pieces] in H; [contradiction|].
  apply in_app_or in H as [H|H].
  - destruct (all_zero p) eqn:Z; [contradiction|]. destruct H as [<-|[]]. exact Z.
  - eapply IH. exact H.
Qed.

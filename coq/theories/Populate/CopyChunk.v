(* misc/create_inode.c copy_file_chunk: a source range is cut into pieces of at most one block;
   pieces that are all zero are skipped (they stay holes), the others are written at their offset. *)
From Coq Require Export List NArith Arith Bool Lia.
Export ListNotations.
Local Open Scope N_scope.

Definition bytes := list N.
Definition file := N -> N.            (* byte at offset; a fresh file reads zero everywhere *)

Definition len (b : bytes) : N := N.of_nat (length b).
Definition all_zero (b : bytes) : bool := forallb (N.eqb 0) b.

Definition wr (d : file) (off : N) (b : bytes) : file :=
  fun o => if (off <=? o) && (o <? off + len b) then nth (N.to_nat (o - off)) b 0 else d o.

(* cut a byte list into pieces of n (> 0) bytes, the last one possibly shorter *)
Fixpoint pieces_f (fuel : nat) (n : nat) (l : bytes) : list bytes :=
  match fuel with
  | O => []
  | S f => match l with
           | [] => []
           | _ => firstn n l :: pieces_f f n (skipn n l)
           end
  end.
Definition pieces (n : nat) (l : bytes) : list bytes := pieces_f (length l) n l.

(* the write loop: (offset, piece) pairs that reach ext2fs_file_write *)
Fixpoint copy_pieces (off : N) (ps : list bytes) : list (N * bytes) :=
  match ps with
  | [] => []
  | p :: r => (if all_zero p then [] else [(off, p)]) ++ copy_pieces (off + len p) r
  end.

Definition copy_chunk (bs : nat) (start : N) (data : bytes) : list (N * bytes) := copy_pieces start (pieces bs data).

Definition apply_writes (d : file) (ws : list (N * bytes)) : file := fold_left (fun d w => wr d (fst w) (snd w)) ws d.

(* which filesystem blocks get mapped when the range starts block aligned *)
Definition mapped_blocks (bs : nat) (start : N) (data : bytes) : list N :=
  map (fun w => fst w / N.of_nat bs) (copy_chunk bs start data).

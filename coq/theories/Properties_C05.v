(* C05 - e2fsck never alters healthy files: the directory rebuild (-D) core.  Statements only. *)
From E2V Require Import Rehash.Pack Rehash.PackProofs.
Local Open Scope N_scope.

(* copy_dir_entries copies every entry exactly once and in order, for every
   list of entries, block size and slack *)
Theorem rehash_preserves_entries : forall B slack names,
  concat (map (map fst) (pack B slack names)) = names.
Proof. exact pack_preserves_entries. Qed.
Print Assumptions rehash_preserves_entries.

(* ... and every block it writes is tiled exactly by the record lengths
   (B = blocksize - checksum tail >= 268, names of 1..255 bytes) *)
Theorem rehash_blocks_tile : forall B slack names,
  268 <= B -> 12 <= slack <= B -> Forall (fits) names -> names <> [] ->
  forall b, In b (pack B slack names) -> sum_rec b = B.
Proof. exact (fun B slack names HB HS => pack_tiles B slack HB HS names). Qed.
Print Assumptions rehash_blocks_tile.

Example ex_pack : pack 1012 202 [5; 200; 255; 255; 255; 100; 7] =
  [[(5, 16); (200, 208); (255, 264); (255, 524)]; [(255, 264); (100, 108); (7, 640)]].
Proof. vm_compute. reflexivity. Qed.

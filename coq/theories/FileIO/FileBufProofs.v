From E2V Require Import FileIO.FileBuf.
From Coq Require Import ZifyBool ZifyNat.

(* content of a byte position regardless of the file size *)
Definition raw (s : fstate) (i : nat) : nat :=
  let b := i / bs s in
  if valid s && Nat.eqb (bno s) b then buf s (i mod bs s)
  else match bmap s b with Some p => disk s p (i mod bs s) | None => 0 end.

Lemma view_raw s i : view s i = if fsize s <=? i then 0 else raw s i.
Proof. reflexivity. Qed.

Record Inv (s : fstate) : Prop := {
  i_bs : 0 < bs s;
  (* a clean valid buffer equals what the map says *)
  i_clean : valid s = true -> dirty s = false ->
            forall o, o < bs s -> buf s o = match bmap s (bno s) with Some p => disk s p o | None => 0 end;
  (* the cached physical block is the mapped one *)
  i_phys : valid s = true -> phys s = bmap s (bno s);
  (* different logical blocks never share a physical block; mapped blocks are below the allocator *)
  i_inj : forall l1 l2 p, bmap s l1 = Some p -> bmap s l2 = Some p -> l1 = l2;
  i_fresh : forall l p, bmap s l = Some p -> p < fresh s;
  (* nothing but zeros behind the end of the file *)
  i_tail : forall i, fsize s <= i -> raw s i = 0;
}.

Lemma upd_same {A} (f : nat -> A) k v : upd f k v k = v.
Proof. unfold upd. rewrite Nat.eqb_refl. reflexivity. Qed.
Lemma upd_other {A} (f : nat -> A) k v x : x <> k -> upd f k v x = f x.
Proof. intros H. unfold upd. destruct (Nat.eqb_spec x k); [contradiction|reflexivity]. Qed.

(* ---- flush ---- *)
Lemma flush_raw s : Inv s -> forall i, raw (flush s) i = raw s i.
Proof.
  intros I i. unfold flush. destruct (valid s && dirty s) eqn:VD; [|reflexivity].
  apply andb_true_iff in VD as [V D].
  pose proof (i_phys s I V) as P.
  destruct (phys s) as [p|] eqn:Ph.
  - unfold raw; cbn. rewrite V. cbn [andb].
    destruct (Nat.eqb_spec (bno s) (i / bs s)) as [E|E]; [reflexivity|].
    destruct (bmap s (i / bs s)) as [q|] eqn:M; [|reflexivity].
    destruct (Nat.eq_dec q p) as [->|Hne]; [|rewrite upd_other by assumption; reflexivity].
    exfalso. apply E. symmetry. eapply (i_inj s I); [exact M|]. rewrite <- P. reflexivity.
  - unfold raw; cbn. rewrite V. cbn [andb].
    destruct (Nat.eqb_spec (bno s) (i / bs s)) as [E|E]; [reflexivity|].
    rewrite upd_other by (intro; apply E; symmetry; assumption).
    destruct (bmap s (i / bs s)) as [q|] eqn:M; [|reflexivity].
    rewrite upd_other; [reflexivity|]. pose proof (i_fresh s I _ _ M). lia.
Qed.

Lemma flush_fields s : bs (flush s) = bs s /\ fsize (flush s) = fsize s /\ bno (flush s) = bno s /\ valid (flush s) = valid s /\
  (valid s = true -> dirty (flush s) = false) /\ buf (flush s) = buf s.
Proof. unfold flush. destruct (valid s && dirty s) eqn:VD.
  - apply andb_true_iff in VD as [V D]. destruct (phys s); cbn; repeat split; auto.
  - repeat split; auto. intros V. rewrite V in VD. cbn in VD. exact VD.
Qed.

Lemma flush_inv s : Inv s -> Inv (flush s).
Proof.
  intros I. pose proof (flush_raw s I) as R. destruct (flush_fields s) as (F1 & F2 & F3 & F4 & F5 & F6).
  unfold flush in *. destruct (valid s && dirty s) eqn:VD; [|exact I].
  apply andb_true_iff in VD as [V D]. pose proof (i_phys s I V) as P.
  destruct (phys s) as [p|] eqn:Ph; constructor; cbn in *.
  - apply (i_bs s I).
  - intros _ _ o Ho. rewrite <- P. rewrite upd_same. reflexivity.
  - intros _. exact P.
  - apply (i_inj s I).
  - apply (i_fresh s I).
  - intros i Hi. rewrite R. apply (i_tail s I). assumption.
  - apply (i_bs s I).
  - intros _ _ o Ho. rewrite !upd_same. reflexivity.
  - intros _. rewrite upd_same. reflexivity.
  - intros l1 l2 q H1 H2. unfold upd in H1, H2.
    destruct (Nat.eqb_spec l1 (bno s)) as [E1|E1]; destruct (Nat.eqb_spec l2 (bno s)) as [E2|E2]; try congruence.
    + inversion H1; subst q. pose proof (i_fresh s I _ _ H2). lia.
    + inversion H2; subst q. pose proof (i_fresh s I _ _ H1). lia.
    + eapply (i_inj s I); eassumption.
  - intros l q H. unfold upd in H. destruct (Nat.eqb_spec l (bno s)); [inversion H; lia|]. pose proof (i_fresh s I _ _ H). lia.
  - intros i Hi. rewrite R. apply (i_tail s I). assumption.
Qed.

(* ---- sync_to ---- *)
Lemma sync_raw s b : Inv s -> forall i, raw (sync_to s b) i = raw s i.
Proof.
  intros I i. unfold sync_to. destruct (Nat.eqb_spec b (bno s)) as [E|E]; [reflexivity|].
  pose proof (flush_raw s I i) as R. pose proof (flush_inv s I) as I'.
  destruct (flush_fields s) as (F1 & F2 & F3 & F4 & F5 & F6).
  rewrite <- R. unfold raw at 1; cbn. unfold raw.
  destruct (valid (flush s)) eqn:V; cbn [andb]; [|reflexivity].
  destruct (Nat.eqb_spec (bno (flush s)) (i / bs (flush s))) as [E2|E2]; [|reflexivity].
  (* the buffered block was valid and is clean after the flush: buffer = disk *)
  assert (Vs : valid s = true) by (symmetry; exact F4).
  pose proof (F5 Vs) as D.
  assert (Ho : i mod bs (flush s) < bs (flush s)) by (apply Nat.mod_upper_bound; pose proof (i_bs _ I'); lia).
  rewrite (i_clean _ I' V D _ Ho). rewrite E2. reflexivity.
Qed.

Lemma sync_inv s b : Inv s -> Inv (sync_to s b) /\ bno (sync_to s b) = b /\ bs (sync_to s b) = bs s /\ fsize (sync_to s b) = fsize s.
Proof.
  intros I. pose proof (sync_raw s b I) as R. unfold sync_to in *. destruct (Nat.eqb_spec b (bno s)) as [E|E].
  - split; [exact I|]. repeat split; auto.
  - pose proof (flush_inv s I) as I'. destruct (flush_fields s) as (F1 & F2 & F3 & F4 & F5 & F6).
    split; [|cbn; repeat split; auto].
    constructor; cbn.
    + apply (i_bs _ I').
    + discriminate.
    + discriminate.
    + apply (i_inj _ I').
    + apply (i_fresh _ I').
    + intros i Hi. specialize (R i). unfold raw in R |- *. cbn in R |- *. rewrite R.
      change (raw s i = 0). apply (i_tail s I). rewrite <- F2. exact Hi.
Qed.

(* ---- load (filling) ---- *)
Lemma load_raw s : Inv s -> forall i, raw (load s false) i = raw s i.
Proof.
  intros I i. unfold load. destruct (valid s) eqn:V; [reflexivity|].
  unfold raw; cbn. rewrite V. cbn [andb].
  destruct (Nat.eqb_spec (bno s) (i / bs s)) as [E|E]; [|reflexivity].
  rewrite E. destruct (bmap s (i / bs s)); reflexivity.
Qed.

Lemma load_inv s : Inv s -> Inv (load s false) /\ valid (load s false) = true /\ bno (load s false) = bno s /\
  bs (load s false) = bs s /\ fsize (load s false) = fsize s /\ phys (load s false) = bmap (load s false) (bno s) /\
  bmap (load s false) = bmap s /\ disk (load s false) = disk s /\ fresh (load s false) = fresh s.
Proof.
  intros I. pose proof (load_raw s I) as R. unfold load in *. destruct (valid s) eqn:V.
  - split; [exact I|]. split; [exact V|]. split; [reflexivity|]. split; [reflexivity|]. split; [reflexivity|].
    split; [apply (i_phys s I V)|]. repeat split; reflexivity.
  - split; [|cbn; repeat split; auto]. constructor; cbn.
    + apply (i_bs s I).
    + intros _ _ o Ho. destruct (bmap s (bno s)); reflexivity.
    + reflexivity.
    + apply (i_inj s I).
    + apply (i_fresh s I).
    + intros i Hi. specialize (R i). unfold raw in R |- *. cbn in R |- *. rewrite R.
      change (raw s i = 0). apply (i_tail s I). exact Hi.
Qed.

(* ---- one round of a write ---- *)
Lemma div_block b bs0 o : 0 < bs0 -> o < bs0 -> (b * bs0 + o) / bs0 = b /\ (b * bs0 + o) mod bs0 = o.
Proof.
  intros Hb Ho. split.
  - rewrite Nat.add_comm, Nat.div_add by lia. rewrite Nat.div_small by assumption. reflexivity.
  - rewrite Nat.add_comm, Nat.mod_add by lia. apply Nat.mod_small. assumption.
Qed.

Lemma pos_split i bs0 : 0 < bs0 -> i = (i / bs0) * bs0 + i mod bs0 /\ i mod bs0 < bs0.
Proof. intros H. split; [rewrite Nat.mul_comm; apply Nat.div_mod; lia|apply Nat.mod_upper_bound; lia]. Qed.

Lemma write_round_spec s b start c data : Inv s -> 0 < c -> start + c <= bs s ->
  let s' := write_round s b start c data in
  Inv s' /\ bs s' = bs s /\ fsize s' = Nat.max (fsize s) (b * bs s + start + c) /\
  forall i, raw s' i = if (b * bs s + start <=? i) && (i <? b * bs s + start + c) then data (i - (b * bs s + start)) else raw s i.
Proof.
  intros I Hc Hsc.
  destruct (sync_inv s b I) as (I0 & B0 & BS0 & FS0). pose proof (sync_raw s b I) as R0.
  set (s0 := sync_to s b) in *.
  pose proof (i_bs s I) as Hbs.
  (* the state after load, whatever dontfill is *)
  set (df := Nat.eqb c (bs s)).
  set (s1 := load s0 df).
  assert (L : bno s1 = b /\ valid s1 = true /\ phys s1 = bmap s0 b /\ bmap s1 = bmap s0 /\ disk s1 = disk s0 /\
              fresh s1 = fresh s0 /\ bs s1 = bs s /\ fsize s1 = fsize s /\
              (df = false -> forall o, o < bs s -> buf s1 o = raw s0 (b * bs s + o))).
  { unfold s1, load. destruct (valid s0) eqn:V.
    - repeat split; auto. { rewrite <- B0. apply (i_phys s0 I0 V). }
      intros _ o Ho. unfold raw. rewrite BS0. destruct (div_block b (bs s) o Hbs Ho) as [D1 D2]. rewrite D1, D2, V, B0, Nat.eqb_refl. reflexivity.
    - cbn. rewrite B0. repeat split; auto.
      intros Hdf o Ho. rewrite Hdf. unfold raw. rewrite BS0. destruct (div_block b (bs s) o Hbs Ho) as [D1 D2]. rewrite D1, D2, V. cbn [andb].
      destruct (bmap s0 b); reflexivity. }
  destruct L as (L1 & L2 & L3 & L4 & L5 & L6 & L7 & L8 & L9).
  (* when the whole block is written nothing of the old buffer survives *)
  assert (Hfull : df = true -> start = 0 /\ c = bs s).
  { unfold df. intros E. apply Nat.eqb_eq in E. lia. }
  unfold write_round. fold s0. fold df. fold s1.
  set (nb := fun o => if (start <=? o) && (o <? start + c) then data (o - start) else buf s1 o).
  (* the byte of block b at offset o after the round *)
  assert (NB : forall o, o < bs s -> nb o = if (start <=? o) && (o <? start + c) then data (o - start) else raw s (b * bs s + o)).
  { intros o Ho. unfold nb. destruct ((start <=? o) && (o <? start + c)) eqn:E; [reflexivity|].
    destruct df eqn:Hdf.
    - destruct (Hfull eq_refl) as [-> ->]. lia.
    - rewrite (L9 eq_refl o Ho). apply R0. }
  destruct (phys s1) as [p|] eqn:Ph.
  - (* already mapped *)
    cbn [fst snd]. split; [|split; [reflexivity|split; [cbn; rewrite L8; reflexivity|]]].
    + constructor; cbn.
      * exact Hbs.
      * discriminate.
      * intros _. rewrite L4. rewrite <- L3. reflexivity.
      * rewrite L4. apply (i_inj s0 I0).
      * rewrite L4, L6. apply (i_fresh s0 I0).
      * intros i Hi. unfold raw at 1; cbn [bs fsize bno valid dirty buf phys bmap disk fresh andb]. destruct (pos_split i (bs s) Hbs) as [Pi Pm].
        destruct (Nat.eqb_spec b (i / bs s)) as [E|E].
        -- rewrite NB by assumption. rewrite E, <- Pi.
           replace ((start <=? i mod bs s) && (i mod bs s <? start + c)) with false by lia.
           rewrite <- R0. apply (i_tail s0 I0). lia.
        -- rewrite L4, L5. pose proof (i_tail s0 I0 i ltac:(lia)) as T. unfold raw in T. rewrite BS0, B0 in T.
           destruct (valid s0); cbn [andb] in T; [destruct (Nat.eqb_spec b (i / bs s)); [contradiction|]|]; exact T.
    + intros i. unfold raw at 1; cbn [bs fsize bno valid dirty buf phys bmap disk fresh andb]. destruct (pos_split i (bs s) Hbs) as [Pi Pm].
      destruct (Nat.eqb_spec b (i / bs s)) as [E|E].
      * rewrite NB by assumption. rewrite E, <- Pi.
        replace ((i / bs s * bs s + start <=? i) && (i <? i / bs s * bs s + start + c)) with ((start <=? i mod bs s) && (i mod bs s <? start + c)) by lia.
        destruct ((start <=? i mod bs s) && (i mod bs s <? start + c)); [f_equal; lia|reflexivity].
      * replace ((b * bs s + start <=? i) && (i <? b * bs s + start + c)) with false by nia.
        rewrite L4, L5. rewrite <- R0. unfold raw. rewrite BS0, B0.
        destruct (valid s0); cbn [andb]; [destruct (Nat.eqb_spec b (i / bs s)); [contradiction|]|]; reflexivity.
  - (* allocate *)
    cbn [fst snd]. split; [|split; [reflexivity|split; [cbn; rewrite L8; reflexivity|]]].
    + constructor; cbn.
      * exact Hbs.
      * discriminate.
      * intros _. rewrite upd_same. reflexivity.
      * rewrite L4, L6. intros l1 l2 q H1 H2. unfold upd in H1, H2.
        destruct (Nat.eqb_spec l1 b) as [E1|E1]; destruct (Nat.eqb_spec l2 b) as [E2|E2]; try congruence.
        -- inversion H1; subst q. pose proof (i_fresh s0 I0 _ _ H2). lia.
        -- inversion H2; subst q. pose proof (i_fresh s0 I0 _ _ H1). lia.
        -- eapply (i_inj s0 I0); eassumption.
      * rewrite L4, L6. intros l q H. unfold upd in H. destruct (Nat.eqb_spec l b); [inversion H; lia|]. pose proof (i_fresh s0 I0 _ _ H). lia.
      * intros i Hi. unfold raw at 1; cbn [bs fsize bno valid dirty buf phys bmap disk fresh andb]. destruct (pos_split i (bs s) Hbs) as [Pi Pm].
        destruct (Nat.eqb_spec b (i / bs s)) as [E|E].
        -- rewrite NB by assumption. rewrite E, <- Pi.
           replace ((start <=? i mod bs s) && (i mod bs s <? start + c)) with false by lia.
           rewrite <- R0. apply (i_tail s0 I0). lia.
        -- rewrite L4, L5. rewrite upd_other by (intro; apply E; symmetry; assumption).
           pose proof (i_tail s0 I0 i ltac:(lia)) as T. unfold raw in T. rewrite BS0, B0 in T.
           destruct (valid s0); cbn [andb] in T; [destruct (Nat.eqb_spec b (i / bs s)); [contradiction|]|]; exact T.
    + intros i. unfold raw at 1; cbn [bs fsize bno valid dirty buf phys bmap disk fresh andb]. destruct (pos_split i (bs s) Hbs) as [Pi Pm].
      destruct (Nat.eqb_spec b (i / bs s)) as [E|E].
      * rewrite NB by assumption. rewrite E, <- Pi.
        replace ((i / bs s * bs s + start <=? i) && (i <? i / bs s * bs s + start + c)) with ((start <=? i mod bs s) && (i mod bs s <? start + c)) by lia.
        destruct ((start <=? i mod bs s) && (i mod bs s <? start + c)); [f_equal; lia|reflexivity].
      * replace ((b * bs s + start <=? i) && (i <? b * bs s + start + c)) with false by nia.
        rewrite L4, L5. rewrite upd_other by (intro; apply E; symmetry; assumption).
        rewrite <- R0. unfold raw. rewrite BS0, B0.
        destruct (valid s0); cbn [andb]; [destruct (Nat.eqb_spec b (i / bs s)); [contradiction|]|]; reflexivity.
Qed.

(* ---- one round of a read ---- *)
Lemma read_round_spec s b : Inv s ->
  let '(s', blk) := read_round s b in
  Inv s' /\ bs s' = bs s /\ fsize s' = fsize s /\ (forall i, raw s' i = raw s i) /\
  forall o, o < bs s -> blk o = raw s (b * bs s + o).
Proof.
  intros I. unfold read_round.
  destruct (sync_inv s b I) as (I0 & B0 & BS0 & FS0). pose proof (sync_raw s b I) as R0.
  destruct (load_inv _ I0) as (I1 & V1 & B1 & BS1 & FS1 & _).
  pose proof (load_raw _ I0) as R1.
  split; [exact I1|]. split; [congruence|]. split; [congruence|]. split; [intros i; rewrite R1; apply R0|].
  intros o Ho. rewrite <- R0, <- R1. unfold raw.
  pose proof (i_bs s I) as Hbs.
  rewrite BS1, BS0. destruct (div_block b (bs s) o Hbs Ho) as [D1 D2]. rewrite D1, D2, V1, B1, B0, Nat.eqb_refl. reflexivity.
Qed.

(* ---- set_size ---- *)
Definition tail_zeroed (s : fstate) (n : nat) : Prop :=
  forall i, n <= i -> i < (n / bs s + 1) * bs s -> n mod bs s <> 0 -> raw s i = 0.

Lemma zero_part_spec s pb n : Inv s ->
  let s1 := zero_part s pb n in
  bs s1 = bs s /\ fsize s1 = fsize s /\
  (forall i, raw s1 i = if (n <=? i) && (i <? (n / bs s + 1) * bs s) && negb (n mod bs s =? 0) then 0 else raw s i) /\
  (* everything of the invariant except the tail clause, which is restated for the old size *)
  (valid s1 = true -> dirty s1 = false -> forall o, o < bs s1 -> buf s1 o = match bmap s1 (bno s1) with Some p => disk s1 p o | None => 0 end) /\
  (valid s1 = true -> phys s1 = bmap s1 (bno s1)) /\
  (forall l1 l2 p, bmap s1 l1 = Some p -> bmap s1 l2 = Some p -> l1 = l2) /\
  (forall l p, bmap s1 l = Some p -> p < fresh s1).
Proof.
  intros I. pose proof (i_bs s I) as Hbs. unfold zero_part.
  destruct (Nat.eqb_spec (n mod bs s) 0) as [Z|Z].
  - cbn zeta. split; [reflexivity|]. split; [reflexivity|]. split.
    + intros i. rewrite Bool.andb_false_r. reflexivity.
    + split; [apply (i_clean s I)|]. split; [apply (i_phys s I)|]. split; [apply (i_inj s I)|apply (i_fresh s I)].
  - destruct (sync_inv s pb I) as (I0 & B0 & BS0 & FS0). pose proof (sync_raw s pb I) as R0.
    set (s0 := sync_to s pb) in *. cbn zeta.
    set (b := n / bs s). set (off := n mod bs s) in *.
    split; [exact BS0|]. split; [exact FS0|].
    assert (RAW : forall i, raw (mkF (bs s0) (fsize s0) (bno s0) (valid s0) (dirty s0)
                                   (if valid s0 && Nat.eqb (bno s0) b then zero_tail (buf s0) off else buf s0) (phys s0) (bmap s0)
                                   (match bmap s0 b with Some p => upd (disk s0) p (zero_tail (disk s0 p) off) | None => disk s0 end) (fresh s0)) i =
                          if (n <=? i) && (i <? (b + 1) * bs s) then 0 else raw s i).
    { intros i. rewrite <- R0. unfold raw. cbn [bs fsize bno valid dirty buf phys bmap disk fresh]. rewrite BS0.
      destruct (pos_split i (bs s) Hbs) as [Pi Pm]. destruct (pos_split n (bs s) Hbs) as [Pn Pnm]. fold b off in Pn, Pnm.
      destruct (Nat.eq_dec (i / bs s) b) as [Eb|Eb].
      - (* the block that holds the new end *)
        rewrite Eb. replace ((n <=? i) && (i <? (b + 1) * bs s)) with (off <=? i mod bs s) by nia.
        destruct (valid s0 && Nat.eqb (bno s0) b) eqn:VB.
        + unfold zero_tail. destruct (off <=? i mod bs s); reflexivity.
        + destruct (bmap s0 b) as [p|] eqn:M.
          * rewrite upd_same. unfold zero_tail. destruct (off <=? i mod bs s); reflexivity.
          * destruct (off <=? i mod bs s); reflexivity.
      - replace ((n <=? i) && (i <? (b + 1) * bs s)) with false by nia.
        destruct (valid s0 && Nat.eqb (bno s0) (i / bs s)) eqn:VB.
        + apply andb_true_iff in VB as [V E]. apply Nat.eqb_eq in E.
          replace (Nat.eqb (bno s0) b) with false by (symmetry; apply Nat.eqb_neq; congruence).
          rewrite Bool.andb_false_r. reflexivity.
        + destruct (bmap s0 (i / bs s)) as [q|] eqn:Mq; [|reflexivity].
          destruct (bmap s0 b) as [p|] eqn:M; [|reflexivity].
          rewrite upd_other; [reflexivity|]. intros ->. apply Eb. eapply (i_inj s0 I0); eassumption. }
    split.
    { intros i. rewrite RAW. fold b off. replace (negb (off =? 0)) with true by (symmetry; apply negb_true_iff, Nat.eqb_neq; exact Z).
      rewrite Bool.andb_true_r. reflexivity. }
    cbn [bs fsize bno valid dirty buf phys bmap disk fresh].
    split.
    { intros V D o Ho. destruct (Nat.eqb_spec (bno s0) b) as [E|E].
      - rewrite V. cbn [andb]. rewrite E. pose proof (i_clean s0 I0 V D o Ho) as C. rewrite E in C.
        destruct (bmap s0 b) as [p|] eqn:M.
        + rewrite upd_same. unfold zero_tail. rewrite C. reflexivity.
        + unfold zero_tail. rewrite C. destruct (off <=? o); reflexivity.
      - rewrite Bool.andb_false_r. pose proof (i_clean s0 I0 V D o Ho) as C. rewrite C.
        destruct (bmap s0 (bno s0)) as [q|] eqn:Mq; [|reflexivity].
        destruct (bmap s0 b) as [p|] eqn:M; [|reflexivity].
        rewrite upd_other; [reflexivity|]. intros ->. apply E. eapply (i_inj s0 I0); eassumption. }
    split; [apply (i_phys s0 I0)|]. split; [apply (i_inj s0 I0)|apply (i_fresh s0 I0)].
Qed.

Lemma ceil_block n bs0 : 0 < bs0 -> let tb := (n + bs0 - 1) / bs0 in (tb * bs0 >= n) /\ (n mod bs0 = 0 -> tb = n / bs0) /\ (n mod bs0 <> 0 -> tb = n / bs0 + 1).
Proof.
  intros Hb tb. unfold tb. destruct (pos_split n bs0 Hb) as [Pn Pm].
  set (q := n / bs0) in *. set (r := n mod bs0) in *.
  destruct (Nat.eq_dec r 0) as [Z|Z].
  - assert (E : (n + bs0 - 1) / bs0 = q).
    { rewrite Pn, Z. replace (q * bs0 + 0 + bs0 - 1) with (bs0 - 1 + q * bs0) by lia. rewrite Nat.div_add by lia. rewrite Nat.div_small by lia. lia. }
    rewrite E. split; [lia|]. split; [reflexivity|contradiction].
  - assert (E : (n + bs0 - 1) / bs0 = q + 1).
    { rewrite Pn. replace (q * bs0 + r + bs0 - 1) with ((r - 1) + (q + 1) * bs0) by lia. rewrite Nat.div_add by lia. rewrite Nat.div_small by lia. lia. }
    rewrite E. split; [nia|]. split; [contradiction|reflexivity].
Qed.

Lemma set_size_spec s pb n : Inv s ->
  let s' := set_size s pb n in
  Inv s' /\ bs s' = bs s /\ fsize s' = n /\ forall i, raw s' i = if i <? n then raw s i else 0.
Proof.
  intros I. pose proof (i_bs s I) as Hbs. unfold set_size.
  destruct (zero_part_spec s pb n I) as (Z1 & Z2 & RAW1 & CL1 & PH1 & INJ1 & FR1).
  set (s1 := zero_part s pb n) in *.
  unfold trunc_part. rewrite Z1.
  set (tb := (n + bs s - 1) / bs s). set (otb := (fsize s + bs s - 1) / bs s).
  destruct (ceil_block n (bs s) Hbs) as (T1 & T2 & T3). fold tb in T1, T2, T3.
  destruct (ceil_block (fsize s) (bs s) Hbs) as (O1 & _ & _). fold otb in O1.
  destruct (pos_split n (bs s) Hbs) as [Pn Pnm].
  (* the bytes after the zeroing, relative to the old state *)
  assert (R1 : forall i, i < n -> raw s1 i = raw s i).
  { intros i Hi. rewrite RAW1. replace (n <=? i) with false by lia. reflexivity. }
  assert (R2 : forall i, n <= i -> i < tb * bs s -> raw s1 i = 0).
  { intros i H1 H2. rewrite RAW1. destruct (Nat.eq_dec (n mod bs s) 0) as [Z|Z].
    - rewrite (T2 Z) in H2. nia.
    - rewrite (T3 Z) in H2. replace ((n <=? i) && (i <? (n / bs s + 1) * bs s) && negb (n mod bs s =? 0)) with true by lia. reflexivity. }
  destruct (tb <? otb) eqn:SH.
  - (* blocks go away *)
    assert (RAW : forall i, raw (mkF (bs s) n (bno s1) (if tb <=? bno s1 then false else valid s1) (if tb <=? bno s1 then false else dirty s1)
                                    (buf s1) (if tb <=? bno s1 then None else phys s1) (fun l => if tb <=? l then None else bmap s1 l) (disk s1) (fresh s1)) i =
                             if i <? n then raw s i else 0).
    { intros i. unfold raw at 1. cbn [bs fsize bno valid dirty buf phys bmap disk fresh].
      destruct (pos_split i (bs s) Hbs) as [Pi Pm].
      destruct (Nat.leb_spec tb (i / bs s)) as [G|G].
      - replace (i <? n) with false by nia.
        destruct (Nat.leb_spec tb (bno s1)); cbn [andb]; [reflexivity|].
        destruct (valid s1); cbn [andb]; [|reflexivity]. destruct (Nat.eqb_spec (bno s1) (i / bs s)); [lia|reflexivity].
      - assert (Hi : i < tb * bs s) by nia.
        assert (E : raw s1 i = (if (if tb <=? bno s1 then false else valid s1) && Nat.eqb (bno s1) (i / bs s) then buf s1 (i mod bs s)
                               else match bmap s1 (i / bs s) with Some p => disk s1 p (i mod bs s) | None => 0 end)).
        { unfold raw. rewrite Z1. destruct (Nat.leb_spec tb (bno s1)) as [G2|G2]; [|reflexivity].
          destruct (Nat.eqb_spec (bno s1) (i / bs s)); [lia|]. rewrite Bool.andb_false_r. reflexivity. }
        rewrite <- E. destruct (Nat.ltb_spec i n) as [L|L]; [apply R1; assumption|apply R2; assumption]. }
    split; [|split; [reflexivity|split; [reflexivity|exact RAW]]].
    constructor; cbn [bs fsize bno valid dirty buf phys bmap disk fresh].
    + exact Hbs.
    + destruct (Nat.leb_spec tb (bno s1)) as [G|G]; [discriminate|]. intros V D o Ho. rewrite <- Z1 in Ho. apply (CL1 V D o Ho).
    + destruct (Nat.leb_spec tb (bno s1)) as [G|G]; [discriminate|]. exact PH1.
    + intros l1 l2 p H1 H2. destruct (tb <=? l1); [discriminate|]. destruct (tb <=? l2); [discriminate|]. eapply INJ1; eassumption.
    + intros l p H. destruct (tb <=? l); [discriminate|]. eapply FR1; eassumption.
    + intros i Hi. rewrite RAW. replace (i <? n) with false by lia. reflexivity.
  - (* no block goes away: growth, or a new end inside the same last block *)
    assert (RAW : forall i, raw (mkF (bs s) n (bno s1) (valid s1) (dirty s1) (buf s1) (phys s1) (bmap s1) (disk s1) (fresh s1)) i =
                             if i <? n then raw s i else 0).
    { intros i. assert (E : raw (mkF (bs s) n (bno s1) (valid s1) (dirty s1) (buf s1) (phys s1) (bmap s1) (disk s1) (fresh s1)) i = raw s1 i)
        by (unfold raw; cbn [bs fsize bno valid dirty buf phys bmap disk fresh]; rewrite Z1; reflexivity).
      rewrite E. destruct (Nat.ltb_spec i n) as [L|L]; [apply R1; assumption|].
      destruct (Nat.lt_ge_cases i (tb * bs s)) as [H|H]; [apply R2; assumption|].
      rewrite RAW1. replace ((n <=? i) && (i <? (n / bs s + 1) * bs s) && negb (n mod bs s =? 0)) with false.
      + apply (i_tail s I). nia.
      + destruct (Nat.eq_dec (n mod bs s) 0) as [Z|Z]; [replace (n mod bs s =? 0) with true by lia; rewrite Bool.andb_false_r; reflexivity|].
        rewrite (T3 Z) in H. replace (i <? (n / bs s + 1) * bs s) with false by lia. rewrite Bool.andb_false_r. reflexivity. }
    split; [|split; [reflexivity|split; [reflexivity|exact RAW]]].
    constructor; cbn [bs fsize bno valid dirty buf phys bmap disk fresh].
    + exact Hbs.
    + intros V D o Ho. rewrite <- Z1 in Ho. apply (CL1 V D o Ho).
    + exact PH1.
    + exact INJ1.
    + exact FR1.
    + intros i Hi. rewrite RAW. replace (i <? n) with false by lia. reflexivity.
Qed.

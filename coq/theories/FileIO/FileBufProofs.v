From E2V Require Import FileIO.FileBuf.
From Coq Require Import ZifyBool ZifyNat.

(* content of a byte position regardless of the file size *)
Definition raw (s : fst) (i : nat) : nat :=
  let b := i / bs s in
  if valid s && Nat.eqb (bno s) b then buf s (i mod bs s)
  else match bmap s b with Some p => disk s p (i mod bs s) | None => 0 end.

Lemma view_raw s i : view s i = if fsize s <=? i then 0 else raw s i.
Proof. reflexivity. Qed.

Record Inv (s : fst) : Prop := {
  i_bs : 0 < bs s;
  (* a clean valid buffer equals what the map says *)
  i_clean : valid s = true -> dirty s = false ->
            forall o, o < bs s -> buf s o = match bmap s (bno s) with Some p => disk s p o | None => 0 end;
  (* the cached physical block is the mapped one *)
  i_phys : valid s = true -> phys s = bmap s (bno s);
  (* different logical blocks never share a physical block; mapped blocks are below the allocator *)
  i_inj : forall l1 l2 p, bmap s l1 = Some p -> bmap s l2 = Some p -> l1 = l2;
  i_fresh : forall l p, bmap s l = Some p -> p < fresh s;
  (* nothing but zeros behind the end of the file *)
  i_tail : forall i, fsize s <= i -> raw s i = 0;
}.

Lemma upd_same {A} (f : nat -> A) k v : upd f k v k = v.
Proof. unfold upd. rewrite Nat.eqb_refl. reflexivity. Qed.
Lemma upd_other {A} (f : nat -> A) k v x : x <> k -> upd f k v x = f x.
Proof. intros H. unfold upd. destruct (Nat.eqb_spec x k); [contradiction|reflexivity]. Qed.

(* ---- flush ---- *)
Lemma flush_raw s : Inv s -> forall i, raw (flush s) i = raw s i.
Proof.
  intros I i. unfold flush. destruct (valid s && dirty s) eqn:VD; [|reflexivity].
  apply andb_true_iff in VD as [V D].
  pose proof (i_phys s I V) as P.
  destruct (phys s) as [p|] eqn:Ph.
  - unfold raw; cbn. rewrite V. cbn [andb].
    destruct (Nat.eqb_spec (bno s) (i / bs s)) as [E|E]; [reflexivity|].
    destruct (bmap s (i / bs s)) as [q|] eqn:M; [|reflexivity].
    destruct (Nat.eq_dec q p) as [->|Hne]; [|rewrite upd_other by assumption; reflexivity].
    exfalso. apply E. symmetry. eapply (i_inj s I); [exact M|]. rewrite <- P. reflexivity.
  - unfold raw; cbn. rewrite V. cbn [andb].
    destruct (Nat.eqb_spec (bno s) (i / bs s)) as [E|E]; [reflexivity|].
    rewrite upd_other by (intro; apply E; symmetry; assumption).
    destruct (bmap s (i / bs s)) as [q|] eqn:M; [|reflexivity].
    rewrite upd_other; [reflexivity|]. pose proof (i_fresh s I _ _ M). lia.
Qed.

Lemma flush_fields s : bs (flush s) = bs s /\ fsize (flush s) = fsize s /\ bno (flush s) = bno s /\ valid (flush s) = valid s /\
  (valid s = true -> dirty (flush s) = false) /\ buf (flush s) = buf s.
Proof. unfold flush. destruct (valid s && dirty s) eqn:VD.
  - apply andb_true_iff in VD as [V D]. destruct (phys s); cbn; repeat split; auto.
  - repeat split; auto. intros V. rewrite V in VD. cbn in VD. exact VD.
Qed.

Lemma flush_inv s : Inv s -> Inv (flush s).
Proof.
  intros I. pose proof (flush_raw s I) as R. destruct (flush_fields s) as (F1 & F2 & F3 & F4 & F5 & F6).
  unfold flush in *. destruct (valid s && dirty s) eqn:VD; [|exact I].
  apply andb_true_iff in VD as [V D]. pose proof (i_phys s I V) as P.
  destruct (phys s) as [p|] eqn:Ph; constructor; cbn in *.
  - apply (i_bs s I).
  - intros _ _ o Ho. rewrite <- P. rewrite upd_same. reflexivity.
  - intros _. exact P.
  - apply (i_inj s I).
  - apply (i_fresh s I).
  - intros i Hi. rewrite R. apply (i_tail s I). assumption.
  - apply (i_bs s I).
  - intros _ _ o Ho. rewrite !upd_same. reflexivity.
  - intros _. rewrite upd_same. reflexivity.
  - intros l1 l2 q H1 H2. unfold upd in H1, H2.
    destruct (Nat.eqb_spec l1 (bno s)) as [E1|E1]; destruct (Nat.eqb_spec l2 (bno s)) as [E2|E2]; try congruence.
    + inversion H1; subst q. pose proof (i_fresh s I _ _ H2). lia.
    + inversion H2; subst q. pose proof (i_fresh s I _ _ H1). lia.
    + eapply (i_inj s I); eassumption.
  - intros l q H. unfold upd in H. destruct (Nat.eqb_spec l (bno s)); [inversion H; lia|]. pose proof (i_fresh s I _ _ H). lia.
  - intros i Hi. rewrite R. apply (i_tail s I). assumption.
Qed.

(* ---- sync_to ---- *)
Lemma sync_raw s b : Inv s -> forall i, raw (sync_to s b) i = raw s i.
Proof.
  intros I i. unfold sync_to. destruct (Nat.eqb_spec b (bno s)) as [E|E]; [reflexivity|].
  pose proof (flush_raw s I i) as R. pose proof (flush_inv s I) as I'.
  destruct (flush_fields s) as (F1 & F2 & F3 & F4 & F5 & F6).
  rewrite <- R. unfold raw at 1; cbn. unfold raw.
  destruct (valid (flush s)) eqn:V; cbn [andb]; [|reflexivity].
  destruct (Nat.eqb_spec (bno (flush s)) (i / bs (flush s))) as [E2|E2]; [|reflexivity].
  (* the buffered block was valid and is clean after the flush: buffer = disk *)
  assert (Vs : valid s = true) by (symmetry; exact F4).
  pose proof (F5 Vs) as D.
  assert (Ho : i mod bs (flush s) < bs (flush s)) by (apply Nat.mod_upper_bound; pose proof (i_bs _ I'); lia).
  rewrite (i_clean _ I' V D _ Ho). rewrite E2. reflexivity.
Qed.

Lemma sync_inv s b : Inv s -> Inv (sync_to s b) /\ bno (sync_to s b) = b /\ bs (sync_to s b) = bs s /\ fsize (sync_to s b) = fsize s.
Proof.
  intros I. pose proof (sync_raw s b I) as R. unfold sync_to in *. destruct (Nat.eqb_spec b (bno s)) as [E|E].
  - split; [exact I|]. repeat split; auto.
  - pose proof (flush_inv s I) as I'. destruct (flush_fields s) as (F1 & F2 & F3 & F4 & F5 & F6).
    split; [|cbn; repeat split; auto].
    constructor; cbn.
    + apply (i_bs _ I').
    + discriminate.
    + discriminate.
    + apply (i_inj _ I').
    + apply (i_fresh _ I').
    + intros i Hi. specialize (R i). unfold raw in R |- *. cbn in R |- *. rewrite R.
      change (raw s i = 0). apply (i_tail s I). rewrite <- F2. exact Hi.
Qed.

(* ---- load (filling) ---- *)
Lemma load_raw s : Inv s -> forall i, raw (load s false) i = raw s i.
Proof.
  intros I i. unfold load. destruct (valid s) eqn:V; [reflexivity|].
  unfold raw; cbn. rewrite V. cbn [andb].
  destruct (Nat.eqb_spec (bno s) (i / bs s)) as [E|E]; [|reflexivity].
  rewrite E. destruct (bmap s (i / bs s)); reflexivity.
Qed.

Lemma load_inv s : Inv s -> Inv (load s false) /\ valid (load s false) = true /\ bno (load s false) = bno s /\
  bs (load s false) = bs s /\ fsize (load s false) = fsize s /\ phys (load s false) = bmap (load s false) (bno s) /\
  bmap (load s false) = bmap s /\ disk (load s false) = disk s /\ fresh (load s false) = fresh s.
Proof.
  intros I. pose proof (load_raw s I) as R. unfold load in *. destruct (valid s) eqn:V.
  - split; [exact I|]. split; [exact V|]. split; [reflexivity|]. split; [reflexivity|]. split; [reflexivity|].
    split; [apply (i_phys s I V)|]. repeat split; reflexivity.
  - split; [|cbn; repeat split; auto]. constructor; cbn.
    + apply (i_bs s I).
    + intros _ _ o Ho. destruct (bmap s (bno s)); reflexivity.
    + reflexivity.
    + apply (i_inj s I).
    + apply (i_fresh s I).
    + intros i Hi. specialize (R i). unfold raw in R |- *. cbn in R |- *. rewrite R.
      change (raw s i = 0). apply (i_tail s I). exact Hi.
Qed.

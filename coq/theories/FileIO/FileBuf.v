(* lib/ext2fs/fileio.c: the one-block buffer of an ext2_file_t (repaired code), at the level of one
   per-block round of ext2fs_file_write / ext2fs_file_read and of ext2fs_file_set_size2.
   Bytes are functions offset -> value; physical blocks are numbers handed out by a fresh counter. *)
From Coq Require Export List Arith Bool Lia.
Export ListNotations.

Definition block := nat -> nat.                 (* offset inside the block -> byte *)
Definition zero_block : block := fun _ => 0.

Record fstate := mkF {
  bs : nat;
  fsize : nat;
  bno : nat; valid : bool; dirty : bool; buf : block;
  phys : option nat;                            (* file->physblock of the buffered block, None = 0 *)
  bmap : nat -> option nat;                     (* logical block -> physical block *)
  disk : nat -> block;                          (* physical block -> content *)
  fresh : nat;                                  (* allocator: next unused physical block *)
}.

Definition upd {A} (f : nat -> A) (k : nat) (v : A) : nat -> A := fun x => if Nat.eqb x k then v else f x.

(* ext2fs_file_flush *)
Definition flush (s : fstate) : fstate :=
  if valid s && dirty s then
    match phys s with
    | Some p => mkF (bs s) (fsize s) (bno s) true false (buf s) (Some p) (bmap s) (upd (disk s) p (buf s)) (fresh s)
    | None =>   (* allocate now *)
      let p := fresh s in
      mkF (bs s) (fsize s) (bno s) true false (buf s) (Some p) (upd (bmap s) (bno s) (Some p)) (upd (disk s) p (buf s)) (S p)
    end
  else s.

(* sync_buffer_position for a position inside block b *)
Definition sync_to (s : fstate) (b : nat) : fstate :=
  if Nat.eqb b (bno s) then s
  else let s' := flush s in mkF (bs s') (fsize s') b false (dirty s') (buf s') (phys s') (bmap s') (disk s') (fresh s').

(* load_buffer *)
Definition load (s : fstate) (dontfill : bool) : fstate :=
  if valid s then s
  else
    let p := bmap s (bno s) in
    let b := if dontfill then buf s else match p with Some q => disk s q | None => zero_block end in
    mkF (bs s) (fsize s) (bno s) true false b p (bmap s) (disk s) (fresh s).

(* one round of ext2fs_file_write: [data] (offset -> byte) of length c at offset [start] of block b, start + c <= bs *)
Definition write_round (s : fstate) (b start c : nat) (data : nat -> nat) : fstate :=
  let s1 := load (sync_to s b) (Nat.eqb c (bs s)) in
  let nb := fun o => if (start <=? o) && (o <? start + c) then data (o - start) else buf s1 o in
  (* the block is allocated at write time when it has no physical block yet *)
  let '(ph, mp, fr) := match phys s1 with
                       | Some p => (Some p, bmap s1, fresh s1)
                       | None => (Some (fresh s1), upd (bmap s1) b (Some (fresh s1)), S (fresh s1))
                       end in
  let endpos := b * bs s + start + c in
  mkF (bs s) (Nat.max (fsize s1) endpos) b true true nb ph mp (disk s1) fr.

(* one round of ext2fs_file_read: the bytes of block b as the caller sees them *)
Definition read_round (s : fstate) (b : nat) : fstate * block :=
  let s1 := load (sync_to s b) false in (s1, buf s1).

(* ext2fs_file_set_size2 (with ext2fs_file_zero_past_offset and the punch of everything behind) *)
Definition zero_tail (blk : block) (off : nat) : block := fun o => if off <=? o then 0 else blk o.

(* ext2fs_file_zero_past_offset (repaired: also clears the tail in the buffer) *)
Definition zero_part (s : fstate) (posblock n : nat) : fstate :=
  let off := n mod bs s in
  if Nat.eqb off 0 then s else
  let s0 := sync_to s posblock in
  let b := n / bs s in
  let bf := if valid s0 && Nat.eqb (bno s0) b then zero_tail (buf s0) off else buf s0 in
  let dk := match bmap s0 b with Some p => upd (disk s0) p (zero_tail (disk s0 p) off) | None => disk s0 end in
  mkF (bs s0) (fsize s0) (bno s0) (valid s0) (dirty s0) bf (phys s0) (bmap s0) dk (fresh s0).

(* the size change itself and the punch of every block behind the new end (repaired: a buffered block that
   goes away is dropped together with its cached physical block) *)
Definition trunc_part (s1 : fstate) (old_size n : nat) : fstate :=
  let tb := (n + bs s1 - 1) / bs s1 in
  let old_tb := (old_size + bs s1 - 1) / bs s1 in
  if tb <? old_tb then
    let drop := tb <=? bno s1 in
    mkF (bs s1) n (bno s1) (if drop then false else valid s1) (if drop then false else dirty s1) (buf s1)
        (if drop then None else phys s1) (fun l => if tb <=? l then None else bmap s1 l) (disk s1) (fresh s1)
  else mkF (bs s1) n (bno s1) (valid s1) (dirty s1) (buf s1) (phys s1) (bmap s1) (disk s1) (fresh s1).

Definition set_size (s : fstate) (posblock : nat) (n : nat) : fstate :=
  trunc_part (zero_part s posblock n) (fsize s) n.

(* what a reader of the file sees: the buffered block through the buffer, every other block through the map *)
Definition view (s : fstate) (i : nat) : nat :=
  if fsize s <=? i then 0 else
  let b := i / bs s in
  if valid s && Nat.eqb (bno s) b then buf s (i mod bs s)
  else match bmap s b with Some p => disk s p (i mod bs s) | None => 0 end.

(* ---- whole operations, as sequences of rounds (used by the correspondence check) ---- *)
Definition finit (blocksize : nat) : fstate := mkF blocksize 0 0 false false zero_block None (fun _ => None) (fun _ => zero_block) 1.

Fixpoint write_op (fuel : nat) (s : fstate) (pos : nat) (data : list nat) : fstate :=
  match fuel, data with
  | O, _ => s
  | _, [] => s
  | S f, _ =>
    let b := pos / bs s in
    let start := pos mod bs s in
    let c := Nat.min (bs s - start) (length data) in
    write_op f (write_round s b start c (fun o => nth o data 0)) (pos + c) (skipn c data)
  end.

Definition punch_op (s : fstate) (a b : nat) : fstate :=
  let s1 := flush s in
  mkF (bs s1) (fsize s1) (bno s1) false false (buf s1) None (fun l => if (a <=? l) && (l <=? b) then None else bmap s1 l) (disk s1) (fresh s1).

Inductive bop := BWrite (pos : nat) (data : list nat) | BSetSize (curpos n : nat) | BPunch (a b : nat) | BFlush | BReopen.

Definition bstep (s : fstate) (o : bop) : fstate :=
  match o with
  | BWrite pos data => write_op (length data + 1) s pos data
  | BSetSize curpos n => set_size s (curpos / bs s) n
  | BPunch a b => punch_op s a b
  | BFlush => flush s
  | BReopen => let s1 := flush s in mkF (bs s1) (fsize s1) 0 false false (buf s1) None (bmap s1) (disk s1) (fresh s1)
  end.

(* which logical blocks below [n] are mapped, and the file content, after the final flush *)
Definition mapped_blocks (s : fstate) (n : nat) : list nat :=
  filter (fun l => match bmap (flush s) l with Some _ => true | None => false end) (seq 0 n).
Definition content (s : fstate) : list nat := map (view (flush s)) (seq 0 (fsize s)).

(* the code as pinned kept the buffer and its cached physical block across a truncation *)
Definition trunc_part_unrepaired (s1 : fstate) (old_size n : nat) : fstate :=
  let tb := (n + bs s1 - 1) / bs s1 in
  let old_tb := (old_size + bs s1 - 1) / bs s1 in
  if tb <? old_tb then
    mkF (bs s1) n (bno s1) (valid s1) (dirty s1) (buf s1) (phys s1) (fun l => if tb <=? l then None else bmap s1 l) (disk s1) (fresh s1)
  else mkF (bs s1) n (bno s1) (valid s1) (dirty s1) (buf s1) (phys s1) (bmap s1) (disk s1) (fresh s1).

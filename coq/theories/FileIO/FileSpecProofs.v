From E2V Require Import FileIO.FileSpec.

Lemma zeros_length n : length (zeros n) = n.
Proof. apply repeat_length. Qed.

Lemma nth_zeros n i : nth i (zeros n) 0 = 0.
Proof. unfold zeros. revert i. induction n as [|n IH]; intros [|i]; cbn; auto. Qed.

Lemma nth_firstn_lt {A} (l : list A) n i d : i < n -> nth i (firstn n l) d = nth i l d.
Proof.
  revert n i. induction l as [|x l IH]; intros [|n] [|i] H; cbn; try reflexivity; try lia.
  apply IH. lia.
Qed.

Lemma nth_skipn_add {A} (l : list A) n i d : nth i (skipn n l) d = nth (n + i) l d.
Proof. revert l. induction n as [|n IH]; intros [|x l]; cbn; try reflexivity; [destruct i; reflexivity|apply IH]. Qed.

Lemma write_length l pos data : data <> [] -> length (f_write l pos data) = Nat.max (length l) (pos + length data).
Proof.
  intros H. unfold f_write. destruct data as [|d ds]; [contradiction|].
  rewrite !app_length, firstn_length, app_length, zeros_length, skipn_length. cbn [length]. lia.
Qed.

(* after a write: the written range holds the data, everything else is what it was (zeros in a gap) *)
Lemma write_nth l pos data i : data <> [] ->
  nth i (f_write l pos data) 0 =
  if i <? pos then nth i l 0
  else if i <? pos + length data then nth (i - pos) data 0
  else nth i l 0.
Proof.
  intros H. unfold f_write. destruct data as [|d ds]; [contradiction|]. set (data := d :: ds) in *.
  assert (L1 : length (firstn pos (l ++ zeros (pos - length l))) = pos).
  { rewrite firstn_length, app_length, zeros_length. lia. }
  destruct (Nat.ltb_spec i pos) as [A|A].
  - rewrite app_nth1 by lia. rewrite nth_firstn_lt by assumption.
    destruct (Nat.lt_ge_cases i (length l)) as [B|B].
    + rewrite app_nth1 by assumption. reflexivity.
    + rewrite app_nth2 by assumption. rewrite nth_zeros. rewrite nth_overflow by assumption. reflexivity.
  - rewrite app_nth2 by lia. rewrite L1.
    destruct (Nat.ltb_spec i (pos + length data)) as [B|B].
    + rewrite app_nth1 by lia. reflexivity.
    + rewrite app_nth2 by lia. rewrite nth_skipn_add. f_equal. lia.
Qed.

Lemma read_after_write_lemma l pos data : f_read (f_write l pos data) pos (length data) = data.
Proof.
  destruct data as [|d ds]; [unfold f_read; reflexivity|]. set (data := d :: ds).
  assert (H : data <> []) by discriminate.
  apply nth_ext with (d := 0) (d' := 0).
  - unfold f_read. rewrite firstn_length, skipn_length, write_length by assumption. lia.
  - intros i Hi. unfold f_read in *. rewrite firstn_length, skipn_length, write_length in Hi by assumption.
    rewrite nth_firstn_lt by lia. rewrite nth_skipn_add. rewrite write_nth by assumption.
    replace (pos + i <? pos) with false by (symmetry; apply Nat.ltb_ge; lia).
    replace (pos + i <? pos + length data) with true by (symmetry; apply Nat.ltb_lt; lia).
    f_equal. lia.
Qed.

Lemma set_size_length l s : length (f_set_size l s) = s.
Proof. unfold f_set_size. rewrite app_length, firstn_length, zeros_length. pose proof (Nat.min_spec s (length l)). lia. Qed.

Lemma set_size_nth l s i : nth i (f_set_size l s) 0 = if (i <? s) && (i <? length l) then nth i l 0 else 0.
Proof.
  unfold f_set_size. destruct (Nat.ltb_spec i s) as [A|A]; cbn [andb].
  - destruct (Nat.ltb_spec i (length l)) as [B|B].
    + rewrite app_nth1 by (rewrite firstn_length; lia). apply nth_firstn_lt. assumption.
    + rewrite app_nth2 by (rewrite firstn_length; lia). apply nth_zeros.
  - apply nth_overflow. rewrite app_length, firstn_length, zeros_length. lia.
Qed.

Lemma punch_length l bs a b : a <= b -> length (f_punch l bs a b) = length l.
Proof.
  intros Hab. unfold f_punch. rewrite !app_length, firstn_length, zeros_length, skipn_length.
  assert (a * bs <= (b + 1) * bs) by (apply Nat.mul_le_mono_r; lia).
  set (p := a * bs) in *. set (q := (b + 1) * bs) in *. clearbody p q.
  pose proof (Nat.min_spec p (length l)). pose proof (Nat.min_spec q (length l)).
  pose proof (Nat.min_spec (Nat.min p (length l)) (length l)). lia.
Qed.

Lemma punch_nth l bs a b i : a <= b ->
  nth i (f_punch l bs a b) 0 = if (a * bs <=? i) && (i <? (b + 1) * bs) then 0 else nth i l 0.
Proof.
  intros Hab. unfold f_punch.
  set (x := Nat.min (a * bs) (length l)). set (y := Nat.min ((b + 1) * bs) (length l)).
  assert (Hpq : a * bs <= (b + 1) * bs) by (apply Nat.mul_le_mono_r; lia).
  assert (Hxy : x <= y) by (unfold x, y; pose proof (Nat.min_spec (a * bs) (length l)); pose proof (Nat.min_spec ((b + 1) * bs) (length l)); lia).
  assert (L1 : length (firstn x l) = x) by (rewrite firstn_length; unfold x; lia).
  destruct (Nat.lt_ge_cases i (length l)) as [Hi|Hi].
  2:{ rewrite nth_overflow by (rewrite !app_length, firstn_length, zeros_length, skipn_length; lia).
      rewrite (nth_overflow l) by assumption. destruct ((a * bs <=? i) && (i <? (b + 1) * bs)); reflexivity. }
  destruct (Nat.lt_ge_cases i x) as [A|A].
  - rewrite app_nth1 by lia. rewrite nth_firstn_lt by assumption.
    replace (a * bs <=? i) with false by (symmetry; apply Nat.leb_gt; unfold x in A; lia). reflexivity.
  - rewrite app_nth2 by lia. rewrite L1.
    destruct (Nat.lt_ge_cases i y) as [B|B].
    + rewrite app_nth1 by (rewrite zeros_length; lia). rewrite nth_zeros.
      replace (a * bs <=? i) with true by (symmetry; apply Nat.leb_le; unfold x in A; lia).
      replace (i <? (b + 1) * bs) with true by (symmetry; apply Nat.ltb_lt; unfold y in B; lia). reflexivity.
    + rewrite app_nth2 by (rewrite zeros_length; lia). rewrite zeros_length, nth_skipn_add.
      replace (y + (i - x - (y - x))) with i by lia.
      replace (i <? (b + 1) * bs) with false by (symmetry; apply Nat.ltb_ge; unfold y in B; lia).
      rewrite Bool.andb_false_r. reflexivity.
Qed.

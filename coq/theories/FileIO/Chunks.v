(* lib/ext2fs/fileio.c ext2fs_file_write / ext2fs_file_read: a request of [count] bytes at position [pos]
   is served block by block; each round handles the bytes from pos to the end of its block. *)
From Coq Require Export List NArith Bool Lia.
Export ListNotations.
Local Open Scope N_scope.

(* (block number, offset inside the block, length) *)
Fixpoint chunks (fuel : nat) (bs pos count : N) : list (N * N * N) :=
  match fuel with
  | O => []
  | S f =>
    if count =? 0 then []
    else
      let start := pos mod bs in
      let c := if bs - start <? count then bs - start else count in
      (pos / bs, start, c) :: chunks f bs (pos + c) (count - c)
  end.

(* count / bs + 2 rounds always suffice *)
Definition io_chunks (bs pos count : N) : list (N * N * N) := chunks (N.to_nat (count / bs + 2)) bs pos count.

Definition chunk_len (l : list (N * N * N)) : N := fold_right (fun c s => snd c + s) 0 l.

(* ext2fs_punch: the blocks [start, end] of the request that lie below the mapped size *)
Definition punch_keeps (start endb blk : N) : bool := (blk <? start) || (endb <? blk).

(* The reference a file must follow: its content is a list of bytes exactly as long as its size.
   This is what ext2fs_file_write / read / set_size2 / ext2fs_punch are compared with, operation by
   operation (extracted and run beside the implementation). *)
From Coq Require Export List NArith Arith Bool Lia.
Export ListNotations.

Definition fbytes := list nat.     (* byte values; nat keeps the extracted driver simple *)

Definition zeros (n : nat) : fbytes := repeat 0 n.

(* write [data] at [pos]: a gap between the old end and pos reads as zeros *)
Definition f_write (l : fbytes) (pos : nat) (data : fbytes) : fbytes :=
  match data with
  | [] => l
  | _ => firstn pos (l ++ zeros (pos - length l)) ++ data ++ skipn (pos + length data) l
  end.

(* read up to [n] bytes at [pos]: short at the end of the file *)
Definition f_read (l : fbytes) (pos n : nat) : fbytes := firstn n (skipn pos l).

(* set_size: truncation drops the tail, extension appends zeros *)
Definition f_set_size (l : fbytes) (s : nat) : fbytes := firstn s l ++ zeros (s - length l).

(* punch: the bytes of blocks start..end (inclusive) read as zeros afterwards; the size stays *)
Definition f_punch (l : fbytes) (bs start endb : nat) : fbytes :=
  let a := Nat.min (start * bs) (length l) in
  let b := Nat.min ((endb + 1) * bs) (length l) in
  firstn a l ++ zeros (b - a) ++ skipn b l.

Inductive fop := FWrite (pos : nat) (data : fbytes) | FRead (pos n : nat) | FSetSize (s : nat) | FPunch (start endb : nat).

Definition f_step (bs : nat) (l : fbytes) (o : fop) : fbytes * fbytes :=
  match o with
  | FWrite pos data => (f_write l pos data, [])
  | FRead pos n => (l, f_read l pos n)
  | FSetSize s => (f_set_size l s, [])
  | FPunch a b => (f_punch l bs a b, [])
  end.

From E2V Require Import FileIO.Chunks.
From Coq Require Import ZifyBool ZifyN ZifyNat.
Local Open Scope N_scope.

(* the rounds are consecutive, each stays inside one block, and together they cover the request *)
Fixpoint consecutive (bs pos : N) (l : list (N * N * N)) : Prop :=
  match l with
  | [] => True
  | (b, o, c) :: r => b * bs + o = pos /\ 0 < c /\ o + c <= bs /\ consecutive bs (pos + c) r
  end.

Lemma chunks_consecutive : forall fuel bs pos count, 0 < bs -> consecutive bs pos (chunks fuel bs pos count).
Proof.
  induction fuel as [|f IH]; intros bs pos count Hb; cbn [chunks]; [exact I|].
  destruct (N.eqb_spec count 0) as [Z|Z]; [exact I|].
  set (start := pos mod bs). set (c := if bs - start <? count then bs - start else count).
  pose proof (N.mod_lt pos bs ltac:(lia)) as M. fold start in M.
  pose proof (N.div_mod pos bs ltac:(lia)) as D. fold start in D.
  cbn [consecutive]. split; [lia|].
  assert (Hc : 0 < c /\ start + c <= bs) by (unfold c; destruct (bs - start <? count) eqn:E; lia).
  split; [lia|]. split; [lia|]. apply IH. assumption.
Qed.

Lemma chunk_len_cons c l : chunk_len (c :: l) = snd c + chunk_len l.
Proof. reflexivity. Qed.

Lemma chunks_zero f bs pos : chunks f bs pos 0 = [].
Proof. destruct f; reflexivity. Qed.

(* from a block boundary: count / bs + 1 rounds are enough *)
Lemma chunks_total_aligned : forall fuel bs pos count, 0 < bs -> pos mod bs = 0 ->
  (N.to_nat (count / bs) + 1 <= fuel)%nat -> chunk_len (chunks fuel bs pos count) = count.
Proof.
  induction fuel as [|f IH]; intros bs pos count Hb Ha Hf; [exfalso; revert Hf; generalize (N.to_nat (count / bs)); intros; lia|]. cbn [chunks].
  destruct (N.eqb_spec count 0) as [Z|Z]; [subst; reflexivity|].
  rewrite Ha. rewrite N.sub_0_r. rewrite chunk_len_cons. cbn [snd].
  destruct (bs <? count) eqn:E.
  - assert (Q2 : count / bs = (count - bs) / bs + 1).
    { assert (Hc : count = (count - bs) + 1 * bs) by lia. rewrite Hc at 1. apply N.div_add. lia. }
    rewrite IH; [lia|assumption| |].
    + replace (pos + bs) with (pos + 1 * bs) by lia. rewrite N.mod_add by lia. assumption.
    + rewrite Q2 in Hf. revert Hf. generalize ((count - bs) / bs). intros q Hf. lia.
  - replace (count - count) with 0 by lia. rewrite chunks_zero. cbn. lia.
Qed.

Lemma chunks_total : forall bs pos count, 0 < bs -> chunk_len (io_chunks bs pos count) = count.
Proof.
  intros bs pos count Hb. unfold io_chunks.
  set (q0 := count / bs).
  assert (Hf : exists f, N.to_nat (q0 + 2) = S f /\ (N.to_nat q0 + 1 <= f)%nat) by (exists (N.to_nat (q0 + 1)); clearbody q0; lia).
  destruct Hf as (f & -> & Hf). cbn [chunks].
  destruct (N.eqb_spec count 0) as [Z|Z]; [subst; reflexivity|].
  set (start := pos mod bs).
  pose proof (N.mod_lt pos bs ltac:(lia)) as M. fold start in M.
  pose proof (N.div_mod pos bs ltac:(lia)) as D. fold start in D.
  rewrite chunk_len_cons. cbn [snd].
  destruct (bs - start <? count) eqn:E.
  - rewrite chunks_total_aligned; [lia|assumption| |].
    + replace (pos + (bs - start)) with ((pos / bs + 1) * bs) by lia. apply N.mod_mul. lia.
    + assert (Q : (count - (bs - start)) / bs <= q0) by (apply N.div_le_mono; lia).
      revert Q. generalize ((count - (bs - start)) / bs). clearbody q0. intros q Q. lia.
  - replace (count - count) with 0 by lia. rewrite chunks_zero. cbn. lia.
Qed.

(* C15 - extended attributes read back exactly as set: the proved part is the packing of an attribute list
   into its storage area *)
From E2V Require Import Xattr.XattrPack Xattr.XattrProofs Xattr.XattrSort Xattr.XattrSortProofs Xattr.XattrSet Xattr.XattrSetProofs.
Local Open Scope N_scope.

(* whenever the library's own space estimate says the list fits, every entry header lies below the
   terminator, the terminator below every value, and every value inside the area: nothing is written
   outside the storage area and entries never run into values *)
Theorem xattr_write_in_bounds : forall l size ps ef endf,
  fits l size = true -> place l 0 size = (ps, ef, endf) ->
  ef + 4 <= endf /\ endf <= size /\
  Forall (fun p => let '(eo, vo, vs) := p in
                   eo + 16 <= ef /\ (vs = 0 \/ (vo = 0 -> False) /\ endf <= vo /\ vo + vs <= size)) ps.
Proof.
  intros l size ps ef endf F P. unfold fits in F. apply N.leb_le in F.
  destruct (place_bounds l 0 size ps ef endf ltac:(lia) P) as (_ & A & B & C).
  split; [assumption|]. split; [assumption|]. eapply Forall_impl; [|exact C]. intros [[eo vo] vs] (_ & X & Y). split; assumption.
Qed.
Print Assumptions xattr_write_in_bounds.

Theorem xattr_values_disjoint : forall l size ps ef endf,
  fits l size = true -> place l 0 size = (ps, ef, endf) ->
  forall i j, (i < j)%nat -> (j < length ps)%nat ->
  let '(_, vi, si) := nth i ps (0, 0, 0) in let '(_, vj, sj) := nth j ps (0, 0, 0) in
  sj = 0 \/ si = 0 \/ vj + sj <= vi.
Proof.
  intros l size ps ef endf F P. unfold fits in F. apply N.leb_le in F.
  exact (place_values_disjoint l 0 size ps ef endf ltac:(lia) P).
Qed.
Print Assumptions xattr_values_disjoint.

Example place_example :
  place [mkXa 3 5 false; mkXa 10 0 false; mkXa 4 70000 true; mkXa 1 9 false] 0 988 =
  ([(0, 980, 8); (20, 980, 0); (48, 0, 0); (68, 968, 12)], 88, 968) /\ fits [mkXa 3 5 false; mkXa 1 9 false] 64 = true /\ fits [mkXa 3 5 false; mkXa 1 9 false] 63 = false.
Proof. vm_compute. repeat split; reflexivity. Qed.

(* the attribute block stays sorted by (name index, name length, name bytes) under the library's insertion
   (xattr_find_position + memmove), the inserted name is present and nothing else changes, and on a sorted
   block the kernel's early-exit lookup finds exactly the names that are stored: an attribute that was set
   is found again by every reader that relies on the order *)
Theorem xattr_block_insert_sorted : forall l k, sortedb l = true ->
  sortedb (insert_key l k) = true /\
  (forall y, In y (insert_key l k) <-> y = k \/ In y l) /\
  (forall y, sorted_lookup (insert_key l k) y = true <-> y = k \/ In y l).
Proof.
  intros l k S. rewrite insert_key_ins. apply sortedb_ssorted in S.
  pose proof (ins_sorted l k S) as S'. split; [apply sortedb_ssorted; assumption|].
  assert (M : forall y, In y (ins l k) <-> y = k \/ In y l) by (intros y; split; [apply in_ins|apply in_ins_back]).
  split; [exact M|]. intros y. rewrite <- M. split; [apply sorted_lookup_sound|apply sorted_lookup_complete; assumption].
Qed.
Print Assumptions xattr_block_insert_sorted.

Example sort_example :
  insert_key [mkKey 1 [97;97;97]; mkKey 1 [99;99;99]] (mkKey 1 [98;98;98]) = [mkKey 1 [97;97;97]; mkKey 1 [98;98;98]; mkKey 1 [99;99;99]] /\
  sortedb [mkKey 1 [99;99;99]; mkKey 1 [98;98;98]; mkKey 1 [97;97;97]] = false /\
  sorted_lookup [mkKey 1 [99;99;99]; mkKey 1 [98;98;98]; mkKey 1 [97;97;97]] (mkKey 1 [97;97;97]) = false.
Proof. vm_compute. repeat split; reflexivity. Qed.

(* The attribute handle (ext2fs_xattr_set / xattr_array_update / ext2fs_xattr_remove) as a map: from a state
   that satisfies the invariant (both areas within their capacity, every name once, block part sorted),
   a set that is accepted stores exactly that value under that name and leaves every other name alone; a
   refused set (EXT2_ET_EA_NO_SPACE) returns no new state at all; a remove deletes exactly that name; and the
   invariant is kept, so the result again fits both storage areas (hypothesis of xattr_write_in_bounds). *)
Theorem xattr_set_refines_map : forall c s k vid vl s', Inv c s -> xset c s k vid vl = ROk s' ->
  Inv c s' /\ (exists a, lookup s' k = Some a /\ akey a = k /\ avid a = vid /\ avlen a = vl) /\ (forall k', k' <> k -> lookup s' k' = lookup s k').
Proof.
  intros c s k vid vl s' I H. split; [exact (xset_inv c s k vid vl s' I H)|exact (xset_lookup c s k vid vl s' I H)].
Qed.
Print Assumptions xattr_set_refines_map.

Theorem xattr_remove_refines_map : forall c s k, Inv c s ->
  Inv c (xremove s k) /\ lookup (xremove s k) k = None /\ (forall k', k' <> k -> lookup (xremove s k) k' = lookup s k').
Proof.
  intros c s k I. split; [exact (xremove_inv c s k I)|exact (xremove_lookup c s k I)].
Qed.
Print Assumptions xattr_remove_refines_map.

(* every state reachable from the empty handle by any sequence of set/remove requests fits its two storage areas
   and keeps the block part sorted *)
Theorem xattr_reachable_states_fit : forall c ops,
  let s := fold_left (xstep c) ops (mkH [] []) in
  fits (map to_xa (ib s)) (ib_cap c + 4) = true /\ fits (map to_xa (bl s)) (blk_cap c + 4) = true /\ sortedb (map akey (bl s)) = true.
Proof.
  intros c ops s. pose proof (xsteps_inv c ops _ (inv_empty c)) as I. fold s in I.
  destruct (inv_fits c s I) as [A B]. split; [exact A|]. split; [exact B|]. apply I.
Qed.
Print Assumptions xattr_reachable_states_fit.

(* 256-byte inode (92 bytes of in-inode space), 1k block, ea_inode: a small value goes into the inode, a larger
   one to the block, growing the first one moves it to the block (sorted before "bbb"), a value above the
   threshold becomes an EA-inode entry, and a value nothing can hold is refused *)
Example handle_example :
  let c := mkCfg 92 988 true 968 in
  let ka := mkKey 1 [97;97;97] in let kb := mkKey 1 [98;98;98] in
  let s1 := xstep c (mkH [] []) (OSet ka 7 5) in
  let s2 := xstep c s1 (OSet kb 9 200) in
  let s3 := xstep c s2 (OSet ka 8 100) in
  let s4 := xstep c s3 (OSet kb 10 1000) in
  map akey (ib s1) = [ka] /\ map akey (bl s2) = [kb] /\ ib s3 = [] /\ map akey (bl s3) = [ka; kb] /\ ib s4 = [mkAt kb 10 1000 true] /\ map akey (bl s4) = [ka] /\ xset (mkCfg 92 988 false 968) s3 kb 11 2000 = RNoSpace.
Proof. vm_compute. repeat split; reflexivity. Qed.

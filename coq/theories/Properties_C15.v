(* C15 - extended attributes read back exactly as set: the proved part is the packing of an attribute list
   into its storage area *)
From E2V Require Import Xattr.XattrPack Xattr.XattrProofs Xattr.XattrSort Xattr.XattrSortProofs.
Local Open Scope N_scope.

(* whenever the library's own space estimate says the list fits, every entry header lies below the
   terminator, the terminator below every value, and every value inside the area: nothing is written
   outside the storage area and entries never run into values *)
Theorem xattr_write_in_bounds : forall l size ps ef endf,
  fits l size = true -> place l 0 size = (ps, ef, endf) ->
  ef + 4 <= endf /\ endf <= size /\
  Forall (fun p => let '(eo, vo, vs) := p in
                   eo + 16 <= ef /\ (vs = 0 \/ (vo = 0 -> False) /\ endf <= vo /\ vo + vs <= size)) ps.
Proof.
  intros l size ps ef endf F P. unfold fits in F. apply N.leb_le in F.
  destruct (place_bounds l 0 size ps ef endf ltac:(lia) P) as (_ & A & B & C).
  split; [assumption|]. split; [assumption|]. eapply Forall_impl; [|exact C]. intros [[eo vo] vs] (_ & X & Y). split; assumption.
Qed.
Print Assumptions xattr_write_in_bounds.

Theorem xattr_values_disjoint : forall l size ps ef endf,
  fits l size = true -> place l 0 size = (ps, ef, endf) ->
  forall i j, (i < j)%nat -> (j < length ps)%nat ->
  let '(_, vi, si) := nth i ps (0, 0, 0) in let '(_, vj, sj) := nth j ps (0, 0, 0) in
  sj = 0 \/ si = 0 \/ vj + sj <= vi.
Proof.
  intros l size ps ef endf F P. unfold fits in F. apply N.leb_le in F.
  exact (place_values_disjoint l 0 size ps ef endf ltac:(lia) P).
Qed.
Print Assumptions xattr_values_disjoint.

Example place_example :
  place [mkXa 3 5 false; mkXa 10 0 false; mkXa 4 70000 true; mkXa 1 9 false] 0 988 =
  ([(0, 980, 8); (20, 980, 0); (48, 0, 0); (68, 968, 12)], 88, 968) /\ fits [mkXa 3 5 false; mkXa 1 9 false] 64 = true /\ fits [mkXa 3 5 false; mkXa 1 9 false] 63 = false.
Proof. vm_compute. repeat split; reflexivity. Qed.

(* the attribute block stays sorted by (name index, name length, name bytes) under the library's insertion
   (xattr_find_position + memmove), the inserted name is present and nothing else changes, and on a sorted
   block the kernel's early-exit lookup finds exactly the names that are stored: an attribute that was set
   is found again by every reader that relies on the order *)
Theorem xattr_block_insert_sorted : forall l k, sortedb l = true ->
  sortedb (insert_key l k) = true /\
  (forall y, In y (insert_key l k) <-> y = k \/ In y l) /\
  (forall y, sorted_lookup (insert_key l k) y = true <-> y = k \/ In y l).
Proof.
  intros l k S. rewrite insert_key_ins. apply sortedb_ssorted in S.
  pose proof (ins_sorted l k S) as S'. split; [apply sortedb_ssorted; assumption|].
  assert (M : forall y, In y (ins l k) <-> y = k \/ In y l) by (intros y; split; [apply in_ins|apply in_ins_back]).
  split; [exact M|]. intros y. rewrite <- M. split; [apply sorted_lookup_sound|apply sorted_lookup_complete; assumption].
Qed.
Print Assumptions xattr_block_insert_sorted.

Example sort_example :
  insert_key [mkKey 1 [97;97;97]; mkKey 1 [99;99;99]] (mkKey 1 [98;98;98]) = [mkKey 1 [97;97;97]; mkKey 1 [98;98;98]; mkKey 1 [99;99;99]] /\
  sortedb [mkKey 1 [99;99;99]; mkKey 1 [98;98;98]; mkKey 1 [97;97;97]] = false /\
  sorted_lookup [mkKey 1 [99;99;99]; mkKey 1 [98;98;98]; mkKey 1 [97;97;97]] (mkKey 1 [97;97;97]) = false.
Proof. vm_compute. repeat split; reflexivity. Qed.

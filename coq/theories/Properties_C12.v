(* C12 - an undo file restores the exact previous bytes.  Statements only. *)
From E2V Require Import IoCache.IoModel Undo.UndoModel Undo.UndoProofs Undo.Session Undo.SessionProofs.
Local Open Scope N_scope.

(* For every history of block writes, byte-count writes, write_byte and
   zeroout, over any number of appending sessions (UReopen), any filesystem
   offset, any channel block size B dividing the undo block size T: replaying
   the recorded keys gives back every byte of the original device.
   Appending sessions at filesystem offsets of one undo block or more were excluded by a
   hypothesis (reopen_ok_ops) until the thorough tier replayed W 0 2; REOPEN; W 1 1 with
   B = T = off = 1024 on the real code: try_reopen_undo_file rebuilt its block map from the
   keys without the offset.  With the repaired code the hypothesis is gone. *)
Theorem undo_restores : forall B T off d0 ops,
  0 < B -> 0 < T -> T mod B = 0 ->
  forall o, e2undo B off (urun B T off (uinit d0) ops) o = d0 o.
Proof. exact undo_restores_all. Qed.
Print Assumptions undo_restores.

(* The order in which e2undo writes the keys back is irrelevant. *)
Theorem undo_replay_order_irrelevant : forall B T off d0 ops keys',
  0 < B -> 0 < T -> T mod B = 0 ->
  let s := urun B T off (uinit d0) ops in
  (forall k, In k keys' <-> In k (u_keys s)) ->
  forall o, replay_keys B off keys' (u_dsk s) o = d0 o.
Proof. exact replay_order_irrelevant_all. Qed.
Print Assumptions undo_replay_order_irrelevant.

(* The divisibility hypothesis is necessary: the faithful model of the code
   loses data when the channel block size is larger than the undo block size
   (recorded as a known finding; replayed on the implementation by the check). *)
Theorem undo_restores_refuted_without_divisibility :
  exists B T off d0 ops o, 0 < B /\ 0 < T /\ e2undo B off (urun B T off (uinit d0) ops) o <> d0 o.
Proof.
  exists 2048, 1024, 0, (fun o => o mod 251), [UWr 6 2 (repeat 7 4096)], 13312.
  split; [reflexivity|]. split; [reflexivity|]. vm_compute. discriminate.
Qed.
Print Assumptions undo_restores_refuted_without_divisibility.

(* Non-vacuity: a concrete two-session history with a filesystem offset *)
Example ex_undo :
  let ops := [UWr 3 1 (repeat 1 1024); UWrByte 5000 [9;9;9]; UReopen; UZero 7 2; UWrB 2 (repeat 5 100)] in
  map (e2undo 1024 512 (urun 1024 4096 512 (uinit (fun o => o mod 251)) ops)) [0; 512; 3584; 5512; 7680; 9000]
  = map (fun o => o mod 251) [0; 512; 3584; 5512; 7680; 9000].
Proof. vm_compute. reflexivity. Qed.

(* chains of recording sessions on one undo file: whatever each session did - also nothing at all - the next one can
   open the file, and so can e2undo at the end (the header's block size is inside the accepted range) *)
Theorem every_session_leaves_an_openable_undo_file : forall T ss,
  MINB <= T -> T <= MAXB ->
  exists h, chain close_new T ss None = Some h /\ open_ok h = true.
Proof. intros T ss Hlo Hhi. apply chain_new_ok; [assumption|assumption|reflexivity]. Qed.
Print Assumptions every_session_leaves_an_openable_undo_file.

(* the code before the repair: a first session that wrote nothing left block size 0, the second could not open it *)
Theorem writeless_first_session_old_refuted :
  exists T ss, MINB <= T /\ T <= MAXB /\ chain close_old T ss None = None.
Proof. exists 1024, [false; true]. split; [unfold MINB; lia|]. split; [unfold MAXB; lia|]. exact chain_old_refuted. Qed.
Print Assumptions writeless_first_session_old_refuted.

(* C03 - journal replay applies exactly the committed, unrevoked transactions.
   Statements only. *)
From E2V Require Import Jbd2.Jbd2Model Jbd2.Jbd2Proofs.
Local Open Scope N_scope.

(* Whenever recovery does not fail, every filesystem block holds the last
   logged image (in log order) among the items of the committed transactions
   [s_sequence, end) whose tag checksum is valid and which the revoke table
   does not cancel; blocks without such an item are untouched.  Holds for
   every journal content, wrap position and fuel. *)
Theorem recover_blocks_spec : forall fuel j fs,
  match recover fuel j fs with
  | RecOk fs' _ | RecErr fs' _ =>
    exists e items en,
      scan fuel j (j_start j) (j_seq j) false 0 None = SEnd e /\
      walk fuel j (j_start j) (j_seq j) e = WOk items en /\
      forall b, fs' b = last_or (fs b) (eff (fold_left add_rev items []) b items)
  | RecFail | RecFuel => True
  end.
Proof. exact recover_blocks. Qed.
Print Assumptions recover_blocks_spec.

(* The revoke table built by the REVOKE pass cancels a logged block of
   transaction [id] exactly when some revoke record for that block exists in
   a transaction at least as new (ids compared inside one 2^30 window, so the
   32-bit wrap-around of transaction ids is covered). *)
Theorem revoke_table_meaning : forall base items b id,
  base < W32 ->
  (forall id' b', In (IR id' b') items -> inwin base id') -> inwin base id ->
  (test_rev (fold_left add_rev items []) b id = true <->
   exists id', In (IR id' b) items /\ ord base id <= ord base id').
Proof. exact (fun base items b id Hb => table_test base Hb items b id). Qed.
Print Assumptions revoke_table_meaning.

(* REVOKE and REPLAY read exactly the same log items (one walk). *)
Theorem passes_share_the_walk : forall fuel j pos id endt t fs bad,
  (revoke_pass fuel j pos id endt t =
   match walk fuel j pos id endt with
   | WOk l e => RTab (fold_left add_rev l t) e | WFail => RFail | WFuel => RFuel end) /\
  (replay_pass fuel j pos id endt t fs bad =
   match walk fuel j pos id endt with
   | WOk l e => let st := fold_left (app_item t) l (fs, bad) in PDone (fst st) (snd st) e
   | WFail => PFail | WFuel => PFuel end).
Proof. exact (fun fuel j pos id endt t fs bad => conj (revoke_is_walk fuel j pos id endt t) (replay_is_walk fuel j pos id endt t fs bad)). Qed.
Print Assumptions passes_share_the_walk.

(* Termination is NOT a theorem of the loop as modelled (the code as pinned): on a log in which every
   block is a descriptor of the expected sequence the scan pass never stops (no amount of fuel
   suffices).  Replayed on e2fsck by the C06 check, where it was a hang; the repaired code leaves the
   loop after j_total_len rounds, which is the point where this model runs out of fuel. *)
Theorem recover_terminates_refuted : forall fuel pos, scan fuel cyclic_log pos 5 false 0 None = SFuel.
Proof. exact scan_unbounded. Qed.
Print Assumptions recover_terminates_refuted.

(* Where the scan stops (a block that is not part of the log), the end of the log is the transaction whose commit block
   failed its checksum, when there was one - for every transaction id, 0 included (the ids wrap around 2^32) ... *)
Theorem failed_commit_ends_the_log : forall f j pos id need last e,
  j_blk j pos = JOther -> scan (S f) j pos id need last (Some e) = SEnd e.
Proof. intros f j pos id need last e H. cbn [scan]. rewrite H. reflexivity. Qed.
Print Assumptions failed_commit_ends_the_log.

(* ... while the code as it was cannot tell "ended at transaction 0" from "no end found": *)
Theorem failed_commit_at_tid_0_forgotten_by_old_code : forall f j pos id need last,
  j_blk j pos = JOther -> scan_old (S f) j pos id need last 0 = SEnd id.
Proof. intros f j pos id need last H. cbn [scan_old]. rewrite H. reflexivity. Qed.
Print Assumptions failed_commit_at_tid_0_forgotten_by_old_code.

(* Once a commit block has failed its checksum the end of the log is fixed (an end can only have been recorded under
   ASYNC_COMMIT, where the scan goes on): whatever follows - further failing commits included - the scan ends the log at that
   transaction or fails.  "Replay stops at the first such transaction." *)
Theorem first_failed_commit_ends_the_log : forall f j pos id need last e r,
  j_async j = true -> scan f j pos id need last (Some e) = SEnd r -> r = e.
Proof.
  induction f as [|f IH]; intros j pos id need last e r Ha H; [discriminate|].
  cbn [scan] in H. cbv zeta in H. rewrite Ha in H. cbn [negb] in H.
  destruct (j_blk j pos) as [seq ok tags|seq ok time|seq ok blks|b|].
  - destruct (negb (seq =? id)); [congruence|]. eapply IH; eassumption.
  - destruct (negb (seq =? id)); [congruence|].
    destruct need.
    + destruct (last <=? time); congruence.
    + destruct (negb ok).
      * destruct (time <? last); [congruence|]. eapply IH; eassumption.
      * eapply IH; eassumption.
  - destruct (negb (seq =? id)); [congruence|]. eapply IH; eassumption.
  - congruence.
  - congruence.
Qed.
Print Assumptions first_failed_commit_ends_the_log.

(* The code as it was let every failing commit block overwrite the end: with two failing commits in a row the first of the two
   transactions - checksum-invalid - was replayed (pointed out by a seeding agent while the model still followed the code;
   the property text decides; repaired in the repository) *)
Definition async_two_bad_log : journal :=
  mkJ 16 (fun i => match i with
                   | 0 => JDesc 5 true [mkTag 7 false true] | 1 => JData [1] | 2 => JCommit 5 true 100
                   | 3 => JDesc 6 true [mkTag 9 false true] | 4 => JData [2] | 5 => JCommit 6 false 101
                   | 6 => JDesc 7 true [mkTag 9 false true] | 7 => JData [3] | 8 => JCommit 7 false 102
                   | _ => JOther end) 0 5 true.
Theorem later_failing_commit_moved_the_end_refuted :
  scan 64 async_two_bad_log 0 5 false 0 None = SEnd 6 /\
  scan_overwrite 64 async_two_bad_log 0 5 false 0 None = SEnd 7.
Proof. vm_compute. split; reflexivity. Qed.
Print Assumptions later_failing_commit_moved_the_end_refuted.

(* ... and the code as it was, in which end_transaction = 0 meant "not determined yet", put the end one transaction too far
   when the failing transaction has id 0: that transaction was replayed (found when the generator learnt ASYNC_COMMIT;
   repaired in the repository) *)
Definition async_tid0_log : journal :=
  mkJ 16 (fun i => match i with
                   | 0 => JDesc 4294967295 true [mkTag 7 false true] | 1 => JData [1] | 2 => JCommit 4294967295 true 100
                   | 3 => JDesc 0 true [mkTag 9 false true] | 4 => JData [2] | 5 => JCommit 0 false 101
                   | _ => JOther end) 0 4294967295 true.
Theorem failed_commit_at_tid_0_old_refuted :
  scan 64 async_tid0_log 0 4294967295 false 0 None = SEnd 0 /\
  scan_old 64 async_tid0_log 0 4294967295 false 0 0 = SEnd 1.
Proof. vm_compute. split; reflexivity. Qed.
Print Assumptions failed_commit_at_tid_0_old_refuted.

(* Non-vacuity: two transactions, a revoke in the second cancels block 7 of the first *)
Definition ex_j : journal :=
  mkJ 16 (fun i => match i with
                   | 14 => JDesc 4294967295 true [mkTag 7 false true; mkTag 9 false true]
                   | 15 => JData [1;1] | 0 => JData [2;2] | 1 => JCommit 4294967295 true 100
                   | 2 => JRevoke 0 true [7] | 3 => JDesc 0 true [mkTag 9 true true]
                   | 4 => JData [0;0;0;0;5] | 5 => JCommit 0 true 101
                   | _ => JOther end) 14 4294967295 false.
Example ex_recover :
  match recover 64 ex_j (fun _ => [42]) with
  | RecOk fs' ns => (fs' 7, fs' 9, fs' 3, ns) = ([42], [192; 59; 57; 152; 5], [42], 2)
  | _ => False
  end.
Proof. vm_compute. reflexivity. Qed.

(* C04 - journal recovery can be interrupted anywhere and re-run.  Statements only. *)
From E2V Require Import Jbd2.Jbd2Model Jbd2.Jbd2Proofs Properties_C03.
Local Open Scope N_scope.

(* Re-running recovery from any state in which only blocks that have an
   effective log item differ from the original (that is, from any crash state
   before the journal superblock is rewritten: any subset of the replay writes
   applied, in any order) gives exactly the result of the uninterrupted run. *)
Theorem recovery_crash_safe : forall fuel j fs fs_c,
  (forall e items en,
      scan fuel j (j_start j) (j_seq j) false 0 None = SEnd e ->
      walk fuel j (j_start j) (j_seq j) e = WOk items en ->
      forall b, eff (fold_left add_rev items []) b items = [] -> fs_c b = fs b) ->
  match recover fuel j fs, recover fuel j fs_c with
  | RecOk f1 n1, RecOk f2 n2 | RecErr f1 n1, RecErr f2 n2 => n1 = n2 /\ forall b, f1 b = f2 b
  | RecFail, RecFail | RecFuel, RecFuel => True
  | _, _ => False
  end.
Proof. exact recover_rerun_same. Qed.
Print Assumptions recovery_crash_safe.

(* The model's device protocol: all replay writes, a sync, then the journal
   reset, a sync, then needs_recovery is cleared (the shape the check demands
   of the real trace). *)
Theorem journal_released_after_sync : forall t items,
  exists ws, recovery_trace t items = ws ++ [DSync; DJsbReset; DSync; DSbClear; DSync] /\
             forall e, In e ws -> exists b c, e = DWr b c.
Proof. exact release_after_sync. Qed.
Print Assumptions journal_released_after_sync.

(* Non-vacuity: the example log of C03 re-run from a state where block 9 already holds a replayed image *)
Example ex_rerun :
  match recover 64 ex_j (fun b => if b =? 9 then [2;2] else [42]) with
  | RecOk fs' ns => (fs' 7, fs' 9, ns) = ([42], [192; 59; 57; 152; 5], 2)
  | _ => False
  end.
Proof. vm_compute. reflexivity. Qed.

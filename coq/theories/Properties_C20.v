(* C20 - which groups hold backups.  Statements only. *)
From E2V Require Import Layout.Layout Layout.LayoutProofs Layout.BackupBgs Layout.BackupBgsProofs.
Local Open Scope N_scope.

Theorem test_root_is_power : forall a b, 2 <= b -> a < 2 ^ 64 ->
  (test_root a b = true <-> exists k, (1 <= k)%nat /\ a = b ^ N.of_nat k).
Proof. exact test_root_pow. Qed.
Print Assumptions test_root_is_power.

(* sparse_super: exactly groups 0, 1 and the powers of 3, 5 and 7 *)
Theorem backup_groups_sparse_super : forall s g,
  sparse_super s = true -> sparse_super2 s = false -> g < 2 ^ 64 ->
  (bg_has_super s g = true <-> g = 0 \/ g = 1 \/ is_pow 3 g \/ is_pow 5 g \/ is_pow 7 g).
Proof. exact has_super_sparse. Qed.
Print Assumptions backup_groups_sparse_super.

(* sparse_super2: exactly group 0 and the two recorded groups *)
Theorem backup_groups_sparse_super2 : forall s g, sparse_super2 s = true ->
  (bg_has_super s g = true <-> g = 0 \/ g = backup_bg0 s \/ g = backup_bg1 s).
Proof. exact has_super_sparse2. Qed.
Print Assumptions backup_groups_sparse_super2.

Theorem backup_groups_all : forall s g, sparse_super s = false -> sparse_super2 s = false -> bg_has_super s g = true.
Proof. exact has_super_all. Qed.
Print Assumptions backup_groups_all.

(* the iterator used for the reserved GDT blocks and by e2fsck's backup search
   enumerates 1 and every power of 3, 5, 7 below 2^32 in increasing order
   (complete: the next powers exceed the group-number range) *)
Theorem list_backups_enumerates :
  list_backups_n 45 (1, 5, 7) = sort (1 :: powers_below 3 20 ++ powers_below 5 13 ++ powers_below 7 11) /\
  3 ^ 21 > DGRP_MAX /\ 5 ^ 14 > DGRP_MAX /\ 7 ^ 12 > DGRP_MAX.
Proof. exact (conj list_backups_enum powers_cover). Qed.
Print Assumptions list_backups_enumerates.

(* sparse_super2: the iterator yields the recorded backup groups that are not 0, each once and in order
   (all of them: one recorded group is not skipped when the other slot is empty), then the group count *)
Theorem list_backups_sparse_super2 : forall b0 b1 gdc n,
  list_backups_ss2_n (3 + n) b0 b1 gdc 1 =
  firstn 3 ((if b0 =? 0 then [] else [b0]) ++ (if b1 =? 0 then [] else [b1]) ++ [gdc; gdc; gdc]) ++ repeat gdc n.
Proof. exact ss2_enum_lemma. Qed.
Print Assumptions list_backups_sparse_super2.

(* meta_bg: the location from which descriptor block i is read (ext2fs_descriptor_block_loc2) is the
   location where the writer puts it (ext2fs_super_and_bgd_loc2): in the first group of the meta group
   when the primary superblock is in use, in the second when a backup superblock is *)
Theorem descriptor_reader_meets_writer_primary : forall s bc i,
  meta_bg s = true -> first_meta_bg s <= i -> 1 < desc_per_block s ->
  0 < blocks_per_group s \/ 0 < first_data_block s \/ blocksize s <> 1024 \/ 0 < i ->
  (group_first_block s (desc_per_block s * i) = 0 -> blocksize s <> 1024) ->
  descriptor_block_loc s bc (first_data_block s) i = snd (fst (super_and_bgd_loc s (desc_per_block s * i))).
Proof. exact desc_loc_primary_lemma. Qed.
Print Assumptions descriptor_reader_meets_writer_primary.

Theorem descriptor_reader_meets_writer_backup : forall s bc gb i,
  meta_bg s = true -> first_meta_bg s <= i -> 2 < desc_per_block s ->
  0 < blocks_per_group s -> gb <> first_data_block s ->
  group_first_block s (desc_per_block s * i) + (if bg_has_super s (desc_per_block s * i) then 1 else 0) + blocks_per_group s < bc ->
  descriptor_block_loc s bc gb i = snd (fst (super_and_bgd_loc s (desc_per_block s * i + 1))).
Proof. exact desc_loc_backup_lemma. Qed.
Print Assumptions descriptor_reader_meets_writer_backup.

(* the same with bigalloc's group-zero adjustment (1k blocks, cluster ratio above 1, s_first_data_block = 0): no geometry
   is excluded.  Old-style descriptor blocks are read where the writer puts them, behind the primary superblock ... *)
Theorem descriptor_reader_meets_writer_oldstyle_primary : forall big s bc i, big_wf big s ->
  (meta_bg s = false \/ i < first_meta_bg s) -> 0 < desc_per_block s ->
  descriptor_block_loc_big big s bc (first_data_block s) i = old_desc_blk s 0 + i.
Proof. exact desc_loc_big_oldstyle_primary. Qed.
Print Assumptions descriptor_reader_meets_writer_oldstyle_primary.

(* ... and behind every backup superblock *)
Theorem descriptor_reader_meets_writer_oldstyle_backup : forall big s bc g i,
  (meta_bg s = false \/ g / desc_per_block s < first_meta_bg s) -> (meta_bg s = false \/ i < first_meta_bg s) ->
  bg_has_super s g = true -> 0 < g -> 0 < blocks_per_group s ->
  descriptor_block_loc_big big s bc (super_blk s g) i = old_desc_blk s g + i.
Proof. exact desc_loc_big_oldstyle_backup. Qed.
Print Assumptions descriptor_reader_meets_writer_oldstyle_backup.

(* meta_bg part, primary superblock in use: every geometry, 1k-block bigalloc included *)
Theorem descriptor_reader_meets_writer_primary_all : forall big s bc i, big_wf big s ->
  meta_bg s = true -> first_meta_bg s <= i -> 1 < desc_per_block s -> 0 < blocks_per_group s ->
  descriptor_block_loc_big big s bc (first_data_block s) i = new_desc_blk s (desc_per_block s * i).
Proof. exact desc_loc_big_primary. Qed.
Print Assumptions descriptor_reader_meets_writer_primary_all.

Theorem descriptor_reader_meets_writer_backup_all : forall big s bc gb i,
  meta_bg s = true -> first_meta_bg s <= i -> 2 < desc_per_block s ->
  0 < blocks_per_group s -> gb <> first_data_block s ->
  group_first_block s (desc_per_block s * i) + (if bg_has_super s (desc_per_block s * i) then 1 else 0) + blocks_per_group s < bc ->
  descriptor_block_loc_big big s bc gb i = new_desc_blk s (desc_per_block s * i + 1).
Proof. exact desc_loc_big_backup. Qed.
Print Assumptions descriptor_reader_meets_writer_backup_all.

(* the reader as it was shifted only block 0 of the old-style part: the second descriptor block of a 1k-block bigalloc
   filesystem was read from the place of the first (found by asking why the theorems above excluded that geometry;
   ext2fs_group_desc()'s on-demand read returned the descriptors of group g - 16; repaired in the repository) *)
Theorem descriptor_reader_old_refuted : exists s bc i, big_wf true s /\ meta_bg s = false /\ 0 < blocks_per_group s /\
  descriptor_block_loc_big_old true s bc (first_data_block s) i <> old_desc_blk s 0 + i.
Proof. exact desc_loc_big_old_refuted. Qed.
Print Assumptions descriptor_reader_old_refuted.

Example ex_groups : map (bg_has_super (mkSb true false 0 0 false 0 32 1 0 1 8192 1024)) [0;1;2;3;9;15;25;27;49;50;343] =
                    [true;true;false;true;true;false;true;true;true;false;true].
Proof. vm_compute. reflexivity. Qed.

(* sparse_super2, growing the file system: the second backup group either stays where it is or moves to the new last group,
   and when it moves, the group it leaves is the old last group - the one whose backup blocks resize2fs releases *)
Theorem grown_fs_abandons_only_released_backups : forall old_n new_n b1,
  1 <= old_n -> old_n < new_n -> b1 < old_n -> b1 <> 0 ->
  grow_b1_new old_n new_n b1 < new_n /\
  (grow_b1_new old_n new_n b1 <> b1 -> released old_n b1 = true).
Proof.
  intros old_n new_n b1 H1 Hg Hb Hnz. split.
  - apply grow_new_in_range; assumption.
  - apply grow_new_releases_what_it_abandons; assumption.
Qed.
Print Assumptions grown_fs_abandons_only_released_backups.

(* before the repair: 5 groups with s_backup_bgs = {0, 1} grown to 8 - the backup of group 1 is abandoned, not released *)
Theorem grown_fs_old_refuted : exists old_n new_n b1,
  1 <= old_n /\ old_n < new_n /\ b1 < old_n /\ b1 <> 0 /\
  grow_b1_old old_n new_n b1 <> b1 /\ released old_n b1 = false.
Proof.
  exists 5, 8, 1. split; [lia|]. split; [lia|]. split; [lia|]. split; [discriminate|].
  split; [rewrite (proj1 grow_old_refuted); discriminate | exact (proj2 grow_old_refuted)].
Qed.
Print Assumptions grown_fs_old_refuted.

(* C20 - which groups hold backups.  Statements only. *)
From E2V Require Import Layout.Layout Layout.LayoutProofs.
Local Open Scope N_scope.

Theorem test_root_is_power : forall a b, 2 <= b -> a < 2 ^ 64 ->
  (test_root a b = true <-> exists k, (1 <= k)%nat /\ a = b ^ N.of_nat k).
Proof. exact test_root_pow. Qed.
Print Assumptions test_root_is_power.

(* sparse_super: exactly groups 0, 1 and the powers of 3, 5 and 7 *)
Theorem backup_groups_sparse_super : forall s g,
  sparse_super s = true -> sparse_super2 s = false -> g < 2 ^ 64 ->
  (bg_has_super s g = true <-> g = 0 \/ g = 1 \/ is_pow 3 g \/ is_pow 5 g \/ is_pow 7 g).
Proof. exact has_super_sparse. Qed.
Print Assumptions backup_groups_sparse_super.

(* sparse_super2: exactly group 0 and the two recorded groups *)
Theorem backup_groups_sparse_super2 : forall s g, sparse_super2 s = true ->
  (bg_has_super s g = true <-> g = 0 \/ g = backup_bg0 s \/ g = backup_bg1 s).
Proof. exact has_super_sparse2. Qed.
Print Assumptions backup_groups_sparse_super2.

Theorem backup_groups_all : forall s g, sparse_super s = false -> sparse_super2 s = false -> bg_has_super s g = true.
Proof. exact has_super_all. Qed.
Print Assumptions backup_groups_all.

(* the iterator used for the reserved GDT blocks and by e2fsck's backup search
   enumerates 1 and every power of 3, 5, 7 below 2^32 in increasing order
   (complete: the next powers exceed the group-number range) *)
Theorem list_backups_enumerates :
  list_backups_n 45 (1, 5, 7) = sort (1 :: powers_below 3 20 ++ powers_below 5 13 ++ powers_below 7 11) /\
  3 ^ 21 > DGRP_MAX /\ 5 ^ 14 > DGRP_MAX /\ 7 ^ 12 > DGRP_MAX.
Proof. exact (conj list_backups_enum powers_cover). Qed.
Print Assumptions list_backups_enumerates.

Example ex_groups : map (bg_has_super (mkSb true false 0 0 false 0 32 1 0 1 8192 1024)) [0;1;2;3;9;15;25;27;49;50;343] =
                    [true;true;false;true;true;false;true;true;true;false;true].
Proof. vm_compute. reflexivity. Qed.

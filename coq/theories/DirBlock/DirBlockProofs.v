From E2V Require Import DirBlock.DirBlock.
From Coq Require Import ZifyBool ZifyN.
Local Open Scope N_scope.

Lemma sumrl_cons e l : sumrl (e :: l) = e_rl e + sumrl l.
Proof. reflexivity. Qed.

Lemma live_cons e l : live (e :: l) = if e_ino e =? 0 then live l else (e_ino e, e_name e) :: live l.
Proof. unfold live. cbn [filter]. destruct (e_ino e =? 0); reflexivity. Qed.

Lemma absorb_keeps payload off cur rest cur' rest' : absorb payload off cur rest = (cur', rest') ->
  sumrl (cur' :: rest') = sumrl (cur :: rest) /\ live (cur' :: rest') = live (cur :: rest) /\
  e_ino cur' = e_ino cur /\ e_name cur' = e_name cur /\ (length rest' <= length rest)%nat.
Proof.
  unfold absorb. destruct rest as [|nx r]; [intros H; inversion H; subst; repeat split; lia|].
  destruct ((off + e_rl cur <? payload - 8) && (e_ino nx =? 0) && (off + e_rl cur + e_rl nx <=? payload)) eqn:C;
    intros H; inversion H; subst; [|repeat split; lia].
  apply Bool.andb_true_iff in C as [C _]. apply Bool.andb_true_iff in C as [_ C]. apply N.eqb_eq in C.
  split; [rewrite !sumrl_cons; cbn [e_rl]; lia|]. split.
  - rewrite !live_cons. cbn [e_ino e_name]. rewrite C. cbn. reflexivity.
  - repeat split. cbn [length]. lia.
Qed.

Lemma link_walk_spec : forall fuel payload ino name off l l',
  ino <> 0 -> link_walk fuel payload ino name off l = Some l' ->
  sumrl l' = sumrl l /\ Permutation (live l') ((ino, name) :: live l).
Proof.
  induction fuel as [|f IH]; intros payload ino name off l l' Hi H; [discriminate|].
  destruct l as [|cur0 rest0]; [discriminate|]. cbn [link_walk] in H.
  destruct (absorb payload off cur0 rest0) as [cur rest] eqn:A.
  destruct (absorb_keeps _ _ _ _ _ _ A) as (S0 & L0 & I0 & N0 & _).
  rewrite <- S0, <- L0. clear S0 L0 A.
  destruct (e_ino cur =? 0) eqn:Z; cbn [negb] in H.
  - destruct (e_rl cur <? reclen (N.of_nat (length name))) eqn:C.
    + destruct (link_walk f payload ino name (off + e_rl cur) rest) as [x|] eqn:E; [|discriminate].
      inversion H; subst l'. destruct (IH _ _ _ _ _ _ Hi E) as [S1 P1].
      split; [rewrite !sumrl_cons in *; lia|]. rewrite !live_cons, Z. exact P1.
    + inversion H; subst l'. split; [reflexivity|].
      rewrite !live_cons. cbn [e_ino e_name]. rewrite Z. replace (ino =? 0) with false by lia. apply Permutation_refl.
  - destruct (e_rl cur <? reclen (nlen cur) + reclen (N.of_nat (length name))) eqn:C.
    + destruct (link_walk f payload ino name (off + e_rl cur) rest) as [x|] eqn:E; [|discriminate].
      inversion H; subst l'. destruct (IH _ _ _ _ _ _ Hi E) as [S1 P1].
      split; [rewrite !sumrl_cons in *; lia|]. rewrite !live_cons, Z.
      eapply Permutation_trans; [apply perm_skip; exact P1|apply perm_swap].
    + destruct (link_walk f payload ino name (off + reclen (nlen cur)) (mkEnt 0 (e_rl cur - reclen (nlen cur)) [] :: rest)) as [x|] eqn:E; [|discriminate].
      inversion H; subst l'. destruct (IH _ _ _ _ _ _ Hi E) as [S1 P1].
      split; [rewrite !sumrl_cons in *; cbn [e_rl] in *; lia|].
      rewrite !live_cons in *. cbn [e_ino e_name] in *. rewrite Z. cbn in P1.
      eapply Permutation_trans; [apply perm_skip; exact P1|apply perm_swap].
Qed.

(* a successful walk fills a record that is large enough for the name *)
Lemma link_walk_fits : forall fuel payload ino name off l l',
  link_walk fuel payload ino name off l = Some l' ->
  exists e, In e l' /\ e_ino e = ino /\ e_name e = name /\ reclen (N.of_nat (length name)) <= e_rl e.
Proof.
  induction fuel as [|f IH]; intros payload ino name off l l' H; [discriminate|].
  destruct l as [|cur0 rest0]; [discriminate|]. cbn [link_walk] in H.
  destruct (absorb payload off cur0 rest0) as [cur rest].
  destruct (negb (e_ino cur =? 0)).
  - destruct (e_rl cur <? reclen (nlen cur) + reclen (N.of_nat (length name))).
    + destruct (link_walk f payload ino name (off + e_rl cur) rest) as [x|] eqn:E; [|discriminate].
      inversion H; subst. destruct (IH _ _ _ _ _ _ E) as (e & A & B). exists e. split; [right; assumption|assumption].
    + destruct (link_walk f payload ino name _ _) as [x|] eqn:E; [|discriminate].
      inversion H; subst. destruct (IH _ _ _ _ _ _ E) as (e & A & B). exists e. split; [right; assumption|assumption].
  - destruct (e_rl cur <? reclen (N.of_nat (length name))) eqn:C.
    + destruct (link_walk f payload ino name (off + e_rl cur) rest) as [x|] eqn:E; [|discriminate].
      inversion H; subst. destruct (IH _ _ _ _ _ _ E) as (e & A & B). exists e. split; [right; assumption|assumption].
    + inversion H; subst. eexists. split; [left; reflexivity|]. cbn. repeat split. lia.
Qed.

(* unlink *)
Fixpoint remove_first (name : list N) (l : list (N * list N)) : list (N * list N) :=
  match l with
  | [] => []
  | x :: r => if name_eqb (snd x) name then r else x :: remove_first name r
  end.

Lemma live_remove_miss name e l : hit name e = false ->
  remove_first name (live (e :: l)) = (if e_ino e =? 0 then [] else [(e_ino e, e_name e)]) ++ remove_first name (live l).
Proof.
  intros H. rewrite live_cons. unfold hit in H. destruct (e_ino e =? 0) eqn:Z; [reflexivity|].
  cbn [remove_first snd]. cbn [negb] in H. rewrite Bool.andb_true_r in H. rewrite H. reflexivity.
Qed.

Lemma unlink_from_spec : forall name l p l',
  unlink_from name p l = Some l' ->
  sumrl l' = sumrl (p :: l) /\ live l' = (if e_ino p =? 0 then [] else [(e_ino p, e_name p)]) ++ remove_first name (live l).
Proof.
  induction l as [|cur rest IH]; intros p l' H; cbn [unlink_from] in H; [discriminate|].
  destruct (hit name cur) eqn:Hh.
  - inversion H; subst l'. split; [rewrite !sumrl_cons; cbn [e_rl]; lia|].
    rewrite !live_cons. cbn [e_ino e_name]. unfold hit in Hh. apply Bool.andb_true_iff in Hh as [H1 H2].
    destruct (e_ino cur =? 0) eqn:Z; [discriminate|]. cbn [remove_first snd]. rewrite H1.
    destruct (e_ino p =? 0); reflexivity.
  - destruct (unlink_from name cur rest) as [x|] eqn:E; [|discriminate]. inversion H; subst l'.
    destruct (IH cur x E) as [S1 L1]. split; [rewrite !sumrl_cons in *; lia|].
    rewrite live_cons, L1. rewrite (live_remove_miss name cur rest Hh). destruct (e_ino p =? 0); reflexivity.
Qed.

Lemma unlink_block_spec name l l' : unlink_block name l = Some l' ->
  sumrl l' = sumrl l /\ live l' = remove_first name (live l).
Proof.
  destruct l as [|first rest]; [discriminate|]. cbn [unlink_block].
  destruct (hit name first) eqn:Hh.
  - intros H. inversion H; subst l'. split; [reflexivity|].
    rewrite !live_cons. cbn [e_ino e_name]. unfold hit in Hh. apply Bool.andb_true_iff in Hh as [H1 H2].
    destruct (e_ino first =? 0) eqn:Z; [discriminate|]. cbn [remove_first snd N.eqb]. rewrite H1. reflexivity.
  - intros H. destruct (unlink_from_spec name rest first l' H) as [S1 L1]. split; [assumption|].
    rewrite L1. rewrite (live_remove_miss name first rest Hh). reflexivity.
Qed.

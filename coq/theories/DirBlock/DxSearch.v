(* lib/ext2fs/link.c dx_search_entry: binary search of one htree index node for the entry that covers a hash.
   entries[0] has no hash of its own (it covers everything below entries[1].hash); the search runs over
   entries[1 .. count-1] and returns p - 1. *)
From Coq Require Export List NArith Arith Bool Lia.
Export ListNotations.

(* e = the hash column of the node, index 0 included (its value is ignored) *)
Fixpoint dx_bs (fuel : nat) (e : list N) (p q : nat) (h : N) : nat :=
  match fuel with
  | O => p - 1
  | S f =>
    if q <? p then p - 1
    else let m := p + (q - p) / 2 in
         if (h <? nth m e 0)%N then dx_bs f e p (m - 1) h else dx_bs f e (m + 1) q h
  end.

Definition dx_search (e : list N) (h : N) : nat := dx_bs (length e) e 1 (length e - 1) h.

(* two levels: the root picks an interior node, the node picks the leaf.  Blocks are the second column. *)
Definition dx_leaf (root : list (N * N)) (nodes : list (N * list (N * N))) (h : N) : N :=
  let pick (l : list (N * N)) := snd (nth (dx_search (map fst l) h) l (0%N, 0%N)) in
  let b := pick root in
  match find (fun x => (fst x =? b)%N) nodes with
  | Some (_, ents) => pick ents
  | None => b
  end.

From E2V Require Import DirBlock.Nlink.
Local Open Scope N_scope.

Lemma mkdir_step_dir_nlink : forall c, 2 <= c ->
  mkdir_parent true (expected c) = Some (expected (c + 1)).
Proof.
  intros c Hc. unfold mkdir_parent, expected, LINK_MAX.
  destruct (65000 <? c) eqn:A; destruct (65000 <? c + 1) eqn:B;
    try (apply N.ltb_lt in A); try (apply N.ltb_ge in A); try (apply N.ltb_lt in B); try (apply N.ltb_ge in B); try lia.
  - reflexivity.
  - (* c = 65000: the count becomes 1 *)
    assert (c = 65000) by lia. subst c. reflexivity.
  - destruct (65000 <=? c) eqn:C; [apply N.leb_le in C; lia|].
    destruct (c =? 1) eqn:D; [apply N.eqb_eq in D; lia|]. reflexivity.
Qed.

Lemma mkdirs_dir_nlink : forall k c, 2 <= c ->
  mkdirs (mkdir_parent true) k (expected c) = Some (expected (c + N.of_nat k)).
Proof.
  induction k as [|k IH]; intros c Hc.
  - cbn [mkdirs]. rewrite N.add_0_r. reflexivity.
  - cbn [mkdirs]. rewrite mkdir_step_dir_nlink by assumption.
    rewrite IH by lia. f_equal. f_equal. lia.
Qed.

(* without dir_nlink: either the count is the number of links, or the request was refused - never a wrong count *)
Lemma mkdir_step_plain : forall c n', 2 <= c -> c <= LINK_MAX ->
  mkdir_parent false c = Some n' -> n' = c + 1 /\ c + 1 <= LINK_MAX.
Proof.
  intros c n' Hc Hm H. unfold mkdir_parent, LINK_MAX in *.
  destruct (65000 <=? c) eqn:A; [discriminate|]. apply N.leb_gt in A.
  destruct (c =? 1) eqn:D; [apply N.eqb_eq in D; lia|]. injection H as <-. lia.
Qed.

Lemma mkdirs_plain : forall k c n, 2 <= c -> c <= LINK_MAX ->
  mkdirs (mkdir_parent false) k c = Some n -> n = c + N.of_nat k /\ n <= LINK_MAX.
Proof.
  induction k as [|k IH]; intros c n Hc Hm H.
  - cbn [mkdirs] in H. injection H as <-. split; lia.
  - cbn [mkdirs] in H. destruct (mkdir_parent false c) as [c'|] eqn:E; [|discriminate].
    destruct (mkdir_step_plain _ _ Hc Hm E) as [-> Hle].
    assert (H2 : 2 <= c + 1) by lia.
    destruct (IH _ _ H2 Hle H) as [-> Hn]. split; lia.
Qed.

Lemma old_refuted : mkdirs mkdir_parent_old (N.to_nat 64999) 2 = Some 65001 /\ expected 65001 = 1.
Proof. vm_compute. split; reflexivity. Qed.

From E2V Require Import DirBlock.DxSearch.
From Coq Require Import ZifyBool ZifyN ZifyNat.

Definition sorted_from1 (e : list N) : Prop :=
  forall i j, (1 <= i)%nat -> (i <= j)%nat -> (j < length e)%nat -> (nth i e 0 <= nth j e 0)%N.

Lemma div2_le a : (a / 2 <= a)%nat.
Proof. apply Nat.div_le_upper_bound; lia. Qed.

Lemma dx_bs_spec e h : sorted_from1 e -> forall fuel p q,
  (1 <= p)%nat -> (q < length e)%nat -> (p <= q + 1)%nat -> (q + 1 - p <= fuel)%nat ->
  (forall i, (1 <= i)%nat -> (i < p)%nat -> (nth i e 0 <= h)%N) ->
  (forall i, (q < i)%nat -> (i < length e)%nat -> (h < nth i e 0)%N) ->
  let a := dx_bs fuel e p q h in
  (a < length e)%nat /\
  (forall i, (1 <= i)%nat -> (i <= a)%nat -> (nth i e 0 <= h)%N) /\
  (forall i, (a < i)%nat -> (i < length e)%nat -> (h < nth i e 0)%N).
Proof.
  intros Srt. induction fuel as [|f IH]; intros p q Hp Hq Hpq Hf Lo Hi; cbn [dx_bs].
  - assert (p = q + 1)%nat by lia. subst p. replace (q + 1 - 1)%nat with q by lia.
    split; [lia|]. split; [intros i A B; apply Lo; lia|intros i A B; apply Hi; lia].
  - destruct (Nat.ltb_spec q p) as [L|L].
    + assert (p = q + 1)%nat by lia. subst p. replace (q + 1 - 1)%nat with q by lia.
      split; [lia|]. split; [intros i A B; apply Lo; lia|intros i A B; apply Hi; lia].
    + set (m := (p + (q - p) / 2)%nat). pose proof (div2_le (q - p)) as D.
      assert (Hm : (p <= m <= q)%nat) by (unfold m; lia).
      assert (D2 : ((q - p) / 2 + (q - p) / 2 <= q - p)%nat).
      { pose proof (Nat.div_mod (q - p) 2 ltac:(lia)). lia. }
      destruct (N.ltb_spec h (nth m e 0%N)) as [Lt|Ge].
      * apply IH; try lia.
        -- exact Lo.
        -- intros i A B. destruct (Nat.le_gt_cases i q) as [Iq|Iq]; [|apply Hi; lia].
           pose proof (Srt m i ltac:(lia) ltac:(lia) ltac:(lia)). lia.
      * apply IH; try lia.
        -- intros i A B. destruct (Nat.lt_ge_cases i p) as [Ip|Ip]; [apply Lo; lia|].
           pose proof (Srt i m ltac:(lia) ltac:(lia) ltac:(lia)). lia.
        -- exact Hi.
Qed.

(* the entry found covers the hash: every entry up to it starts at or below the hash, every later one above *)
Theorem dx_search_covers e h : (1 <= length e)%nat -> sorted_from1 e ->
  let a := dx_search e h in
  (a < length e)%nat /\
  (forall i, (1 <= i)%nat -> (i <= a)%nat -> (nth i e 0 <= h)%N) /\
  (forall i, (a < i)%nat -> (i < length e)%nat -> (h < nth i e 0)%N).
Proof.
  intros L Srt. unfold dx_search. apply dx_bs_spec; try lia; auto.
Qed.

(* C10: the link count of a directory as ext2fs_mkdir keeps it (lib/ext2fs/mkdir.c), against what e2fsck pass 4
   expects of a directory (e2fsck/pass4.c: more than EXT2_LINK_MAX counted links -> the stored count is 1). *)
From Coq Require Export NArith List Lia.
Export ListNotations.
Local Open Scope N_scope.

Definition LINK_MAX : N := 65000.
Definition U16 : N := 65536.

(* pass 4: the count a directory with [counted] links (2 + its sub-directories) has to carry *)
Definition expected (counted : N) : N := if LINK_MAX <? counted then 1 else counted.

(* ext2fs_mkdir, the parent's i_links_count (a 16-bit field): None = refused with EMLINK before anything is written *)
Definition mkdir_parent (dir_nlink : bool) (n : N) : option N :=
  if LINK_MAX <=? n then (if dir_nlink then Some 1 else None)
  else if n =? 1 then Some 1 else Some (n + 1).

(* the code before the repair: an unconditional increment of the 16-bit field *)
Definition mkdir_parent_old (n : N) : option N := Some ((n + 1) mod U16).

(* k sub-directories created one after the other in a directory that starts empty (count 2) *)
Fixpoint mkdirs (step : N -> option N) (k : nat) (n : N) : option N :=
  match k with
  | O => Some n
  | S k' => match step n with Some n' => mkdirs step k' n' | None => None end
  end.

(* One directory block as the list of its records (lib/ext2fs/link.c link_proc,
   lib/ext2fs/unlink.c unlink_proc, driven by ext2fs_dir_iterate with DIRENT_FLAG_INCLUDE_EMPTY).
   The checksum tail, when present, is not part of the list: the iteration stops in front of it. *)
From Coq Require Export List NArith Bool Lia Permutation.
Export ListNotations.
Local Open Scope N_scope.

Record ent := mkEnt { e_ino : N; e_rl : N; e_name : list N }.

Definition nlen (e : ent) : N := N.of_nat (length (e_name e)).
Definition reclen (n : N) : N := (n + 8 + 3) / 4 * 4.        (* EXT2_DIR_REC_LEN *)
Definition sumrl (l : list ent) : N := fold_right (fun e s => e_rl e + s) 0 l.
Definition live (l : list ent) : list (N * list N) :=
  map (fun e => (e_ino e, e_name e)) (filter (fun e => negb (e_ino e =? 0)) l).

(* "see if the following directory entry (if any) is unused; if so, absorb it into this one" *)
Definition absorb (payload off : N) (cur : ent) (rest : list ent) : ent * list ent :=
  match rest with
  | nx :: r =>
    if (off + e_rl cur <? payload - 8) && (e_ino nx =? 0) && (off + e_rl cur + e_rl nx <=? payload)
    then (mkEnt (e_ino cur) (e_rl cur + e_rl nx) (e_name cur), r)
    else (cur, rest)
  | [] => (cur, rest)
  end.

(* the walk of link_proc over one block; None = no room here *)
Fixpoint link_walk (fuel : nat) (payload : N) (ino : N) (name : list N) (off : N) (l : list ent) : option (list ent) :=
  match fuel, l with
  | O, _ => None
  | _, [] => None
  | S f, cur0 :: rest0 =>
    let need := reclen (N.of_nat (length name)) in
    let '(cur, rest) := absorb payload off cur0 rest0 in
    if negb (e_ino cur =? 0) then
      let mn := reclen (nlen cur) in
      if e_rl cur <? mn + need then option_map (cons cur) (link_walk f payload ino name (off + e_rl cur) rest)
      else option_map (cons (mkEnt (e_ino cur) mn (e_name cur)))
                      (link_walk f payload ino name (off + mn) (mkEnt 0 (e_rl cur - mn) [] :: rest))
    else if e_rl cur <? need then option_map (cons cur) (link_walk f payload ino name (off + e_rl cur) rest)
    else Some (mkEnt ino (e_rl cur) name :: rest)
  end.

Definition link_block (payload ino : N) (name : list N) (l : list ent) : option (list ent) :=
  link_walk (2 * length l + 2) payload ino name 0 l.

Definition name_eqb (a b : list N) : bool := if list_eq_dec N.eq_dec a b then true else false.

(* unlink_proc: the first live record with that name goes: merged into its predecessor, or, when it is
   the first record of the block, marked unused *)
Definition hit (name : list N) (e : ent) : bool := name_eqb (e_name e) name && negb (e_ino e =? 0).

Fixpoint unlink_from (name : list N) (p : ent) (l : list ent) : option (list ent) :=
  match l with
  | [] => None
  | cur :: rest =>
    if hit name cur then Some (mkEnt (e_ino p) (e_rl p + e_rl cur) (e_name p) :: rest)
    else option_map (cons p) (unlink_from name cur rest)
  end.

Definition unlink_block (name : list N) (l : list ent) : option (list ent) :=
  match l with
  | [] => None
  | first :: rest =>
    if hit name first then Some (mkEnt 0 (e_rl first) (e_name first) :: rest)
    else unlink_from name first rest
  end.

From E2V Require Import Xattr.XattrSort.
From Coq Require Import ZifyBool ZifyN ZifyNat.
Local Open Scope N_scope.

Lemma bytes_leb_refl a : bytes_leb a a = true.
Proof. induction a as [|x a IH]; cbn [bytes_leb]; [reflexivity|]. destruct (x <? x) eqn:E; [reflexivity|assumption]. Qed.

Lemma bytes_leb_total a : forall b, bytes_leb a b = false -> bytes_leb b a = true.
Proof.
  induction a as [|x a IH]; intros [|y b] H; cbn [bytes_leb] in *; try reflexivity; try discriminate.
  destruct (x <? y) eqn:E1; [discriminate|]. destruct (y <? x) eqn:E2; [reflexivity|]. apply IH. assumption.
Qed.

Lemma bytes_leb_trans a : forall b c, bytes_leb a b = true -> bytes_leb b c = true -> bytes_leb a c = true.
Proof.
  induction a as [|x a IH]; intros [|y b] [|z c] H1 H2; cbn [bytes_leb] in *; try reflexivity; try discriminate.
  destruct (x <? y) eqn:E1; destruct (y <? z) eqn:E2; destruct (x <? z) eqn:E3; try reflexivity;
    destruct (y <? x) eqn:E4; try discriminate; destruct (z <? y) eqn:E5; try discriminate;
    destruct (z <? x) eqn:E6; try lia. eapply IH; eassumption.
Qed.

Lemma bytes_leb_antisym a : forall b, length a = length b -> bytes_leb a b = true -> bytes_leb b a = true -> a = b.
Proof.
  induction a as [|x a IH]; intros [|y b] L H1 H2; cbn [bytes_leb length] in *; try reflexivity; try discriminate.
  destruct (x <? y) eqn:E1; destruct (y <? x) eqn:E2; try lia; try discriminate.
  assert (x = y) by lia. subst. f_equal. apply IH; [lia|assumption|assumption].
Qed.

Lemma key_leb_refl k : key_leb k k = true.
Proof. unfold key_leb. destruct (kidx k <? kidx k) eqn:E; [reflexivity|]. destruct (klen k <? klen k) eqn:E2; [reflexivity|]. apply bytes_leb_refl. Qed.

Lemma key_leb_total k x : key_leb k x = false -> key_leb x k = true.
Proof.
  unfold key_leb. destruct (kidx k <? kidx x) eqn:E1; [discriminate|]. destruct (kidx x <? kidx k) eqn:E2; [reflexivity|].
  destruct (klen k <? klen x) eqn:E3; [discriminate|]. destruct (klen x <? klen k) eqn:E4; [reflexivity|]. apply bytes_leb_total.
Qed.

Lemma key_leb_trans a b c : key_leb a b = true -> key_leb b c = true -> key_leb a c = true.
Proof.
  unfold key_leb. generalize (klen a) (klen b) (klen c). intros la lb lc.
  destruct (kidx a <? kidx b) eqn:E1; destruct (kidx b <? kidx c) eqn:E2; destruct (kidx a <? kidx c) eqn:E3; try reflexivity;
    destruct (kidx b <? kidx a) eqn:E4; try discriminate; destruct (kidx c <? kidx b) eqn:E5; try discriminate;
    destruct (kidx c <? kidx a) eqn:E6; try lia.
  destruct (la <? lb) eqn:F1; destruct (lb <? lc) eqn:F2; destruct (la <? lc) eqn:F3; try reflexivity;
    destruct (lb <? la) eqn:F4; try discriminate; destruct (lc <? lb) eqn:F5; try discriminate;
    destruct (lc <? la) eqn:F6; try lia.
  apply bytes_leb_trans.
Qed.

Lemma key_eqb_eq a b : key_eqb a b = true -> a = b.
Proof.
  unfold key_eqb, key_leb, klen. intros H. apply andb_true_iff in H. destruct H as [H1 H2].
  destruct a as [ia na], b as [ib nb]. cbn [kidx kname] in *.
  destruct (ia <? ib) eqn:E1; destruct (ib <? ia) eqn:E2; try lia; try discriminate.
  destruct (N.of_nat (length na) <? N.of_nat (length nb)) eqn:E3; destruct (N.of_nat (length nb) <? N.of_nat (length na)) eqn:E4; try lia; try discriminate.
  assert (ia = ib) by lia. subst. f_equal. apply bytes_leb_antisym; [lia|assumption|assumption].
Qed.

(* strongly sorted form *)
Fixpoint ssorted (l : list xkey) : Prop :=
  match l with
  | [] => True
  | x :: r => (forall y, In y r -> key_leb x y = true) /\ ssorted r
  end.

Lemma sortedb_ssorted l : sortedb l = true <-> ssorted l.
Proof.
  induction l as [|x r IH]; cbn [sortedb ssorted]; [tauto|].
  destruct r as [|y r'].
  - cbn [In ssorted]. split; [intros _; split; [intros ? []|exact I]|reflexivity].
  - rewrite andb_true_iff. rewrite IH. split.
    + intros [A B]. split; [|assumption]. intros z [<-|Hz]; [assumption|].
      cbn [ssorted] in B. destruct B as [B _]. eapply key_leb_trans; [exact A|]. apply B. assumption.
    + intros [A B]. split; [apply A; left; reflexivity|assumption].
Qed.

(* the recursive form of "insert at the position found" *)
Fixpoint ins (l : list xkey) (k : xkey) : list xkey :=
  match l with
  | [] => [k]
  | x :: r => if key_leb k x then k :: x :: r else x :: ins r k
  end.

Lemma insert_key_ins l k : insert_key l k = ins l k.
Proof.
  unfold insert_key, insert_at. induction l as [|x r IH]; cbn [find_position ins]; [reflexivity|].
  destruct (key_leb k x); [reflexivity|]. cbn [firstn skipn app]. rewrite IH. reflexivity.
Qed.

Lemma in_ins l k y : In y (ins l k) -> y = k \/ In y l.
Proof.
  induction l as [|x r IH]; cbn [ins In]; [intros [<-|[]]; left; reflexivity|].
  destruct (key_leb k x); cbn [In]; [intros [<-|[<-|H]]; tauto|]. intros [<-|H]; [tauto|]. destruct (IH H); tauto.
Qed.

Lemma ins_sorted l k : ssorted l -> ssorted (ins l k).
Proof.
  induction l as [|x r IH]; cbn [ins ssorted]; intros H.
  - split; [intros ? []|exact I].
  - destruct H as [A B]. destruct (key_leb k x) eqn:E; cbn [ssorted].
    + split; [|split; assumption]. intros y [<-|Hy]; [assumption|]. eapply key_leb_trans; [exact E|]. apply A. assumption.
    + split; [|apply IH; assumption]. intros y Hy. destruct (in_ins _ _ _ Hy) as [->|Hy']; [apply key_leb_total; assumption|apply A; assumption].
Qed.

Lemma in_ins_back l k y : y = k \/ In y l -> In y (ins l k).
Proof.
  induction l as [|x r IH]; cbn [ins In]; [intros [->|[]]; left; reflexivity|].
  destruct (key_leb k x); cbn [In]; [intros [->|[->|H]]; tauto|]. intros [->|[->|H]]; [right; apply IH; left; reflexivity|left; reflexivity|right; apply IH; right; assumption].
Qed.

(* on a sorted list the kernel's early-exit lookup finds exactly the members *)
Lemma sorted_lookup_complete l k : ssorted l -> In k l -> sorted_lookup l k = true.
Proof.
  induction l as [|x r IH]; cbn [ssorted In sorted_lookup]; [intros _ []|]. intros [A B] H.
  destruct H as [->|H].
  - rewrite key_leb_refl. unfold key_eqb. rewrite key_leb_refl. reflexivity.
  - destruct (key_leb k x) eqn:E; [|apply IH; assumption].
    unfold key_eqb. rewrite E. cbn [andb]. apply A. assumption.
Qed.

Lemma sorted_lookup_sound l k : sorted_lookup l k = true -> In k l.
Proof.
  induction l as [|x r IH]; cbn [sorted_lookup In]; [discriminate|].
  destruct (key_leb k x); [intros H; left; symmetry; apply key_eqb_eq; assumption|intros H; right; apply IH; assumption].
Qed.

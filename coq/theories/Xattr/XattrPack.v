(* lib/ext2fs/ext_attr.c write_xattrs_to_buffer: entries are laid out upwards from the start of the
   storage area, values downwards from its end (4-byte aligned), a 4-byte zero terminates the entries.
   space_used is the library's own estimate that decides whether a set of attributes fits. *)
From Coq Require Export List NArith Bool Lia.
Export ListNotations.
Local Open Scope N_scope.

Record xa := mkXa { nlen : N; vlen : N; ea_ino : bool }.     (* name length, value length, value in an EA inode *)

Definition elen (nl : N) : N := (nl + 16 + 3) / 4 * 4.      (* EXT2_EXT_ATTR_LEN *)
Definition vsize (vl : N) : N := (vl + 3) / 4 * 4.           (* EXT2_EXT_ATTR_SIZE *)

Definition cost (a : xa) : N := elen (nlen a) + (if ea_ino a then 0 else vsize (vlen a)).
Definition space_used (l : list xa) : N := fold_right (fun a s => cost a + s) 0 l.

(* placement of one attribute list: (entry offset, value offset or 0, value bytes reserved) per attribute,
   then the offset of the terminator and the lowest value offset *)
Fixpoint place (l : list xa) (e endp : N) : list (N * N * N) * N * N :=
  match l with
  | [] => ([], e, endp)
  | a :: r =>
    let vs := if ea_ino a then 0 else vsize (vlen a) in
    let endp' := endp - vs in
    let '(ps, ef, endf) := place r (e + elen (nlen a)) endp' in
    ((e, (if ea_ino a then 0 else endp'), vs) :: ps, ef, endf)
  end.

(* does the set fit a storage area of [size] bytes (ext2fs_xattr_set compares space_used with the free space,
   which already excludes the 4-byte terminator) *)
Definition fits (l : list xa) (size : N) : bool := space_used l + 4 <=? size.

(* The attribute handle of lib/ext2fs/ext_attr.c as a state machine: the in-memory array (in-inode part first,
   then the block part, kept sorted) and the decisions of ext2fs_xattr_set / xattr_array_update /
   ext2fs_xattr_remove: which storage area an attribute goes to, when the request is refused for lack of
   space, when the value goes to an EA inode.  Value contents are abstracted to an identity [avid]
   (equal identity = equal bytes); system.data and POSIX-ACL conversion are not modelled. *)
From E2V Require Export Xattr.XattrPack Xattr.XattrSort.
Local Open Scope N_scope.

Record attr := mkAt { akey : xkey; avid : N; avlen : N; aea : bool }.
Definition to_xa (a : attr) : xa := mkXa (klen (akey a)) (avlen a) (aea a).
Definition acost (a : attr) : N := cost (to_xa a).
Definition used (l : list attr) : N := space_used (map to_xa l).

Record cfg := mkCfg {
  ib_cap : N;      (* inode size - 128 - i_extra_isize - 8 (magic and terminator); 0 for 128-byte inodes *)
  blk_cap : N;     (* block size - 32 (header) - 4 (terminator) *)
  ea_feat : bool;  (* ea_inode feature *)
  ea_min : N       (* EXT4_XATTR_MIN_LARGE_EA_SIZE = block size - 56 *)
}.

Record hstate := mkH { ib : list attr; bl : list attr }.

Fixpoint find (l : list attr) (k : xkey) : option attr :=
  match l with
  | [] => None
  | a :: r => if key_eqb (akey a) k then Some a else find r k
  end.

Fixpoint remove_first (l : list attr) (k : xkey) : list attr :=
  match l with
  | [] => []
  | a :: r => if key_eqb (akey a) k then r else a :: remove_first r k
  end.

Fixpoint replace_first (l : list attr) (k : xkey) (n : attr) : list attr :=
  match l with
  | [] => []
  | a :: r => if key_eqb (akey a) k then n :: r else a :: replace_first r k n
  end.

(* the block part is sorted: insertion at xattr_find_position *)
Definition insert_sorted (l : list attr) (n : attr) : list attr :=
  let p := find_position (map akey l) (akey n) in firstn p l ++ n :: skipn p l.

Inductive res := ROk (s : hstate) | RNoSpace.

(* xattr_array_update.  The C code computes ibody_free / block_free by subtraction; the comparisons are written
   here in additive form, which is the same thing as long as the areas are not already over-full. *)
Definition array_update (c : cfg) (s : hstate) (k : xkey) (vid vl : N) (in_inode : bool) : res :=
  let needed := elen (klen k) + (if in_inode then 0 else vsize vl) in
  let n := mkAt k vid vl in_inode in
  match find (ib s) k with
  | Some old =>
    if needed + used (ib s) <=? ib_cap c + acost old then ROk (mkH (replace_first (ib s) k n) (bl s))
    else if needed + used (bl s) <=? blk_cap c then ROk (mkH (remove_first (ib s) k) (insert_sorted (bl s) n))
    else RNoSpace
  | None =>
    match find (bl s) k with
    | Some old =>
      if needed + used (ib s) <=? ib_cap c then ROk (mkH (ib s ++ [n]) (remove_first (bl s) k))
      else if needed + used (bl s) <=? blk_cap c + acost old then ROk (mkH (ib s) (replace_first (bl s) k n))
      else RNoSpace
    | None =>
      if needed + used (ib s) <=? ib_cap c then ROk (mkH (ib s ++ [n]) (bl s))
      else if needed + used (bl s) <=? blk_cap c then ROk (mkH (ib s) (insert_sorted (bl s) n))
      else RNoSpace
    end
  end.

Definition lookup (s : hstate) (k : xkey) : option attr :=
  match find (ib s) k with Some a => Some a | None => find (bl s) k end.

(* ext2fs_xattr_set *)
Definition xset (c : cfg) (s : hstate) (k : xkey) (vid vl : N) : res :=
  let same := match lookup s k with
              | Some old => negb (aea old) && (avlen old =? vl) && (avid old =? vid)
              | None => false
              end in
  if same then ROk s          (* "imitate kernel behavior by skipping update if value is the same" *)
  else
    let in_inode := ea_feat c && (ea_min c <? vl) in
    match array_update c s k vid vl in_inode with
    | RNoSpace => if negb in_inode && ea_feat c then array_update c s k vid vl true else RNoSpace
    | r => r
    end.

(* ext2fs_xattr_remove *)
Definition xremove (s : hstate) (k : xkey) : hstate :=
  match find (ib s) k with
  | Some _ => mkH (remove_first (ib s) k) (bl s)
  | None => mkH (ib s) (remove_first (bl s) k)
  end.

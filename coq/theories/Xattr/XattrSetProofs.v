From E2V Require Import Xattr.XattrSet Xattr.XattrSortProofs Xattr.XattrProofs.
From Coq Require Import Permutation ZifyBool ZifyN ZifyNat.
Local Open Scope N_scope.

Definition keys (l : list attr) : list xkey := map akey l.

Lemma key_eqb_refl k : key_eqb k k = true.
Proof. unfold key_eqb. rewrite key_leb_refl. reflexivity. Qed.

Lemma key_eqb_true a b : key_eqb a b = true <-> a = b.
Proof. split; [apply key_eqb_eq|intros ->; apply key_eqb_refl]. Qed.

Lemma key_eqb_false a b : key_eqb a b = false <-> a <> b.
Proof.
  split.
  - intros H E. subst. rewrite key_eqb_refl in H. discriminate.
  - intros H. destruct (key_eqb a b) eqn:E; [|reflexivity]. apply key_eqb_eq in E. contradiction.
Qed.

Lemma find_some l k a : find l k = Some a -> akey a = k /\ In a l.
Proof.
  induction l as [|x r IH]; cbn [find In]; [discriminate|].
  destruct (key_eqb (akey x) k) eqn:E.
  - intros H. injection H as <-. split; [apply key_eqb_eq; assumption|left; reflexivity].
  - intros H. destruct (IH H) as [A B]. split; [assumption|right; assumption].
Qed.

Lemma find_none l k : find l k = None <-> ~ In k (keys l).
Proof.
  induction l as [|x r IH]; cbn [find keys map In]; [tauto|].
  destruct (key_eqb (akey x) k) eqn:E.
  - apply key_eqb_eq in E. split; [discriminate|intros H; exfalso; apply H; left; assumption].
  - apply key_eqb_false in E. fold (keys r). rewrite IH. tauto.
Qed.

Lemma find_app l1 l2 k : find (l1 ++ l2) k = match find l1 k with Some a => Some a | None => find l2 k end.
Proof. induction l1 as [|x r IH]; cbn [find app]; [reflexivity|]. destruct (key_eqb (akey x) k); [reflexivity|apply IH]. Qed.

(* ---- space *)
Lemma used_cons a l : used (a :: l) = acost a + used l.
Proof. reflexivity. Qed.

Lemma used_app l1 l2 : used (l1 ++ l2) = used l1 + used l2.
Proof. induction l1 as [|x r IH]; cbn [app]; [reflexivity|]. rewrite !used_cons, IH. lia. Qed.

Lemma used_remove l k old : find l k = Some old -> used l = acost old + used (remove_first l k).
Proof.
  induction l as [|x r IH]; cbn [find remove_first]; [discriminate|].
  destruct (key_eqb (akey x) k); intros H.
  - injection H as <-. apply used_cons.
  - rewrite !used_cons, (IH H). lia.
Qed.

Lemma used_replace l k old n : find l k = Some old -> used (replace_first l k n) + acost old = used l + acost n.
Proof.
  induction l as [|x r IH]; cbn [find replace_first]; [discriminate|].
  destruct (key_eqb (akey x) k); intros H.
  - injection H as <-. rewrite !used_cons. lia.
  - rewrite !used_cons. specialize (IH H). lia.
Qed.

Lemma used_insert l n : used (insert_sorted l n) = acost n + used l.
Proof.
  unfold insert_sorted. set (p := find_position _ _).
  rewrite used_app, used_cons. rewrite <- (firstn_skipn p l) at 3. rewrite used_app. lia.
Qed.

Lemma acost_mk k vid vl e : acost (mkAt k vid vl e) = elen (klen k) + (if e then 0 else vsize vl).
Proof. reflexivity. Qed.

(* ---- lookups after the list edits *)
Lemma find_replace_same l k n old : find l k = Some old -> akey n = k -> find (replace_first l k n) k = Some n.
Proof.
  induction l as [|x r IH]; cbn [find replace_first]; [discriminate|].
  destruct (key_eqb (akey x) k) eqn:E; intros H K; cbn [find].
  - rewrite K, key_eqb_refl. reflexivity.
  - rewrite E. apply IH; assumption.
Qed.

Lemma find_replace_other l k n k' : akey n = k -> k' <> k -> find (replace_first l k n) k' = find l k'.
Proof.
  intros K D. induction l as [|x r IH]; cbn [find replace_first]; [reflexivity|].
  destruct (key_eqb (akey x) k) eqn:E; cbn [find].
  - apply key_eqb_eq in E. rewrite K, E.
    assert (F : key_eqb k k' = false) by (apply key_eqb_false; congruence). rewrite F. reflexivity.
  - destruct (key_eqb (akey x) k'); [reflexivity|apply IH].
Qed.

Lemma find_remove_other l k k' : k' <> k -> find (remove_first l k) k' = find l k'.
Proof.
  intros D. induction l as [|x r IH]; cbn [find remove_first]; [reflexivity|].
  destruct (key_eqb (akey x) k) eqn:E; cbn [find].
  - apply key_eqb_eq in E. assert (F : key_eqb (akey x) k' = false) by (apply key_eqb_false; congruence). rewrite F. reflexivity.
  - destruct (key_eqb (akey x) k'); [reflexivity|apply IH].
Qed.

Lemma find_remove_same l k : NoDup (keys l) -> find (remove_first l k) k = None.
Proof.
  induction l as [|x r IH]; cbn [find remove_first keys map]; [reflexivity|]. fold (keys r).
  intros ND. apply NoDup_cons_iff in ND. destruct ND as [NI ND].
  destruct (key_eqb (akey x) k) eqn:E.
  - apply key_eqb_eq in E. subst. apply find_none. assumption.
  - cbn [find]. rewrite E. apply IH. assumption.
Qed.

Lemma find_insert l n k' : find l (akey n) = None ->
  find (insert_sorted l n) k' = if key_eqb (akey n) k' then Some n else find l k'.
Proof.
  intros N. unfold insert_sorted. set (p := find_position _ _).
  rewrite find_app. cbn [find].
  pose proof (find_app (firstn p l) (skipn p l) (akey n)) as F1. rewrite firstn_skipn in F1. rewrite N in F1.
  pose proof (find_app (firstn p l) (skipn p l) k') as F2. rewrite firstn_skipn in F2. rewrite F2.
  destruct (key_eqb (akey n) k') eqn:E.
  - apply key_eqb_eq in E. subst k'. destruct (find (firstn p l) (akey n)); [discriminate|reflexivity].
  - reflexivity.
Qed.

(* ---- key lists after the edits *)
Lemma keys_replace l k n : akey n = k -> keys (replace_first l k n) = keys l.
Proof.
  intros K. induction l as [|x r IH]; cbn [replace_first keys map]; [reflexivity|].
  destruct (key_eqb (akey x) k) eqn:E; cbn [map].
  - apply key_eqb_eq in E. congruence.
  - fold (keys r). fold (keys (replace_first r k n)). rewrite IH. reflexivity.
Qed.

Lemma keys_remove_perm l k old : find l k = Some old -> Permutation (keys l) (k :: keys (remove_first l k)).
Proof.
  induction l as [|x r IH]; cbn [find remove_first keys map]; [discriminate|].
  destruct (key_eqb (akey x) k) eqn:E; intros H.
  - apply key_eqb_eq in E. rewrite E. apply Permutation_refl.
  - cbn [map]. fold (keys r). fold (keys (remove_first r k)).
    eapply Permutation_trans; [apply perm_skip; apply IH; assumption|]. apply perm_swap.
Qed.

Lemma keys_insert l n : keys (insert_sorted l n) = insert_key (keys l) (akey n).
Proof.
  unfold insert_sorted, insert_key, insert_at, keys. set (p := find_position _ _).
  rewrite map_app. cbn [map]. rewrite firstn_map, skipn_map. reflexivity.
Qed.

Lemma keys_insert_perm l n : Permutation (keys (insert_sorted l n)) (akey n :: keys l).
Proof.
  rewrite keys_insert. unfold insert_key, insert_at. set (p := find_position _ _).
  rewrite <- (firstn_skipn p (keys l)) at 3. apply Permutation_sym. apply Permutation_middle.
Qed.

Lemma ssorted_remove l k : ssorted (keys l) -> ssorted (keys (remove_first l k)).
Proof.
  induction l as [|x r IH]; cbn [remove_first keys map ssorted]; [tauto|]. fold (keys r).
  intros [A B]. destruct (key_eqb (akey x) k); [assumption|].
  cbn [keys map ssorted]. fold (keys (remove_first r k)). split; [|apply IH; assumption].
  intros y Hy. apply A. clear -Hy. induction r as [|z r IH]; cbn [remove_first keys map In] in *; [assumption|].
  destruct (key_eqb (akey z) k); [right; assumption|]. cbn [map In] in Hy. destruct Hy as [<-|Hy]; [left; reflexivity|right; apply IH; assumption].
Qed.

(* ---- the invariant of the handle *)
Definition Inv (c : cfg) (s : hstate) : Prop :=
  used (ib s) <= ib_cap c /\ used (bl s) <= blk_cap c /\
  NoDup (keys (ib s) ++ keys (bl s)) /\ sortedb (keys (bl s)) = true.

Lemma nodup_parts l1 l2 : NoDup (l1 ++ l2) -> NoDup l1 /\ NoDup l2 /\ (forall x : xkey, In x l1 -> ~ In x l2).
Proof.
  induction l1 as [|a r IH]; cbn [app]; intros H.
  - split; [constructor|]. split; [assumption|]. intros x [].
  - apply NoDup_cons_iff in H. destruct H as [NI ND]. destruct (IH ND) as (A & B & C).
    split; [constructor; [intros X; apply NI; apply in_or_app; left; assumption|assumption]|]. split; [assumption|].
    intros x [<-|Hx]; [intros X; apply NI; apply in_or_app; right; assumption|apply C; assumption].
Qed.

Lemma in_keys_find l k : In k (keys l) -> exists a, find l k = Some a.
Proof.
  intros H. destruct (find l k) eqn:E; [eexists; reflexivity|]. apply find_none in E. contradiction.
Qed.

Lemma sorted_keys_insert l n : sortedb (keys l) = true -> sortedb (keys (insert_sorted l n)) = true.
Proof.
  intros S. rewrite keys_insert, insert_key_ins. apply sortedb_ssorted. apply ins_sorted. apply sortedb_ssorted. assumption.
Qed.

Lemma sorted_keys_remove l k : sortedb (keys l) = true -> sortedb (keys (remove_first l k)) = true.
Proof. intros S. apply sortedb_ssorted. apply ssorted_remove. apply sortedb_ssorted. assumption. Qed.

Lemma keys_app l1 l2 : keys (l1 ++ l2) = keys l1 ++ keys l2.
Proof. apply map_app. Qed.

Section Update.
  Variable c : cfg.
  Variables (k : xkey) (vid vl : N) (e : bool).
  Let n := mkAt k vid vl e.

  Lemma array_update_inv s s' : Inv c s -> array_update c s k vid vl e = ROk s' -> Inv c s'.
  Proof.
    intros (U1 & U2 & ND & SO) H. unfold array_update in H. fold n in H.
    pose proof (acost_mk k vid vl e) as CN. fold n in CN.
    destruct (nodup_parts _ _ ND) as (ND1 & ND2 & DJ).
    destruct (find (ib s) k) as [old|] eqn:F1.
    - (* present in the inode *)
      destruct (_ <=? _) eqn:T1 in H.
      + injection H as <-. unfold Inv. cbn [ib bl].
        pose proof (used_replace _ _ _ n F1) as UR.
        split; [lia|]. split; [assumption|]. rewrite keys_replace by reflexivity. split; assumption.
      + destruct (_ <=? _) eqn:T2 in H; [|discriminate]. injection H as <-. unfold Inv. cbn [ib bl].
        pose proof (used_remove _ _ _ F1) as UR. rewrite used_insert.
        split; [lia|]. split; [lia|]. split; [|apply sorted_keys_insert; assumption].
        eapply Permutation_NoDup; [|exact ND].
        eapply Permutation_trans; [apply Permutation_app_tail; apply (keys_remove_perm _ _ _ F1)|].
        cbn [app]. eapply Permutation_trans; [apply Permutation_middle|].
        apply Permutation_app_head. apply Permutation_sym. apply keys_insert_perm.
    - destruct (find (bl s) k) as [old|] eqn:F2.
      + destruct (_ <=? _) eqn:T1 in H.
        * injection H as <-. unfold Inv. cbn [ib bl].
          pose proof (used_remove _ _ _ F2) as UR. rewrite used_app, used_cons. change (used []) with 0.
          split; [lia|]. split; [lia|]. split; [|apply sorted_keys_remove; assumption].
          eapply Permutation_NoDup; [|exact ND]. rewrite keys_app. cbn [keys map].
          eapply Permutation_trans; [apply Permutation_app_head; apply (keys_remove_perm _ _ _ F2)|].
          rewrite <- app_assoc. cbn [app]. apply Permutation_refl.
        * destruct (_ <=? _) eqn:T2 in H; [|discriminate]. injection H as <-. unfold Inv. cbn [ib bl].
          pose proof (used_replace _ _ _ n F2) as UR.
          split; [assumption|]. split; [lia|]. rewrite keys_replace by reflexivity. split; assumption.
      + apply find_none in F1. apply find_none in F2.
        destruct (_ <=? _) eqn:T1 in H.
        * injection H as <-. unfold Inv. cbn [ib bl]. rewrite used_app, used_cons. change (used []) with 0.
          split; [lia|]. split; [assumption|]. split; [|assumption].
          rewrite keys_app. cbn [keys map]. rewrite <- app_assoc. cbn [app].
          eapply Permutation_NoDup; [apply Permutation_middle|]. constructor; [|assumption].
          intros X. apply in_app_or in X. tauto.
        * destruct (_ <=? _) eqn:T2 in H; [|discriminate]. injection H as <-. unfold Inv. cbn [ib bl]. rewrite used_insert.
          split; [assumption|]. split; [lia|]. split; [|apply sorted_keys_insert; assumption].
          eapply Permutation_NoDup; [apply Permutation_app_head; apply Permutation_sym; apply keys_insert_perm|].
          eapply Permutation_NoDup; [apply Permutation_middle|]. constructor; [|assumption].
          intros X. apply in_app_or in X. tauto.
  Qed.
End Update.

Section Lookup.
  Variable c : cfg.
  Variables (k : xkey) (vid vl : N) (e : bool).
  Let n := mkAt k vid vl e.

  Lemma array_update_lookup s s' : Inv c s -> array_update c s k vid vl e = ROk s' ->
    lookup s' k = Some n /\ forall k', k' <> k -> lookup s' k' = lookup s k'.
  Proof.
    intros (U1 & U2 & ND & SO) H. unfold array_update in H. fold n in H.
    destruct (nodup_parts _ _ ND) as (ND1 & ND2 & DJ).
    assert (KN : akey n = k) by reflexivity.
    assert (NE : forall k', k' <> k -> key_eqb (akey n) k' = false) by (intros k' D; apply key_eqb_false; cbn; congruence).
    unfold lookup.
    destruct (find (ib s) k) as [old|] eqn:F1.
    - assert (F2 : find (bl s) k = None).
      { apply find_none. apply DJ. destruct (find_some _ _ _ F1) as [A B]. rewrite <- A. apply in_map. assumption. }
      destruct (_ <=? _) eqn:T1 in H.
      + injection H as <-. cbn [ib bl]. split.
        * rewrite (find_replace_same _ _ n old F1 KN). reflexivity.
        * intros k' D. rewrite (find_replace_other _ _ n k' KN D). reflexivity.
      + destruct (_ <=? _) eqn:T2 in H; [|discriminate]. injection H as <-. cbn [ib bl]. split.
        * rewrite (find_remove_same _ _ ND1). rewrite find_insert by assumption. rewrite KN, key_eqb_refl. reflexivity.
        * intros k' D. rewrite (find_remove_other _ _ _ D). rewrite find_insert by assumption. rewrite (NE k' D). reflexivity.
    - destruct (find (bl s) k) as [old|] eqn:F2.
      + destruct (_ <=? _) eqn:T1 in H.
        * injection H as <-. cbn [ib bl]. split.
          -- rewrite find_app, F1. cbn [find]. rewrite KN, key_eqb_refl. reflexivity.
          -- intros k' D. rewrite find_app. cbn [find]. rewrite (NE k' D). rewrite (find_remove_other _ _ _ D).
             destruct (find (ib s) k'); reflexivity.
        * destruct (_ <=? _) eqn:T2 in H; [|discriminate]. injection H as <-. cbn [ib bl]. split.
          -- rewrite F1. apply (find_replace_same _ _ n old F2 KN).
          -- intros k' D. rewrite (find_replace_other _ _ n k' KN D). reflexivity.
      + destruct (_ <=? _) eqn:T1 in H.
        * injection H as <-. cbn [ib bl]. split.
          -- rewrite find_app, F1. cbn [find]. rewrite KN, key_eqb_refl. reflexivity.
          -- intros k' D. rewrite find_app. cbn [find]. rewrite (NE k' D). destruct (find (ib s) k'); reflexivity.
        * destruct (_ <=? _) eqn:T2 in H; [|discriminate]. injection H as <-. cbn [ib bl]. split.
          -- rewrite F1. rewrite find_insert by assumption. rewrite KN, key_eqb_refl. reflexivity.
          -- intros k' D. rewrite find_insert by assumption. rewrite (NE k' D). reflexivity.
  Qed.
End Lookup.

(* ---- ext2fs_xattr_set / ext2fs_xattr_remove *)
Lemma xset_inv c s k vid vl s' : Inv c s -> xset c s k vid vl = ROk s' -> Inv c s'.
Proof.
  intros I H. unfold xset in H.
  destruct (match lookup s k with Some old => _ | None => false end); [injection H as <-; assumption|].
  destruct (array_update c s k vid vl (ea_feat c && (ea_min c <? vl))) eqn:A1.
  - injection H as <-. eapply array_update_inv; eassumption.
  - destruct (negb _ && ea_feat c); [|discriminate]. eapply array_update_inv; eassumption.
Qed.

Lemma xset_lookup c s k vid vl s' : Inv c s -> xset c s k vid vl = ROk s' ->
  (exists a, lookup s' k = Some a /\ akey a = k /\ avid a = vid /\ avlen a = vl) /\
  forall k', k' <> k -> lookup s' k' = lookup s k'.
Proof.
  intros I H. unfold xset in H.
  destruct (lookup s k) as [old|] eqn:L.
  - destruct (negb (aea old) && (avlen old =? vl) && (avid old =? vid)) eqn:SM.
    + injection H as <-. split; [|reflexivity]. exists old. split; [assumption|].
      assert (akey old = k).
      { unfold lookup in L. destruct (find (ib s) k) eqn:F; [injection L as ->; apply (find_some _ _ _ F)|apply (find_some _ _ _ L)]. }
      apply andb_true_iff in SM. destruct SM as [SM S3]. apply andb_true_iff in SM. destruct SM as [S1 S2]. repeat split; [assumption|lia|lia].
    + destruct (array_update c s k vid vl (ea_feat c && (ea_min c <? vl))) eqn:A1.
      * injection H as <-. destruct (array_update_lookup _ _ _ _ _ _ _ I A1) as [X Y]. split; [eexists; split; [exact X|repeat split]|exact Y].
      * destruct (negb _ && ea_feat c); [|discriminate]. destruct (array_update_lookup _ _ _ _ _ _ _ I H) as [X Y]. split; [eexists; split; [exact X|repeat split]|exact Y].
  - destruct (array_update c s k vid vl (ea_feat c && (ea_min c <? vl))) eqn:A1.
    + injection H as <-. destruct (array_update_lookup _ _ _ _ _ _ _ I A1) as [X Y]. split; [eexists; split; [exact X|repeat split]|exact Y].
    + destruct (negb _ && ea_feat c); [|discriminate]. destruct (array_update_lookup _ _ _ _ _ _ _ I H) as [X Y]. split; [eexists; split; [exact X|repeat split]|exact Y].
Qed.

Lemma xremove_inv c s k : Inv c s -> Inv c (xremove s k).
Proof.
  intros (U1 & U2 & ND & SO). unfold xremove.
  destruct (find (ib s) k) as [old|] eqn:F1; unfold Inv; cbn [ib bl].
  - pose proof (used_remove _ _ _ F1). split; [lia|]. split; [assumption|]. split; [|assumption].
    pose proof (Permutation_NoDup (Permutation_app_tail (keys (bl s)) (keys_remove_perm _ _ _ F1)) ND) as X.
    cbn [app] in X. apply NoDup_cons_iff in X. apply X.
  - destruct (find (bl s) k) as [old|] eqn:F2.
    + pose proof (used_remove _ _ _ F2). split; [assumption|]. split; [lia|]. split; [|apply sorted_keys_remove; assumption].
      pose proof (Permutation_NoDup (Permutation_app_head (keys (ib s)) (keys_remove_perm _ _ _ F2)) ND) as X.
      apply NoDup_remove_1 in X. assumption.
    + assert (R : remove_first (bl s) k = bl s).
      { clear -F2. induction (bl s) as [|x r IH]; cbn [find remove_first] in *; [reflexivity|]. destruct (key_eqb (akey x) k); [discriminate|]. rewrite IH by assumption. reflexivity. }
      rewrite R. repeat split; assumption.
Qed.

Lemma xremove_lookup c s k : Inv c s ->
  lookup (xremove s k) k = None /\ forall k', k' <> k -> lookup (xremove s k) k' = lookup s k'.
Proof.
  intros (U1 & U2 & ND & SO). destruct (nodup_parts _ _ ND) as (ND1 & ND2 & DJ). unfold xremove, lookup.
  destruct (find (ib s) k) as [old|] eqn:F1; cbn [ib bl].
  - assert (F2 : find (bl s) k = None).
    { apply find_none. apply DJ. destruct (find_some _ _ _ F1) as [A B]. rewrite <- A. apply in_map. assumption. }
    split; [rewrite (find_remove_same _ _ ND1); assumption|]. intros k' D. rewrite (find_remove_other _ _ _ D). reflexivity.
  - split; [rewrite F1; apply find_remove_same; assumption|]. intros k' D. rewrite (find_remove_other _ _ _ D). reflexivity.
Qed.

(* every reachable handle state: sequences of set / remove *)
Inductive xop := OSet (k : xkey) (vid vl : N) | ORemove (k : xkey).
Definition xstep (c : cfg) (s : hstate) (o : xop) : hstate :=
  match o with
  | OSet k vid vl => match xset c s k vid vl with ROk s' => s' | RNoSpace => s end
  | ORemove k => xremove s k
  end.

Lemma xsteps_inv c ops : forall s, Inv c s -> Inv c (fold_left (xstep c) ops s).
Proof.
  induction ops as [|o r IH]; cbn [fold_left]; intros s I; [assumption|]. apply IH.
  destruct o as [k vid vl|k]; cbn [xstep]; [|apply xremove_inv; assumption].
  destruct (xset c s k vid vl) eqn:E; [eapply xset_inv; eassumption|assumption].
Qed.

Lemma inv_empty c : Inv c (mkH [] []).
Proof. unfold Inv. cbn. repeat split; try lia. constructor. Qed.

Lemma inv_fits c s : Inv c s -> fits (map to_xa (ib s)) (ib_cap c + 4) = true /\ fits (map to_xa (bl s)) (blk_cap c + 4) = true.
Proof. intros (U1 & U2 & _). unfold fits. unfold used in *. split; apply N.leb_le; lia. Qed.

(* Order of the entries of an attribute block (lib/ext2fs/ext_attr.c xattr_find_position and the insertion in
   xattr_array_update): entries are kept sorted by (name index, name length, name bytes), the order the
   kernel's sorted lookup relies on. *)
From Coq Require Export List NArith Bool Lia.
Export ListNotations.
Local Open Scope N_scope.

Record xkey := mkKey { kidx : N; kname : list N }.

(* memcmp on byte strings; used only between names of equal length *)
Fixpoint bytes_leb (a b : list N) : bool :=
  match a, b with
  | [], _ => true
  | _ :: _, [] => false
  | x :: a', y :: b' => if x <? y then true else if y <? x then false else bytes_leb a' b'
  end.

Definition klen (k : xkey) : N := N.of_nat (length (kname k)).

(* the loop of xattr_find_position stops at the first x with key <= x *)
Definition key_leb (k x : xkey) : bool :=
  if kidx k <? kidx x then true else if kidx x <? kidx k then false
  else if klen k <? klen x then true else if klen x <? klen k then false
  else bytes_leb (kname k) (kname x).

Fixpoint find_position (l : list xkey) (k : xkey) : nat :=
  match l with
  | [] => 0
  | x :: r => if key_leb k x then 0%nat else S (find_position r k)
  end.

(* memmove(attrs + new_idx + 1, attrs + new_idx, ...); attrs[new_idx] = tmp *)
Definition insert_at (p : nat) (k : xkey) (l : list xkey) : list xkey := firstn p l ++ k :: skipn p l.
Definition insert_key (l : list xkey) (k : xkey) : list xkey := insert_at (find_position l k) k l.

Fixpoint sortedb (l : list xkey) : bool :=
  match l with
  | [] => true
  | x :: r => match r with [] => true | y :: _ => key_leb x y && sortedb r end
  end.

(* the kernel's sorted lookup (fs/ext4/xattr.c xattr_find_entry with sorted = 1): stops at the first entry
   that is not smaller than the key and reports a hit only if it is equal *)
Definition key_eqb (a b : xkey) : bool := key_leb a b && key_leb b a.
Fixpoint sorted_lookup (l : list xkey) (k : xkey) : bool :=
  match l with
  | [] => false
  | x :: r => if key_leb k x then key_eqb k x else sorted_lookup r k
  end.

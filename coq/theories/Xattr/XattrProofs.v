From E2V Require Import Xattr.XattrPack.
From Coq Require Import ZifyBool ZifyN.
Local Open Scope N_scope.

Lemma vsize_ge v : v <= vsize v /\ vsize v mod 4 = 0.
Proof.
  unfold vsize. pose proof (N.div_mod (v + 3) 4 ltac:(lia)) as D. pose proof (N.mod_lt (v + 3) 4 ltac:(lia)) as M.
  set (q := (v + 3) / 4) in *. set (r := (v + 3) mod 4) in *. clearbody q r. split; [lia|]. apply N.mod_mul. lia.
Qed.

Lemma elen_ge n : n + 16 <= elen n.
Proof.
  unfold elen. pose proof (N.div_mod (n + 16 + 3) 4 ltac:(lia)) as D. pose proof (N.mod_lt (n + 16 + 3) 4 ltac:(lia)) as M.
  set (q := (n + 16 + 3) / 4) in *. set (r := (n + 16 + 3) mod 4) in *. clearbody q r. lia.
Qed.

Lemma space_used_cons a r : space_used (a :: r) = elen (nlen a) + (if ea_ino a then 0 else vsize (vlen a)) + space_used r.
Proof. reflexivity. Qed.

(* the invariant of the loop: entries stay below the values with room for the terminator *)
Lemma place_bounds : forall l e endp ps ef endf,
  e + space_used l + 4 <= endp -> place l e endp = (ps, ef, endf) ->
  ef = e + fold_right (fun a s => elen (nlen a) + s) 0 l /\
  ef + 4 <= endf /\ endf <= endp /\
  Forall (fun p => let '(eo, vo, vs) := p in
                   e <= eo /\ eo + 16 <= ef /\ (vs = 0 \/ (vo = 0 -> False) /\ endf <= vo /\ vo + vs <= endp)) ps.
Proof.
  induction l as [|a r IH]; intros e endp ps ef endf H P; [cbn in *|rewrite space_used_cons in H; cbn [place fold_right] in *].
  - inversion P; subst. split; [lia|]. split; [lia|]. split; [lia|constructor].
  - destruct (place r (e + elen (nlen a)) (endp - (if ea_ino a then 0 else vsize (vlen a)))) as [[ps' ef'] endf'] eqn:E.
    inversion P; subst ps ef endf. clear P.
    set (vs := if ea_ino a then 0 else vsize (vlen a)) in *.
    specialize (IH (e + elen (nlen a)) (endp - vs) ps' ef' endf' ltac:(lia) E).
    destruct IH as (I1 & I2 & I3 & I4).
    pose proof (elen_ge (nlen a)) as G.
    split; [lia|]. split; [assumption|]. split; [lia|].
    constructor.
    + split; [lia|]. split; [lia|]. destruct (ea_ino a) eqn:EA; [left; reflexivity|right].
      unfold vs. split; [lia|]. split; lia.
    + eapply Forall_impl; [|exact I4]. intros [[eo vo] vs0] (A & B & C). split; [lia|]. split; [assumption|].
      destruct C as [C|(C0 & C1 & C2)]; [left; assumption|right]. split; [assumption|]. split; [assumption|lia].
Qed.

(* value areas of different attributes never overlap: each lies below the previous one *)
Lemma place_values_disjoint : forall l e endp ps ef endf,
  e + space_used l + 4 <= endp -> place l e endp = (ps, ef, endf) ->
  forall i j, (i < j)%nat -> (j < length ps)%nat ->
  let '(_, vi, si) := nth i ps (0, 0, 0) in let '(_, vj, sj) := nth j ps (0, 0, 0) in
  sj = 0 \/ si = 0 \/ vj + sj <= vi.
Proof.
  induction l as [|a r IH]; intros e endp ps ef endf H P i j Hij Hj; [cbn in *|rewrite space_used_cons in H; cbn [place fold_right] in *].
  - inversion P; subst. cbn in Hj. lia.
  - destruct (place r (e + elen (nlen a)) (endp - (if ea_ino a then 0 else vsize (vlen a)))) as [[ps' ef'] endf'] eqn:E.
    inversion P; subst ps ef endf. clear P.
    set (vs := if ea_ino a then 0 else vsize (vlen a)) in *.
    destruct j as [|j]; [lia|]. cbn [length] in Hj.
    assert (Hx : e + elen (nlen a) + space_used r + 4 <= endp - vs) by (clearbody vs; lia).
    assert (Hjl : (j < length ps')%nat) by lia.
    destruct i as [|i]; cbn [nth].
    + destruct (place_bounds r _ _ _ _ _ Hx E) as (_ & _ & _ & F).
      rewrite Forall_forall in F. specialize (F (nth j ps' (0, 0, 0)) (nth_In _ _ Hjl)).
      destruct (nth j ps' (0, 0, 0)) as [[eo vo] sj]. destruct F as (_ & _ & [C|(C0 & C1 & C2)]); [left; assumption|].
      destruct (ea_ino a) eqn:EA; [right; left; reflexivity|]. right. right. unfold vs in *. lia.
    + apply (IH _ _ _ _ _ Hx E i j); lia.
Qed.

(* Proofs about the JBD2 recovery model: the revoke and replay passes read the
   same log items; the revoke table answers "is there a revoke record for this
   block in a transaction at least as new"; the final contents of every block
   are those of the last valid, unrevoked logged image; the scan pass of the
   pinned code has no bound (non-termination witness). *)
From E2V Require Import Jbd2.Jbd2Model.
Local Open Scope N_scope.

Inductive item := IW (id blk : N) (c : bytes) (ok : bool) | IR (id blk : N).

Fixpoint desc_items (j : journal) (id : N) (tags : list tag) (pos : N) : list item :=
  match tags with
  | [] => []
  | tg :: r =>
    match j_blk j pos with
    | JData b => IW id (t_blk tg) (unescape (t_escape tg) b) (t_csum_ok tg) :: desc_items j id r (adv j pos 1)
    | _ => desc_items j id r (adv j pos 1)
    end
  end.

Inductive wres := WOk (l : list item) (ended_at : N) | WFail | WFuel.

Definition wcons (l : list item) (w : wres) : wres :=
  match w with WOk l' e => WOk (l ++ l') e | x => x end.

(* the log items between the start of the log and transaction [endt], as the
   REVOKE and REPLAY passes walk them *)
Fixpoint walk (fuel : nat) (j : journal) (pos id endt : N) : wres :=
  match fuel with
  | O => WFuel
  | S f =>
    if tid_geq id endt then WOk [] id else
    let pos1 := adv j pos 1 in
    match j_blk j pos with
    | JDesc seq ok tags =>
      if negb (seq =? id) then WOk [] id else
      if negb ok then WFail else
      wcons (desc_items j id tags pos1) (walk f j (adv j pos1 (N.of_nat (length tags))) id endt)
    | JCommit seq ok time =>
      if negb (seq =? id) then WOk [] id else walk f j pos1 (tid_next id) endt
    | JRevoke seq ok blks =>
      if negb (seq =? id) then WOk [] id else
      wcons (map (IR id) blks) (walk f j pos1 id endt)
    | JData _ | JOther => WOk [] id
    end
  end.

Definition add_rev (t : rtable) (i : item) : rtable :=
  match i with IR id b => set_rev b id t | IW _ _ _ _ => t end.

Definition app_item (t : rtable) (st : fsmap * bool) (i : item) : fsmap * bool :=
  match i with
  | IR _ _ => st
  | IW id b c ok =>
    if test_rev t b id then st
    else if negb ok then (fst st, true)
    else (write_blk (fst st) b c, snd st)
  end.

Lemma fold_add_rev_IW t id tags j pos : fold_left add_rev (desc_items j id tags pos) t = t.
Proof.
  revert pos t. induction tags as [|tg r IH]; intros pos t; cbn [desc_items]; [reflexivity|].
  destruct (j_blk j pos); cbn [fold_left add_rev]; apply IH.
Qed.

Lemma fold_add_rev_IR t id blks :
  fold_left add_rev (map (IR id) blks) t = fold_left (fun t b => set_rev b id t) blks t.
Proof. revert t. induction blks as [|b r IH]; intros t; cbn [map fold_left add_rev]; auto. Qed.

Theorem revoke_is_walk : forall fuel j pos id endt t,
  revoke_pass fuel j pos id endt t =
  match walk fuel j pos id endt with
  | WOk l e => RTab (fold_left add_rev l t) e
  | WFail => RFail
  | WFuel => RFuel
  end.
Proof.
  induction fuel; intros j pos id endt t; cbn [revoke_pass walk]; [reflexivity|].
  destruct (tid_geq id endt); [reflexivity|].
  destruct (j_blk j pos) as [seq ok tags|seq ok time|seq ok blks|b|]; try reflexivity.
  - destruct (negb (seq =? id)); [reflexivity|]. destruct (negb ok); [reflexivity|].
    rewrite IHfuel. destruct (walk fuel j _ id endt); cbn [wcons]; try reflexivity.
    rewrite fold_left_app, fold_add_rev_IW. reflexivity.
  - destruct (negb (seq =? id)); [reflexivity|]. apply IHfuel.
  - destruct (negb (seq =? id)); [reflexivity|]. rewrite IHfuel.
    destruct (walk fuel j _ id endt); cbn [wcons]; try reflexivity.
    rewrite fold_left_app, fold_add_rev_IR. reflexivity.
Qed.

Lemma replay_tags_items j t id : forall tags pos fs bad,
  replay_tags j t id tags pos fs bad = fold_left (app_item t) (desc_items j id tags pos) (fs, bad).
Proof.
  induction tags as [|tg r IH]; intros pos fs bad; cbn [replay_tags desc_items]; [reflexivity|].
  destruct (j_blk j pos); try apply IH.
  cbn [fold_left app_item fst snd].
  destruct (test_rev t (t_blk tg) id); [apply IH|].
  destruct (negb (t_csum_ok tg)); apply IH.
Qed.

Lemma fold_app_item_IR t id blks st : fold_left (app_item t) (map (IR id) blks) st = st.
Proof. revert st. induction blks; intros; cbn [map fold_left app_item]; auto. Qed.

Theorem replay_is_walk : forall fuel j pos id endt t fs bad,
  replay_pass fuel j pos id endt t fs bad =
  match walk fuel j pos id endt with
  | WOk l e => let st := fold_left (app_item t) l (fs, bad) in PDone (fst st) (snd st) e
  | WFail => PFail
  | WFuel => PFuel
  end.
Proof.
  induction fuel; intros j pos id endt t fs bad; cbn [replay_pass walk]; [reflexivity|].
  destruct (tid_geq id endt); [reflexivity|].
  destruct (j_blk j pos) as [seq ok tags|seq ok time|seq ok blks|b|]; try reflexivity.
  - destruct (negb (seq =? id)); [reflexivity|]. destruct (negb ok); [reflexivity|].
    rewrite replay_tags_items.
    destruct (fold_left (app_item t) (desc_items j id tags (adv j pos 1)) (fs, bad)) as [fs' bad'] eqn:E.
    rewrite IHfuel. destruct (walk fuel j _ id endt); cbn [wcons]; try reflexivity.
    rewrite fold_left_app, E. reflexivity.
  - destruct (negb (seq =? id)); [reflexivity|]. apply IHfuel.
  - destruct (negb (seq =? id)); [reflexivity|]. rewrite IHfuel.
    destruct (walk fuel j _ id endt); cbn [wcons]; try reflexivity.
    rewrite fold_left_app, fold_app_item_IR. reflexivity.
Qed.

(* ---- tids inside one window behave like numbers ---- *)
Definition ord (base x : N) : N := tid_diff x base.
Definition inwin (base x : N) : Prop := x < W32 /\ ord base x < 1073741824.

Lemma mod_sub a b : a < W32 -> b < W32 ->
  (a + W32 - b) mod W32 = if b <=? a then a - b else a + W32 - b.
Proof.
  unfold W32. intros Ha Hb. destruct (N.leb_spec b a).
  - replace (a + 4294967296 - b) with (a - b + 1 * 4294967296) by lia. rewrite N.mod_add by lia. apply N.mod_small. lia.
  - apply N.mod_small. lia.
Qed.

Lemma tid_gt_ord base x y : base < W32 -> inwin base x -> inwin base y ->
  tid_gt x y = (ord base y <? ord base x).
Proof.
  unfold inwin, ord, tid_gt, tid_diff. intros Hb [Hx Ox] [Hy Oy].
  rewrite (N.mod_small base), (N.mod_small y) in * by exact Hb || exact Hy.
  rewrite (mod_sub x base), (mod_sub y base), (mod_sub x y) in * by assumption.
  unfold W32 in *.
  destruct (N.leb_spec base x); destruct (N.leb_spec base y); destruct (N.leb_spec y x);
    repeat match goal with
           | |- context [?a <? ?b] => destruct (N.ltb_spec a b)
           end; cbn [andb]; try reflexivity; lia.
Qed.

(* ---- the revoke table ---- *)
Lemma find_set_same b s : forall t,
  find_rev b (set_rev b s t) =
  match find_rev b t with None => Some s | Some s' => Some (if tid_gt s s' then s else s') end.
Proof.
  induction t as [|[b' s'] r IH]; cbn [set_rev find_rev].
  - rewrite N.eqb_refl. reflexivity.
  - destruct (N.eqb_spec b' b) as [->|Hne]; cbn [find_rev].
    + rewrite N.eqb_refl. reflexivity.
    + destruct (N.eqb_spec b' b); [contradiction|]. exact IH.
Qed.

Lemma find_set_other b b' s : b' <> b -> forall t, find_rev b' (set_rev b s t) = find_rev b' t.
Proof.
  intros Hne. induction t as [|[b0 s0] r IH]; cbn [set_rev find_rev].
  - destruct (N.eqb_spec b b'); [congruence|reflexivity].
  - destruct (N.eqb_spec b0 b) as [->|H0]; cbn [find_rev].
    + destruct (N.eqb_spec b b'); [congruence|reflexivity].
    + destruct (N.eqb_spec b0 b'); auto.
Qed.

Definition revs (items : list item) (b : N) : list N :=
  flat_map (fun i => match i with IR id b' => if b' =? b then [id] else [] | IW _ _ _ _ => [] end) items.

Definition maxstep (acc : option N) (s : N) : option N :=
  match acc with None => Some s | Some s' => Some (if tid_gt s s' then s else s') end.

Lemma find_fold b : forall items t,
  find_rev b (fold_left add_rev items t) = fold_left maxstep (revs items b) (find_rev b t).
Proof.
  induction items as [|i r IH]; intros t; cbn [fold_left revs flat_map]; [reflexivity|].
  rewrite IH. destruct i as [id blk c ok|id blk]; cbn [add_rev app]; [reflexivity|].
  destruct (N.eqb_spec blk b) as [->|Hne].
  - rewrite fold_left_app. cbn [fold_left]. rewrite find_set_same. reflexivity.
  - cbn [app]. rewrite find_set_other by auto. reflexivity.
Qed.

Section Window.
  Variable base : N.
  Hypothesis Hbase : base < W32.

  Lemma maxstep_spec : forall ids acc m,
    (forall x, In x ids -> inwin base x) -> (forall a, acc = Some a -> inwin base a) ->
    fold_left maxstep ids acc = Some m ->
    inwin base m /\ (In m ids \/ acc = Some m) /\
    (forall x, In x ids -> ord base x <= ord base m) /\ (forall a, acc = Some a -> ord base a <= ord base m).
  Proof.
    induction ids as [|s r IH]; intros acc m Hw Ha H; cbn [fold_left] in H.
    - subst acc. split; [apply Ha; reflexivity|]. split; [right; reflexivity|].
      split; [intros x []|]. intros a E. inversion E. lia.
    - assert (Hs : inwin base s) by (apply Hw; simpl; auto).
      apply IH in H.
      + destruct H as (M1 & M2 & M3 & M4). split; [exact M1|]. split; [|split].
        * destruct M2 as [M2|M2]; [left; simpl; auto|].
          destruct acc as [a|]; cbn [maxstep] in M2.
          -- inversion M2. destruct (tid_gt s a); [left; simpl; auto|right; reflexivity].
          -- inversion M2. left; simpl; auto.
        * intros x [Ex|Hx]; auto. subst x.
          destruct acc as [a|]; cbn [maxstep] in M4.
          -- specialize (M4 _ eq_refl). destruct (tid_gt s a) eqn:G; auto.
             rewrite (tid_gt_ord base s a) in G by auto. apply N.ltb_ge in G. lia.
          -- apply (M4 _ eq_refl).
        * intros a ->. cbn [maxstep] in M4. specialize (M4 _ eq_refl).
          destruct (tid_gt s a) eqn:G; auto.
          rewrite (tid_gt_ord base s a) in G by auto. apply N.ltb_lt in G. lia.
      + intros x Hx. apply Hw. simpl; auto.
      + intros a E. destruct acc as [a'|]; cbn [maxstep] in E; inversion E; subst.
        * destruct (tid_gt s a'); auto.
        * auto.
  Qed.

  Lemma fold_maxstep_none : forall ids acc, fold_left maxstep ids acc = None -> ids = [] /\ acc = None.
  Proof.
    induction ids as [|s r IH]; intros acc H; cbn [fold_left] in H; [auto|].
    apply IH in H. destruct H as [_ H]. destruct acc; discriminate.
  Qed.

  (* the table built by the REVOKE pass says "revoked" exactly when some revoke
     record for the block sits in a transaction at least as new *)
  Theorem table_test items b id :
    (forall id' b', In (IR id' b') items -> inwin base id') -> inwin base id ->
    (test_rev (fold_left add_rev items []) b id = true <->
     exists id', In (IR id' b) items /\ ord base id <= ord base id').
  Proof.
    intros Hw Hid. unfold test_rev. rewrite find_fold. cbn [find_rev].
    assert (Hr : forall x, In x (revs items b) <-> In (IR x b) items).
    { intros x. unfold revs. rewrite in_flat_map. split.
      - intros ([i1 b1 c1 o1|i1 b1] & H1 & H2); [destruct H2|].
        destruct (N.eqb_spec b1 b); [|destruct H2]. destruct H2 as [<-|[]]. subst. exact H1.
      - intros H. exists (IR x b). split; auto. rewrite N.eqb_refl. simpl; auto. }
    assert (Hwr : forall x, In x (revs items b) -> inwin base x).
    { intros x Hx. apply Hr in Hx. eapply Hw; eauto. }
    destruct (fold_left maxstep (revs items b) None) as [m|] eqn:F.
    - assert (Hn : forall a : N, @None N = Some a -> inwin base a) by (intros a E; discriminate E).
      destruct (maxstep_spec _ _ _ Hwr Hn F) as (M1 & M2 & M3 & _).
      rewrite (tid_gt_ord base id m) by auto. rewrite negb_true_iff, N.ltb_ge. split.
      + intros H. exists m. split; auto. destruct M2 as [M2|M2]; [apply Hr; auto|discriminate].
      + intros (id' & H1 & H2). apply Hr in H1. specialize (M3 _ H1). lia.
    - apply fold_maxstep_none in F. destruct F as [F _]. split; [discriminate|].
      intros (id' & H1 & _). apply Hr in H1. rewrite F in H1. destruct H1.
  Qed.
End Window.

(* ---- what ends up in a block ---- *)
Definition eff (t : rtable) (b : N) (items : list item) : list bytes :=
  flat_map (fun i => match i with
                     | IW id b' c ok => if (b' =? b) && ok && negb (test_rev t b' id) then [c] else []
                     | IR _ _ => []
                     end) items.

Definition last_or (d : bytes) (l : list bytes) : bytes := fold_left (fun _ c => c) l d.

Lemma last_or_app d l1 l2 : last_or d (l1 ++ l2) = last_or (last_or d l1) l2.
Proof. unfold last_or. apply fold_left_app. Qed.

Theorem replay_block t b : forall items fs bad,
  fst (fold_left (app_item t) items (fs, bad)) b = last_or (fs b) (eff t b items).
Proof.
  induction items as [|i r IH]; intros fs bad; [reflexivity|].
  cbn [fold_left].
  assert (EC : eff t b (i :: r) = eff t b [i] ++ eff t b r) by (unfold eff; cbn [flat_map]; rewrite app_nil_r; reflexivity).
  rewrite EC, last_or_app.
  destruct (app_item t (fs, bad) i) as [fs1 bad1] eqn:E. rewrite IH. f_equal.
  destruct i as [id blk c ok|id blk]; cbn [app_item eff flat_map app] in *.
  - destruct (test_rev t blk id) eqn:TR.
    + inversion E; subst. rewrite andb_false_r. reflexivity.
    + destruct ok; cbn [negb andb fst snd] in *.
      * inversion E; subst. rewrite andb_true_r. unfold write_blk.
        destruct (N.eqb_spec blk b) as [->|Hne].
        -- rewrite N.eqb_refl. reflexivity.
        -- destruct (N.eqb_spec b blk); [congruence|]. reflexivity.
      * inversion E; subst. rewrite andb_false_r. reflexivity.
  - inversion E; subst. reflexivity.
Qed.

(* the whole recovery, when it does not fail: blocks are the last valid,
   unrevoked logged image among the items of the committed transactions *)
Theorem recover_blocks fuel j fs :
  match recover fuel j fs with
  | RecOk fs' _ | RecErr fs' _ =>
    exists e items en,
      scan fuel j (j_start j) (j_seq j) false 0 None = SEnd e /\
      walk fuel j (j_start j) (j_seq j) e = WOk items en /\
      forall b, fs' b = last_or (fs b) (eff (fold_left add_rev items []) b items)
  | RecFail | RecFuel => True
  end.
Proof.
  unfold recover. destruct (scan fuel j (j_start j) (j_seq j) false 0 None) as [e| |] eqn:S; auto.
  rewrite revoke_is_walk. destruct (walk fuel j (j_start j) (j_seq j) e) as [items en| |] eqn:Wk; auto.
  rewrite replay_is_walk, Wk. cbv zeta.
  destruct (fold_left (app_item (fold_left add_rev items [])) items (fs, false)) as [fs' bad] eqn:F.
  cbn [fst snd].
  assert (H : forall b, fs' b = last_or (fs b) (eff (fold_left add_rev items []) b items)).
  { intros b. rewrite <- replay_block with (bad := false). rewrite F. reflexivity. }
  destruct (bad || negb (en =? e) || negb (en =? e)); exists e, items, en; auto.
Qed.

(* ---- the scan pass of the pinned code has no bound ---- *)
Definition cyclic_log : journal :=
  mkJ 8 (fun _ => JDesc 5 true [mkTag 100 false true]) 0 5 false.

Theorem scan_unbounded : forall fuel pos, scan fuel cyclic_log pos 5 false 0 None = SFuel.
Proof.
  induction fuel; intros pos; cbn [scan]; [reflexivity|].
  cbn [cyclic_log j_blk]. rewrite N.eqb_refl. cbn [negb orb length]. apply IHfuel.
Qed.

(* ======================================================================== *)
(* C04: interruption of recovery.  Until the journal superblock is rewritten
   the log is untouched, and replay writes only blocks that have an effective
   item; so recovery re-run from ANY state in which the other blocks are
   unchanged ends with the same contents. *)
Lemma final_match (r1 r2 : fsmap * bool) (x : bool) (n : N) :
  snd r1 = snd r2 -> (forall b, fst r1 b = fst r2 b) ->
  match (if snd r1 || x || x then RecErr (fst r1) n else RecOk (fst r1) n),
        (if snd r2 || x || x then RecErr (fst r2) n else RecOk (fst r2) n) with
  | RecOk f1 n1, RecOk f2 n2 | RecErr f1 n1, RecErr f2 n2 => n1 = n2 /\ forall b, f1 b = f2 b
  | RecFail, RecFail | RecFuel, RecFuel => True
  | _, _ => False
  end.
Proof. intros E1 E2. rewrite <- E1. destruct (snd r1 || x || x); split; auto. Qed.

Theorem recover_rerun_same fuel j fs fs_c :
  (forall e items en,
      scan fuel j (j_start j) (j_seq j) false 0 None = SEnd e ->
      walk fuel j (j_start j) (j_seq j) e = WOk items en ->
      forall b, eff (fold_left add_rev items []) b items = [] -> fs_c b = fs b) ->
  match recover fuel j fs, recover fuel j fs_c with
  | RecOk f1 n1, RecOk f2 n2 | RecErr f1 n1, RecErr f2 n2 => n1 = n2 /\ forall b, f1 b = f2 b
  | RecFail, RecFail | RecFuel, RecFuel => True
  | _, _ => False
  end.
Proof.
  intros H. pose proof (recover_blocks fuel j fs) as R1. pose proof (recover_blocks fuel j fs_c) as R2.
  unfold recover in *.
  destruct (scan fuel j (j_start j) (j_seq j) false 0 None) as [e| |] eqn:S; auto.
  rewrite revoke_is_walk in *. destruct (walk fuel j (j_start j) (j_seq j) e) as [items en| |] eqn:Wk; auto.
  rewrite !replay_is_walk, Wk in *. cbv zeta in *.
  set (T := fold_left add_rev items []) in *.
  assert (B0 : forall (t : rtable) (l : list item) st st', snd st = snd st' ->
                snd (fold_left (app_item t) l st) = snd (fold_left (app_item t) l st')).
  { clear. intros t. induction l as [|i r IH]; intros st st' E; cbn [fold_left]; auto.
    apply IH. destruct i as [id blk c ok|id blk]; cbn [app_item]; auto.
    destruct (test_rev t blk id); auto. destruct (negb ok); cbn [snd]; auto. }
  pose proof (B0 T items (fs, false) (fs_c, false) eq_refl) as B.
  clear R1 R2.
  assert (E : forall b, fst (fold_left (app_item T) items (fs, false)) b =
                        fst (fold_left (app_item T) items (fs_c, false)) b).
  { intros b. rewrite !replay_block.
    destruct (eff T b items) as [|c r] eqn:EF.
    - cbn. symmetry. apply (H e items en eq_refl Wk b EF).
    - unfold last_or. cbn [fold_left]. reflexivity. }
  apply final_match; auto.
Qed.

(* the order of device operations issued by a recovering front end *)
Inductive dev_ev := DWr (blk : N) (c : bytes) | DSync | DJsbReset | DSbClear.

Definition recovery_trace (t : rtable) (items : list item) : list dev_ev :=
  flat_map (fun i => match i with
                     | IW id b c ok => if ok && negb (test_rev t b id) then [DWr b c] else []
                     | IR _ _ => []
                     end) items
  ++ [DSync; DJsbReset; DSync; DSbClear; DSync].

(* every replay write precedes a sync that precedes the journal reset, which
   precedes a sync that precedes clearing needs_recovery *)
Theorem release_after_sync t items :
  exists ws, recovery_trace t items = ws ++ [DSync; DJsbReset; DSync; DSbClear; DSync] /\
             forall e, In e ws -> exists b c, e = DWr b c.
Proof.
  unfold recovery_trace. eexists. split; [reflexivity|].
  intros e H. apply in_flat_map in H. destruct H as ([id b c ok|id b] & _ & H); [|destruct H].
  destruct (ok && negb (test_rev t b id)); [|destruct H]. destruct H as [<-|[]]. eauto.
Qed.

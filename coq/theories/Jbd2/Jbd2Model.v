(* Model of JBD2 recovery (e2fsck/recovery.c do_one_pass for the three passes,
   e2fsck/revoke.c set/test, jbd2_journal_recover) at the level of parsed log
   blocks: a log block is a descriptor (sequence, checksum verdict, tags), a
   commit (sequence, checksum verdict, commit time), a revoke block, a data
   block or anything else.  The byte encodings (tag formats, count_tags,
   checksum versions) are produced by an independent encoder in the check and
   exercised by correspondence; what is modelled and proved here is the
   algorithm: sequencing, wrap-around, end of log, the revoke table and its
   tid comparison, and what gets written where. *)
From Coq Require Export List NArith Arith Bool Lia.
Export ListNotations.
Local Open Scope N_scope.

Definition bytes := list N.

Record tag := mkTag { t_blk : N; t_escape : bool; t_csum_ok : bool }.

Inductive jblock :=
| JDesc (seq : N) (csum_ok : bool) (tags : list tag)
| JCommit (seq : N) (csum_ok : bool) (time : N)
| JRevoke (seq : N) (csum_ok : bool) (blks : list N)
| JData (b : bytes)
| JOther.                 (* no magic, unknown block type *)

Record journal := mkJ {
  j_len : N;                       (* j_last - j_first: usable log blocks *)
  j_blk : N -> jblock;             (* log block at index (relative to j_first) *)
  j_start : N;                     (* s_start relative to j_first; recovery is needed *)
  j_seq : N;                       (* s_sequence *)
  j_async : bool;                  (* JBD2_FEATURE_INCOMPAT_ASYNC_COMMIT *)
}.

(* tid arithmetic: 32-bit wrap-around comparison *)
Definition W32 := 4294967296.
Definition tid_diff (x y : N) := (x + W32 - y mod W32) mod W32.
Definition tid_gt (x y : N) := let d := tid_diff x y in (0 <? d) && (d <? 2147483648).
Definition tid_geq (x y : N) := tid_diff x y <? 2147483648.
Definition tid_next (x : N) := (x + 1) mod W32.

Definition wrap (j : journal) (v : N) := if j_len j <=? v then v - j_len j else v.
Definition adv (j : journal) (pos n : N) := wrap j (pos + n).   (* n <= j_len *)

(* ---- PASS_SCAN ---- *)
Inductive sres := SEnd (end_txn : N) | SFail | SFuel.

Fixpoint scan (fuel : nat) (j : journal) (pos id : N) (need : bool) (last_time : N) (endt : option N) : sres :=
  match fuel with
  | O => SFuel
  | S f =>
    let done := SEnd (match endt with Some e => e | None => id end) in
    let pos1 := adv j pos 1 in
    match j_blk j pos with
    | JDesc seq ok tags =>
      if negb (seq =? id) then done else
      let need' := need || negb ok in
      scan f j (adv j pos1 (N.of_nat (length tags))) id need' last_time endt
    | JCommit seq ok time =>
      if negb (seq =? id) then done else
      if need then (if last_time <=? time then SFail else done)
      else if negb ok then
        if time <? last_time then done
        else
          (* info->end_transaction = next_commit_ID - the first failing commit fixes the end; with ASYNC_COMMIT the
             scan goes on, and a later commit that fails as well does not move it *)
          if negb (j_async j) then SEnd id
          else scan f j pos1 (tid_next id) need time (match endt with Some e => Some e | None => Some id end)
      else scan f j pos1 (tid_next id) need time endt
    | JRevoke seq ok blks =>
      if negb (seq =? id) then done else
      scan f j pos1 id (need || negb ok) last_time endt
    | JData _ | JOther => done
    end
  end.

(* The scan pass as the code was before the second repair: every failing commit block overwrote the end *)
Fixpoint scan_overwrite (fuel : nat) (j : journal) (pos id : N) (need : bool) (last_time : N) (endt : option N) : sres :=
  match fuel with
  | O => SFuel
  | S f =>
    let done := SEnd (match endt with Some e => e | None => id end) in
    let pos1 := adv j pos 1 in
    match j_blk j pos with
    | JDesc seq ok tags =>
      if negb (seq =? id) then done else
      scan_overwrite f j (adv j pos1 (N.of_nat (length tags))) id (need || negb ok) last_time endt
    | JCommit seq ok time =>
      if negb (seq =? id) then done else
      if need then (if last_time <=? time then SFail else done)
      else if negb ok then
        if time <? last_time then done
        else if negb (j_async j) then SEnd id
        else scan_overwrite f j pos1 (tid_next id) need time (Some id)
      else scan_overwrite f j pos1 (tid_next id) need time endt
    | JRevoke seq ok blks =>
      if negb (seq =? id) then done else
      scan_overwrite f j pos1 id (need || negb ok) last_time endt
    | JData _ | JOther => done
    end
  end.

(* The scan pass as the code was: end_transaction is a tid_t in which 0 means "not determined yet" - but 0 is a
   transaction id too (the ids wrap around 2^32).  With ASYNC_COMMIT the scan goes on after a failed commit checksum, and
   at its end "not determined" is replaced by the id reached. *)
Fixpoint scan_old (fuel : nat) (j : journal) (pos id : N) (need : bool) (last_time : N) (endt : N) : sres :=
  match fuel with
  | O => SFuel
  | S f =>
    let done := SEnd (if endt =? 0 then id else endt) in
    let pos1 := adv j pos 1 in
    match j_blk j pos with
    | JDesc seq ok tags =>
      if negb (seq =? id) then done else
      scan_old f j (adv j pos1 (N.of_nat (length tags))) id (need || negb ok) last_time endt
    | JCommit seq ok time =>
      if negb (seq =? id) then done else
      if need then (if last_time <=? time then SFail else done)
      else if negb ok then
        if time <? last_time then done
        else if negb (j_async j) then SEnd id
        else scan_old f j pos1 (tid_next id) need time id
      else scan_old f j pos1 (tid_next id) need time endt
    | JRevoke seq ok blks =>
      if negb (seq =? id) then done else
      scan_old f j pos1 id (need || negb ok) last_time endt
    | JData _ | JOther => done
    end
  end.

(* ---- the revoke table ---- *)
Definition rtable := list (N * N).      (* block -> sequence *)

Fixpoint find_rev (b : N) (t : rtable) : option N :=
  match t with
  | [] => None
  | (b', s) :: r => if b' =? b then Some s else find_rev b r
  end.

Fixpoint set_rev (b s : N) (t : rtable) : rtable :=
  match t with
  | [] => [(b, s)]
  | (b', s') :: r => if b' =? b then (b', if tid_gt s s' then s else s') :: r else (b', s') :: set_rev b s r
  end.

Definition test_rev (t : rtable) (b s : N) : bool :=
  match find_rev b t with
  | None => false
  | Some rs => negb (tid_gt s rs)
  end.

(* ---- PASS_REVOKE ---- *)
Inductive rres := RTab (t : rtable) (ended_at : N) | RFail | RFuel.

Fixpoint revoke_pass (fuel : nat) (j : journal) (pos id endt : N) (t : rtable) : rres :=
  match fuel with
  | O => RFuel
  | S f =>
    if tid_geq id endt then RTab t id else
    let pos1 := adv j pos 1 in
    match j_blk j pos with
    | JDesc seq ok tags =>
      if negb (seq =? id) then RTab t id else
      if negb ok then RFail else
      revoke_pass f j (adv j pos1 (N.of_nat (length tags))) id endt t
    | JCommit seq ok time =>
      if negb (seq =? id) then RTab t id else revoke_pass f j pos1 (tid_next id) endt t
    | JRevoke seq ok blks =>
      if negb (seq =? id) then RTab t id else
      revoke_pass f j pos1 id endt (fold_left (fun t b => set_rev b id t) blks t)
    | JData _ | JOther => RTab t id
    end
  end.

(* ---- PASS_REPLAY ---- *)
Definition fsmap := N -> bytes.
Definition JBD2_MAGIC : bytes := [192; 59; 57; 152].   (* 0xC03B3998 big-endian *)

Definition unescape (esc : bool) (b : bytes) : bytes := if esc then JBD2_MAGIC ++ skipn 4 b else b.

Definition write_blk (fs : fsmap) (blk : N) (b : bytes) : fsmap := fun x => if x =? blk then b else fs x.

(* the tag loop of one descriptor: data blocks follow the descriptor in the log *)
Fixpoint replay_tags (j : journal) (t : rtable) (id : N) (tags : list tag) (pos : N) (fs : fsmap) (bad : bool)
  : fsmap * bool :=
  match tags with
  | [] => (fs, bad)
  | tg :: r =>
    let pos' := adv j pos 1 in
    match j_blk j pos with
    | JData b =>
      if test_rev t (t_blk tg) id then replay_tags j t id r pos' fs bad
      else if negb (t_csum_ok tg) then replay_tags j t id r pos' fs true
      else replay_tags j t id r pos' (write_blk fs (t_blk tg) (unescape (t_escape tg) b)) bad
    | JDesc _ _ _ | JCommit _ _ _ | JRevoke _ _ _ | JOther =>
      (* the log block is copied whatever it is; the generator never puts a
         non-data block under a tag, so this branch is outside the claim *)
      replay_tags j t id r pos' fs bad
    end
  end.

Inductive pres := PDone (fs : fsmap) (bad : bool) (ended_at : N) | PFail | PFuel.

Fixpoint replay_pass (fuel : nat) (j : journal) (pos id endt : N) (t : rtable) (fs : fsmap) (bad : bool) : pres :=
  match fuel with
  | O => PFuel
  | S f =>
    if tid_geq id endt then PDone fs bad id else
    let pos1 := adv j pos 1 in
    match j_blk j pos with
    | JDesc seq ok tags =>
      if negb (seq =? id) then PDone fs bad id else
      if negb ok then PFail else
      let '(fs', bad') := replay_tags j t id tags pos1 fs bad in
      replay_pass f j (adv j pos1 (N.of_nat (length tags))) id endt t fs' bad'
    | JCommit seq ok time =>
      if negb (seq =? id) then PDone fs bad id else replay_pass f j pos1 (tid_next id) endt t fs bad
    | JRevoke seq ok blks =>
      if negb (seq =? id) then PDone fs bad id else replay_pass f j pos1 id endt t fs bad
    | JData _ | JOther => PDone fs bad id
    end
  end.

(* ---- jbd2_journal_recover ---- *)
Inductive recres :=
| RecOk (fs : fsmap) (next_seq : N)          (* success: blocks after replay, j_transaction_sequence *)
| RecErr (fs : fsmap) (next_seq : N)         (* replayed what it could, reports an error *)
| RecFail                                    (* a pass failed outright *)
| RecFuel.

Definition recover (fuel : nat) (j : journal) (fs : fsmap) : recres :=
  match scan fuel j (j_start j) (j_seq j) false 0 None with
  | SFuel => RecFuel
  | SFail => RecFail
  | SEnd e =>
    match revoke_pass fuel j (j_start j) (j_seq j) e [] with
    | RFuel => RecFuel
    | RFail => RecFail
    | RTab t r_end =>
      match replay_pass fuel j (j_start j) (j_seq j) e t fs false with
      | PFuel => RecFuel
      | PFail => RecFail
      | PDone fs' bad p_end =>
        if bad || negb (r_end =? e) || negb (p_end =? e) then RecErr fs' (tid_next e) else RecOk fs' (tid_next e)
      end
    end
  end.

(* ======================================================================== *)
(* the declarative reading of a log: a list of transactions *)
Record txn := mkTxn { x_id : N; x_writes : list (N * bytes * bool); x_revokes : list N }.
   (* write: (fs block, final content, tag checksum ok) *)

(* what a list of committed transactions means for one fs block:
   the content logged by the last transaction that logs it with a valid tag,
   unless a revoke record for the block exists in a transaction with id >= it *)
Definition max_revoke (txns : list txn) (b : N) : option N :=
  fold_left (fun acc x => if existsb (N.eqb b) (x_revokes x)
                          then match acc with Some r => Some (if tid_gt (x_id x) r then x_id x else r) | None => Some (x_id x) end
                          else acc) txns None.

Definition revoked (txns : list txn) (b id : N) : bool :=
  match max_revoke txns b with Some r => negb (tid_gt id r) | None => false end.

Fixpoint apply_writes (txns all : list txn) (fs : fsmap) : fsmap :=
  match txns with
  | [] => fs
  | x :: r =>
    let fs' := fold_left (fun (fs : fsmap) (w : N * bytes * bool) => let '(b, c, ok) := w in
                                      if revoked all b (x_id x) then fs else if ok then write_blk fs b c else fs)
                         (x_writes x) fs in
    apply_writes r all fs'
  end.

Definition spec_apply (txns : list txn) (fs : fsmap) : fsmap := apply_writes txns txns fs.

(* Bounds logic of two parsers that face untrusted bytes, every read through a checked accessor:
   - the record walk of ext2fs_process_dir_block (lib/ext2fs/dir_iterate.c)
   - count_tags of the journal recovery code (e2fsck/recovery.c), with the width of the copy it makes *)
From Coq Require Export List NArith Arith Bool Lia.
Export ListNotations.
Local Open Scope N_scope.

Definition rd8 (l : list N) (i : N) : option N := nth_error l (N.to_nat i).
Definition rd16 (l : list N) (i : N) : option N :=
  match rd8 l i, rd8 l (i + 1) with Some a, Some b => Some (a + 256 * b) | _, _ => None end.

Inductive wres := WOk (entries : nat) | WCorrupt | WOOB | WFuel.

(* one directory block / inline area of [buflen] bytes: rec_len at +4, name_len at +6 *)
Fixpoint dir_walk (fuel : nat) (l : list N) (buflen off : N) (n : nat) : wres :=
  match fuel with
  | O => WFuel
  | S f =>
    if off + 8 <? buflen then           (* while (offset < buflen - 8), buflen >= 8 checked before *)
      match rd16 l (off + 4), rd8 l (off + 6) with
      | Some rl, Some nl =>
        if (buflen <? off + rl) || (rl <? 8) || negb (rl mod 4 =? 0) || (rl <? nl + 8) then WCorrupt
        else dir_walk f l buflen (off + rl) (S n)
      | _, _ => WOOB
      end
    else WOk n
  end.

Definition dir_block_walk (l : list N) (buflen : N) : wres :=
  if buflen <? 8 then WCorrupt else dir_walk (N.to_nat (buflen / 8) + 1) l buflen 0 0.

(* count_tags: tag_bytes is 8, 12 or 16; the code copies [copy] bytes of each tag (sizeof(journal_block_tag_t) = 12);
   flags are the big-endian 16-bit word at +6: SAME_UUID = 2, LAST_TAG = 8 *)
Fixpoint count_tags (fuel : nat) (l : list N) (size tag_bytes copy : N) (tagp : N) (nr : nat) : wres :=
  match fuel with
  | O => WFuel
  | S f =>
    if tagp + tag_bytes <=? size then
      match rd8 l (tagp + copy - 1), rd8 l (tagp + 7) with     (* highest byte the copy touches; low byte of the flags *)
      | Some _, Some fl =>
        let tagp' := tagp + tag_bytes + (if N.testbit fl 1 then 0 else 16) in
        if N.testbit fl 3 then WOk (S nr) else count_tags f l size tag_bytes copy tagp' (S nr)
      | _, _ => WOOB
      end
    else WOk nr
  end.

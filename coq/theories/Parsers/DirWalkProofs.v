From E2V Require Import Parsers.DirWalk.
From Coq Require Import ZifyBool ZifyN ZifyNat.
Local Open Scope N_scope.

Lemma rd8_some l i : i < N.of_nat (length l) -> exists v, rd8 l i = Some v.
Proof.
  intros H. unfold rd8. destruct (nth_error l (N.to_nat i)) eqn:E; [eexists; reflexivity|].
  apply nth_error_None in E. lia.
Qed.

Lemma rd16_some l i : i + 1 < N.of_nat (length l) -> exists v, rd16 l i = Some v.
Proof.
  intros H. unfold rd16. destruct (rd8_some l i ltac:(lia)) as [a ->]. destruct (rd8_some l (i + 1) H) as [b ->]. eexists; reflexivity.
Qed.

(* no read outside the buffer, for every content *)
Lemma dir_walk_no_oob : forall fuel l buflen off n, buflen <= N.of_nat (length l) -> dir_walk fuel l buflen off n <> WOOB.
Proof.
  induction fuel as [|f IH]; intros l buflen off n Hl; cbn [dir_walk]; [discriminate|].
  destruct (off + 8 <? buflen) eqn:G; [|discriminate].
  destruct (rd16_some l (off + 4) ltac:(lia)) as [rl ->]. destruct (rd8_some l (off + 6) ltac:(lia)) as [nl ->].
  destruct ((buflen <? off + rl) || (rl <? 8) || negb (rl mod 4 =? 0) || (rl <? nl + 8)); [discriminate|].
  apply IH. assumption.
Qed.

(* every accepted record advances by at least 8 bytes: buflen / 8 + 1 rounds always suffice *)
Lemma dir_walk_terminates : forall fuel l buflen off n,
  (N.to_nat ((buflen - off) / 8) + 1 <= fuel)%nat -> off <= buflen -> dir_walk fuel l buflen off n <> WFuel.
Proof.
  induction fuel as [|f IH]; intros l buflen off n Hf Ho; [exfalso; revert Hf; generalize (N.to_nat ((buflen - off) / 8)); intros; lia|].
  cbn [dir_walk]. destruct (off + 8 <? buflen) eqn:G; [|discriminate].
  destruct (rd16 l (off + 4)) as [rl|]; [|discriminate]. destruct (rd8 l (off + 6)) as [nl|]; [|discriminate].
  destruct ((buflen <? off + rl) || (rl <? 8) || negb (rl mod 4 =? 0) || (rl <? nl + 8)) eqn:B; [discriminate|].
  apply IH; [|lia].
  assert (H8 : 8 <= rl) by lia. assert (Hin : off + rl <= buflen) by lia.
  assert (Q : (buflen - (off + rl)) / 8 + 1 <= (buflen - off) / 8).
  { replace (buflen - off) with ((buflen - (off + rl)) + (rl - 8) + 1 * 8) by lia.
    rewrite N.div_add by lia. assert ((buflen - (off + rl)) / 8 <= (buflen - (off + rl) + (rl - 8)) / 8) by (apply N.div_le_mono; lia). lia. }
  revert Hf Q. generalize ((buflen - (off + rl)) / 8) ((buflen - off) / 8). intros a b Hf Q. lia.
Qed.

(* count_tags reads outside the block exactly when the copy is wider than the tags it steps over:
   safe when copy <= tag_bytes ... *)
Lemma count_tags_no_oob : forall fuel l size tag_bytes copy tagp nr,
  size <= N.of_nat (length l) -> 8 <= tag_bytes -> 1 <= copy <= tag_bytes ->
  count_tags fuel l size tag_bytes copy tagp nr <> WOOB.
Proof.
  induction fuel as [|f IH]; intros l size tb copy tagp nr Hs Ht Hc; cbn [count_tags]; [discriminate|].
  destruct (tagp + tb <=? size) eqn:G; [|discriminate].
  destruct (rd8_some l (tagp + copy - 1) ltac:(lia)) as [x ->]. destruct (rd8_some l (tagp + 7) ltac:(lia)) as [fl ->].
  destruct (N.testbit fl 3); [discriminate|]. apply IH; assumption.
Qed.

(* ... and also with the 12-byte copy over 8-byte tags, as long as tags start at offsets = 4 mod 8 in a block
   whose size is a multiple of 8 (the journal header is 12 bytes; tags and UUIDs are multiples of 8) *)
Lemma count_tags_aligned_no_oob : forall fuel l size tagp nr,
  size <= N.of_nat (length l) -> size mod 8 = 0 -> tagp mod 8 = 4 ->
  count_tags fuel l size 8 12 tagp nr <> WOOB.
Proof.
  induction fuel as [|f IH]; intros l size tagp nr Hs Hm Ht; cbn [count_tags]; [discriminate|].
  destruct (tagp + 8 <=? size) eqn:G; [|discriminate].
  pose proof (N.div_mod size 8 ltac:(lia)) as D1. pose proof (N.div_mod tagp 8 ltac:(lia)) as D2.
  rewrite Hm in D1. rewrite Ht in D2.
  set (a := size / 8) in *. set (b := tagp / 8) in *. clearbody a b.
  destruct (rd8_some l (tagp + 12 - 1) ltac:(lia)) as [x ->]. destruct (rd8_some l (tagp + 7) ltac:(lia)) as [fl ->].
  destruct (N.testbit fl 3); [discriminate|]. apply IH; [assumption|assumption|].
  destruct (N.testbit fl 1).
  - replace (tagp + 8 + 0) with (4 + (b + 1) * 8) by lia. rewrite N.mod_add by lia. reflexivity.
  - replace (tagp + 8 + 16) with (4 + (b + 3) * 8) by lia. rewrite N.mod_add by lia. reflexivity.
Qed.

(* e2fsck/pass1.c check_ext_attr, the value check of one entry of an attribute block (e_value_inum == 0):
     if (entry->e_value_size > EXT2_XATTR_SIZE_MAX ||
         (entry->e_value_offs + entry->e_value_size > fs->blocksize)) -> PR_1_EA_BAD_VALUE
   e_value_offs is a 16-bit field, e_value_size a 32-bit field; the sum is computed in 32-bit unsigned
   arithmetic and wraps.  An accepted entry has its value hashed: ext2fs_ext_attr_hash_entry reads
   e_value_size bytes (rounded up to 4) at block_buf + e_value_offs. *)
From Coq Require Export NArith Bool Lia.
Local Open Scope N_scope.

Definition XATTR_SIZE_MAX : N := 16777216.       (* 1 << 24 *)
Definition W32 : N := 4294967296.

Definition ea_value_ok (bs offs size : N) : bool :=
  negb (XATTR_SIZE_MAX <? size) && negb (bs <? (offs + size) mod W32).

(* the same test without the first clause *)
Definition ea_value_ok_sum_only (bs offs size : N) : bool := negb (bs <? (offs + size) mod W32).

(* C06 - no memory-safety violation, crash or hang on arbitrary input: the proved part is the bounds
   logic of two parsers; the run-time behaviour of the C code is observed under sanitizers *)
From E2V Require Import Parsers.DirWalk Parsers.DirWalkProofs Parsers.EaValue.
From E2V Require Import Robust.Restart Robust.RestartProofs Robust.ItableLen Robust.ItableLenProofs.
From E2V Require Import Robust.MinGroups Robust.MinGroupsProofs.
Local Open Scope N_scope.

(* the directory record walk never reads outside its buffer and always ends, whatever the bytes are *)
Theorem dir_walk_safe : forall l buflen, buflen <= N.of_nat (length l) ->
  dir_block_walk l buflen <> WOOB /\ dir_block_walk l buflen <> WFuel.
Proof.
  intros l buflen H. unfold dir_block_walk. destruct (buflen <? 8); [split; discriminate|]. split.
  - apply dir_walk_no_oob. assumption.
  - apply dir_walk_terminates; [|lia]. rewrite N.sub_0_r. lia.
Qed.
Print Assumptions dir_walk_safe.

(* count_tags stays inside the block when it copies no more than one tag's bytes ... *)
Theorem count_tags_safe_when_copy_fits : forall fuel l size tag_bytes copy tagp nr,
  size <= N.of_nat (length l) -> 8 <= tag_bytes -> 1 <= copy <= tag_bytes ->
  count_tags fuel l size tag_bytes copy tagp nr <> WOOB.
Proof. exact count_tags_no_oob. Qed.
Print Assumptions count_tags_safe_when_copy_fits.

(* ... the code copies 12 bytes (sizeof(journal_block_tag_t)) also when tags are 8 bytes wide: still inside the
   block because the 12-byte journal header puts every tag at an offset = 4 mod 8 of a block whose size is a
   multiple of 8 ... *)
Theorem count_tags_safe_in_real_blocks : forall fuel l size tagp nr,
  size <= N.of_nat (length l) -> size mod 8 = 0 -> tagp mod 8 = 4 ->
  count_tags fuel l size 8 12 tagp nr <> WOOB.
Proof. exact count_tags_aligned_no_oob. Qed.
Print Assumptions count_tags_safe_in_real_blocks.

(* ... and not in general: without that alignment a last tag ending at the end of the area is read 4 bytes past it *)
Theorem count_tags_overread_refuted : exists l,
  count_tags 200 l (N.of_nat (length l)) 8 12 12 0 = WOOB.
Proof. exists (repeat 0 12 ++ concat (repeat [0; 0; 0; 0; 0; 0; 0; 2] 127)). vm_compute. reflexivity. Qed.
Print Assumptions count_tags_overread_refuted.

(* an attribute value that e2fsck's pass 1 accepts lies inside the block, so hashing it reads nothing beyond the
   block buffer: the 32-bit sum cannot have wrapped because the size is bounded first ... *)
Theorem ea_value_check_safe : forall bs offs size,
  bs <= 65536 -> offs < 65536 -> size < W32 ->
  ea_value_ok bs offs size = true -> offs + size <= bs.
Proof.
  intros bs offs size Hb Ho Hs H. unfold ea_value_ok in H. apply andb_true_iff in H. destruct H as [H1 H2].
  apply negb_true_iff in H1, H2. apply N.ltb_ge in H1, H2. unfold XATTR_SIZE_MAX in H1. unfold W32 in *.
  rewrite N.mod_small in H2 by lia. exact H2.
Qed.
Print Assumptions ea_value_check_safe.

(* ... and the sum test alone would not do: offset 4092, size 2^32 - 2048 passes it on a 4k block *)
Theorem ea_value_sum_only_refuted : exists bs offs size,
  bs <= 65536 /\ offs < 65536 /\ size < W32 /\ ea_value_ok_sum_only bs offs size = true /\ bs < offs + size.
Proof. exists 4096, 4092, 4294965248. vm_compute. repeat split; reflexivity || discriminate. Qed.
Print Assumptions ea_value_sum_only_refuted.

(* e2fsck's restart protocol for missing inode tables ends after at most one restart: a read-only run does not relocate
   (and leaves the device as it is), a writing run stores the new locations before it starts again ... *)
Theorem restart_protocol_terminates : forall ro d fuel, (2 <= fuel)%nat ->
  exists n d', iterate (run_new ro) fuel d = Some (n, d') /\ (n <= 1)%nat /\
               (ro = true -> d' = d /\ n = 0%nat) /\ (ro = false -> d' = []).
Proof. exact new_terminates. Qed.
Print Assumptions restart_protocol_terminates.

(* ... the protocol as it was does not end when the run is read-only and a table is missing: whatever the fuel (this is
   the thorough-tier finding 'e2fsck -n relocates a missing inode table forever', repaired in the repository) *)
Theorem restart_protocol_old_refuted : forall fuel d, d <> [] -> iterate (run_old true) fuel d = None.
Proof. exact old_readonly_diverges. Qed.
Print Assumptions restart_protocol_old_refuted.

(* e2image never takes more blocks of an inode table than the table has, whatever bg_itable_unused claims; on sane
   descriptors the repaired arithmetic equals the unsigned subtraction of the code as it was ... *)
Theorem itable_len_bounded : forall n unused ipb, itable_len_new n unused ipb <= n.
Proof. exact new_bounded. Qed.
Print Assumptions itable_len_bounded.

Theorem itable_len_agrees_when_sane : forall n unused ipb, n < UINT32 -> unused / ipb <= n ->
  itable_len_old n unused ipb = itable_len_new n unused ipb.
Proof. exact agree_when_sane. Qed.
Print Assumptions itable_len_agrees_when_sane.

(* ... and the unsigned subtraction alone wraps: 512-inode groups of 4 inodes per block, bg_itable_unused = 65535 *)
Theorem itable_len_old_refuted : exists n unused ipb, n < UINT32 /\ unused < 65536 /\ n < itable_len_old n unused ipb.
Proof. exists 128, 65535, 4. vm_compute. repeat split; reflexivity. Qed.
Print Assumptions itable_len_old_refuted.

Example restart_example : restarts true false 3 = Some 1%nat /\ restarts true true 3 = Some 0%nat /\ restarts false true 3 = None.
Proof. vm_compute. repeat split; reflexivity. Qed.

Example walk_example : dir_block_walk ([2;0;0;0; 12;0; 1;2; 46;0;0;0] ++ [2;0;0;0; 20;0; 2;2; 46;46;0;0] ++ repeat 0 8) 32 = WOk 2.
Proof. vm_compute. reflexivity. Qed.

(* resize2fs -P: the number of groups its estimate starts from names an existing group descriptor - for every inode count that
   is a whole number of groups and every (however damaged) free inode count - or the estimate stops before any lookup *)
Theorem min_size_group_lookup_in_range : forall ipg gcount free,
  (0 < ipg)%N -> lookup_in_range gcount (min_groups_new (ipg * gcount) free ipg) = true.
Proof. exact min_groups_new_in_range. Qed.
Print Assumptions min_size_group_lookup_in_range.

(* before the repair: free = total gives group 0 - 1, free > total a group far beyond the table *)
Theorem min_size_group_lookup_old_refuted : exists ipg gcount free,
  (0 < ipg)%N /\ lookup_in_range gcount (min_groups_old (ipg * gcount) free ipg) = false.
Proof. exists 2048%N, 2%N, 4096%N. split; [reflexivity|]. exact (proj1 min_groups_old_refuted). Qed.
Print Assumptions min_size_group_lookup_old_refuted.

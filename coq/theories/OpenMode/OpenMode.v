(* How the documented read-only invocations reach the device: the option ->
   flag chain of e2fsck (PRS + main), the library (ext2fs_open2: IO_FLAG_RW iff
   EXT2_FLAG_RW) and unix_io (O_RDWR iff IO_FLAG_RW), and the open modes of the
   other tools.  The operating system enters as a Section hypothesis:
   a descriptor opened O_RDONLY cannot change the file. *)
From Coq Require Export List Bool.
Export ListNotations.

Record e2fsck_opts := mkO { o_n : bool; o_p : bool; o_y : bool; o_D : bool; o_c : bool; o_l : bool }.

Inductive prs_result := Usage | Fatal | Opts (readonly : bool).

(* e2fsck/unix.c PRS: -p/-a, -n, -y are mutually exclusive (usage error);
   -n with -D, -c or -l/-L is fatal; -n sets E2F_OPT_READONLY *)
Definition e2fsck_prs (o : e2fsck_opts) : prs_result :=
  if (o_n o && o_p o) || (o_n o && o_y o) || (o_p o && o_y o) then Usage
  else if o_n o && (o_D o || o_c o || o_l o) then Fatal
  else Opts (o_n o).

Inductive open_mode := O_RDONLY | O_RDWR.

(* main(): flags |= EXT2_FLAG_RW iff !(options & READONLY); openfs.c: io_flags |= IO_FLAG_RW iff
   EXT2_FLAG_RW; unix_io.c: open_flags = (flags & IO_FLAG_RW) ? O_RDWR : O_RDONLY *)
Definition ext2_flag_rw (readonly : bool) : bool := negb readonly.
Definition io_flag_rw (ext2_rw : bool) : bool := ext2_rw.
Definition unix_open_mode (io_rw : bool) : open_mode := if io_rw then O_RDWR else O_RDONLY.

Definition e2fsck_open (o : e2fsck_opts) : option open_mode :=
  match e2fsck_prs o with
  | Opts ro => Some (unix_open_mode (io_flag_rw (ext2_flag_rw ro)))
  | _ => None      (* exits before opening the device *)
  end.

(* the other documented read-only invocations *)
Inductive ro_tool :=
| Debugfs_no_w        (* debugfs without -w: open_filesystem(..., open_flags without EXT2_FLAG_RW) *)
| Dumpe2fs            (* ext2fs_open2 flags = EXT2_FLAG_JOURNAL_DEV_OK | SOFTSUPP | 64BITS ... no RW *)
| Tune2fs_l           (* open_flag stays 0 when only -l is given *)
| Resize2fs_P         (* print_min_size: open(O_RDONLY), io flags 0 *)
| E2image_src         (* e2image opens its source with EXT2_FLAG_64BITS | IGNORE_CSUM, no RW *)
| E2freefrag
| E2undo_n.           (* dry_run: IO_FLAG_RW not set *)

Definition tool_ext2_rw (t : ro_tool) : bool := false.
Definition tool_open (t : ro_tool) : open_mode := unix_open_mode (io_flag_rw (tool_ext2_rw t)).

Section OS.
  Variable file : Type.
  Variable write_through : open_mode -> file -> file -> Prop.   (* "a process holding the file open in this mode turned f into f'" *)
  Hypothesis rdonly_fd_no_write : forall f f', write_through O_RDONLY f f' -> f' = f.

  Theorem ro_tool_no_modification t f f' : write_through (tool_open t) f f' -> f' = f.
  Proof. destruct t; apply rdonly_fd_no_write. Qed.

  Theorem e2fsck_n_no_modification o m f f' :
    o_n o = true -> e2fsck_open o = Some m -> write_through m f f' -> f' = f.
  Proof.
    intros Hn Ho. unfold e2fsck_open, e2fsck_prs in Ho. rewrite Hn in Ho. cbn [andb orb] in Ho.
    destruct (o_p o || o_y o || (o_p o && o_y o)); [discriminate|].
    destruct (o_D o || o_c o || o_l o); [discriminate|].
    inversion Ho; subst. apply rdonly_fd_no_write.
  Qed.
End OS.

Theorem e2fsck_n_opens_rdonly o m : o_n o = true -> e2fsck_open o = Some m -> m = O_RDONLY.
Proof.
  intros Hn Ho. unfold e2fsck_open, e2fsck_prs in Ho. rewrite Hn in Ho. cbn [andb orb] in Ho.
  destruct (o_p o || o_y o || (o_p o && o_y o)); [discriminate|].
  destruct (o_D o || o_c o || o_l o); [discriminate|].
  inversion Ho; reflexivity.
Qed.

Theorem e2fsck_rw_iff_not_n o m : e2fsck_open o = Some m -> (m = O_RDWR <-> o_n o = false).
Proof.
  unfold e2fsck_open, e2fsck_prs. destruct (o_n o) eqn:Hn; cbn [andb orb].
  - destruct (o_p o || o_y o || (o_p o && o_y o)); [discriminate|].
    destruct (o_D o || o_c o || o_l o); [discriminate|]. intros H; inversion H; subst. split; discriminate.
  - destruct (o_p o && o_y o); [discriminate|]. intros H; inversion H; subst. split; reflexivity.
Qed.

(* C09 - file data written through libext2fs reads back exactly: the proved part is how a request is
   cut into per-block rounds *)
From E2V Require Import FileIO.Chunks FileIO.ChunksProofs.
Local Open Scope N_scope.

(* every request, at every position and block size: the rounds start where the previous one ended,
   none crosses a block boundary, none is empty ... *)
Theorem io_rounds_consecutive : forall bs pos count, 0 < bs -> consecutive bs pos (io_chunks bs pos count).
Proof. intros bs pos count Hb. exact (chunks_consecutive _ bs pos count Hb). Qed.
Print Assumptions io_rounds_consecutive.

(* ... and together they transfer exactly the requested number of bytes *)
Theorem io_rounds_cover_request : forall bs pos count, 0 < bs -> chunk_len (io_chunks bs pos count) = count.
Proof. exact chunks_total. Qed.
Print Assumptions io_rounds_cover_request.

Example chunks_example : io_chunks 1024 1000 2100 = [(0, 1000, 24); (1, 0, 1024); (2, 0, 1024); (3, 0, 28)].
Proof. vm_compute. reflexivity. Qed.

(* C09 - file data written through libext2fs reads back exactly: the proved part is how a request is
   cut into per-block rounds *)
From E2V Require Import FileIO.Chunks FileIO.ChunksProofs FileIO.FileSpec FileIO.FileSpecProofs FileIO.FileBuf FileIO.FileBufProofs.
Local Open Scope N_scope.

(* every request, at every position and block size: the rounds start where the previous one ended,
   none crosses a block boundary, none is empty ... *)
Theorem io_rounds_consecutive : forall bs pos count, 0 < bs -> consecutive bs pos (io_chunks bs pos count).
Proof. intros bs pos count Hb. exact (chunks_consecutive _ bs pos count Hb). Qed.
Print Assumptions io_rounds_consecutive.

(* ... and together they transfer exactly the requested number of bytes *)
Theorem io_rounds_cover_request : forall bs pos count, 0 < bs -> chunk_len (io_chunks bs pos count) = count.
Proof. exact chunks_total. Qed.
Print Assumptions io_rounds_cover_request.

Example chunks_example : io_chunks 1024 1000 2100 = [(0, 1000, 24); (1, 0, 1024); (2, 0, 1024); (3, 0, 28)].
Proof. vm_compute. reflexivity. Qed.

Local Close Scope N_scope.
Local Open Scope nat_scope.

(* the reference the implementation is run against, operation by operation: *)
(* what was written is what is read back, whatever the file held before, at any position (a gap reads as zeros) *)
Theorem read_after_write : forall l pos data, f_read (f_write l pos data) pos (length data) = data.
Proof. exact read_after_write_lemma. Qed.
Print Assumptions read_after_write.

Theorem write_changes_only_its_range : forall l pos data i, data <> [] ->
  nth i (f_write l pos data) 0 =
  if i <? pos then nth i l 0 else if i <? pos + length data then nth (i - pos) data 0 else nth i l 0.
Proof. exact write_nth. Qed.
Print Assumptions write_changes_only_its_range.

(* truncation forgets the tail for good: growing again reads zeros, not the old bytes *)
Theorem set_size_keeps_prefix_and_zero_fills : forall l s i,
  length (f_set_size l s) = s /\ nth i (f_set_size l s) 0 = if (i <? s) && (i <? length l) then nth i l 0 else 0.
Proof. intros l s i. split; [apply set_size_length|apply set_size_nth]. Qed.
Print Assumptions set_size_keeps_prefix_and_zero_fills.

Theorem punch_zeroes_exactly_its_blocks : forall l bs a b i, a <= b ->
  length (f_punch l bs a b) = length l /\
  nth i (f_punch l bs a b) 0 = if (a * bs <=? i) && (i <? (b + 1) * bs) then 0 else nth i l 0.
Proof. intros l bs a b i H. split; [apply punch_length; assumption|apply punch_nth; assumption]. Qed.
Print Assumptions punch_zeroes_exactly_its_blocks.


(* ---- the one-block buffer of ext2_file_t (repaired code) refines that reference, round by round.
   [raw s i] is the byte a reader gets at position i (through the buffer for the buffered block, through the
   block map otherwise); [Inv] says: a clean buffer equals the mapped block, the cached physical block is
   the mapped one, logical blocks never share a physical block, and nothing but zeros lies behind the end. *)
Theorem buffer_write_round_refines : forall s b start c data, Inv s -> 0 < c -> start + c <= bs s ->
  let s' := write_round s b start c data in
  Inv s' /\ bs s' = bs s /\ fsize s' = Nat.max (fsize s) (b * bs s + start + c) /\
  forall i, raw s' i = if (b * bs s + start <=? i) && (i <? b * bs s + start + c) then data (i - (b * bs s + start)) else raw s i.
Proof. exact write_round_spec. Qed.
Print Assumptions buffer_write_round_refines.

Theorem buffer_read_round_returns_content : forall s b, Inv s ->
  let '(s', blk) := read_round s b in
  Inv s' /\ bs s' = bs s /\ fsize s' = fsize s /\ (forall i, raw s' i = raw s i) /\
  forall o, o < bs s -> blk o = raw s (b * bs s + o).
Proof. exact read_round_spec. Qed.
Print Assumptions buffer_read_round_returns_content.

(* truncation and growth: every byte below the new size is what it was, everything else reads zero,
   also after the file grows again (the invariant keeps the zeros behind the end) *)
Theorem buffer_set_size_refines : forall s pb n, Inv s ->
  let s' := set_size s pb n in
  Inv s' /\ bs s' = bs s /\ fsize s' = n /\ forall i, raw s' i = if i <? n then raw s i else 0.
Proof. exact set_size_spec. Qed.
Print Assumptions buffer_set_size_refines.

Theorem buffer_flush_invisible : forall s, Inv s -> Inv (flush s) /\ forall i, raw (flush s) i = raw s i.
Proof. intros s I. split; [apply flush_inv; assumption|apply flush_raw; assumption]. Qed.
Print Assumptions buffer_flush_invisible.

(* the code as pinned kept the buffered block and its physical block number across a truncation:
   write block 3, truncate in front of it, write it again - the byte is gone once the buffer moves on *)
Theorem truncate_keeping_the_buffer_refuted :
  let s1 := write_round (finit 4) 3 0 4 (fun _ => 7) in
  let s2 := trunc_part_unrepaired (zero_part s1 3 12) (fsize s1) 12 in
  let s3 := write_round s2 3 0 1 (fun _ => 9) in
  raw (sync_to s3 0) 12 = 0 /\ raw (sync_to (write_round (set_size s1 3 12) 3 0 1 (fun _ => 9)) 0) 12 = 9.
Proof. vm_compute. split; reflexivity. Qed.
Print Assumptions truncate_keeping_the_buffer_refuted.

Example finit_inv : Inv (finit 4).
Proof. constructor; cbn; try lia; try discriminate. Qed.

Example spec_example :
  fst (f_step 4 (fst (f_step 4 (fst (f_step 4 [1; 2; 3] (FWrite 6 [9; 9]))) (FSetSize 5))) (FSetSize 8)) = [1; 2; 3; 0; 0; 0; 0; 0] /\
  f_punch [1; 2; 3; 4; 5; 6; 7; 8; 9] 4 1 1 = [1; 2; 3; 4; 0; 0; 0; 0; 9].
Proof. vm_compute. split; reflexivity. Qed.

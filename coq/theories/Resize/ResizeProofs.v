From E2V Require Import Layout.Layout Resize.ResizeGeom.
From Coq Require Import ZifyBool ZifyN ZifyNat.
Local Open Scope N_scope.

Lemma div_ceil_spec a b : 0 < b -> 0 < a ->
  (div_ceil a b - 1) * b < a /\ a <= div_ceil a b * b /\ 1 <= div_ceil a b.
Proof.
  intros Hb Ha. unfold div_ceil. destruct (N.eqb_spec a 0) as [E|E]; [lia|].
  pose proof (N.div_mod (a - 1) b ltac:(lia)) as D.
  pose proof (N.mod_lt (a - 1) b ltac:(lia)) as M.
  set (q := (a - 1) / b) in *. set (r := (a - 1) mod b) in *. clearbody q r.
  replace (q + 1 - 1) with q by lia. nia.
Qed.

Lemma div_ceil_exact q b : 0 < b -> div_ceil (q * b) b = q.
Proof.
  intros Hb. unfold div_ceil. destruct (N.eqb_spec (q * b) 0) as [E|E].
  - destruct q; [reflexivity|]. nia.
  - assert (Hq : 1 <= q) by (destruct q; lia).
    replace (q * b - 1) with ((q - 1) * b + (b - 1)) by nia.
    rewrite N.div_add_l by lia. rewrite N.div_small by lia. lia.
Qed.

Lemma div_ceil_zero a b : 0 < b -> div_ceil a b = 0 -> a = 0.
Proof. unfold div_ceil. destruct (N.eqb_spec a 0); intros; [assumption|lia]. Qed.

(* what a successful result guarantees *)
Definition geom_good (s : sbinfo) (ipg ibpg requested B G db : N) : Prop :=
  let f := first_data_block s in
  let bpg := blocks_per_group s in
  f < B /\ B <= requested /\
  G = div_ceil (B - f) bpg /\ 1 <= G /\
  (G - 1) * bpg < B - f /\ B - f <= G * bpg /\
  ipg * G <= U32MAX /\
  db = div_ceil G (desc_per_block s) /\
  let rem := (B - f) mod bpg in
  (rem = 0 \/ (G = 1 /\ overhead s ibpg G <= rem) \/ (1 < G /\ overhead s ibpg G + 50 <= rem)).

Lemma geom_ok_gen fuel s ipg ibpg : 0 < blocks_per_group s ->
  forall blocks B G db, first_data_block s <= blocks ->
  geom fuel s ipg ibpg blocks = ROk B G db -> geom_good s ipg ibpg blocks B G db.
Proof.
  intros Hb. induction fuel as [|fu IH]; intros blocks B G db Hf H; [discriminate|].
  cbn [geom] in H.
  set (f := first_data_block s) in *. set (bpg := blocks_per_group s) in *.
  destruct (N.eqb_spec (div_ceil (blocks - f) bpg) 0) as [E0|E0]; [discriminate|].
  assert (Hpos : 0 < blocks - f).
  { destruct (N.eq_dec (blocks - f) 0) as [Z|Z]; [|lia]. rewrite Z in E0. unfold div_ceil in E0. simpl in E0. lia. }
  pose proof (div_ceil_spec (blocks - f) bpg Hb Hpos) as [D1 [D2 D3]].
  pose proof (N.mod_lt (blocks - f) bpg ltac:(lia)) as Hm.
  pose proof (N.div_mod (blocks - f) bpg ltac:(lia)) as Hdm.
  set (G0 := div_ceil (blocks - f) bpg) in *.
  set (rem := (blocks - f) mod bpg) in *.
  destruct ((G0 =? 1) && negb (rem =? 0) && (rem <? overhead s ibpg G0)) eqn:C1; [discriminate|].
  destruct ((1 <? G0) && negb (rem =? 0) && (rem <? overhead s ibpg G0 + 50)) eqn:C2.
  - (* trimmed *)
    assert (Hle : rem <= blocks - f) by (apply N.mod_le; lia).
    apply IH in H; [|lia].
    unfold geom_good in *. fold f bpg in H |- *. destruct H as (a & b & c); repeat split; try lia; try tauto.
    all: destruct c as (c1 & c2 & c3 & c4 & c5 & c6 & c7); try assumption; try lia; try tauto.
  - destruct (U32MAX <? ipg * G0) eqn:C3.
    + destruct (ipg * (G0 - 1) <=? U32MAX) eqn:C4; [|discriminate].
      apply IH in H; [|rewrite N.add_comm; apply N.le_add_r].
      unfold geom_good in *. fold f bpg in H |- *.
      destruct H as (a & b & c1 & c2 & c3 & c4 & c5 & c6 & c7).
      assert (bpg * (G0 - 1) + f <= blocks) by nia.
      split; [lia|]. split; [lia|]. tauto.
    + inversion H; subst B G db. clear H. unfold geom_good. fold f bpg G0 rem.
      split; [lia|]. split; [lia|]. split; [reflexivity|]. split; [lia|]. split; [lia|]. split; [lia|].
      split; [lia|]. split; [reflexivity|].
      cbv zeta.
      destruct (N.eq_dec rem 0) as [R|R]; [left; assumption|right].
      destruct (N.eq_dec G0 1) as [G1|G1].
      * left. split; [assumption|]. lia.
      * right. split; [lia|]. lia.
Qed.

(* aligned sizes: no remainder, group count exact *)
Lemma aligned_facts s q : 0 < blocks_per_group s ->
  let f := first_data_block s in let bpg := blocks_per_group s in
  div_ceil (bpg * q + f - f) bpg = q /\ (bpg * q + f - f) mod bpg = 0.
Proof.
  intros Hb f bpg. replace (bpg * q + f - f) with (q * bpg) by lia. split.
  - apply div_ceil_exact; assumption.
  - apply N.mod_mul. lia.
Qed.

Lemma geom_aligned_fits fu s ipg ibpg q : 0 < blocks_per_group s ->
  ipg * q <= U32MAX ->
  geom (S fu) s ipg ibpg (blocks_per_group s * q + first_data_block s) <> ROutOfFuel.
Proof.
  intros Hb Hi. cbn [geom].
  destruct (aligned_facts s q Hb) as [E1 E2]. cbv zeta in E1, E2. rewrite E1, E2.
  destruct (q =? 0); [discriminate|].
  replace (0 =? 0) with true by reflexivity. cbn [negb].
  rewrite !Bool.andb_false_r. cbn [andb].
  destruct (U32MAX <? ipg * q) eqn:C; [lia|discriminate].
Qed.

Lemma geom_aligned fu s ipg ibpg q : 0 < blocks_per_group s -> ipg <= U32MAX ->
  geom (S (S fu)) s ipg ibpg (blocks_per_group s * q + first_data_block s) <> ROutOfFuel.
Proof.
  intros Hb Hi. cbn [geom].
  destruct (aligned_facts s q Hb) as [E1 E2]. cbv zeta in E1, E2. rewrite E1, E2.
  destruct (N.eqb_spec q 0) as [Q|Q]; [discriminate|].
  replace (0 =? 0) with true by reflexivity. cbn [negb].
  rewrite !Bool.andb_false_r. cbn [andb].
  destruct (U32MAX <? ipg * q) eqn:C; [|discriminate].
  destruct (ipg * (q - 1) <=? U32MAX) eqn:C4; [|discriminate].
  apply geom_aligned_fits; [assumption|lia].
Qed.

Lemma geom_S fu s ipg ibpg blocks : geom (S fu) s ipg ibpg blocks =
    let f := first_data_block s in
    let bpg := blocks_per_group s in
    let G := div_ceil (blocks - f) bpg in
    if G =? 0 then RTooSmall else
    let ov := overhead s ibpg G in
    let rem := (blocks - f) mod bpg in
    if (G =? 1) && negb (rem =? 0) && (rem <? ov) then RTooSmall
    else if (1 <? G) && negb (rem =? 0) && (rem <? ov + 50) then geom fu s ipg ibpg (blocks - rem)
    else if U32MAX <? ipg * G then
      if ipg * (G - 1) <=? U32MAX then geom fu s ipg ibpg (bpg * (G - 1) + f)
      else RTooManyInodes
    else ROk blocks G (div_ceil G (desc_per_block s)).
Proof. reflexivity. Qed.

Lemma geom_fuel_enough_lemma s ipg ibpg blocks : 0 < blocks_per_group s -> ipg <= U32MAX ->
  first_data_block s <= blocks -> resize_geom s ipg ibpg blocks <> ROutOfFuel.
Proof.
  intros Hb Hi Hf. unfold resize_geom.
  change (geom 3) with (geom (S 2)). rewrite geom_S. cbv zeta.
  set (f := first_data_block s) in *. set (bpg := blocks_per_group s) in *.
  destruct (N.eqb_spec (div_ceil (blocks - f) bpg) 0) as [E0|E0]; [discriminate|].
  set (G0 := div_ceil (blocks - f) bpg) in *.
  set (rem := (blocks - f) mod bpg) in *.
  destruct ((G0 =? 1) && negb (rem =? 0) && (rem <? overhead s ibpg G0)); [discriminate|].
  pose proof (N.div_mod (blocks - f) bpg ltac:(lia)) as Hdm. fold rem in Hdm.
  destruct ((1 <? G0) && negb (rem =? 0) && (rem <? overhead s ibpg G0 + 50)).
  - set (q := (blocks - f) / bpg) in *. clearbody q.
    assert (Hx : blocks - rem = bpg * q + f).
    { set (P := bpg * q) in *. clearbody P rem. lia. }
    rewrite Hx. apply (geom_aligned 0); assumption.
  - destruct (U32MAX <? ipg * G0); [|discriminate].
    destruct (ipg * (G0 - 1) <=? U32MAX) eqn:C4; [|discriminate].
    apply (geom_aligned_fits 1); [assumption|lia].
Qed.

(* a request whose last group is large enough and whose inodes fit is granted in full *)
Lemma geom_no_needless_trim_lemma s ipg ibpg blocks :
  let f := first_data_block s in let bpg := blocks_per_group s in
  let G := div_ceil (blocks - f) bpg in
  let rem := (blocks - f) mod bpg in
  1 <= G -> (rem = 0 \/ overhead s ibpg G + 50 <= rem) -> ipg * G <= U32MAX ->
  resize_geom s ipg ibpg blocks = ROk blocks G (div_ceil G (desc_per_block s)).
Proof.
  intros f bpg G rem HG Hr Hi. unfold resize_geom. change (geom 3) with (geom (S 2)). rewrite geom_S. cbv zeta.
  fold f bpg G rem.
  destruct (N.eqb_spec G 0); [lia|].
  replace ((G =? 1) && negb (rem =? 0) && (rem <? overhead s ibpg G)) with false by lia.
  replace ((1 <? G) && negb (rem =? 0) && (rem <? overhead s ibpg G + 50)) with false by lia.
  replace (U32MAX <? ipg * G) with false by lia. reflexivity.
Qed.

(* ---- protocol ---- *)
Lemma check_from_spec total t : forall st,
  check_from total st t = true <-> forall n, st_ok total (fold_left pstep (firstn n t) st) = true.
Proof.
  induction t as [|e t IH]; intros st; cbn [check_from].
  - rewrite Bool.andb_true_r. split.
    + intros H n. rewrite firstn_nil. exact H.
    + intros H. exact (H O).
  - rewrite Bool.andb_true_iff, IH. split.
    + intros [H0 H] [|n]; [exact H0|]. cbn [firstn fold_left]. apply H.
    + intros H. split; [exact (H O)|]. intros n. exact (H (S n)).
Qed.

Lemma protocol_check_sound_lemma t : protocol_check t = true <-> crash_safe t.
Proof. unfold protocol_check, crash_safe, pscan. apply check_from_spec. Qed.

(* scanning the body: flags written are all "set", nothing becomes durable-clear *)
Definition flags_set (st : pst) : Prop := durable_flag st = true /\ Forall (fun v => v = true) (pending_flags st).

Lemma pstep_flags_set st e : no_clear e = true -> flags_set st -> flags_set (pstep st e).
Proof.
  intros He [Hd Hp]. destruct e as [v|o|]; cbn [pstep]; unfold flags_set; cbn.
  - destruct v; [|discriminate]. split; [assumption|]. constructor; [reflexivity|assumption].
  - split; assumption.
  - split; [|constructor]. destruct (pending_flags st) as [|v l]; cbn; [assumption|]. inversion Hp; assumption.
Qed.

Lemma fold_flags_set body : forallb no_clear body = true -> forall st, flags_set st -> flags_set (fold_left pstep body st).
Proof.
  induction body as [|e b IH]; intros Hb st Hs; cbn [fold_left]; [assumption|].
  cbn [forallb] in Hb. apply Bool.andb_true_iff in Hb as [He Hb]. apply IH; [assumption|]. apply pstep_flags_set; assumption.
Qed.

Lemma flags_set_ok total st : flags_set st -> st_ok total st = true.
Proof.
  intros [Hd Hp]. unfold st_ok. cbn [forallb]. rewrite Hd. cbn.
  apply forallb_forall. intros v Hv. rewrite Forall_forall in Hp. rewrite (Hp v Hv). reflexivity.
Qed.

Lemma fold_kw body : forall st, k_written (fold_left pstep body st) = (k_written st + total_others body)%nat.
Proof.
  induction body as [|e b IH]; intros st; cbn [fold_left]; [unfold total_others; cbn; lia|].
  rewrite IH. unfold total_others. destruct e; cbn; lia.
Qed.

Lemma check_from_app total t1 : forall st t2,
  check_from total st (t1 ++ t2) = check_from total st t1 && check_from total (fold_left pstep t1 st) t2.
Proof.
  induction t1 as [|e t1 IH]; intros st t2; cbn [app check_from fold_left].
  - rewrite Bool.andb_true_r. destruct t2; cbn [check_from]; destruct (st_ok total st); reflexivity.
  - rewrite IH. rewrite Bool.andb_assoc. reflexivity.
Qed.

Lemma st_ok_old0 total st : k_old st = O -> st_ok total st = true.
Proof. intros H. unfold st_ok. apply forallb_forall. intros v _. rewrite H. destruct v; reflexivity. Qed.
Lemma st_ok_kd total st : k_durable st = total -> st_ok total st = true.
Proof. intros H. unfold st_ok. apply forallb_forall. intros v _. rewrite H, Nat.eqb_refl. rewrite Bool.orb_true_r. reflexivity. Qed.

(* phase A: superblock writes and writes beyond the old end only *)
Lemma phase_pre total pre : forallb harmless pre = true -> forall st, k_old st = O ->
  check_from total st pre = true /\ k_old (fold_left pstep pre st) = O.
Proof.
  induction pre as [|e t IH]; intros Hp st Hk; cbn [check_from fold_left].
  - split; [|assumption]. rewrite Bool.andb_true_r. apply st_ok_old0; assumption.
  - cbn [forallb] in Hp. apply Bool.andb_true_iff in Hp as [He Hp].
    assert (Hk' : k_old (pstep st e) = O) by (destruct e as [v|[|]|]; try discriminate; exact Hk).
    destruct (IH Hp (pstep st e) Hk') as [I1 I2]. split; [|assumption].
    rewrite I1, Bool.andb_true_r. apply st_ok_old0; assumption.
Qed.

(* phase B: the flag is durable and never cleared *)
Lemma phase_body total body : forallb no_clear body = true -> forall st, flags_set st -> check_from total st body = true.
Proof.
  induction body as [|e t IH]; intros Hb st Hs; cbn [check_from].
  - rewrite Bool.andb_true_r. apply flags_set_ok; assumption.
  - cbn [forallb] in Hb. apply Bool.andb_true_iff in Hb as [He Hb].
    rewrite (flags_set_ok total st Hs). cbn [andb]. apply IH; [assumption|]. apply pstep_flags_set; assumption.
Qed.

(* phase C: everything of the operation is durable, only superblock writes and syncs follow *)
Lemma phase_post total post : forallb not_other post = true -> forall st, k_durable st = total -> k_written st = total ->
  check_from total st post = true.
Proof.
  induction post as [|e t IH]; intros Hp st Hk Hw; cbn [check_from];
    assert (S0 : st_ok total st = true) by (apply st_ok_kd; assumption);
    rewrite S0; cbn [andb]; [reflexivity|].
  cbn [forallb] in Hp. apply Bool.andb_true_iff in Hp as [He Hp].
  destruct e as [v|o|]; try discriminate; apply IH; cbn [pstep k_durable k_written]; assumption.
Qed.

Lemma total_others_app t1 t2 : total_others (t1 ++ t2) = (total_others t1 + total_others t2)%nat.
Proof. unfold total_others. rewrite filter_app, app_length. reflexivity. Qed.

Lemma total_others_none t : forallb not_other t = true -> total_others t = O.
Proof.
  induction t as [|e t IH]; intros H; [reflexivity|]. cbn [forallb] in H. apply Bool.andb_true_iff in H as [He H].
  unfold total_others in *. cbn [filter]. destruct e; try discriminate; cbn; apply IH; assumption.
Qed.

Lemma resize_protocol_safe_lemma pre body post :
  forallb harmless pre = true -> forallb no_clear body = true -> forallb not_other post = true ->
  crash_safe (resize_trace pre body post).
Proof.
  intros Hpre Hbody Hpost. apply protocol_check_sound_lemma. unfold protocol_check, resize_trace.
  assert (Ht : total_others (pre ++ [WSb true; Sync] ++ body ++ [Sync] ++ post) = (total_others pre + total_others body)%nat).
  { rewrite !total_others_app. rewrite (total_others_none post Hpost).
    unfold total_others at 2 4. cbn. lia. }
  rewrite Ht. set (total := (total_others pre + total_others body)%nat).
  destruct (phase_pre total pre Hpre pinit eq_refl) as [A1 A2].
  rewrite check_from_app, A1. cbn [andb].
  set (sa := fold_left pstep pre pinit) in *.
  assert (Ka : k_written sa = total_others pre) by (unfold sa; rewrite fold_kw; reflexivity).
  rewrite (check_from_app total [WSb true; Sync]).
  assert (B0 : check_from total sa [WSb true; Sync] = true).
  { cbn [check_from]. rewrite !st_ok_old0; try reflexivity; cbn [pstep k_old]; assumption. }
  rewrite B0. cbn [andb fold_left].
  set (sb := pstep (pstep sa (WSb true)) Sync).
  assert (Hsb : flags_set sb) by (split; [reflexivity|constructor]).
  assert (Ksb : k_written sb = total_others pre) by exact Ka.
  rewrite check_from_app, (phase_body total body Hbody sb Hsb). cbn [andb].
  set (sc := fold_left pstep body sb).
  assert (Ksc : k_written sc = total) by (unfold sc; rewrite fold_kw, Ksb; reflexivity).
  rewrite (check_from_app total [Sync]).
  assert (C0 : check_from total sc [Sync] = true).
  { cbn [check_from]. rewrite (flags_set_ok total sc (fold_flags_set body Hbody sb Hsb)). cbn [andb].
    rewrite Bool.andb_true_r. apply st_ok_kd. cbn [pstep k_durable]. assumption. }
  rewrite C0. cbn [andb fold_left].
  apply phase_post; [assumption| |]; cbn [pstep k_durable k_written]; assumption.
Qed.

(* resize2fs: the geometry the new filesystem gets (resize/resize2fs.c adjust_fs_info,
   the retry loop at its head) and the crash protocol of resize_fs (error flag set and
   flushed first, cleared by the last superblock write). *)
From E2V Require Import Layout.Layout.
Local Open Scope N_scope.

(* ext2fs_div64_ceil / ext2fs_div_ceil *)
Definition div_ceil (a b : N) : N := if a =? 0 then 0 else (a - 1) / b + 1.

Inductive rres := RTooSmall | RTooManyInodes | ROutOfFuel | ROk (blocks groups desc_blks : N).

Definition U32MAX := 4294967295.

(* does the (new) last group carry a superblock backup? *)
Definition has_bg (s : sbinfo) (G : N) : bool :=
  if sparse_super2 s then (if G =? 2 then negb (backup_bg0 s =? 0) else negb (backup_bg1 s =? 0))
  else bg_has_super s (G - 1).

Definition overhead (s : sbinfo) (ibpg G : N) : N :=
  2 + ibpg + (if has_bg s G then 1 + div_ceil G (desc_per_block s) + reserved_gdt s else 0).

Fixpoint geom (fuel : nat) (s : sbinfo) (ipg ibpg blocks : N) : rres :=
  match fuel with
  | O => ROutOfFuel
  | S fu =>
    let f := first_data_block s in
    let bpg := blocks_per_group s in
    let G := div_ceil (blocks - f) bpg in
    if G =? 0 then RTooSmall else
    let ov := overhead s ibpg G in
    let rem := (blocks - f) mod bpg in
    if (G =? 1) && negb (rem =? 0) && (rem <? ov) then RTooSmall
    else if (1 <? G) && negb (rem =? 0) && (rem <? ov + 50) then geom fu s ipg ibpg (blocks - rem)
    else if U32MAX <? ipg * G then
      if ipg * (G - 1) <=? U32MAX then geom fu s ipg ibpg (bpg * (G - 1) + f)
      else RTooManyInodes
    else ROk blocks G (div_ceil G (desc_per_block s))
  end.

(* the C loop has no bound; three rounds are always enough (geom_fuel_enough) *)
Definition resize_geom := geom 3.

(* ---- crash protocol ---- *)
(* WOther old: a write that changes bytes outside the primary superblock; old = it lies inside the
   extent of the filesystem as it was before the operation (a write beyond it cannot damage the old state) *)
Inductive ev := WSb (err : bool) | WOther (old : bool) | Sync.

Record pst := mkPst { durable_flag : bool; pending_flags : list bool; k_durable : nat; k_written : nat; k_old : nat }.
Definition pinit := mkPst false [] 0 0 0.
Definition pstep (st : pst) (e : ev) : pst :=
  match e with
  | WSb v => mkPst (durable_flag st) (v :: pending_flags st) (k_durable st) (k_written st) (k_old st)
  | WOther o => mkPst (durable_flag st) (pending_flags st) (k_durable st) (S (k_written st)) (if o then S (k_old st) else k_old st)
  | Sync => mkPst (hd (durable_flag st) (pending_flags st)) [] (k_written st) (k_written st) (k_old st)
  end.
Definition pscan (t : list ev) : pst := fold_left pstep t pinit.

Definition is_other (e : ev) : bool := match e with WOther _ => true | _ => false end.
Definition total_others (t : list ev) : nat := length (filter is_other t).

(* a crash leaves the primary superblock with the durable flag or any flag written since the
   last sync, and any set of the other writes between "those durable" and "those issued";
   the state is acceptable when the flag is set, or nothing of the operation can have touched
   the old filesystem, or all of it is durable *)
Definition st_ok (total : nat) (st : pst) : bool :=
  forallb (fun v => v || (k_old st =? 0)%nat || (k_durable st =? total)%nat) (durable_flag st :: pending_flags st).

Definition crash_safe (t : list ev) : Prop :=
  forall n, st_ok (total_others t) (pscan (firstn n t)) = true.

(* linear checker run on real write traces *)
Fixpoint check_from (total : nat) (st : pst) (t : list ev) : bool :=
  st_ok total st && match t with [] => true | e :: t' => check_from total (pstep st e) t' end.
Definition protocol_check (t : list ev) : bool := check_from (total_others t) pinit t.

(* the shape resize_fs produces *)
Definition no_clear (e : ev) : bool := match e with WSb false => false | _ => true end.
Definition harmless (e : ev) : bool := match e with WSb _ => true | WOther false => true | _ => false end.
Definition not_other (e : ev) : bool := negb (is_other e).
(* pre: superblock field updates and writes beyond the old end (growing the image file) before the
   flag is set; post: the field-by-field write of the final superblock, flag cleared somewhere in it *)
Definition resize_trace (pre body post : list ev) : list ev :=
  pre ++ [WSb true; Sync] ++ body ++ [Sync] ++ post.

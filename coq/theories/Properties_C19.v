(* C19 - e2image images preserve all metadata: the proved part is the qcow2 index arithmetic *)
From E2V Require Import Qcow2.QcowIndex Qcow2.QcowProofs.
Local Open Scope N_scope.

(* where the writer records a block is where the reader finds it, for every block number and block size *)
Theorem qcow2_index_roundtrip : forall cb blk,
  blk_of cb (l1_of cb blk) (l2_of cb blk) = blk /\ l2_of cb blk < l2_size cb.
Proof. exact index_roundtrip_lemma. Qed.
Print Assumptions qcow2_index_roundtrip.

Theorem qcow2_reader_inverse : forall cb l1 l2, l2 < l2_size cb ->
  l1_of cb (blk_of cb l1 l2) = l1 /\ l2_of cb (blk_of cb l1 l2) = l2.
Proof. exact reader_inverse_lemma. Qed.
Print Assumptions qcow2_reader_inverse.

(* two blocks never share a map entry *)
Theorem qcow2_no_entry_shared : forall cb b1 b2,
  l1_of cb b1 = l1_of cb b2 -> l2_of cb b1 = l2_of cb b2 -> b1 = b2.
Proof. exact index_injective_lemma. Qed.
Print Assumptions qcow2_no_entry_shared.

(* the refcount entry of a byte offset addresses exactly its cluster *)
Theorem qcow2_refcount_index : forall cb off, 1 <= cb ->
  cluster_of cb (rc_table_index cb off) (rc_entry cb off) = off / 2 ^ cb /\ rc_entry cb off < 2 ^ (cb - 1).
Proof. exact rc_index_lemma. Qed.
Print Assumptions qcow2_refcount_index.

Theorem qcow2_data_clusters_disjoint : forall blks cs next b1 o1 b2 o2, 0 < cs -> NoDup blks ->
  In (b1, o1) (assign cs next blks) -> In (b2, o2) (assign cs next blks) -> b1 <> b2 -> o1 + cs <= o2 \/ o2 + cs <= o1.
Proof. exact assign_disjoint_lemma. Qed.
Print Assumptions qcow2_data_clusters_disjoint.

Example qcow_example : l1_of 12 1000000 = 1953 /\ l2_of 12 1000000 = 64 /\ blk_of 12 1953 64 = 1000000 /\ rc_table_index 12 (5 * 2 ^ 23 + 4096) = 5.
Proof. vm_compute. repeat split; reflexivity. Qed.

(* The writer's L2 table cache (QcowWriter.v: add_l2_item / get_free_table / flush_l2_cache with recycled, cleared
   buffers): for blocks handed over in ascending order and table offsets above everything used before, the finished
   image maps exactly the blocks that were added, each to its data cluster, whatever the cache capacity (>= 1):
   nothing is lost when tables are flushed and recycled, and no stale entry of a recycled buffer shows up. *)
From E2V Require Import Qcow2.QcowWriter Qcow2.QcowWriterProofs.
Theorem qcow2_writer_maps_exactly : forall l2s c first items,
  0 < l2s -> (0 < c)%nat -> ascending None first items ->
  let img := write_all l2s c first items in
  (forall b d n, In (b, d, n) items -> qlookup l2s img b = Some d) /\
  (forall b, ~ In b (map (fun it => fst (fst it)) items) -> qlookup l2s img b = None).
Proof. exact writer_maps_exactly. Qed.
Print Assumptions qcow2_writer_maps_exactly.

(* seven blocks over five tables through a cache of two buffers *)
Example writer_example :
  let items := [(0,100,1000);(1,101,1001);(5,102,1002);(9,103,1003);(10,104,1004);(17,105,1005);(18,106,1006)] in
  ascending None 999 items /\
  map (qlookup 4 (write_all 4 2 999 items)) [0;1;2;5;9;10;17;18;19;4] =
  [Some 100; Some 101; None; Some 102; Some 103; Some 104; Some 105; Some 106; None; None].
Proof. vm_compute. repeat split; reflexivity. Qed.
